#!/bin/sh
# Builds the driver and warms the build cache (offline; nothing outside /verif and the Go caches is written).
set -e
export GOFLAGS=-mod=mod GOPROXY=off GOSUMDB=off GOTOOLCHAIN=local
cd /verif/engine
mkdir -p /verif/bin /verif/evidence /verif/replays
go build -o /verif/bin/vcheck ./cmd/vcheck
cd /verif
# build the harness of every registered check (and the litmus suite of the trusted base)
ids=$(python3 -c "
import json
print(' '.join(c['property_id'].lower() for c in json.load(open('/verif/MANIFEST.json'))['checks']))")
for id in $ids litmus; do
  /verif/bin/vcheck build "$id" >/dev/null || { echo "setup: building harness $id failed" >&2; exit 1; }
done
/verif/.work/litmus/h > /verif/.work/litmus.log 2>&1 || { echo "setup: litmus suite of the scheduler failed" >&2; tail -5 /verif/.work/litmus.log >&2; exit 1; }
# self-test of the race-detector integration (C16): a locked access pair must be silent, an unlocked one reported
VERIF_RACE=1 /verif/bin/vcheck build racetest >/dev/null || { echo "setup: building racetest failed" >&2; exit 1; }
if /verif/.work/racetest/h locked 2>&1 | grep -q "DATA RACE"; then echo "setup: race self-test: false report under a modelled mutex" >&2; exit 1; fi
if ! /verif/.work/racetest/h unlocked 2>&1 | grep -q "DATA RACE"; then echo "setup: race self-test: unsynchronised access not reported" >&2; exit 1; fi
echo "setup ok"
