#!/bin/sh
# Builds the driver and warms the build cache (offline; nothing outside /verif and the Go caches is written).
set -e
export GOFLAGS=-mod=mod GOPROXY=off GOSUMDB=off GOTOOLCHAIN=local
cd /verif/engine
mkdir -p /verif/bin /verif/evidence /verif/replays
go build -o /verif/bin/vcheck ./cmd/vcheck
cd /verif
for h in harness/*/; do
  id=$(basename "$h")
  /verif/bin/vcheck build "$id" >/dev/null || { echo "setup: building harness $id failed" >&2; exit 1; }
done
echo "setup ok"
