#!/bin/sh
# Runs every mutant in /verif/mutants against the quick check of the property its name starts with and
# records whether the check reported a VIOLATION. Usage: tools/run_mutants.sh [prefix]
export GOFLAGS=-mod=mod GOPROXY=off GOSUMDB=off GOTOOLCHAIN=local
cd /verif
out=mutants/RESULTS.md
tmp=$(mktemp)
for f in mutants/${1:-c}*.json; do
  m=$(basename "$f" .json)
  id=$(echo "$m" | cut -d- -f1)
  res=$(VERIF_MUTANT=$m VERIF_OUT=/verif/.work/mutrun ./bin/vcheck run "$id" -tier quick 2>&1)
  code=$?
  keys=$(echo "$res" | grep "^  key:" | head -3 | sed 's/^  key: //' | tr '\n' ';')
  echo "| $m | $id | exit $code | $keys |" | tee -a "$tmp"
done
{ echo "| mutant | check | result | first violation keys |"; echo "|---|---|---|---|"; cat "$tmp"; } > "$out.new"
if [ -z "$1" ]; then mv "$out.new" "$out"; else cat "$out.new"; rm "$out.new"; fi
rm -f "$tmp"
