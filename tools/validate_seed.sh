#!/bin/bash
# Confirms a seeded change produced by an independent sub-agent and files it under /verif/seeded/<id>/:
#  1. the patch applies at /repo's HEAD and builds;  2. the demonstration passes without and fails with it
#  (scratch worktree outside /repo and /verif);  3. the registered quick check is run against /repo with the
#  patch applied (git apply ... ; git checkout -- .) and its verdict recorded in meta.json.
# Usage: [SEED_NAME=c07b SEED_SRC=/tmp/s3-c07] tools/validate_seed.sh c07 [extra check ids...]
set -u
export GOFLAGS=-mod=mod GOPROXY=off GOSUMDB=off GOTOOLCHAIN=local
id=$1; shift
extra="$@"
# SEED_NAME: directory name under /verif/seeded (default: the check id); SEED_SRC: the sub-agent's worktree
name=${SEED_NAME:-$id}
src=${SEED_SRC:-/tmp/seed-$id}
wt=/tmp/vs-$name
dst=/verif/seeded/$name
mkdir -p $dst
if [ -f $src/SEED/patch.diff ]; then
  # first filing: import from the sub-agent's worktree
  demo=$(cd $src && find . -name 'zz_seed_demo*_test.go' -not -path './SEED/*' | head -1)
  [ -n "$demo" ] || demo=$(cd $src && find . -name '*seed*demo*' -not -path './SEED/*' -name '*.go' | head -1)
  cp $src/SEED/patch.diff $dst/patch.diff
  cp $src/$demo $dst/ 2>/dev/null || cp $src/SEED/*demo* $dst/
  [ -f $dst/meta.json ] || cp $src/SEED/meta.json $dst/meta.json 2>/dev/null
else
  # re-validation from what is filed under /verif/seeded/<id>
  [ -f $dst/patch.diff ] || { echo "no patch for $id"; exit 2; }
  demo=$(python3 -c "import json;print(json.load(open('$dst/meta.json'))['demo_location'])")
fi
patch=$dst/patch.diff
demofile=$dst/$(basename "$demo")
git -C /repo worktree remove --force $wt 2>/dev/null
git -C /repo worktree add -q $wt HEAD || exit 2
cd $wt
echo "demo: $demo"
pkg=$(dirname "$demo")
cp $demofile $wt/$demo
run=$(grep -o 'func Test[A-Za-z0-9_]*' $wt/$demo | sed 's/func //' | paste -sd'|')
echo "tests: $run in ./$pkg"
without=$(go test -vet=off -count=1 -run "^($run)\$" ./$pkg 2>&1 | tail -3)
echo "--- without patch: $without"
git apply $patch || { echo "patch does not apply"; exit 2; }
go build ./... || { echo "patched tree does not build"; exit 2; }
with=$(go test -vet=off -count=1 -run "^($run)\$" ./$pkg 2>&1 | tail -4)
echo "--- with patch: $with"
# the changed packages' own tests with the patch (demo removed)
rm -f $wt/$demo
pk=$(git diff --name-only | xargs -n1 dirname | sort -u | sed 's|^|./|' | grep -v '^\./\.$' | paste -sd' ')
pkgtests="(root package only)"
if [ -n "$pk" ]; then pkgtests=$(go test -vet=off -count=1 $pk 2>&1 | tail -4); fi
echo "--- package tests with patch: $pkgtests"
cd /verif
# 3. our check against the patched tree. The scratch worktree already carries the patch: point the check at it
# (VERIF_REPO) with its own work directory, so /repo itself is never touched and other runs are not disturbed.
# SEED_IN_REPO=1 does it the documented way instead: git -C /repo apply; run; git -C /repo checkout -- .
cd $wt && git checkout -q -- . && git apply $patch && cd /verif
verdicts=""
for chk in $id $extra; do
  if [ "${SEED_IN_REPO:-0}" = 1 ]; then
    git -C /repo apply $patch || { echo "cannot apply to /repo"; exit 2; }
    out=$(VERIF_OUT=/verif/.work/seedrun-$name ./bin/vcheck run $chk -tier quick 2>&1)
    code=$?
    git -C /repo checkout -- .
  else
    out=$(VERIF_REPO=$wt VERIF_WORK=/verif/.work/seedwork-$name VERIF_OUT=/verif/.work/seedrun-$name ./bin/vcheck run $chk -tier quick 2>&1)
    code=$?
  fi
  keys=$(echo "$out" | grep '^  key:' | head -4 | sed 's/^  key: //' | paste -sd';')
  [ -n "$keys" ] || echo "$out" | tail -3
  echo "--- check $chk: exit $code  $keys"
  verdicts="$verdicts$chk: exit $code [$keys] | "
done
git -C /repo worktree remove --force $wt
git -C /repo status --short | head -3
python3 - "$id" "$src" "$dst" "$demo" "$without" "$with" "$pkgtests" "$verdicts" <<'PY'
import json,sys
id,src,dst,demo,without,with_,pkgtests,verdicts=sys.argv[1:9]
try: meta=json.load(open(dst+'/meta.json'))
except Exception: meta={}
meta['property']=id.upper()
meta['demo_location']=demo
meta['confirmed']={'demo_without_patch':without.strip()[-300:],'demo_with_patch':with_.strip()[-500:],'changed_package_tests_with_patch':pkgtests.strip()[-400:],
  'ran':'tools/validate_seed.sh %s: scratch worktree at /repo HEAD; demo run without and with the patch; tests of the changed packages with the patch; then the registered quick check run against the patched tree (VERIF_REPO=<scratch worktree with patch.diff applied>; equivalent to `git -C /repo apply patch.diff`, `vcheck run <check> -tier quick`, `git -C /repo checkout -- .`, which SEED_IN_REPO=1 does literally)'%id}
meta['checks']=verdicts.strip(' |')
json.dump(meta,open(dst+'/meta.json','w'),indent=1)
print(json.dumps(meta,indent=1)[:1500])
PY
rm -rf /verif/.work/seedwork-$name /verif/.work/seedrun-$name
