#!/bin/bash
# Validates a list of freshly produced seeds one after another: tools/val_queue.sh <round letter> <prefix> "c02 c02 c08" "c04 c04" ...
# each argument: "<property id> <checks...>"; source worktree /tmp/<prefix>-<id>, filed as seeded/<id><letter>; log .work/val-<id><letter>.log
letter=$1; prefix=$2; shift 2
for spec in "$@"; do
  set -- $spec
  id=$1
  (SEED_NAME=$id$letter SEED_SRC=/tmp/$prefix-$id /verif/tools/validate_seed.sh "$@" 2>&1 | grep -E '^---|^demo|^tests|apply|build' | cut -c1-300) > /verif/.work/val-$id$letter.log 2>&1
done
