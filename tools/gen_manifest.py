#!/usr/bin/env python3
"""Generates /verif/MANIFEST.json from the table below (kept as code so every entry has the same shape)."""
import json, os

ENV = "GOFLAGS=-mod=mod GOPROXY=off GOSUMDB=off GOTOOLCHAIN=local"

CHECKS = {
 "C19": dict(
    engine="vsched",
    category="model_checking",
    technique="stateless model checking of the implementation: controlled scheduler over the instrumented repository, all interleavings (happens-before cached) / preemption-bounded DFS",
    text="Every interleaving of 1-2 consumers with 1-3 producers (plus close/reset/Discard racing) over the real pollQueue, the real packetQueue and the real polling.ServerTransport is executed under a controlled scheduler in virtual time; oracles: no packet waits for a timer, no empty answer while packets are queued, nothing lost/duplicated/reordered, packets added before close are sent. The lost wake-up the property is about lives in a window of a few instructions between a check and a wait, which only an exhaustive scheduler can place a producer into. Two overlapping polls with a slow-reading client (a response takes 1 s to write, a packet every 0.5 s must leave the queue when sent). The whole send path of a connected client socket: an emit leaves at once after ack timeouts / connect-time buffering / a volatile emit, and a retry of the socket's retry queue goes out by itself.",
    note="Trusted: vsched's semantics of mutex/channel/select/timer (litmus-validated), the instrumenter's rewrite of go/select/close/time.*; scope: <=2 consumers, <=3 producers, <=3 packets per add.",
    design="3/C19"),
}

CHECKS["C18"] = dict(
    engine="vsched",
    category="model_checking",
    technique="explicit-state BFS over operation histories on the real registries against a reference list model, plus exhaustive interleaving exploration (controlled scheduler) of racing occurrences",
    text="Every history of On/Once/Off(0..3 handlers incl. duplicates)/OffAll/fire over 3 handlers (one plain function, two closures of one literal) and 1-2 events (one name a prefix of the other) up to depth 4-5 is replayed on a fresh real handlerStore / eventHandlerStore and through the public wrappers Server.*NewNamespace, Namespace.*Event, ServerSocket.*Event, ServerSocket.*Error (run under the scheduler in virtual time so asynchronous fan-out has finished when observed), and compared step by step with a list model; states are deduplicated by the model's canonical form. All interleavings of 2-3 racing occurrences with Off/On decide the at-most-once part. Overlapping occurrences with a late registration over On lists of every small capacity; a handlerStore carrying a library subscription (checked after every operation); a ClientSocket's handlers with occurrences buffered before the CONNECT reply. ClientSocket occurrences with attachments.",
    note="Trusted: reference model (two lists per event); vsched semantics; scope: 3 handlers, 2 events, depth 3-5.",
    design="3/C18")

CHECKS["C03"] = dict(
    engine="vsched",
    category="model_checking",
    technique="stateless model checking of the implementation under a controlled scheduler with virtual time; deviation-bounded DFS where 'a timer fires early' is a deviation; narrow ackHandler harness explored unbounded",
    text="Reply/timer races are enumerated instead of sampled: the real ackHandler against its timeout goroutine (all interleavings), sio.Server over a harness-implemented eio socket whose protocol-level client answers with right/duplicate/unknown ack ids, text and binary ACKs, before/at/after the timeout, a late acknowledgement of a previous session of the same client arriving on its new session, with the connection cut mid-flight and 1-3 acks outstanding, and the Go client offline (0-3 attachments buffered, then connect and emit again) and online over an in-process polling link. Each scenario runs with an exact virtual clock (the winner is then determined) and with early-timer deviations (any instruction may take arbitrarily long; exactly-once and reply content are judged). Oracle: invocation count and arguments of every user callback, no frame of a timed-out packet sent, socket usable afterwards, no mutex held, no deadlock. Unencodable arguments with ack timeouts (offline, online, from the server); the ACK frames of server and client handlers (0/1/2/nil/binary arguments, ids up to MaxUint64, root and custom namespace) compared with the v5 form on the wire. Timeout/Volatile chains while offline.",
    note="Trusted: vsched semantics and virtual clock; in-process RoundTripper for TCP; scope: <=3 acks outstanding, deviation bound 1 (quick) / 2 (thorough) for whole-stack scenarios.",
    design="3/C03")

CHECKS["C02"] = dict(
    engine="vsched",
    category="model_checking",
    technique="stateless model checking of the implementation: deviation-bounded DFS with happens-before caching under a controlled scheduler; wire judged by an independent reference decoder",
    text="2-3 concurrent emitters (1-2 events each, 0-2 attachments) on one connection in both directions are explored up to the deviation bound: on the server the frames handed to a harness-implemented Engine.IO socket with a slow Send, on the Go client the POST bodies of the real polling transport over an in-process link, and on the server again over the REAL Engine.IO polling transport read by a slow poller (batches parked in the transport between two polls while further flushes happen, up to 4 attachments per event; the GET bodies are decoded). A reference decoder written from the v5 protocol requires every packet to be a header followed by exactly its own attachments and every emitter's events to appear in program order. Handler-entry order of events emitted in a row is checked on both sides; the inversion caused by per-packet dispatch goroutines is a known finding keyed by its spawn site, any other inversion fails the check. The emitter meets the CONNECT reply (latency-aligned: the race between the flush of the connect-time buffer and the emitter costs 3 deviations within seconds).",
    note="Trusted: vsched semantics; the in-process link as a settled polling transport; set-up (handshake) runs on the default schedule, deviations are spent after it. Scope: <=3 emitters, bound 4/2 (quick) and 6/4 (thorough). WebSocket/upgrade wire not covered here (see C07).",
    design="3/C02")

CHECKS["C12"] = dict(
    engine="vsched",
    category="model_checking",
    technique="bounded exhaustive enumeration of middleware chains executed on the real server under the controlled scheduler (virtual time), plus deviation-bounded exploration of concurrent connects",
    text="Every namespace-middleware chain of length <= 3 over {accept, join+accept, reject with error / string / struct, join+reject} plus chains of 4-5 with one rejection at each position, on '/' and '/custom', is run against the real sio.Server through a harness-implemented Engine.IO socket; the oracle is the statement itself: invocation order is a prefix of registration order ending at the first rejection, exactly one CONNECT or CONNECT_ERROR carrying the rejection, connection handlers only for admitted sockets, and no trace of a rejected socket in the namespace list, the adapter's raw room indexes or the connection. 2-3 clients connecting at once with a middleware blocked on a gate are explored to the deviation bound. Per-socket event middlewares: chains of <= 2 x six handler signatures (no args, string, int, string+int, with ack) x accept/reject; and chains over {accept, reject, reject iff the first argument is 'bad'} x seven sets of 1-3 On/Once handlers on the same event x seven sequences of 1-3 accepted/rejected occurrences (also of an unrelated event): a rejected occurrence reaches no handler, an accepted one reaches each registered handler exactly once after the whole chain has seen it. Admission on a recovery-enabled server (no pid, unknown pid, pid without offset); two goroutines (or a goroutine and a client's CONNECT) setting one namespace up at once. A socket whose middlewares are still running is not listed and gets no broadcast.",
    note="Trusted: vsched semantics; rig R1 (harness speaks Socket.IO frames by hand). Scope: chains <= 5, <= 3 concurrent clients, bound 3 (quick) / 4 (thorough), one less for 3 clients and for the closed-during-chain scenarios.",
    design="3/C12")

CHECKS["C06"] = dict(
    engine="vsched",
    category="model_checking",
    technique="stateless model checking of the implementation (deviation-bounded DFS under a controlled scheduler, virtual time) over a cause x phase matrix, plus fault enumeration: a scripted polling session cut at every byte",
    text="Every termination cause (client DISCONNECT frame, Disconnect(false/true), Engine.IO close with each of its five reasons, protocol error, packet for an unjoined namespace, connect timeout) in every phase (before CONNECT, namespace middleware blocked, connected idle, burst in either direction, two namespaces) and every unordered pair of causes at once is executed on the real sio.Server over a harness-implemented Engine.IO socket and explored to the deviation bound; Server.Close, Manager.Close, client Disconnect, Disconnect(true) and a black-holed link run sio<->sio over the in-process polling link; the same API causes, and the new pipe being cut, strike at every half latency (k*L/2, k=0..7) of a transport upgrade over the duplex pipe of rig R4 (real upgrade state machines); Server.Close, Manager.Close and client Disconnect issued right after Connect() (while the Engine.IO handshake, the CONNECT packet and the admission are under way), judged per connected period of the client socket; a scripted Socket.IO-over-polling session has every request body truncated and every response failed at every byte (262 cut points). Oracle: disconnecting <= 1 and before disconnect, disconnect exactly once with a reason naming an injected cause, no event handler after it, and nothing left in the namespace list, the adapter's raw room indexes, the connection's socket table or the Engine.IO session store; the old sid answers 'unknown sid'. Two CONNECTs admitted for one namespace before the connection ends; a server burst carried over to a pipe that breaks at the first carried-over frame (the failed write is reported from inside Send). Leave right behind the CONNECT (client DISCONNECT / DisconnectSockets racing the admission); a failed write during the carry-over must be reported as a transport error at once.",
    note="Trusted: vsched semantics; rigs R1/R3 (no real TCP; a dead client is modelled by requests that stop and bodies/responses that fail mid-way); the upgrade phase uses C07's rig R4 (a pipe, not a real WebSocket). Scope: bound 2 (quick) / 3 (thorough) after a default-schedule set-up.",
    design="3/C06")
CHECKS["C11"] = dict(
    engine="seq",
    category="exploration",
    technique="bounded exhaustive enumeration of inputs against an independent reference encoder (Engine.IO v4), round trips, and an allocation meter in a memory-capped subprocess",
    text="Single packets (all types x every payload of length <= 2 over 256 byte values, and a byte pattern of every length 3..4200 plus the neighbourhoods of 8/16/32/48/64 KiB and 70000, x binary/base64 modes), payloads of 0-3(4) packets over a 13-packet alphabet plus text packets whose data begins / ends with white space or control characters as the only, first and last packet of a payload, every WebTransport frame length in the three prefix forms (0..70000 in thorough) in three read compositions with a following frame to catch desynchronisation, every byte string of length <= 2(3) into all decoders, and hostile length headers under an allocation meter (limit + 64 KiB) in a ulimit-capped worker. Oracles: bytes equal a reference encoder written from the v4 protocol, decode(encode(p)) = p, EncodedLen = bytes written, no panic, allocation bounded by the configured limit. The empty payload is judged like every other; a received WebTransport packet must not change when the next frame is read.",
    note="Trusted: the reference encoder in harness/c11/ref.go (self-tested against the protocol document's examples). Plain build (no scheduler).",
    design="3/C11")

CHECKS["C05"] = dict(
    engine="vsched",
    category="model_checking",
    technique="explicit-state BFS over protocol-level operation histories replayed on the real server against a reference routing model, plus deviation-bounded schedule exploration of server and Go client under a controlled scheduler",
    text="Server: BFS (canonical state = joined namespaces per connection + how each departed socket left, so a rejoin after every way of leaving is explored) over CONNECT / CONNECT whose connection handler kicks the socket / EVENT / EVENT+ack / DISCONNECT / server-side kick / nsp.Emit / socket.Emit / a cross-namespace ack race on 2 connections x the look-alike namespaces '/', '/a', '/ab', '/a/b' plus a non-existent one; every history is replayed on the real sio.Server through harness-implemented Engine.IO sockets and compared after every step with a routing model (frames per connection, handler invocations and disconnect reports per socket, namespace socket lists, connection closed iff an unjoined namespace was addressed). Two connections in look-alike namespaces run concurrently to the bound. Go client: a raw Engine.IO endpoint (the repo's eio.Server driven by hand) answers the CONNECTs of a 3-socket Manager in all 6 orders with events placed before/after each reply; a second namespace is connected and used at once on an open connection against a real server. A socket that leaves its namespace around its connection handler (kicked by the handler, kicked by a racing DisconnectSockets, client DISCONNECT during a slow handler) and then rejoins is explored to bound 3: the other namespace keeps working, the rejoin is admitted as a new socket, the connection stays open. The Go client leaves a namespace while its CONNECT reply is in flight (latency on poll answers) and rejoins it next to an idle second namespace. Emits (volatile, plain, volatile with ack) on a namespace that is never connected / left / still connecting, next to a connected one.",
    note="Trusted: routing model; rigs R1/R2/R3; vsched semantics. Scope: 2 connections, 5 namespaces, BFS depth 3 (quick) / 4 (thorough), bound 1-2 (quick) / 2-3 (thorough).",
    design="3/C05")
CHECKS["C09"] = dict(
    engine="seq",
    category="exploration",
    technique="bounded exhaustive enumeration of packets of a grammar against an independent v5 reference encoder, round trip through the real decoder, input snapshot comparison and re-encoding",
    text="Every packet of a bounded grammar (5 types x 6 namespaces x 8 boundary ack ids; every event name of length <= 2(3) over a hostile alphabet incl. quote, backslash, brackets, comma, unicode; argument trees of <= 3 values, depth <= 2 over numbers, booleans, nil, strings, Binary leaves, []any, maps, structs, pointers, typed containers), each dimension enumerated completely against representatives of the others. Oracles: frames equal an independent reference encoder (placeholders canonically renumbered), Add+decode into the emitted static types reproduces type/namespace/id/name/arguments with byte-identical attachments in place, a deep snapshot of the caller's values is unchanged by Encode, and a second Encode yields the same frames. A second decode of every packet; in sequences, a packet decoded after the parser has taken the next packet.",
    note="Trusted: reference encoder and JSON reader/writer in harness/c09 (no encoding/json). Plain build. Known findings: Encode substitutes placeholders in place (recorded, not repaired).",
    design="3/C09")

CHECKS["C10"] = dict(
    engine="vsched",
    category="exploration",
    technique="bounded exhaustive enumeration of frame strings (all strings <= 5/6 over 18 protocol bytes + templates) through the real decoder in watchdog-supervised worker processes, then one representative per outcome class against a live server/client under the controlled scheduler",
    text="Every string of length <= 5 (quick) / <= 6 (thorough, 3.6e7) over the 18 protocol-significant bytes is fed as first frame to a fresh parser, completed with every {binary,text} combination of up to 2 frames, and every finished packet decoded for 5 handler signature families (and as CONNECT auth); templates add absurd attachment counts, a placeholder-number table at every nesting position, every truncation of valid packets and 20-25 digit ids. Oracle: packet or error, never a panic (recovered in the worker), never a hang (10 s watchdog, confirmed by re-running alone). One representative per outcome class (78 classes, cross-checked complete) plus hand-picked inputs is then sent to a live sio.Server over a harness-implemented Engine.IO socket (and 20 to a real Go client over the in-process link): no uncaught panic on any modelled thread, errors reach OnError or close the connection, a second and a fresh third connection still complete an echo. Admitted absurd attachment counts with an allocation bound per attachment frame; workers under an address-space cap.",
    note="Trusted: worker/watchdog plumbing; vsched for the process half (bound 1 quick, 2 thorough). Coverage-guided fuzzing and the sonic serializer named in the quantifier are not covered (exhaustive small-scope enumeration instead).",
    design="3/C10")
CHECKS["C15"] = dict(
    engine="vsched",
    category="model_checking",
    technique="exhaustive grid over the back-off function with the random draw scripted; real Manager<->Server pair under the controlled scheduler in virtual time for outage enumeration (fault enumeration) and deviation-bounded exploration of offline traffic",
    text="Back-off: full grid of (delay, max, jitter incl. invalid ones, attempt 0..70 and overflowing values, 21 random draws): delay in (0, max], first delay from ReconnectionDelay, no panic. Reconnect machine: the first connection is cut abruptly and the next j = 0..5 dials fail (refused at once, or after a 20 s dial timeout) with attempt limit 0..5, plus two outages in a row; the timestamped reconnect_attempt / reconnect_error / reconnect_failed / reconnect / connect / disconnect events are judged exactly in virtual time. Offline traffic: all 24 orders of {plain, volatile, ack, ack+timeout} emitted between the application's disconnect and connect callbacks, before/during/after placements, a server that greets with an ack request, and an emitter on another goroutine that emits at the very moment the reconnection completes (racing the client's handling of the CONNECT reply), explored to the deviation bound: non-volatile events arrive exactly once on the new session, volatile ones never, each ack callback once. Back-off read from the object the real NewManager built; outages after Manager.OffAll(). An ack timeout that fires during the outage withdraws only its own packet.",
    note="Trusted: vsched virtual clock; in-process link as the network (dial = handshake request). Handler-entry order is not judged here (C02 known finding). Server handlers are registered in a namespace middleware (before the CONNECT reply); the async-connection-handler race is C01's.",
    design="3/C15")
CHECKS["C17"] = dict(
    engine="vsched",
    category="model_checking",
    technique="full request matrix executed on the real eio.Server under the controlled scheduler against a reference validator; exhaustive/bounded interleaving exploration of handshake || Close || poll; exhaustive scripted id-collision sequences",
    text="All 1600 requests (5 methods x 5 EIO versions x 4 transports x 4 sids x b64 x j) in 4 server states are executed, each in its own run, and judged by a validator that lists the faults present: 503 for a closed server, otherwise 400 with a protocol code of one of the faults, no NewSocketCallback, store unchanged, the live session still delivers its queued packet. Handshake || Server.Close (|| poll, || second handshake) is explored (all interleavings for the 2-thread case, preemption/delay bounded for 3 threads): a closed server owns no live session and every accepted session saw OnClose. crypto/rand is an environment answer: all 8191 same/different answer sequences of length <= 12 drive 2-13 handshakes: collisions are retried, accepted ids are unique among live sessions, a clean 5xx only after the retry limit. Supplementary: 1e5/1e6 generated ids pairwise distinct.",
    note="Trusted: reference validator (codes from server_error.go / Engine.IO v4); vsched semantics. Concurrent forced collisions are observations only (outside the statement).",
    design="3/C17")

CHECKS["C04"] = dict(
    engine="vsched",
    category="model_checking",
    technique="exhaustive enumeration of membership matrices x (T,E), explicit-state BFS over membership histories on the real adapter and the real server against a reference set model (with a differential oracle between histories reaching the same state), and exhaustive interleaving exploration of a broadcast racing membership changes under interval semantics",
    text="Adapter level: all 2^9 membership matrices of 3 sockets x 3 rooms (plus variants) x all 8x8 (T,E) x {Broadcast, Sockets, FetchSockets, operator paths} against {s | (T empty or rooms(s) meets T) and rooms(s) disjoint E}, each recipient exactly once; BFS over AddAll/Delete/DeleteAll/AddSockets/DelSockets/DisconnectSockets histories covering the whole 9^3 state space with index invariants and the model in every state. Server level (every history on the in-memory adapter and, with connection state recovery on, on the session-aware adapter, whose Broadcast is a separate code path): 3 real server sockets over harness-implemented Engine.IO sockets, histories of Join/Leave/Disconnect/client DISCONNECT/SocketsJoin/SocketsLeave/DisconnectSockets, every (T,E) through the namespace and through each socket (sender never reached, disconnected socket in no room). Concurrent: one Broadcast(T,E) racing 1-2 membership changes, all interleavings, interval oracle. Selections are also built by chaining one room per call; a namespace middleware joins / leaves rooms before the socket is connected.",
    note="Trusted: reference set model; vsched semantics; deterministic golang-set iteration in the overlay (thread-unsafe sets only). Known finding: a socket that left its own-id room receives its own broadcasts (same as the Node.js reference).",
    design="3/C04")
CHECKS["C08"] = dict(
    engine="vsched",
    category="model_checking",
    technique="bounded exhaustive enumeration of broadcast histories x disconnect points x reconnection times on the real session-aware adapter in virtual time (controlled scheduler), against a reference log model with a three-valued expectation; plus server-level and Go-client replays",
    text="Adapter level: every history of length <= 3 (quick) / <= 4 + text-only 5 (thorough) over 20 emit kinds (to all / room / room except room / except the session / direct / other sid / with ack id / the session's own To(room) (in the target room and excluded) / two rooms except the other session, text and binary) x both orders of the persisted session's room list, 10 s or 35 s apart, every disconnect point k, reconnection 1/59/61/119/121/181 s after the disconnect (0-2 passes of the production 60 s cleaner, both sides of the 120 s window), two sessions recovering from the same log. Expectation: must recover / must not / may either (offset packet itself older than the window); oracle: recovered => persisted sid and rooms and exactly the model's missed packets in order, no duplicate, no gap. Server level over harness-implemented Engine.IO sockets (incl. two outages in a row of 1/61/119 s and 59/61/119 s, whose sum exceeds the window while each stays inside it: the window counts from the latest disconnection): same sid/pid, replayed frames decode to exactly the missed events with byte-identical attachments, unknown pid/offset or expiry => fresh session. Go client over the in-process link: Recovered() and exactly the missed events once, arguments intact, for six handler signatures. Scripted: a dead peer noticed 1/5/25 s late and a client 1-2 packets behind its offset (missed packets older than the session, expired but still logged). Part race: a clean-up pass that trims racing a broadcast / a restore (explored); client level: 70 live events within one virtual second (offset ids past the 64th of their second).",
    note="Trusted: reference log model (packets with an ack id are not logged, as in the reference implementation); vsched virtual clock. Never alarms in the may-either zone.",
    design="3/C08")
CHECKS["C13"] = dict(
    engine="seq",
    category="exploration",
    technique="exhaustive enumeration of packet-size vectors x maxPayload through the real client batcher; full limit x size x framing matrices against real servers (ServeHTTP with a counting body, real loopback HTTP, WebSocket and WebTransport/HTTP3) and the real WebTransport handshake + read loop over a harness stream; end-to-end client bursts",
    text="Batcher: every vector of 1..5(6) packets with sizes {0,1,2,3,4,6,9} (text/binary in the first two positions) x every maxPayload 0..size+8 through the real clientSocket.Send with a recording polling transport: batches concatenate to the input and every multi-packet batch fits maxPayload. Polling inbound: limit {16, 1000, default, disabled} x body sizes around the limit and around 32/64 KiB x {Content-Length, chunked, under-declared}: over the limit => refused, not delivered, bytes read bounded, session closed; within => 200 and delivered. WebSocket both directions over real loopback with a barrier message; WebTransport: the transport's real Handshake + read loop on a harness stream (limit x length x chunking patterns) and end to end over real HTTP/3 on loopback against the real eio.Server (limit configuration x lengths around it x text/binary). Client end to end: the real client against the real server over polling, bursts of 2..5 (thorough ..12) packets each within the announced limit but together beyond it, every POST measured at the HTTP round trip. Part cli also sends server bursts to a polling client.",
    note="Plain build, real time for the loopback parts (verdicts wait for delivery/close with a deadline; foreign traffic on recycled ports is filtered by session id). Limits after a polling->websocket upgrade and binary polling bodies are not run.",
    design="3/C13")
CHECKS["C14"] = dict(
    engine="vsched",
    category="model_checking",
    technique="fault enumeration in exact virtual time (every black-hole moment x flavour x (pingInterval,pingTimeout)) on the real Engine.IO client/server pair under the controlled scheduler, plus deviation-bounded exploration of live and dead peers",
    text="Dead peer: for all 9 (I,T) in {1,2,3}s^2 the in-process link turns into a black hole before each request index, mid-request, and at every quarter-interval instant (both directions / responses only / with application traffic in flight): both sides must report ping timeout at virtual time <= t_blackhole + I + T and never earlier than the last answered heartbeat + T (exact: virtual time has no slack). Live peer: idle and with a sender on either side at phase offsets {0, I/4, I/2, 3I/4} for 5(I+T), explored with thread-choice deviations: never any close, all messages delivered. Heartbeat inside an upgrade: the live pair upgrades to the duplex pipe (real upgrade state machines, latency L=T/10 per leg on the pipe and 0 or L on the polling link) started so that ping 1 / 2 comes due k*L/2 after the start of the upgrade, k=-2..9 (before, inside every phase of, on every boundary of and after the upgrade), all nine configurations at the default schedule plus thread-choice deviations from the start of the upgrade on. Narrow: the real server socket against a hand-played client withholding pong k.",
    note="Trusted: vsched virtual clock (early-timer deviations off); polling transport and the duplex pipe of rig R4 as upgrade target (the websocket/QUIC byte transports themselves are not under the scheduler). Duplicated pongs and link latency are recorded as observations, not verdicts.",
    design="3/C14")

CHECKS["C01"] = dict(
    engine="vsched",
    category="model_checking",
    technique="stateless model checking of the real client/server pair under a controlled scheduler (deviation-bounded DFS with happens-before caching) plus an exhaustive shape x boundary-size x transport x direction x recovery matrix over real loopback I/O",
    text="Schedules: real sio.Manager(s) and sio.Server joined by an in-process polling link; 2 emitter threads per direction (plus a namespace broadcaster with 2 clients), 7 argument shapes (none, int, unicode string, struct with Binary, map with Binary leaf, two Binary args incl. an empty one, trailing string) on event names of which one is a prefix of the other, plus events nobody listens to, recovery off and on; explored to the deviation bound; oracle: the multiset of rendered (event, arguments) seen by each side's handlers equals the emitted one (nothing lost, duplicated, altered or given to another event's handler). Matrix (companion binary, plain build, real HTTP/WebSocket on loopback): 10 argument shapes (nested slices, pointers, 0-4 attachments) x total sizes {0, 1, 125, 126, 32767..32769, 65535..65537, MaxBufferSize-64, MaxBufferSize} x {polling, websocket, polling->websocket after UpgradeDone} x both directions x recovery off/on, and 3-client broadcasts; one event at a time followed by a barrier event, digest comparison. Interleaved connections: 2-3 protocol-level connections each send one packet frame by frame, every merge of the frame sequences is played.",
    note="Trusted: vsched semantics; in-process link for the schedule part; the matrix runs in real time (60 s deadlines are caps, not verdicts; 'lost' is judged 15 s after the barrier event arrived). Known finding: an event that arrives before the server's asynchronous connection handler registered its handlers is dropped. Sizes between the boundary values, 16 emitters and schedules over a real WebSocket are not covered.",
    design="3/C01")

CHECKS["C07"] = dict(
    engine="vsched",
    category="model_checking",
    technique="stateless model checking of the real upgrade state machines (client tryUpgradeTo/finishUpgradeTo, server maybeUpgrade/upgradeTo, polling Discard/NOOP/re-send) under a controlled scheduler, with fault enumeration over every failure step of the candidate transport",
    text="A real Engine.IO client and server run over the in-process polling link; numbered text and binary messages are sent in both directions by two sender threads while the upgrade is driven over a reliable duplex pipe handed to the real upgrade code as candidate transport. All schedules up to the deviation bound are explored for the fault-free upgrade and for: handshake refused, probe ping lost, probe pong lost (stall until the upgrade timeout in virtual time), pipe cut before ping / before pong / before UPGRADE, UPGRADE lost. Oracle: the multiset of messages received on each side equals the sent one (nothing lost or duplicated), UpgradeDone once and both sides on the new transport after a fault-free upgrade; after a failed attempt no close, both sides still on polling and traffic sent afterwards is delivered; a loss after the client has swapped may only end the connection with a reported close. The same upgrade is then run under a real Socket.IO server and a real Socket.IO client (Manager) exchanging numbered events with 0-2 binary attachments: pure schedule exploration, and a timed grid (latency of the answer to the in-flight poll 0..4.5 L, 1.5 s and 30 s x emitters starting at every half L of the upgrade x gap 0/L, pipe latency L) explored to bound 1-2; oracle: each application sees every event exactly once with its own attachments and nobody is disconnected. Bursts of 80 messages each way and timed bursts of 70 events at every half latency of the upgrade.",
    note="Trusted: vsched semantics; rig R4 (ordered reliable message pipe named 'webtransport') replaces the nhooyr WebSocket / QUIC byte transports, which cannot be put under the scheduler; the real polling->websocket upgrade end to end over loopback is exercised by C01's matrix (transport 'upgrade') without schedule control. Scope: 2 (quick) / 3 (thorough) messages each way, bound 2/3.",
    design="3/C07")

CHECKS["C16"] = dict(
    engine="vsched",
    category="model_checking",
    technique="stateless model checking of two-thread API programs under a controlled scheduler in a -race build: the race detector judges every explored schedule under its true happens-before relation; deadlock and held-mutex detection by the scheduler",
    text="Every unordered pair (including an operation with itself) of operations from a 26-operation server alphabet (Emit with/without ack/binary, Join, Leave, Rooms, namespace and room broadcasts, On/Off handlers, Use, Disconnect(false/true), SocketsJoin, DisconnectSockets, FetchSockets, Server.Close, incoming events/acks/binary events/DISCONNECT/transport close, another client's CONNECT), an 18-operation Go-client alphabet (a Manager with two connected sockets; incl. a third namespace connecting, the other socket disconnecting and the link breaking, which starts the reconnection machinery) and a 10-operation adapter alphabet (in-memory and session-aware; incl. a Broadcast whose argument cannot be encoded, recovered by the caller) runs as a two-thread program; every server operation is also issued from inside an event handler, a disconnecting handler and an ack callback against concurrent operations (about 850 programs). All schedules to the deviation bound are executed in a -race build in which the scheduler's own hand-offs are hidden from TSan and every modelled primitive publishes exactly its Go-memory-model edge, so a report is a race under the explored schedule's real happens-before relation; verdicts: TSan report whose racing access lies in repository code, a thread blocked for ever on a lock/WaitGroup (incl. lock cycles and locks held by exited threads), a mutex held by an exited thread at quiescence, an uncaught panic. A client socket with Retries/AckTimeout (packet queue) under the pair alphabet; 7 client operations issued from inside client-side handlers (manager error after a failed dial, connect, disconnect, event, ack). The session half of the session-aware adapter (persist, restore valid / expired / unknown, broadcast, clean-up pass) as pairs; a free-running -race companion over real loopback for net/http's share of the API (several connections from one configuration with a user *http.Transport).",
    note="Trusted: the TSan integration (self-tested by harness/racetest at set-up: locked pair silent, unlocked pair reported); channel operations publish a slightly stronger edge than Go guarantees (can hide, never invent a race); memory-order effects beyond happens-before are not produced. Scope: 2 threads x 1 operation, bound 1 (quick) / 2 (thorough); the quantifier's random 2..16-goroutine programs and GOMAXPROCS variation are replaced by exhaustive small-scope enumeration.",
    design="3/C16")

NOT_APPLICABLE = {
}

def main():
    props = [json.loads(l)["id"] for l in open("/verif/properties.jsonl")]
    checks = []
    for pid in props:
        c = CHECKS.get(pid)
        if not c:
            continue
        low = pid.lower()
        checks.append({
            "property_id": pid,
            "quick_cmd": f"/verif/bin/vcheck run {low} -tier quick",
            "thorough_cmd": f"/verif/bin/vcheck run {low} -tier thorough",
            "evidence_file": f"/verif/evidence/{pid}.json",
            "replay_cmd_template": f"/verif/bin/vcheck run {low} -replay {{path}}",
            "engine": c["engine"],
            "level_claimed": {"category": c["category"], "text": c["text"], "design_ref": c["design"]},
            "level_note": c["note"],
            "technique": c["technique"],
        })
    na = [{"property_id": p, "reason": NOT_APPLICABLE.get(p, "check not built yet in this session (work in progress; see DESIGN.md build order)")} for p in props if p not in CHECKS]
    m = {
        "version": 1,
        "setup_cmd": f"cd /verif && {ENV} sh tools/setup.sh",
        "hooks": {
            "guard": "verif",
            "enable": "no source commit in /repo: hooks are in-package shim files under /verif/shims (//go:build verif), seam rewrites listed in /verif/shims/*/hooks.json (a call the harness cannot make happen, e.g. accepting a QUIC stream, is redirected to a function of the shim file; without a harness stream in the request context that function makes the original call) and an instrumenting rewrite of the synchronisation operations, all applied at build time with `go build -tags verif -overlay`; /repo itself is never modified by a check",
            "baseline_off_cmd": "cd /repo && GOFLAGS=-mod=mod GOPROXY=off go test -json -vet=off -count=1 -timeout 25m ./...",
            "source_commits": [],
            "add_only": True,
        },
        "engines": [
            {"name": "vsched", "path": "/verif/engine/vsched + /verif/engine/vexplore + /verif/engine/instr", "serves_properties": [p for p in props if CHECKS.get(p, {}).get("engine") == "vsched"],
             "kind_free_text": "hand-written controlled scheduler (one goroutine per modelled thread, one running) over the source-instrumented repository; deviation-bounded / unbounded DFS with happens-before state caching, virtual time, replay validation"},
            {"name": "seq", "path": "/verif/engine/vexplore (Report) + /verif/harness/*", "serves_properties": [p for p in props if CHECKS.get(p, {}).get("engine") == "seq"],
             "kind_free_text": "bounded exhaustive enumeration / explicit-state BFS on the real objects against reference models"},
        ],
        "checks": checks,
        "not_applicable": na,
        "notes": "All checks rebuild the harness from /repo's working tree on every run (instrumenter + overlay). Exit 2 = harness/build error (never a verdict). Known findings: /verif/known_findings.json.",
    }
    json.dump(m, open("/verif/MANIFEST.json", "w"), indent=1)
    print("checks:", len(checks), "not_applicable:", len(na))

main()
