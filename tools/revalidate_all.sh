#!/bin/bash
# Regression run for the checks themselves: every filed seeded change is run again against the check(s) that
# reported it when it was filed (meta.json "checks": the entries with exit 1); prints one line per seed and lists
# the ones no check reports any more. Usage: tools/revalidate_all.sh [glob, default c*]   (about 2 min per seed)
cd /verif
lost=""
for d in seeded/${1:-c*}; do
  name=$(basename $d)
  [ -f $d/meta.json ] || continue
  own=$(echo $name | cut -c1-3)
  checks=$(python3 - "$d/meta.json" "$own" <<'PY'
import json,sys,re
m=json.load(open(sys.argv[1])); own=sys.argv[2]
c=[x.split(':')[0].strip() for x in m.get('checks','').split('|') if 'exit 1' in x]
if not c: c=[own]
# own check first (validate_seed.sh records the property from its first argument)
c=sorted(set(c),key=lambda x:(x!=own,x))
if c[0]!=own: c=[own]+c
print(' '.join(c))
PY
)
  out=$(SEED_NAME=$name tools/validate_seed.sh $checks 2>&1 | grep -E "^--- check" | sed 's/^--- check //' | cut -c1-90 | paste -sd'|')
  echo "$name: $out"
  echo "$out" | grep -q "exit 1" || lost="$lost $name"
done
echo "NOT REPORTED ANY MORE:$lost"
