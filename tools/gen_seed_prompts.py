#!/usr/bin/env python3
"""Prepares a round of independently seeded changes: one scratch worktree of /repo per property under
/tmp/<prefix>-cNN with SEED/PROMPT.txt (the property's text, the rules, what earlier rounds already did).
Usage: tools/gen_seed_prompts.py <prefix, e.g. s7>
The sub-agent is started with: "Your complete task description is in the file /tmp/<prefix>-cNN/SEED/PROMPT.txt.
Read it first and follow it exactly. Work only inside /tmp/<prefix>-cNN. Do not read or write anything under
/verif or /repo." Nothing from /verif is shown to it."""
import json, os, subprocess, sys, glob
prefix = sys.argv[1]
props = [json.loads(l) for l in open('/verif/properties.jsonl')]
FLAKY = ("Tests that fail or flake without any change (ignore them): root package: TestClient/should_emit_events_in_order, "
 "TestClient/should_discard_a_volatile_packet_when_the_socket_is_not_connected, TestClient/should_send_a_volatile_packet_when_the_socket_is_connected (always fail); "
 "TestNamespace/* broadcast and exclude subtests (emits_to_rooms, emits_to_rooms_avoiding_dupes, emits_to_the_rest, broadcasts_to_rooms, broadcasts_binary_data_to_rooms, should_exclude_*), "
 "TestServer/should_receive_all_events_emitted_from_namespaced_client_immediately_and_in_order (flaky, fail about half the time), TestServer/makes_all_socket_instances_in_a_room_disconnect "
 "(\"Fail in goroutine after test completed\" panic, rare), TestServer/should_restore_* recovery subtests (rare flakes under load). engine.io package: "
 "TestServer/should_call_OnClose_with_transport_error_when_buffer_size_is_exceeded_(polling), TestServer/server_Close_method_should_close_sockets, the UpgradeTimeout tests (flaky under load); "
 "engine.io/transport/polling TestPoll (timing). Running the whole root package takes 1-2 minutes; run the packages you touched at least twice.")
for p in props:
    cid = p['id'].lower()
    wt = f'/tmp/{prefix}-{cid}'
    scratch = f'/tmp/{prefix}{cid}'
    earlier = []
    for d in sorted(glob.glob(f'/verif/seeded/{cid}*')):
        try:
            m = json.load(open(d + '/meta.json'))
        except Exception:
            continue
        earlier.append(' '.join(m.get('summary', '').split())[:300])
    listing = ' '.join(f'({i+1}) {s}' for i, s in enumerate(earlier))
    t = f"""You are testing how robust a Go library is against subtle regressions. Work ONLY inside the git worktree {wt} (a checkout of the library karagenc/socket.io-go: Socket.IO v5 / Engine.IO v4 client and server in Go). Do not read or write anything under /verif or /repo, do not use `git stash` (the stash is shared between worktrees), and do not create other worktrees. Every shell command needs: export GOFLAGS=-mod=mod GOPROXY=off GOSUMDB=off GOTOOLCHAIN=local (no network).

The library is supposed to satisfy this property:

  {p['id']}: {p['title']}
  Statement: {p['statement']}
  Quantifier: {p['quantifier']['text']}
  Relevant code (anchors): {', '.join(p['anchors']['files'])}

Your task: make ONE realistic, subtle change to the library's non-test source in {wt} that BREAKS this property, the kind of regression a plausible refactoring, optimisation or "clean-up" could introduce, such that
  (a) the tree still builds (`go build ./...`) and `go vet` of the touched packages is clean;
  (b) the repository's existing tests still pass with your change (see the list of tests that already fail or flake WITHOUT any change below; ignore those);
  (c) you can DEMONSTRATE the breakage with a new test file named zz_seed_demo_test.go placed in the package it needs (in-package tests are fine) that PASSES without your change and FAILS with it, preferably deterministically.
Prefer a change that needs a particular interleaving, input shape, boundary value or history to manifest, not one that breaks ordinary sequential use. The change must be small (a few lines, at most ~30), must compile, and must read like something a maintainer might plausibly commit (with an innocent-looking comment if that helps).

{len(earlier)} earlier attempts for this same property already did the following, so do something DIFFERENT from all of them (another mechanism, another function, preferably another file; think about the less obvious code the property depends on - configuration handling and defaults, error paths, clean-up code, rarely used API variants and options (Volatile, Timeout, Compress, Local, FetchSockets, ServerSideEmit, OnAny-style hooks, Auth, custom parser/adapter creators, JSON serializers), the other side (client vs server), the less used transports, and interactions with other features such as connection state recovery, namespaces, rooms, upgrades, reconnection, acknowledgements, binary attachments): {listing}

{FLAKY}

Procedure: study the anchored code, pick the change, apply it in {wt}, write the demo test, verify (a), (b), (c) yourself: run the demo with the change (must fail) and without it (toggle with `git diff > {scratch}.diff; git apply -R {scratch}.diff` and `git apply {scratch}.diff`; must pass), at least 3 times each way. Then leave the worktree WITH the change applied and the demo test in place, and write into {wt}/SEED/:
  - patch.diff   : `git diff` of the library change ONLY (not the demo test, which is untracked), must apply with `git apply` at the worktree's HEAD;
  - zz_seed_demo_test.go : a copy of the demo test;
  - meta.json    : {{"property": "{p['id']}", "summary": "<what was changed, one or two sentences>", "needs": "<what input/interleaving/history it needs to manifest>", "files": [...], "demo": "<exact go test command and the directory the demo file belongs in>", "demo_fail_rate": "<how often it fails with the change / passes without>"}}
Finally delete your scratch files in /tmp ({prefix}{cid}.*). Report briefly: the change, what it needs to manifest, verification results (a)-(c), and where the demo belongs."""
    subprocess.run(['git', '-C', '/repo', 'worktree', 'remove', '--force', wt], capture_output=True)
    r = subprocess.run(['git', '-C', '/repo', 'worktree', 'add', '-q', wt, 'HEAD'], capture_output=True, text=True)
    if r.returncode != 0:
        sys.exit(r.stderr)
    os.makedirs(wt + '/SEED', exist_ok=True)
    open(wt + '/SEED/PROMPT.txt', 'w').write(t)
print('prepared', len(props), 'worktrees under /tmp/' + prefix + '-cNN')
