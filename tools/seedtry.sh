#!/bin/bash
# Runs one check (with any vcheck arguments) against a scratch worktree of /repo carrying a filed seeded change.
# Usage: tools/seedtry.sh c01d c01 [-only substr] [-tier quick]
set -u
export GOFLAGS=-mod=mod GOPROXY=off GOSUMDB=off GOTOOLCHAIN=local
seed=$1; chk=$2; shift 2
wt=/tmp/vt-$seed
git -C /repo worktree remove --force $wt 2>/dev/null
git -C /repo worktree add -q $wt HEAD || exit 2
(cd $wt && git apply /verif/seeded/$seed/patch.diff) || { echo "patch does not apply"; git -C /repo worktree remove --force $wt; exit 2; }
VERIF_REPO=$wt VERIF_WORK=/verif/.work/trywork-$seed VERIF_OUT=/verif/.work/tryrun-$seed /verif/bin/vcheck run $chk "$@"
code=$?
git -C /repo worktree remove --force $wt
rm -rf /verif/.work/trywork-$seed
echo "exit $code"
