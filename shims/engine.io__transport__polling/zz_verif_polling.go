//go:build verif

package polling

import (
	"time"

	"github.com/karagenc/socket.io-go/engine.io/parser"
)

// Thin accessors for the verification harnesses (no logic).

type VerifPollQueue struct{ pq *pollQueue }

func VerifNewPollQueue() VerifPollQueue { return VerifPollQueue{newPollQueue()} }

func (q VerifPollQueue) Poll(d time.Duration) []*parser.Packet { return q.pq.poll(d) }
func (q VerifPollQueue) Add(p ...*parser.Packet)               { q.pq.add(p...) }
func (q VerifPollQueue) Get() []*parser.Packet                 { return q.pq.get() }
func (q VerifPollQueue) Len() int                              { return q.pq.len() }

// LenUnlocked reads the queue length without taking the mutex (only for use where no other thread runs).
func (q VerifPollQueue) LenUnlocked() int { return len(q.pq.packets) }

// VerifQueueLenUnlocked is the same for a transport's own queue.
func (t *ServerTransport) VerifQueueLenUnlocked() int { return len(t.pq.packets) }
