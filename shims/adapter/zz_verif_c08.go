//go:build verif

package adapter

import (
	"sort"
	"time"
)

// VerifLogEntry is one entry of the session-aware adapter's packet log as the C08 harness sees it.
type VerifLogEntry struct {
	ID        string
	EmittedAt time.Time
}

// VerifSessionLog returns the ids and emission times of the packets currently in the log of a
// session-aware adapter (log order) and the pids of the persisted sessions (sorted), without locking
// (call when nothing else runs). ok is false for other adapter types.
func VerifSessionLog(a Adapter) (log []VerifLogEntry, pids []string, ok bool) {
	s, ok := a.(*sessionAwareAdapter)
	if !ok {
		return nil, nil, false
	}
	for _, p := range s.packets {
		log = append(log, VerifLogEntry{ID: p.ID, EmittedAt: p.EmittedAt})
	}
	for pid := range s.sessions {
		pids = append(pids, string(pid))
	}
	sort.Strings(pids)
	return log, pids, true
}

// VerifSessionWindow returns the window and the clean-up period of a session-aware adapter.
func VerifSessionWindow(a Adapter) (window, cleanerPeriod time.Duration, ok bool) {
	s, ok := a.(*sessionAwareAdapter)
	if !ok {
		return 0, 0, false
	}
	return s.maxDisconnectDuration, s.cleanerDuration, true
}
