//go:build verif

package adapter

import "sort"

// VerifDump returns the two raw indexes of an in-memory (or session-aware) adapter, sorted, without
// locking (call when nothing else runs). ok is false for other adapter types.
func VerifDump(a Adapter) (rooms map[string][]string, sids map[string][]string, ok bool) {
	var m *inMemoryAdapter
	switch x := a.(type) {
	case *inMemoryAdapter:
		m = x
	case *sessionAwareAdapter:
		m = x.inMemoryAdapter
	default:
		return nil, nil, false
	}
	rooms, sids = map[string][]string{}, map[string][]string{}
	for r, set := range m.rooms {
		var l []string
		for _, s := range set.ToSlice() {
			l = append(l, string(s))
		}
		sort.Strings(l)
		rooms[string(r)] = l
	}
	for s, set := range m.sids {
		var l []string
		for _, r := range set.ToSlice() {
			l = append(l, string(r))
		}
		sort.Strings(l)
		sids[string(s)] = l
	}
	return rooms, sids, true
}
