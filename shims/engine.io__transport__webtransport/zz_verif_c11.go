//go:build verif

package webtransport

import (
	"io"

	"github.com/karagenc/socket.io-go/engine.io/parser"
)

// Thin accessors for the C11 verification harness (no logic): the unexported WebTransport framer,
// composed exactly as the transports compose it.

// VerifSend is send(w, packet), what ServerTransport.send / ClientTransport.send call on the stream.
func VerifSend(w io.Writer, packet *parser.Packet) error { return send(w, packet) }

// VerifServerReader is the read side of a ServerTransport: Handshake() sets
// t.limitedReader = newLimitedReader(t.stream, t.readLimit) and nextPacket() is nextPacket(t.limitedReader).
type VerifServerReader struct{ lr *limitedReader }

func VerifNewServerReader(stream io.Reader, readLimit int64) *VerifServerReader {
	return &VerifServerReader{lr: newLimitedReader(stream, readLimit)}
}

func (v *VerifServerReader) NextPacket() (*parser.Packet, error) { return nextPacket(v.lr) }

// VerifClientNextPacket is the read side of a ClientTransport: nextPacket(t.stream), no limit.
func VerifClientNextPacket(stream io.Reader) (*parser.Packet, error) { return nextPacket(stream) }
