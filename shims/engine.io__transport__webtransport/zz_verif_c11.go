//go:build verif

package webtransport

import (
	"io"

	"github.com/karagenc/socket.io-go/engine.io/parser"
	"github.com/karagenc/socket.io-go/engine.io/transport"
)

// Thin accessors for the C11 verification harness (no logic): the unexported WebTransport framer,
// composed exactly as the transports compose it.

// VerifSend is send(w, packet), what ServerTransport.send / ClientTransport.send call on the stream.
func VerifSend(w io.Writer, packet *parser.Packet) error { return send(w, packet) }

// VerifServerReader is the read side of a ServerTransport: a transport that went through its real Handshake on
// the harness stream (see zz_verif_c13.go), read with its own nextPacket() - whatever Handshake wires between
// the stream and the framer (the limited reader) is the repository's code, not a copy of it.
type VerifServerReader struct {
	t   *ServerTransport
	err error
}

func VerifNewServerReader(stream io.Reader, readLimit int64) *VerifServerReader {
	closed := false
	t, err := verifHandshake(transport.NewCallbacks(), stream, readLimit, &closed)
	return &VerifServerReader{t: t, err: err}
}

func (v *VerifServerReader) NextPacket() (*parser.Packet, error) {
	if v.err != nil {
		return nil, v.err
	}
	return v.t.nextPacket()
}

// VerifClientNextPacket is the read side of a ClientTransport: nextPacket(t.stream), no limit.
func VerifClientNextPacket(stream io.Reader) (*parser.Packet, error) { return nextPacket(stream) }
