//go:build verif

package webtransport

import (
	"io"
	"time"

	"github.com/quic-go/quic-go"
	"github.com/quic-go/webtransport-go"

	"github.com/karagenc/socket.io-go/engine.io/parser"
	"github.com/karagenc/socket.io-go/engine.io/transport"
)

// Thin accessors for the C13 verification harness (no logic): the read side of the real
// ServerTransport over a stream supplied by the harness instead of a QUIC stream.

// verifC13Stream adapts an io.Reader to webtransport.Stream (writes are discarded).
type verifC13Stream struct {
	r      io.Reader
	closed *bool
}

func (s verifC13Stream) Read(p []byte) (int, error)               { return s.r.Read(p) }
func (s verifC13Stream) Write(p []byte) (int, error)              { return len(p), nil }
func (s verifC13Stream) Close() error                             { *s.closed = true; return nil }
func (s verifC13Stream) StreamID() quic.StreamID                  { return 0 }
func (s verifC13Stream) CancelWrite(webtransport.StreamErrorCode) {}
func (s verifC13Stream) CancelRead(webtransport.StreamErrorCode)  {}
func (s verifC13Stream) SetWriteDeadline(time.Time) error         { return nil }
func (s verifC13Stream) SetReadDeadline(time.Time) error          { return nil }
func (s verifC13Stream) SetDeadline(time.Time) error              { return nil }

// VerifC13Serve builds a ServerTransport with the given MaxBufferSize in the state Handshake() leaves
// it in (stream accepted, t.limitedReader = newLimitedReader(t.stream, t.readLimit)) and runs the real
// PostHandshake read loop on it until the transport closes itself (read error, limit or end of
// stream). Packets and the close are reported through the transport's own callbacks. Everything runs
// on the calling goroutine. streamClosed tells whether the transport closed the stream.
func VerifC13Serve(
	stream io.Reader,
	maxBufferSize int64,
	onPacket func(packets ...*parser.Packet),
	onClose func(transportName string, err error),
) (streamClosed bool) {
	c := transport.NewCallbacks()
	c.Set(onPacket, onClose)
	t := NewServerTransport(c, maxBufferSize, nil)
	t.stream = verifC13Stream{r: stream, closed: &streamClosed}
	t.limitedReader = newLimitedReader(t.stream, t.readLimit)
	t.PostHandshake(nil)
	return
}
