//go:build verif

package webtransport

import (
	"bytes"
	"context"
	"io"
	"net/http"
	"net/http/httptest"
	"time"

	"github.com/quic-go/quic-go"
	"github.com/quic-go/webtransport-go"

	"github.com/karagenc/socket.io-go/engine.io/parser"
	"github.com/karagenc/socket.io-go/engine.io/transport"
)

// Seam for the C11 / C13 verification harnesses (no logic): the real ServerTransport - Handshake, whatever it
// wires between the stream and nextPacket, PostHandshake's read loop - over a stream supplied by the harness
// instead of a QUIC stream. hooks.json replaces the two calls in Handshake that need an HTTP/3 request
// (Server.Upgrade, Session.AcceptStream) by the two functions below; with no harness stream in the request
// context they do exactly what the replaced calls did.

type verifStreamKey struct{}

func verifUpgrade(s *webtransport.Server, w http.ResponseWriter, r *http.Request) (*webtransport.Session, error) {
	if r.Context().Value(verifStreamKey{}) != nil {
		return nil, nil
	}
	return s.Upgrade(w, r)
}

func verifAcceptStream(c *webtransport.Session, ctx context.Context) (webtransport.Stream, error) {
	if st, ok := ctx.Value(verifStreamKey{}).(webtransport.Stream); ok {
		return st, nil
	}
	return c.AcceptStream(ctx)
}

// verifStream adapts an io.Reader to webtransport.Stream (writes are discarded).
type verifStream struct {
	r      io.Reader
	closed *bool
}

func (s verifStream) Read(p []byte) (int, error)               { return s.r.Read(p) }
func (s verifStream) Write(p []byte) (int, error)              { return len(p), nil }
func (s verifStream) Close() error                             { *s.closed = true; return nil }
func (s verifStream) StreamID() quic.StreamID                  { return 0 }
func (s verifStream) CancelWrite(webtransport.StreamErrorCode) {}
func (s verifStream) CancelRead(webtransport.StreamErrorCode)  {}
func (s verifStream) SetWriteDeadline(time.Time) error         { return nil }
func (s verifStream) SetReadDeadline(time.Time) error          { return nil }
func (s verifStream) SetDeadline(time.Time) error              { return nil }

// verifOpenFrame is what a client sends first: an OPEN packet without data, as one frame.
var verifOpenFrame = []byte{1, '0'}

// verifHandshake runs the real Handshake of a new ServerTransport on a harness stream. The stream handed to
// the transport starts with the client's OPEN frame (which Handshake consumes), followed by `stream`.
func verifHandshake(c *transport.Callbacks, stream io.Reader, maxBufferSize int64, closed *bool) (*ServerTransport, error) {
	t := NewServerTransport(c, maxBufferSize, nil)
	st := verifStream{r: io.MultiReader(bytes.NewReader(verifOpenFrame), stream), closed: closed}
	r := httptest.NewRequest("GET", "https://verif/engine.io/?EIO=4&transport=webtransport", nil)
	r = r.WithContext(context.WithValue(r.Context(), verifStreamKey{}, webtransport.Stream(st)))
	_, err := t.Handshake(nil, httptest.NewRecorder(), r)
	return t, err
}

// VerifC13Serve builds a ServerTransport with the given MaxBufferSize, performs its real Handshake on the
// harness stream and runs the real PostHandshake read loop until the transport closes itself (read error,
// limit or end of stream). Packets and the close are reported through the transport's own callbacks.
// Everything runs on the calling goroutine. streamClosed tells whether the transport closed the stream.
func VerifC13Serve(
	stream io.Reader,
	maxBufferSize int64,
	onPacket func(packets ...*parser.Packet),
	onClose func(transportName string, err error),
) (streamClosed bool) {
	c := transport.NewCallbacks()
	c.Set(onPacket, onClose)
	t, err := verifHandshake(c, stream, maxBufferSize, &streamClosed)
	if err != nil {
		onClose(t.Name(), err)
		return
	}
	t.PostHandshake(nil)
	return
}
