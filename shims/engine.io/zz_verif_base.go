//go:build verif

package eio

import "github.com/karagenc/socket.io-go/internal/vsched"

func init() {
	// the id sequence is process-global; every explored execution must start from the same state
	vsched.OnRunStart(func() { base64IDSeq = 0 })
}

// VerifResetIDSeq resets the global id sequence (plain-mode harnesses).
func VerifResetIDSeq() { base64IDSeq = 0 }
