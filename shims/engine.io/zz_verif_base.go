//go:build verif

package eio

import "github.com/karagenc/socket.io-go/internal/vsched"

func init() {
	// the id sequence is process-global; every explored execution must start from the same state
	vsched.OnRunStart(func() { base64IDSeq = 0 })
}

// VerifResetIDSeq resets the global id sequence (plain-mode harnesses).
func VerifResetIDSeq() { base64IDSeq = 0 }

// VerifSessionIDs lists the live session ids without locking (call when nothing else runs).
func (s *Server) VerifSessionIDs() []string {
	ids := make([]string, 0, len(s.store.sockets))
	for id := range s.store.sockets {
		ids = append(ids, id)
	}
	sortStrings(ids)
	return ids
}

func sortStrings(a []string) {
	for i := 1; i < len(a); i++ {
		for j := i; j > 0 && a[j] < a[j-1]; j-- {
			a[j], a[j-1] = a[j-1], a[j]
		}
	}
}
