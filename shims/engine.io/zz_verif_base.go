//go:build verif

package eio

import (
	"net/http"

	"github.com/karagenc/socket.io-go/engine.io/transport"
	"github.com/karagenc/socket.io-go/internal/vsched"
)

func init() {
	// the id sequence is process-global; every explored execution must start from the same state
	vsched.OnRunStart(func() { base64IDSeq = 0 })
}

// VerifResetIDSeq resets the global id sequence (plain-mode harnesses).
func VerifResetIDSeq() { base64IDSeq = 0 }

// VerifSessionIDs lists the live session ids without locking (call when nothing else runs).
func (s *Server) VerifSessionIDs() []string {
	ids := make([]string, 0, len(s.store.sockets))
	for id := range s.store.sockets {
		ids = append(ids, id)
	}
	sortStrings(ids)
	return ids
}

func sortStrings(a []string) {
	for i := 1; i < len(a); i++ {
		for j := i; j > 0 && a[j] < a[j-1]; j-- {
			a[j], a[j-1] = a[j-1], a[j]
		}
	}
}

// ---- upgrade seams (C07): the real probe / upgrade state machines with a harness-provided candidate transport

// VerifMaybeUpgrade runs what onWebTransport does after its handshake: the server half of an upgrade
// of socket to the candidate transport t (named "webtransport").
func (s *Server) VerifMaybeUpgrade(w http.ResponseWriter, r *http.Request, socket ServerSocket, t ServerTransport, c *transport.Callbacks) {
	s.maybeUpgrade(w, r, socket.(*serverSocket), "webtransport", t, c)
}

// VerifTryUpgradeTo runs the client half of an upgrade to the candidate transport t.
func VerifTryUpgradeTo(cs ClientSocket, t ClientTransport, c *transport.Callbacks) bool {
	return cs.(*clientSocket).tryUpgradeTo(t, c)
}

// VerifServerTransportName reports the server socket's current transport.
func VerifServerTransportName(s ServerSocket) string { return s.(*serverSocket).TransportName() }
