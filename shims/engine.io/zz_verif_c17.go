//go:build verif

package eio

import "sort"

// Thin accessors for the C17 verification harness (no logic).

// VerifC17StoreIDs returns the session ids currently in the server's store, sorted.
func (s *Server) VerifC17StoreIDs() []string {
	s.store.mu.RLock()
	defer s.store.mu.RUnlock()
	ids := make([]string, 0, len(s.store.sockets))
	for id := range s.store.sockets {
		ids = append(ids, id)
	}
	sort.Strings(ids)
	return ids
}

// VerifC17IDSeq reads the sequence number mixed into generated ids.
func VerifC17IDSeq() uint32 {
	base64IDMu.Lock()
	defer base64IDMu.Unlock()
	return base64IDSeq
}

// VerifC17SetIDSeq sets the sequence number mixed into generated ids (the state "n ids later").
func VerifC17SetIDSeq(v uint32) {
	base64IDMu.Lock()
	defer base64IDMu.Unlock()
	base64IDSeq = v
}
