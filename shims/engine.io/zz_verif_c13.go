//go:build verif

package eio

// Thin accessors for the C13 verification harness (no logic).

// VerifC13NewClientSocket returns a client socket in the state connect() leaves it in after a
// handshake that announced maxPayload, with t as its current transport. No goroutine is started; only
// Send / writeWritablePackets are meant to be called on it.
func VerifC13NewClientSocket(t ClientTransport, maxPayload int64) ClientSocket {
	return &clientSocket{
		transport:  t,
		maxPayload: maxPayload,
		pingChan:   make(chan struct{}, 1),
		closeChan:  make(chan struct{}),
		debug:      NewNoopDebugger(),
	}
}

// VerifC13SetMaxPayload changes the announced limit of a socket made by VerifC13NewClientSocket.
func VerifC13SetMaxPayload(s ClientSocket, maxPayload int64) {
	s.(*clientSocket).maxPayload = maxPayload
}
