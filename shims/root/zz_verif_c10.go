//go:build verif

package sio

// Thin accessor for the C10 harness (no logic): hands raw Socket.IO frames - the first as a text message,
// the rest as binary messages - to the connection of a server socket, the way serverConn.sendBuffers does
// for frames produced by the encoder. Lets a harness play a misbehaving server towards the Go client.
func VerifServerSendRaw(s ServerSocket, frames ...[]byte) {
	s.(*serverSocket).conn.sendBuffers(frames...)
}
