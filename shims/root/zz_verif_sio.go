//go:build verif

package sio

import (
	"reflect"
	"sort"
	"time"

	mapset "github.com/deckarep/golang-set/v2"
	eio "github.com/karagenc/socket.io-go/engine.io"
	eioparser "github.com/karagenc/socket.io-go/engine.io/parser"
)

// Thin accessors for the verification harnesses (no logic).

func (s *Server) VerifOnEIOSocket(sock eio.ServerSocket) *eio.Callbacks { return s.onEIOSocket(sock) }

type VerifPacketQueue struct{ pq *packetQueue }

func VerifNewPacketQueue() VerifPacketQueue { return VerifPacketQueue{newPacketQueue()} }

func (q VerifPacketQueue) Add(p ...*eioparser.Packet) { q.pq.add(p...) }
func (q VerifPacketQueue) Poll() ([]*eioparser.Packet, bool, bool) {
	return q.pq.poll()
}
func (q VerifPacketQueue) PollAndSend(s eio.Socket)          { q.pq.pollAndSend(s) }
func (q VerifPacketQueue) Reset()                            { q.pq.reset() }
func (q VerifPacketQueue) Close()                            { q.pq.close() }
func (q VerifPacketQueue) WaitForDrain(d time.Duration) bool { return q.pq.waitForDrain(d) }
func (q VerifPacketQueue) LenUnlocked() int                  { return len(q.pq.packets) }

// ---- handler registries (C18)

type VerifHandlerStore[T comparable] struct{ s *handlerStore[T] }

func VerifNewHandlerStore[T comparable]() VerifHandlerStore[T] {
	return VerifHandlerStore[T]{newHandlerStore[T]()}
}
func (v VerifHandlerStore[T]) On(h T)      { v.s.on(h) }
func (v VerifHandlerStore[T]) Once(h T)    { v.s.once(h) }
func (v VerifHandlerStore[T]) OnSub(h T)   { v.s.onSubEvent(h) }
func (v VerifHandlerStore[T]) Subs() []T   { return append([]T{}, v.s.subs...) }
func (v VerifHandlerStore[T]) Off(h ...T)  { v.s.off(h...) }
func (v VerifHandlerStore[T]) OffAll()     { v.s.offAll() }
func (v VerifHandlerStore[T]) GetAll() []T { return v.s.getAll() }
func (v VerifHandlerStore[T]) ForEach(f func(T), concurrent bool) {
	v.s.forEach(f, concurrent)
}
func (v VerifHandlerStore[T]) Lists() (funcs, once []T) {
	return append([]T{}, v.s.funcs...), append([]T{}, v.s.funcsOnce...)
}

type VerifEventHandlerStore struct{ s *eventHandlerStore }

func VerifNewEventHandlerStore() VerifEventHandlerStore {
	return VerifEventHandlerStore{newEventHandlerStore()}
}
func (v VerifEventHandlerStore) On(ev string, f any) {
	h, err := newEventHandler(f)
	if err != nil {
		panic(err)
	}
	v.s.on(ev, h)
}
func (v VerifEventHandlerStore) Once(ev string, f any) {
	h, err := newEventHandler(f)
	if err != nil {
		panic(err)
	}
	v.s.once(ev, h)
}
func (v VerifEventHandlerStore) Off(ev string, f ...any) {
	var vals []reflect.Value
	if f != nil {
		vals = make([]reflect.Value, len(f))
		for i := range f {
			vals[i] = reflect.ValueOf(f[i])
		}
	}
	v.s.off(ev, vals...)
}
func (v VerifEventHandlerStore) OffAll() { v.s.offAll() }

// Fire takes the handlers of ev the way the sockets do and calls them in order.
func (v VerifEventHandlerStore) Fire(ev string) {
	for _, h := range v.s.getAll(ev) {
		h.call()
	}
}

// Lists returns the function values registered for ev.
func (v VerifEventHandlerStore) Lists(ev string) (on, once []reflect.Value) {
	for _, h := range v.s.events[ev] {
		on = append(on, h.rv)
	}
	for _, h := range v.s.eventsOnce[ev] {
		once = append(once, h.rv)
	}
	return
}

// ---- ack handlers (C03)

type VerifAckHandler struct{ h *ackHandler }

func VerifNewAckHandlerWithTimeout(f any, timeout time.Duration, timeoutFunc func()) (VerifAckHandler, error) {
	h, err := newAckHandlerWithTimeout(f, timeout, timeoutFunc)
	return VerifAckHandler{h}, err
}

func VerifNewAckHandler(f any, hasError bool) (VerifAckHandler, error) {
	h, err := newAckHandler(f, hasError)
	return VerifAckHandler{h}, err
}

func (a VerifAckHandler) Call(args ...any) error {
	vals := make([]reflect.Value, len(args))
	for i := range args {
		vals[i] = reflect.ValueOf(args[i])
	}
	return a.h.call(vals...)
}

// VerifClientSocketBuffers reports the lengths of the client's offline buffers (no locking).
func VerifClientSocketBuffers(s ClientSocket) (send, receive int) {
	cs := s.(*clientSocket)
	return len(cs.sendBuffer), len(cs.receiveBuffer)
}

// VerifPendingAcks reports how many ack callbacks a socket still tracks (no locking).
func VerifPendingAcks(s Socket) int {
	switch x := s.(type) {
	case *clientSocket:
		return len(x.acks)
	case *serverSocket:
		return len(x.acks)
	}
	return -1
}

// ---- connection internals (C05, C06, C12)

type VerifConn struct{ c *serverConn }

func (s *Server) VerifNewConn(sock eio.ServerSocket) (*eio.Callbacks, VerifConn) {
	c, cb := newServerConn(s, sock, s.parserCreator)
	return cb, VerifConn{c}
}

// SocketIDs lists the sockets the connection tracks (no locking; call when nothing else runs).
func (v VerifConn) SocketIDs() []string {
	var out []string
	for id := range v.c.sockets.socketsByID {
		out = append(out, string(id))
	}
	sort.Strings(out)
	return out
}

// Namespaces lists the namespaces the connection has joined, by the two indexes it keeps.
func (v VerifConn) Namespaces() (bySocket, byNsp []string) {
	for n := range v.c.sockets.socketsByNsp {
		bySocket = append(bySocket, n)
	}
	for n := range v.c.nsps.nsps {
		byNsp = append(byNsp, n)
	}
	sort.Strings(bySocket)
	sort.Strings(byNsp)
	return
}

// VerifAdapterState dumps a namespace adapter's view: every socket id it knows with its rooms.
func VerifAdapterState(n *Namespace) map[string][]string {
	out := map[string][]string{}
	all := n.adapter.Sockets(mapset.NewThreadUnsafeSet[Room]())
	for _, sid := range all.ToSlice() {
		rooms, ok := n.adapter.SocketRooms(sid)
		var rs []string
		if ok {
			for _, r := range rooms.ToSlice() {
				rs = append(rs, string(r))
			}
		}
		sort.Strings(rs)
		out[string(sid)] = rs
	}
	return out
}

// VerifEIOSessionIDs lists the live Engine.IO session ids of the server (no locking).
func (s *Server) VerifEIOSessionIDs() []string { return s.eio.VerifSessionIDs() }

// ---- back-off (C15)

type VerifBackoff struct{ b *backoff }

func VerifNewBackoff(min, max time.Duration, jitter float32) VerifBackoff {
	return VerifBackoff{newBackoff(min, max, jitter)}
}
func (v VerifBackoff) Duration() time.Duration { return v.b.duration() }
func (v VerifBackoff) Attempts() uint32        { return v.b.attempts() }
func (v VerifBackoff) SetAttempts(n uint32)    { v.b.numAttempts = n }
func (v VerifBackoff) Reset()                  { v.b.reset() }

// VerifAbruptClose closes the Engine.IO connection under a server socket without any Socket.IO
// farewell (what the repo's own reconnection tests do with s.conn.eio.Close()).
func VerifAbruptClose(s ServerSocket) { s.(*serverSocket).conn.eio.Close() }

// ---- Engine.IO objects under the Socket.IO ones (C07: the harness drives the real upgrade state machines)

// VerifEIO returns the manager's current Engine.IO client socket.
func (m *Manager) VerifEIO() eio.ClientSocket {
	m.eioMu.RLock()
	defer m.eioMu.RUnlock()
	return m.eio
}

// VerifEIOServer returns the Engine.IO server under the Socket.IO server.
func (s *Server) VerifEIOServer() *eio.Server { return s.eio }

// VerifEIOSocketOf returns the Engine.IO socket that carries a server socket.
func VerifEIOSocketOf(s ServerSocket) eio.ServerSocket { return s.(*serverSocket).conn.eio }

// VerifBackoff returns the back-off object the manager built from its configuration (C15).
func (m *Manager) VerifBackoff() VerifBackoff { return VerifBackoff{m.backoff} }
