//go:build verif

package sio

import (
	"time"

	eio "github.com/karagenc/socket.io-go/engine.io"
	eioparser "github.com/karagenc/socket.io-go/engine.io/parser"
)

// Thin accessors for the verification harnesses (no logic).

func (s *Server) VerifOnEIOSocket(sock eio.ServerSocket) *eio.Callbacks { return s.onEIOSocket(sock) }

type VerifPacketQueue struct{ pq *packetQueue }

func VerifNewPacketQueue() VerifPacketQueue { return VerifPacketQueue{newPacketQueue()} }

func (q VerifPacketQueue) Add(p ...*eioparser.Packet) { q.pq.add(p...) }
func (q VerifPacketQueue) Poll() ([]*eioparser.Packet, bool, bool) {
	return q.pq.poll()
}
func (q VerifPacketQueue) PollAndSend(s eio.Socket)          { q.pq.pollAndSend(s) }
func (q VerifPacketQueue) Reset()                            { q.pq.reset() }
func (q VerifPacketQueue) Close()                            { q.pq.close() }
func (q VerifPacketQueue) WaitForDrain(d time.Duration) bool { return q.pq.waitForDrain(d) }
func (q VerifPacketQueue) LenUnlocked() int                  { return len(q.pq.packets) }
