package main

import (
	"fmt"
	"sort"
	"strings"

	"github.com/karagenc/socket.io-go/adapter"
	vx "github.com/karagenc/socket.io-go/internal/vexplore"
	"github.com/karagenc/socket.io-go/internal/vsched"
)

// ---------------------------------------------------------------- C: broadcast racing membership changes

// mutator operations of the concurrent part: 3 sockets x 2 rooms
func cAlphabet() []aop {
	var ops []aop
	for s := range sockIDs {
		for _, rm := range []int{1, 2} {
			ops = append(ops, aop{kind: "AddAll", s: s, rooms: rm}, aop{kind: "Delete", s: s, rooms: rm})
		}
		ops = append(ops, aop{kind: "DeleteAll", s: s}, aop{kind: "AddAll", s: s, rooms: 3})
	}
	return ops
}

// initial membership matrices (3 sockets x 2 rooms) of the concurrent part
var cMatrices = []struct {
	name string
	rows [3]int
}{
	{"s1{r1}s2{r1,r2}s3{r2}", [3]int{1, 3, 2}},
	{"s1{r2}s2{}s3{r1}", [3]int{2, 0, 1}},
	{"s1{r1,r2}s2{r1}s3{}", [3]int{3, 1, 0}},
	{"s1{}s2{r2}s3{r1,r2}", [3]int{0, 2, 3}},
}

type span struct{ pre, post int }

// possibleStates over-approximates the membership states that may have been current at some moment
// of the broadcast's interval [b0,b1], from the begin/end marks of the mutators: an operation that
// ended before b0 took effect before; one that began after b1 did not take effect; any other may or
// may not have; an operation takes effect after every operation that ended before it began.
func possibleStates(init amodel, ops []aop, sp []span, b0, b1 int) []amodel {
	n := len(ops)
	before := func(k, j int) bool { return sp[k].post < sp[j].pre }
	var out []amodel
	seen := map[string]bool{}
	var perm func(m amodel, used, set int)
	perm = func(m amodel, used, set int) {
		if used == set {
			if k := m.key(); !seen[k] {
				seen[k] = true
				out = append(out, m)
			}
			return
		}
		for k := 0; k < n; k++ {
			if set&(1<<k) == 0 || used&(1<<k) != 0 {
				continue
			}
			ok := true // every real-time predecessor inside the set must already be applied
			for j := 0; j < n; j++ {
				if j != k && set&(1<<j) != 0 && used&(1<<j) == 0 && before(j, k) {
					ok = false
				}
			}
			if !ok {
				continue
			}
			m2 := m
			m2.apply(ops[k])
			perm(m2, used|1<<k, set)
		}
	}
	for set := 0; set < 1<<n; set++ {
		ok := true
		for k := 0; k < n; k++ {
			in := set&(1<<k) != 0
			if sp[k].post < b0 && !in { // definitely before the broadcast
				ok = false
			}
			if sp[k].pre > b1 && in { // definitely after it
				ok = false
			}
			for j := 0; j < n; j++ {
				if in && set&(1<<j) == 0 && before(j, k) { // downward closed under real-time order
					ok = false
				}
			}
		}
		if ok {
			perm(init, 0, set)
		}
	}
	return out
}

// cScenario: the mutators ops (one thread each) race one Broadcast(T,E) on the membership matrix mi.
// bound < 0: every interleaving.
func cScenario(mi, T, E int, ops []aop, bound int) *vx.Scenario {
	mat := cMatrices[mi]
	var on []string
	for _, o := range ops {
		on = append(on, o.String())
	}
	name := fmt.Sprintf("race/%s/T=%s,E=%s/%s", mat.name, maskStr(T), maskStr(E), strings.Join(on, "+"))
	sc := &vx.Scenario{Name: name, PreemptOnly: true}
	if bound < 0 {
		sc.Unbounded = true
	} else {
		sc.Bound = bound
	}
	nmut := len(ops)
	sc.Body = func(e *vsched.Exec) func() vx.Result {
		a, st := newRig()
		init := amodel{}
		for i, id := range sockIDs {
			a.AddAll(id, roomsOf(mat.rows[i]))
			init.present[i] = true
			init.rows[i] = mat.rows[i]
		}
		var logV vsched.Var
		seq := 0
		sp := make([]span, nmut)
		b0, b1 := 0, 0
		mark := func(p *int) { logV.Do(func() { seq++; *p = seq }) }
		vsched.GoQuiet("broadcast", func() {
			mark(&b0)
			a.Broadcast(evHeader(), []any{"ev"}, optsOf(T, E))
			mark(&b1)
		})
		for k := range ops {
			k := k
			vsched.GoQuiet(fmt.Sprintf("mutator%d", k), func() {
				mark(&sp[k].pre)
				doAop(a, ops[k])
				mark(&sp[k].post)
			})
		}
		return func() vx.Result {
			var r vx.Result
			got := st.counts()
			r.Outcome = fmt.Sprintf("%s got=%v", histStr(ops), got)
			if b1 == 0 {
				return r // the explorer reports the deadlock / panic that kept the broadcast from ending
			}
			for _, s := range sp {
				if s.post == 0 {
					return r // likewise for a mutator
				}
			}
			states := possibleStates(init, ops, sp, b0, b1)
			var desc []string
			for _, s := range states {
				desc = append(desc, s.key())
			}
			sort.Strings(desc)
			ctx := fmt.Sprintf("initial %s, Broadcast T=%s E=%s racing [%s]; membership states possible during the broadcast: %s; deliveries %v",
				init.key(), maskStr(T), maskStr(E), histStr(ops), strings.Join(desc, " | "), got)
			for i, id := range sockIDs {
				all, none := true, true
				for _, s := range states {
					if refSelect(s, T, E)[i] {
						none = false
					} else {
						all = false
					}
				}
				switch {
				case got[i] > 1:
					r.Violate("adapter (concurrent): a socket receives one broadcast more than once", "%s received %d times; %s", id, got[i], ctx)
				case all && got[i] == 0:
					r.Violate("adapter (concurrent): a socket selected throughout the broadcast does not receive it", "%s selected in every state but not reached; %s", id, ctx)
				case none && got[i] > 0:
					r.Violate("adapter (concurrent): a socket selected at no time during the broadcast receives it", "%s selected in no state but reached; %s", id, ctx)
				}
			}
			if len(st.unknown) > 0 {
				r.Violate("adapter (concurrent): broadcast sends to an id the socket store does not hold", "%v; %s", st.unknown, ctx)
			}
			// afterwards the indexes must be the net effect of the mutators in some order
			final := map[string]bool{}
			for _, s := range allOrders(init, ops, sp) {
				final[s.key()] = true
			}
			rooms, sids, _ := adapter.VerifDump(a)
			real := amodel{}
			for i, id := range sockIDs {
				rs, ok := sids[string(id)]
				real.present[i] = ok
				for _, rn := range rs {
					for b, name := range roomNames {
						if string(name) == rn {
							real.rows[i] |= 1 << b
						}
					}
				}
			}
			if !final[real.key()] {
				r.Violate("adapter (concurrent): membership after racing changes is not their net effect in any order", "indexes %s; %s", canonOf(rooms, sids), ctx)
			}
			checkIndexes("adapter (concurrent)", a, real, "racing changes", func(key, detail string) { r.Violate(key, "%s; %s", detail, ctx) })
			return r
		}
	}
	return sc
}

// allOrders returns the states all mutators leave when applied in any order consistent with real time.
func allOrders(init amodel, ops []aop, sp []span) []amodel {
	// every operation has ended: ask for the states "possible" in an interval after all of them
	max := 0
	for _, s := range sp {
		if s.post > max {
			max = s.post
		}
	}
	return possibleStates(init, ops, sp, max+1, max+2)
}

// partCScenarios: quick = every single mutator (all interleavings) and every pair of mutators on one
// socket (<= 2 preemptions) on two matrices; thorough = all interleavings of every single mutator and
// every pair on one socket on four matrices, and of every pair on different sockets on one.
func partCScenarios(tier string) []*vx.Scenario {
	var out []*vx.Scenario
	alphabet := cAlphabet()
	mats := []int{0, 1}
	if tier == "thorough" {
		mats = []int{0, 1, 2, 3}
	}
	for _, mi := range mats {
		for T := 0; T < 4; T++ {
			for E := 0; E < 4; E++ {
				for i, o1 := range alphabet {
					out = append(out, cScenario(mi, T, E, []aop{o1}, -1))
					for _, o2 := range alphabet[i:] {
						same := o1.s == o2.s
						switch {
						case tier != "thorough" && same:
							out = append(out, cScenario(mi, T, E, []aop{o1, o2}, 2))
						case tier == "thorough" && (same || mi < 1):
							out = append(out, cScenario(mi, T, E, []aop{o1, o2}, -1))
						}
					}
				}
			}
		}
	}
	return out
}

// summarizeC replaces the per-scenario list of the evidence (thousands of entries) by sums per group.
func summarizeC(r *vx.Report) {
	list, _ := r.Extra["scenarios"].([]map[string]any)
	if len(list) == 0 {
		return
	}
	type agg struct {
		n, execs, pruned, steps, states, maxSteps, maxThreads int
		wall                                                  float64
		bounds                                                map[string]int
	}
	groups := map[string]*agg{}
	for _, s := range list {
		name, _ := s["scenario"].(string)
		f := strings.Split(name, "/")
		g := "other"
		if len(f) == 4 {
			g = fmt.Sprintf("matrix %s, %d mutator(s)", f[1], strings.Count(f[3], "+")+1)
		}
		a := groups[g]
		if a == nil {
			a = &agg{bounds: map[string]int{}}
			groups[g] = a
		}
		a.n++
		a.execs += s["executions"].(int)
		a.pruned += s["pruned_equivalent"].(int)
		a.steps += s["steps"].(int)
		a.states += s["states"].(int)
		if v := s["max_steps_per_execution"].(int); v > a.maxSteps {
			a.maxSteps = v
		}
		if v := s["max_threads"].(int); v > a.maxThreads {
			a.maxThreads = v
		}
		a.wall += s["wall_s"].(float64)
		a.bounds[s["bound_completed"].(string)]++
	}
	var out []map[string]any
	for _, g := range sortedKeys(groups) {
		a := groups[g]
		out = append(out, map[string]any{"group": g, "scenarios (one per (T,E) x mutator choice)": a.n, "executions": a.execs, "pruned_equivalent": a.pruned, "steps": a.steps,
			"states": a.states, "max_steps_per_execution": a.maxSteps, "max_threads": a.maxThreads, "cpu_s": a.wall, "bound_completed": a.bounds})
	}
	r.Extra["scenarios"] = out
}
