package main

import (
	"bufio"
	"encoding/json"
	"fmt"
	"os"
	"os/exec"
	"runtime"
	"sort"
	"strconv"
	"strings"
	"sync"
	"time"

	sio "github.com/karagenc/socket.io-go"
	"github.com/karagenc/socket.io-go/adapter"
	vx "github.com/karagenc/socket.io-go/internal/vexplore"
	"github.com/karagenc/socket.io-go/internal/vrig"
	"github.com/karagenc/socket.io-go/internal/vsched"
)

// ---------------------------------------------------------------- B: server level over rig R1
//
// The reference model is the same amodel as at adapter level: present = connected, rows = named rooms
// (bits 0..2) plus the socket's own-id room (bit 3+i), which every socket joins when it connects.

type bop struct {
	Kind string // Join Leave LeaveOwn Disconnect ClientDisconnect SocketsJoin SocketsLeave DisconnectSockets ViaJoin ViaDisconnect
	S    int    // socket index (socket operations, Via*)
	R    int    // rooms joined / left
	T, E int    // operator selection
}

func (o bop) String() string {
	switch o.Kind {
	case "Join", "Leave":
		return fmt.Sprintf("s%d.%s(%s)", o.S+1, o.Kind, maskStr(o.R))
	case "LeaveOwn":
		return fmt.Sprintf("s%d.Leave(own id room)", o.S+1)
	case "Disconnect":
		return fmt.Sprintf("s%d.Disconnect(false)", o.S+1)
	case "ClientDisconnect":
		return fmt.Sprintf("client%d sends DISCONNECT", o.S+1)
	case "DisconnectSockets":
		return fmt.Sprintf("nsp.To%s.Except%s.DisconnectSockets(false)", maskStr(o.T), maskStr(o.E))
	case "ViaJoin":
		return fmt.Sprintf("s%d.Broadcast().SocketsJoin(%s)", o.S+1, maskStr(o.R))
	case "ViaDisconnect":
		return fmt.Sprintf("s%d.Broadcast().DisconnectSockets(false)", o.S+1)
	}
	return fmt.Sprintf("nsp.To%s.Except%s.%s(%s)", maskStr(o.T), maskStr(o.E), o.Kind, maskStr(o.R))
}

func bHistStr(h []bop) string {
	var s []string
	for _, o := range h {
		s = append(s, o.String())
	}
	return strings.Join(s, " ; ")
}

func bInitial() amodel {
	m := amodel{}
	for i := range m.rows {
		m.present[i] = true
		m.rows[i] = idRoomBit(i)
	}
	return m
}

func bApply(m *amodel, o bop) {
	each := func(T, E int, f func(i int)) {
		sel := refSelect(*m, T, E)
		for i := range sel {
			if sel[i] {
				f(i)
			}
		}
	}
	gone := func(i int) { m.present[i] = false; m.rows[i] = 0 }
	switch o.Kind {
	case "Join":
		if m.present[o.S] {
			m.rows[o.S] |= o.R
		}
	case "Leave":
		m.rows[o.S] &^= o.R
	case "LeaveOwn":
		m.rows[o.S] &^= idRoomBit(o.S)
	case "Disconnect", "ClientDisconnect":
		gone(o.S)
	case "SocketsJoin":
		each(o.T, o.E, func(i int) { m.rows[i] |= o.R })
	case "SocketsLeave":
		each(o.T, o.E, func(i int) { m.rows[i] &^= o.R })
	case "DisconnectSockets":
		each(o.T, o.E, gone)
	case "ViaJoin":
		each(0, idRoomBit(o.S), func(i int) { m.rows[i] |= o.R })
	case "ViaDisconnect":
		each(0, idRoomBit(o.S), gone)
	}
}

func bAlphabet(nrooms int) []bop {
	var ops []bop
	for s := 0; s < 3; s++ {
		for r := 0; r < nrooms; r++ {
			ops = append(ops, bop{Kind: "Join", S: s, R: 1 << r}, bop{Kind: "Leave", S: s, R: 1 << r})
		}
		ops = append(ops, bop{Kind: "LeaveOwn", S: s}, bop{Kind: "Disconnect", S: s}, bop{Kind: "ClientDisconnect", S: s})
	}
	pairs := [][2]int{{0, 0}, {1, 0}, {0, 1}, {1, 2}, {3, 0}, {2, 1}}
	joinRoom := 2
	if nrooms == 3 {
		pairs = opPairs
		joinRoom = 4
	}
	for _, p := range pairs {
		ops = append(ops,
			bop{Kind: "SocketsJoin", T: p[0], E: p[1], R: joinRoom},
			bop{Kind: "SocketsLeave", T: p[0], E: p[1], R: 1},
			bop{Kind: "DisconnectSockets", T: p[0], E: p[1]})
	}
	ops = append(ops, bop{Kind: "SocketsJoin", R: 3}, bop{Kind: "ViaJoin", S: 0, R: 1}, bop{Kind: "ViaDisconnect", S: 0})
	return ops
}

// seeded non-initial membership matrices (set-up histories, not counted in the depth)
var bSeeds = [][]bop{
	nil,
	{{Kind: "Join", S: 0, R: 1}, {Kind: "Join", S: 1, R: 3}, {Kind: "Join", S: 2, R: 2}},
	{{Kind: "SocketsJoin", R: 1}},
	{{Kind: "Join", S: 0, R: 3}, {Kind: "Disconnect", S: 2}},
	{{Kind: "LeaveOwn", S: 0}, {Kind: "Join", S: 1, R: 2}},
	// thorough only from here
	{{Kind: "SocketsJoin", R: 3}},
	{{Kind: "ClientDisconnect", S: 1}, {Kind: "Join", S: 0, R: 2}, {Kind: "Join", S: 2, R: 1}},
	{{Kind: "Join", S: 0, R: 1}, {Kind: "Join", S: 1, R: 1}},
	{{Kind: "Join", S: 1, R: 2}, {Kind: "Disconnect", S: 0}, {Kind: "Disconnect", S: 2}},
}

type bItem struct {
	nrooms int
	setup  []bop
	hist   []bop
	// recovery: the server runs with connection state recovery, i.e. on the session-aware adapter, whose
	// Broadcast is its own code path (encode once, log, fan out the frames)
	recovery bool
	// pre: index into preProgs - what a namespace middleware does to the FIRST socket before it is connected
	pre int
}

// preProgs: joins and leaves issued from a namespace middleware, i.e. before the socket is connected (its
// own-id room is joined afterwards). Membership is the net effect of ALL joins and leaves of the socket.
var preProgs = [][]bop{
	nil,
	{{Kind: "Join", R: 1}, {Kind: "Leave", R: 1}},
	{{Kind: "Join", R: 3}, {Kind: "Leave", R: 1}},
	{{Kind: "Join", R: 2}},
	{{Kind: "Leave", R: 1}, {Kind: "Join", R: 1}},
}

// bItems enumerates, on the model alone, the histories to replay: BFS from every seed, deduplicated
// by the model state, every operation of the alphabet out of every state found within the depth.
func bItems(tier string) (items []bItem, states int, desc []map[string]any) {
	type cfg struct {
		nrooms, depth, seeds int
	}
	cfgs := []cfg{{2, 3, 5}}
	if tier == "thorough" {
		cfgs = []cfg{{2, 4, len(bSeeds)}, {3, 3, len(bSeeds)}}
	}
	for _, c := range cfgs {
		ops := bAlphabet(c.nrooms)
		type node struct {
			setup, hist []bop
			m           amodel
		}
		seen := map[string]bool{}
		var frontier []node
		n0 := len(items)
		st := 0
		for _, seed := range bSeeds[:c.seeds] {
			m := bInitial()
			for _, o := range seed {
				bApply(&m, o)
			}
			if seen[m.key()] {
				continue
			}
			seen[m.key()] = true
			st++
			frontier = append(frontier, node{seed, nil, m})
			items = append(items, bItem{c.nrooms, seed, nil, false, 0}, bItem{c.nrooms, seed, nil, true, 0})
		}
		for d := 0; d < c.depth; d++ {
			var next []node
			for _, n := range frontier {
				for _, o := range ops {
					hist := append(append([]bop{}, n.hist...), o)
					items = append(items, bItem{c.nrooms, n.setup, hist, false, 0}, bItem{c.nrooms, n.setup, hist, true, 0})
					m := n.m
					bApply(&m, o)
					if !seen[m.key()] {
						seen[m.key()] = true
						st++
						next = append(next, node{n.setup, hist, m})
					}
				}
			}
			frontier = next
		}
		if c.nrooms == 2 {
			// joins / leaves before the connection is complete, then the empty history and every single operation
			n1 := len(items)
			for pre := 1; pre < len(preProgs); pre++ {
				for _, rec := range []bool{false, true} {
					items = append(items, bItem{c.nrooms, nil, nil, rec, pre})
					for _, o := range ops {
						items = append(items, bItem{c.nrooms, nil, []bop{o}, rec, pre})
					}
				}
			}
			desc = append(desc, map[string]any{"named_rooms": c.nrooms, "pre_connect_middleware_programs": len(preProgs) - 1, "depth": 1, "histories": len(items) - n1})
		}
		states += st
		desc = append(desc, map[string]any{"named_rooms": c.nrooms, "depth": c.depth, "seeds": c.seeds, "alphabet": len(ops), "model_states": st, "histories": len(items) - n0, "frontier_left": len(frontier)})
	}
	return
}

// ---------------------------------------------------------------- one replay on a fresh real server

type bViolation struct {
	Item   int    `json:"item"`
	Len    int    `json:"len"`
	Key    string `json:"key"`
	Msg    string `json:"msg"`
	Replay any    `json:"replay"`
}

type bOut struct {
	Replays     int          `json:"replays"`
	Ops         int          `json:"ops"`
	Broadcasts  int          `json:"broadcasts"`
	Frames      int          `json:"frames"`
	Violations  []bViolation `json:"violations"`
	HarnessErrs []string     `json:"harness_errs"`
	Sample      string       `json:"sample"`
}

type expect struct {
	desc   string
	T, E   int
	sender int // -1: through the namespace
	m      amodel
}

func replayB(idx int, it bItem, out *bOut) {
	full := append(append([]bop{}, it.setup...), it.hist...)
	replay := map[string]any{"part": "B", "setup": bHistStr(it.setup), "history": bHistStr(it.hist), "named_rooms": it.nrooms, "setup_ops": it.setup, "ops": it.hist, "recovery": it.recovery, "pre": it.pre}
	seenKey := map[string]bool{}
	viol := func(key, detail string) {
		if seenKey[key] {
			return
		}
		seenKey[key] = true
		ad := ""
		if it.recovery {
			ad = " (connection state recovery on: session-aware adapter)"
		}
		if it.pre > 0 {
			ad += fmt.Sprintf(" (a namespace middleware did [%s] on s1 before it was connected)", strings.ReplaceAll(bHistStr(preProgs[it.pre]), "s1.", ""))
		}
		out.Violations = append(out.Violations, bViolation{idx, len(full), key, fmt.Sprintf("set-up [%s] history [%s]%s: %s", bHistStr(it.setup), bHistStr(it.hist), ad, detail), replay})
	}
	finished := false
	e := vsched.Run(vsched.Options{Horizon: 40 * time.Second}, func(e *vsched.Exec) {
		scfg := &sio.ServerConfig{}
		scfg.ServerConnectionStateRecovery.Enabled = it.recovery
		srv := sio.NewServer(scfg)
		nsp := srv.Of("/")
		var v vsched.Var
		var socks []sio.ServerSocket
		nsp.OnConnection(func(s sio.ServerSocket) { v.Do(func() { socks = append(socks, s) }) })
		if it.pre > 0 {
			admitted := 0
			nsp.Use(func(s sio.ServerSocket, h *sio.Handshake) any {
				first := false
				v.Do(func() { first = admitted == 0; admitted++ })
				if first {
					for _, o := range preProgs[it.pre] {
						if o.Kind == "Join" {
							s.Join(roomsOf(o.R)...)
						} else {
							s.Leave(roomsOf(o.R)[0])
						}
					}
				}
				return nil
			})
		}
		var fakes [3]*vrig.FakeEIO
		for i := range fakes {
			fakes[i] = vrig.NewFakeEIO(srv, fmt.Sprintf("c04-%d", i))
			fakes[i].ConnectNS("/")
			n := i + 1
			vsched.Await(func() bool { return len(socks) == n })
		}
		vrig.Settle(100 * time.Millisecond)
		ids := make([]string, 3)
		for i, s := range socks {
			ids[i] = string(s.ID())
		}
		// room bit -> real room name; real id -> s1..s3 for the dump
		room := func(b int) sio.Room {
			if b < 3 {
				return roomNames[b]
			}
			return sio.Room(ids[b-3])
		}
		rooms := func(mask int) []sio.Room {
			var l []sio.Room
			for b := 0; b < 6; b++ {
				if mask&(1<<b) != 0 {
					l = append(l, room(b))
				}
			}
			return l
		}
		alias := func(s string) string {
			for i, id := range ids {
				if id == s {
					return string(sockIDs[i])
				}
			}
			return s
		}
		m := bInitial()
		for _, o := range preProgs[it.pre] {
			bApply(&m, o) // S is 0: the first socket
		}
		check := func(lastKind string) bool {
			ok := true
			lv := func(key, detail string) { ok = false; viol(key, detail) }
			rr, ss, _ := adapter.VerifDump(nsp.Adapter())
			tr, ts := map[string][]string{}, map[string][]string{}
			for r, l := range rr {
				var t []string
				for _, s := range l {
					t = append(t, alias(s))
				}
				sort.Strings(t)
				tr[alias(r)] = t
			}
			for s, l := range ss {
				var t []string
				for _, r := range l {
					t = append(t, alias(r))
				}
				sort.Strings(t)
				ts[alias(s)] = t
			}
			checkDump("server", tr, ts, m, lastKind, lv)
			for i, s := range socks {
				got := s.Rooms()
				want := rooms(m.rows[i])
				same := got.Cardinality() == len(want)
				for _, w := range want {
					same = same && got.Contains(w)
				}
				if !same {
					var g []string
					for _, x := range got.ToSlice() {
						g = append(g, alias(string(x)))
					}
					sort.Strings(g)
					if !m.present[i] {
						lv("server: a disconnected socket is still in a room (after "+lastKind+")", fmt.Sprintf("s%d.Rooms()=%v", i+1, g))
					} else {
						lv("server: membership after "+lastKind+" differs from the net effect of the joins and leaves", fmt.Sprintf("s%d.Rooms()=%v, model %s", i+1, g, maskStr(m.rows[i])))
					}
				}
			}
			return ok
		}
		if !check("connect") {
			finished = true
			return
		}
		for _, o := range full {
			s := socks[o.S]
			switch o.Kind {
			case "Join":
				s.Join(rooms(o.R)...)
			case "Leave":
				s.Leave(rooms(o.R)[0])
			case "LeaveOwn":
				s.Leave(room(3 + o.S))
			case "Disconnect":
				s.Disconnect(false)
			case "ClientDisconnect":
				fakes[o.S].In("1")
			case "SocketsJoin":
				nsp.To(rooms(o.T)...).Except(rooms(o.E)...).SocketsJoin(rooms(o.R)...)
			case "SocketsLeave":
				nsp.To(rooms(o.T)...).Except(rooms(o.E)...).SocketsLeave(rooms(o.R)...)
			case "DisconnectSockets":
				nsp.To(rooms(o.T)...).Except(rooms(o.E)...).DisconnectSockets(false)
			case "ViaJoin":
				s.Broadcast().SocketsJoin(rooms(o.R)...)
			case "ViaDisconnect":
				s.Broadcast().DisconnectSockets(false)
			}
			out.Ops++
			bApply(&m, o)
			vrig.Settle(100 * time.Millisecond)
			if !check(o.Kind) {
				finished = true
				return // reported; what follows would only repeat it
			}
		}
		// ---- broadcasts: every (T,E) over the named rooms through the namespace and through every socket
		var exps []expect
		emit := func(op *sio.BroadcastOperator, x expect) {
			exps = append(exps, x)
			op.Emit("b", len(exps)-1)
		}
		univ := 1<<it.nrooms - 1
		for _, T := range submasks(univ) {
			for _, E := range submasks(univ) {
				emit(nsp.To(rooms(T)...).Except(rooms(E)...), expect{fmt.Sprintf("nsp.To%s.Except%s.Emit", maskStr(T), maskStr(E)), T, E, -1, m})
				for i, s := range socks {
					var op *sio.BroadcastOperator
					d := fmt.Sprintf("s%d", i+1)
					switch {
					case T != 0:
						op = s.To(rooms(T)...)
						d += ".To" + maskStr(T)
					case E != 0:
						op = s.Except(rooms(E)...)
					default:
						op = s.Broadcast()
						d += ".Broadcast()"
					}
					if E != 0 {
						if T != 0 {
							op = op.Except(rooms(E)...)
						}
						d += ".Except" + maskStr(E)
					}
					emit(op, expect{d + ".Emit", T, E, i, m})
					// the same selection through the socket's other entry points (seed c04i: Local() built from
					// the namespace's operator, without the sender's exclusion)
					lop, ld := s.Local(), fmt.Sprintf("s%d.Local()", i+1)
					if T != 0 {
						lop, ld = lop.To(rooms(T)...), ld+".To"+maskStr(T)
					}
					if E != 0 {
						lop, ld = lop.Except(rooms(E)...), ld+".Except"+maskStr(E)
					}
					emit(lop, expect{ld + ".Emit", T, E, i, m})
					if T != 0 {
						iop, id := s.In(rooms(T)...), fmt.Sprintf("s%d.In%s", i+1, maskStr(T))
						if E != 0 {
							iop, id = iop.Except(rooms(E)...), id+".Except"+maskStr(E)
						}
						emit(iop.Compress(true), expect{id + ".Compress(true).Emit", T, E, i, m})
					}
				}
				// ... and the namespace's: Local(), In(), Compress()
				emit(nsp.Local().In(rooms(T)...).Except(rooms(E)...), expect{fmt.Sprintf("nsp.Local().In%s.Except%s.Emit", maskStr(T), maskStr(E)), T, E, -1, m})
				emit(nsp.Compress(false).Except(rooms(E)...).To(rooms(T)...), expect{fmt.Sprintf("nsp.Compress(false).Except%s.To%s.Emit", maskStr(E), maskStr(T)), T, E, -1, m})
			}
		}
		exps = append(exps, expect{"nsp.Emit", 0, 0, -1, m})
		nsp.Emit("b", len(exps)-1)
		for i := range socks {
			// the private room of a socket: reaches exactly that socket while it is in it
			emit(nsp.To(room(3+i)), expect{fmt.Sprintf("nsp.To(id of s%d).Emit", i+1), idRoomBit(i), 0, -1, m})
		}
		out.Broadcasts += len(exps)
		vrig.Settle(time.Second)
		got := make([][]int, len(exps))
		for k := range got {
			got[k] = make([]int, 3)
		}
		for i, f := range fakes {
			for _, t := range f.Texts() {
				if !strings.HasPrefix(t, `2["b",`) {
					continue
				}
				out.Frames++
				body := strings.TrimSuffix(strings.TrimPrefix(t, `2["b",`), "]")
				if it.recovery {
					// with recovery every logged event carries its offset as an extra last argument
					if j := strings.Index(body, `,"`); j >= 0 && strings.HasSuffix(body, `"`) {
						body = body[:j]
					}
				}
				k, err := strconv.Atoi(body)
				if err != nil || k < 0 || k >= len(exps) {
					viol("server: a connection received an EVENT frame nobody emitted", fmt.Sprintf("client%d got %q", i+1, t))
					continue
				}
				got[k][i]++
			}
		}
		for k, x := range exps {
			lv := func(key, detail string) {
				viol(key, fmt.Sprintf("%s on membership %s: %s", x.desc, x.m.key(), detail))
			}
			mm, E, g := x.m, x.E, got[k]
			if x.sender >= 0 {
				i := x.sender
				if g[i] > 0 {
					if mm.present[i] && mm.rows[i]&idRoomBit(i) == 0 {
						lv("server: broadcast through a socket that left its own-id room reaches the sender", fmt.Sprintf("s%d received its own broadcast %d time(s)", i+1, g[i]))
					} else {
						lv("server: broadcast through a socket reaches the sender", fmt.Sprintf("s%d received its own broadcast %d time(s)", i+1, g[i]))
					}
				}
				// the sender is judged above; the others against E + the sender's id room
				g = append([]int{}, g...)
				g[i] = 0
				mm.rows[i] |= idRoomBit(i)
				E |= idRoomBit(i)
			}
			judgeSel("server", mm, x.T, E, g, lv)
		}
		finished = true
	})
	out.Replays++
	switch {
	case e.HarnessErr != "":
		out.HarnessErrs = append(out.HarnessErrs, fmt.Sprintf("B item %d [%s]: %s", idx, bHistStr(full), e.HarnessErr))
	case len(e.Panics) > 0:
		viol("server: panic in a membership history", fmt.Sprint(e.Panics))
	case e.Deadlock != "":
		viol("server: deadlock in a membership history", e.Deadlock)
	case !finished:
		out.HarnessErrs = append(out.HarnessErrs, fmt.Sprintf("B item %d [%s]: replay body did not run to its end", idx, bHistStr(full)))
	}
}

// ---------------------------------------------------------------- workers and coordinator

func partBWorker(args []string) {
	tier := args[0]
	shard, _ := strconv.Atoi(args[1])
	n, _ := strconv.Atoi(args[2])
	deadline, _ := strconv.ParseInt(args[3], 10, 64)
	items, _, _ := bItems(tier)
	out := &bOut{}
	capped := -1
	for i, it := range items {
		if i%n != shard {
			continue
		}
		if time.Now().UnixMilli() > deadline {
			capped = i
			break
		}
		replayB(i, it, out)
		if out.Sample == "" && len(it.hist) >= 2 && len(it.setup) > 0 {
			out.Sample = fmt.Sprintf("set-up [%s] history [%s]", bHistStr(it.setup), bHistStr(it.hist))
		}
	}
	b, _ := json.Marshal(map[string]any{"out": out, "capped_at": capped})
	w := bufio.NewWriter(os.Stdout)
	w.WriteString("RESULTB " + string(b) + "\n")
	w.Flush()
}

func procsFlag() int {
	n := runtime.NumCPU()
	for i, a := range os.Args {
		if (a == "-procs" || a == "--procs") && i+1 < len(os.Args) {
			if v, err := strconv.Atoi(os.Args[i+1]); err == nil {
				n = v
			}
		}
		if strings.HasPrefix(a, "-procs=") {
			if v, err := strconv.Atoi(strings.TrimPrefix(a, "-procs=")); err == nil {
				n = v
			}
		}
	}
	if n > 8 {
		n = 8
	}
	if n < 1 {
		n = 1
	}
	return n
}

// partB starts the worker processes and returns the function that waits for them and merges their
// results into the report.
func partB(tier string, r *vx.Report) (join func()) {
	items, states, desc := bItems(tier)
	n := procsFlag()
	budget := 40 * time.Second
	if tier == "thorough" {
		budget = 7 * time.Minute
	}
	deadline := time.Now().Add(budget).UnixMilli()
	self, _ := os.Executable()
	outs := make([]*bOut, n)
	capped := make([]int, n)
	errs := make([]string, n)
	var wg sync.WaitGroup
	for k := 0; k < n; k++ {
		k := k
		wg.Add(1)
		go func() {
			defer wg.Done()
			cmd := exec.Command(self, "-c04b", tier, strconv.Itoa(k), strconv.Itoa(n), strconv.FormatInt(deadline, 10))
			cmd.Env = append(os.Environ(), "GOMAXPROCS=2")
			var stderr strings.Builder
			cmd.Stderr = &stderr
			b, err := cmd.Output()
			var res struct {
				Out      *bOut `json:"out"`
				CappedAt int   `json:"capped_at"`
			}
			found := false
			for _, line := range strings.Split(string(b), "\n") {
				if strings.HasPrefix(line, "RESULTB ") {
					found = json.Unmarshal([]byte(line[8:]), &res) == nil && res.Out != nil
				}
			}
			if !found {
				tail := stderr.String()
				if len(tail) > 2000 {
					tail = tail[:1000] + "\n...\n" + tail[len(tail)-1000:]
				}
				errs[k] = fmt.Sprintf("part B worker %d died (%v): %s", k, err, tail)
				return
			}
			outs[k], capped[k] = res.Out, res.CappedAt
		}()
	}
	return func() {
		wg.Wait()
		var all []bViolation
		replays, ops, bc, frames := 0, 0, 0, 0
		sample := ""
		for k := 0; k < n; k++ {
			if errs[k] != "" {
				r.HarnessErrs = append(r.HarnessErrs, errs[k])
				continue
			}
			o := outs[k]
			replays += o.Replays
			ops += o.Ops
			bc += o.Broadcasts
			frames += o.Frames
			all = append(all, o.Violations...)
			r.HarnessErrs = append(r.HarnessErrs, o.HarnessErrs...)
			if capped[k] >= 0 {
				r.CapsHit = append(r.CapsHit, fmt.Sprintf("B: worker %d hit the deadline at history %d of %d", k, capped[k], len(items)))
			}
			if sample == "" {
				sample = o.Sample
			}
		}
		sort.SliceStable(all, func(i, j int) bool { // smallest history first
			if all[i].Len != all[j].Len {
				return all[i].Len < all[j].Len
			}
			return all[i].Item < all[j].Item
		})
		for _, v := range all {
			r.Violate(v.Key, v.Msg, v.Replay)
		}
		nontrivial := 0
		for _, it := range items {
			if len(it.setup)+len(it.hist) >= 2 {
				nontrivial++
			}
		}
		r.Evaluations += bc
		r.States += states
		r.Transitions += ops
		r.TracesValidated += replays
		r.DistinctNontriv += nontrivial
		r.Extra["B/server-level"] = map[string]any{"configurations": desc, "histories_replayed_on_fresh_real_server": replays, "operations_replayed": ops,
			"broadcasts_emitted_and_judged": bc, "event_frames_counted": frames, "worker_processes": n}
		if sample != "" {
			r.Sample(map[string]any{"part": "B", "history": sample, "checked": "adapter indexes and Rooms() equal the model after every step; every (T,E) through nsp and through each socket, EVENT frames counted per connection"})
		}
	}
}
