package main

import (
	"fmt"
	"sort"
	"strings"
	"time"

	mapset "github.com/deckarep/golang-set/v2"

	"github.com/karagenc/socket.io-go/adapter"
	vx "github.com/karagenc/socket.io-go/internal/vexplore"
	"github.com/karagenc/socket.io-go/parser"
	jsonparser "github.com/karagenc/socket.io-go/parser/json"
	"github.com/karagenc/socket.io-go/parser/json/serializer/stdjson"
)

// ---------------------------------------------------------------- rig: real adapter, recording store

var sockIDs = []adapter.SocketID{"s1", "s2", "s3"}

// idRoomBit is the bit of the room named after socket i's id (rooms 3..5 of allRooms).
func idRoomBit(i int) int { return 1 << (3 + i) }

func init() {
	// rooms 0..2 are the named rooms, rooms 3..5 are the sockets' own-id rooms
	for _, s := range sockIDs {
		roomNames = append(roomNames, adapter.Room(s))
	}
}

// hSocket is the harness's adapter.Socket: it forwards membership calls to the adapter exactly like
// the real server socket does (Join -> AddAll, Leave -> Delete, Disconnect -> DeleteAll).
type hSocket struct {
	id adapter.SocketID
	a  adapter.Adapter
}

func (s *hSocket) ID() adapter.SocketID      { return s.id }
func (s *hSocket) Join(room ...adapter.Room) { s.a.AddAll(s.id, room) }
func (s *hSocket) Leave(room adapter.Room)   { s.a.Delete(s.id, room) }
func (s *hSocket) Emit(string, ...any)       {}
func (s *hSocket) Disconnect(close bool)     { s.a.DeleteAll(s.id) }
func (s *hSocket) op() *adapter.BroadcastOperator {
	return adapter.NewBroadcastOperator("/", s.a, notReserved).Except(adapter.Room(s.id))
}
func (s *hSocket) To(room ...adapter.Room) *adapter.BroadcastOperator { return s.op().To(room...) }
func (s *hSocket) In(room ...adapter.Room) *adapter.BroadcastOperator { return s.op().To(room...) }
func (s *hSocket) Except(room ...adapter.Room) *adapter.BroadcastOperator {
	return s.op().Except(room...)
}
func (s *hSocket) Broadcast() *adapter.BroadcastOperator { return s.op() }

func notReserved(string) bool { return false }

// recStore is the recording adapter.SocketStore.
type recStore struct {
	socks    map[adapter.SocketID]*hSocket
	sent     map[adapter.SocketID]int
	payloads map[string]int
	unknown  []string // SendBuffers for ids the store does not hold
}

func (st *recStore) SendBuffers(sid adapter.SocketID, buffers [][]byte) bool {
	if _, ok := st.socks[sid]; !ok {
		st.unknown = append(st.unknown, string(sid))
		return false
	}
	st.sent[sid]++
	var b strings.Builder
	for i, x := range buffers {
		if i > 0 {
			b.WriteByte('|')
		}
		b.Write(x)
	}
	st.payloads[b.String()]++
	return true
}

func (st *recStore) Get(sid adapter.SocketID) (adapter.Socket, bool) {
	s, ok := st.socks[sid]
	if !ok {
		return nil, false
	}
	return s, true
}

func (st *recStore) GetAll() []adapter.Socket {
	var out []adapter.Socket
	for _, id := range sockIDs {
		if s, ok := st.socks[id]; ok {
			out = append(out, s)
		}
	}
	return out
}

func (st *recStore) Remove(sid adapter.SocketID) { delete(st.socks, sid) }

func (st *recStore) reset() {
	st.sent = map[adapter.SocketID]int{}
	st.payloads = map[string]int{}
	st.unknown = nil
}

func (st *recStore) counts() []int {
	out := make([]int, len(sockIDs))
	for i, id := range sockIDs {
		out[i] = st.sent[id]
	}
	return out
}

var parserCreator = jsonparser.NewCreator(0, stdjson.New())

func newRig() (adapter.Adapter, *recStore) {
	st := &recStore{socks: map[adapter.SocketID]*hSocket{}}
	st.reset()
	a := adapter.NewInMemoryAdapterCreator()(st, parserCreator)
	for _, id := range sockIDs {
		st.socks[id] = &hSocket{id: id, a: a}
	}
	return a, st
}

// optsOf builds the options with thread-unsafe sets: their iteration order is fixed (sorted) in the
// instrumented build, while the thread-safe set's Each walks its map in Go's random order, which would
// make executions irreproducible. (The BroadcastOperator paths use the library's own thread-safe sets.)
func optsOf(T, E int) *adapter.BroadcastOptions {
	o := adapter.NewBroadcastOptions()
	o.Rooms = mapset.NewThreadUnsafeSet[adapter.Room](roomsOf(T)...)
	o.Except = mapset.NewThreadUnsafeSet[adapter.Room](roomsOf(E)...)
	return o
}

var evHeader = func() *parser.PacketHeader {
	return &parser.PacketHeader{Type: parser.PacketTypeEvent, Namespace: "/"}
}

// ---------------------------------------------------------------- reference model

// amodel: per socket whether the adapter knows it (present) and the mask of rooms it is in.
type amodel struct {
	present [3]bool
	rows    [3]int
}

func (m amodel) key() string {
	var b strings.Builder
	for i := range m.rows {
		if m.present[i] {
			fmt.Fprintf(&b, "%s%s ", sockIDs[i], maskStr(m.rows[i]))
		} else {
			fmt.Fprintf(&b, "%s- ", sockIDs[i])
		}
	}
	return b.String()
}

// refSelect is the property's selection: present, (T empty or in some room of T), in no room of E.
func refSelect(m amodel, T, E int) [3]bool {
	var out [3]bool
	for i := range m.rows {
		out[i] = m.present[i] && (T == 0 || m.rows[i]&T != 0) && m.rows[i]&E == 0
	}
	return out
}

// judgeSel compares what a selecting call reached (got[i] = number of times socket i was reached)
// with the reference selection.
func judgeSel(level string, m amodel, T, E int, got []int, viol func(key, detail string)) {
	want := refSelect(m, T, E)
	for i := range m.rows {
		who := fmt.Sprintf("socket %s (rooms %s)", sockIDs[i], maskStr(m.rows[i]))
		if !m.present[i] {
			who = fmt.Sprintf("socket %s (not in the namespace)", sockIDs[i])
		}
		switch {
		case got[i] > 1 && popcount(m.rows[i]&T) >= 2:
			viol(level+": socket in several target rooms is reached more than once", fmt.Sprintf("%s reached %d times", who, got[i]))
		case got[i] > 1:
			viol(level+": socket is reached more than once", fmt.Sprintf("%s reached %d times", who, got[i]))
		case got[i] == 1 && !want[i] && !m.present[i]:
			viol(level+": socket that left the namespace (no room, no entry) is reached", who+" reached")
		case got[i] == 1 && !want[i] && m.rows[i]&E != 0:
			viol(level+": socket in an excluded room is reached", who+" reached")
		case got[i] == 1 && !want[i]:
			viol(level+": socket outside the target rooms is reached", who+" reached")
		case got[i] == 0 && want[i] && T == 0:
			viol(level+": broadcast without target rooms misses a socket of the namespace", who+" not reached")
		case got[i] == 0 && want[i]:
			viol(level+": socket in a target room and in no excluded room is not reached", who+" not reached")
		}
	}
}

func countSockets(l []adapter.Socket) []int {
	out := make([]int, len(sockIDs))
	for _, s := range l {
		for i, id := range sockIDs {
			if s != nil && s.ID() == id {
				out[i]++
			}
		}
	}
	return out
}

func countSet(s mapset.Set[adapter.SocketID]) []int {
	out := make([]int, len(sockIDs))
	for i, id := range sockIDs {
		if s.Contains(id) {
			out[i] = 1
		}
	}
	return out
}

// ---------------------------------------------------------------- index invariants and model equality

// checkIndexes judges the raw indexes of the adapter against the invariants and the model.
// lastKind is the kind of the operation that led here (part of the violation key).
func checkIndexes(level string, a adapter.Adapter, m amodel, lastKind string, viol func(key, detail string)) (canon string) {
	rooms, sids, ok := adapter.VerifDump(a)
	if !ok {
		viol(level+": adapter is not the in-memory adapter", fmt.Sprintf("%T", a))
		return ""
	}
	return checkDump(level, rooms, sids, m, lastKind, viol)
}

// goneKeys names the violation "a socket that must be gone is still indexed".
func goneKeys(level, lastKind string) (inSids, inRooms string) {
	if level == "server" {
		k := "server: a disconnected socket is still in a room (after " + lastKind + ")"
		return k, k
	}
	if lastKind == "DeleteAll" || lastKind == "DisconnectSockets" {
		return level + ": DeleteAll leaves the socket in the sids index", level + ": DeleteAll leaves the socket in a room of the rooms index"
	}
	k := level + ": membership after " + lastKind + " differs from the net effect of the joins and leaves"
	return k, level + ": the rooms and sids indexes are not mutually inverse"
}

// checkDump: rooms/sids are the two raw indexes with socket ids (and own-id room names) already
// translated to s1..s3.
func checkDump(level string, rooms, sids map[string][]string, m amodel, lastKind string, viol func(key, detail string)) (canon string) {
	canon = canonOf(rooms, sids)
	goneSids, goneRooms := goneKeys(level, lastKind)
	gone := func(s string) bool {
		for i, id := range sockIDs {
			if string(id) == s {
				return !m.present[i]
			}
		}
		return false
	}
	// invariants
	for _, r := range sortedKeys(rooms) {
		members := rooms[r]
		if len(members) == 0 {
			viol(level+": an empty room entry is left in the rooms index", fmt.Sprintf("room %s has no member; indexes %s", r, canon))
		}
		for _, s := range members {
			if !contains(sids[s], r) {
				if _, known := sids[s]; !known && gone(s) {
					viol(goneRooms, fmt.Sprintf("room %s lists %s which has no sids entry; indexes %s", r, s, canon))
				} else {
					viol(level+": the rooms and sids indexes are not mutually inverse", fmt.Sprintf("room %s lists %s but sids[%s]=%v; indexes %s", r, s, s, sids[s], canon))
				}
			}
		}
	}
	for _, s := range sortedKeys(sids) {
		for _, r := range sids[s] {
			if !contains(rooms[r], s) {
				viol(level+": the rooms and sids indexes are not mutually inverse", fmt.Sprintf("sids[%s] lists %s but rooms[%s]=%v; indexes %s", s, r, r, rooms[r], canon))
			}
		}
	}
	// equality with the model
	for i, id := range sockIDs {
		rs, known := sids[string(id)]
		switch {
		case known && !m.present[i]:
			viol(goneSids, fmt.Sprintf("socket %s must have no entry, sids[%s]=%v after %s; indexes %s", id, id, rs, lastKind, canon))
		case !known && m.present[i]:
			viol(level+": membership after "+lastKind+" differs from the net effect of the joins and leaves", fmt.Sprintf("socket %s must be in %s, but has no sids entry; indexes %s", id, maskStr(m.rows[i]), canon))
		case known:
			var want []string
			for _, r := range roomsOf(m.rows[i]) {
				want = append(want, string(r))
			}
			sort.Strings(want)
			if strings.Join(want, ",") != strings.Join(rs, ",") {
				viol(level+": membership after "+lastKind+" differs from the net effect of the joins and leaves", fmt.Sprintf("socket %s must be in %v, sids index says %v; indexes %s", id, want, rs, canon))
			}
		}
	}
	for _, s := range sortedKeys(sids) {
		known := false
		for _, id := range sockIDs {
			known = known || string(id) == s
		}
		if !known {
			viol(level+": the sids index holds a socket nobody added", fmt.Sprintf("%s; indexes %s", s, canon))
		}
	}
	return canon
}

func contains(l []string, x string) bool {
	for _, y := range l {
		if y == x {
			return true
		}
	}
	return false
}

func canonOf(rooms, sids map[string][]string) string {
	var b strings.Builder
	b.WriteString("rooms[")
	for _, r := range sortedKeys(rooms) {
		fmt.Fprintf(&b, "%s:%s ", r, strings.Join(rooms[r], ","))
	}
	b.WriteString("] sids[")
	for _, s := range sortedKeys(sids) {
		fmt.Fprintf(&b, "%s:%s ", s, strings.Join(sids[s], ","))
	}
	b.WriteString("]")
	return b.String()
}

// ---------------------------------------------------------------- A(i): membership matrices

// sink receives violations (the report, or a recorder when a replay file is re-run).
type sink interface {
	Violate(key, msg string, replay any)
}

type aStats struct {
	evals, nontrivial int
}

// submasks lists the subsets of univ, the empty set first.
func submasks(univ int) []int {
	var out []int
	for m := 0; m <= univ; m++ {
		if m&^univ == 0 {
			out = append(out, m)
		}
	}
	return out
}

// evalMatrix builds the membership m on a fresh real adapter with AddAll and evaluates every (T,E)
// over the rooms in univ through every selecting method.
func evalMatrix(variant string, m amodel, univ int, r sink, stats *aStats) {
	a, st := newRig()
	for i, id := range sockIDs {
		if m.present[i] {
			a.AddAll(id, roomsOf(m.rows[i]))
		}
	}
	viol := func(method string, T, E int) func(key, detail string) {
		return func(key, detail string) {
			r.Violate(key, fmt.Sprintf("membership %s(%s), T=%s E=%s, %s: %s", m.key(), variant, maskStr(T), maskStr(E), method, detail),
				map[string]any{"part": "A.i", "variant": variant, "membership": m.key(), "T": maskStr(T), "E": maskStr(E), "method": method,
					"present": m.present, "rows": m.rows, "univ": univ})
		}
	}
	checkIndexes("adapter", a, m, "AddAll", viol("AddAll x3", 0, 0))
	members := 0
	for i := range m.rows {
		members += popcount(m.rows[i])
	}
	root := adapter.NewBroadcastOperator("/", a, notReserved)
	subs := submasks(univ)
	n := 0
	emit := func(method string, T, E int, f func(n int)) {
		n++
		st.reset()
		f(n)
		stats.evals++
		judgeSel("adapter", m, T, E, st.counts(), viol(method, T, E))
		want := fmt.Sprintf(`2["ev",%d]`, n)
		for p := range st.payloads {
			if p != want {
				viol(method, T, E)("adapter: broadcast delivers a payload other than the encoded event", fmt.Sprintf("got %q, want %q", p, want))
			}
		}
		if len(st.unknown) > 0 {
			viol(method, T, E)("adapter: broadcast sends to an id the socket store does not hold", fmt.Sprint(st.unknown))
		}
	}
	fetch := func(method string, T, E int, f func() []adapter.Socket) {
		stats.evals++
		judgeSel("adapter", m, T, E, countSockets(f()), viol(method, T, E))
	}
	for _, T := range subs {
		bT := root.To(roomsOf(T)...)
		// E = {} last, through bT itself: Except() on bT must not have changed bT (operators are immutable)
		order := append(append([]int{}, subs[1:]...), 0)
		for _, E := range order {
			T, E := T, E
			if members > 0 && (T != 0 || E != 0) {
				stats.nontrivial++
			}
			emit("adapter.Broadcast", T, E, func(n int) { a.Broadcast(evHeader(), []any{"ev", n}, optsOf(T, E)) })
			fetch("adapter.FetchSockets", T, E, func() []adapter.Socket { return a.FetchSockets(optsOf(T, E)) })
			op := bT
			if E != 0 {
				op = bT.Except(roomsOf(E)...)
			}
			emit("BroadcastOperator.To.Except.Emit", T, E, func(n int) { op.Emit("ev", n) })
			fetch("BroadcastOperator.To.Except.FetchSockets", T, E, op.FetchSockets)
			// the same selection built by chaining: one room per call (To, In alternating; Except), and the
			// first room alone followed by the rest - "to emit to multiple rooms, you can call To several times"
			if popcount(T) > 1 || popcount(E) > 1 {
				one, split := root, root
				for i, rm := range roomsOf(T) {
					if i%2 == 0 {
						one = one.To(rm)
					} else {
						one = one.In(rm)
					}
				}
				for _, rm := range roomsOf(E) {
					one = one.Except(rm)
				}
				if rt := roomsOf(T); len(rt) > 1 {
					split = split.To(rt[:len(rt)-1]...).To(rt[len(rt)-1])
				} else {
					split = split.To(rt...)
				}
				if re := roomsOf(E); len(re) > 1 {
					split = split.Except(re[:len(re)-1]...).Except(re[len(re)-1])
				} else if len(re) == 1 {
					split = split.Except(re...)
				}
				emit("BroadcastOperator chained one room per call (To/In/Except).Emit", T, E, func(n int) { one.Emit("ev", n) })
				fetch("BroadcastOperator chained one room per call (To/In/Except).FetchSockets", T, E, one.FetchSockets)
				emit("BroadcastOperator.To(all but the last).To(last).Except(all but the last).Except(last).Emit", T, E, func(n int) { split.Emit("ev", n) })
			}
		}
		stats.evals++
		judgeSel("adapter", m, T, 0, countSet(a.Sockets(mapset.NewSet[adapter.Room](roomsOf(T)...))), viol("adapter.Sockets", T, 0))
	}
	// the root operator was the receiver of every To(): it must still select the whole namespace
	emit("BroadcastOperator.Emit (root, after deriving every To/Except from it)", 0, 0, func(n int) { root.Emit("ev", n) })
	// and none of the selecting calls may have changed the membership
	checkIndexes("adapter", a, m, "Broadcast", viol("after all broadcasts", 0, 0))
}

func partAMatrix(tier string, r *vx.Report) {
	stats := &aStats{}
	matrices := 0
	named := 0b000111
	for bits := 0; bits < 512; bits++ {
		m := amodel{present: [3]bool{true, true, true}, rows: [3]int{bits & 7, (bits >> 3) & 7, (bits >> 6) & 7}}
		evalMatrix("every socket added", m, named, r, stats)
		matrices++
		// variant: sockets without any room were never added (or left with DeleteAll): not in the namespace
		abs := m
		any := false
		for i := range abs.rows {
			if abs.rows[i] == 0 {
				abs.present[i] = false
				any = true
			}
		}
		if any {
			evalMatrix("sockets without a room never added", abs, named, r, stats)
			matrices++
		}
		if tier == "thorough" {
			// 4th dimension: every socket is also in its own-id room (as in real use); T and E also
			// range over s1's id room
			own := m
			for i := range own.rows {
				own.rows[i] |= idRoomBit(i)
			}
			evalMatrix("every socket also in its own-id room", own, named|idRoomBit(0), r, stats)
			matrices++
		}
	}
	r.Evaluations += stats.evals
	r.DistinctNontriv += stats.nontrivial
	r.States += matrices
	r.Extra["A.i/matrices"] = map[string]any{"membership_matrices_built_on_real_adapter": matrices, "selecting_calls_judged": stats.evals, "nontrivial_matrix_x_TE": stats.nontrivial}
	r.Sample(map[string]any{"part": "A.i", "membership": "s1{r1,r2} s2{r2} s3{}", "T": "{r1,r2}", "E": "{r3}", "expected_recipients": "s1, s2 once each"})
}

// ---------------------------------------------------------------- A(ii): BFS over membership histories

type aop struct {
	kind  string // AddAll Delete DeleteAll AddSockets DelSockets DisconnectSockets
	s     int
	rooms int // mask: rooms added / room deleted / rooms joined or left by the operator op
	T, E  int
}

func (o aop) String() string {
	switch o.kind {
	case "AddAll":
		return fmt.Sprintf("AddAll(%s,%s)", sockIDs[o.s], maskStr(o.rooms))
	case "Delete":
		return fmt.Sprintf("Delete(%s,%s)", sockIDs[o.s], maskStr(o.rooms))
	case "DeleteAll":
		return fmt.Sprintf("DeleteAll(%s)", sockIDs[o.s])
	case "DisconnectSockets":
		return fmt.Sprintf("To%s.Except%s.DisconnectSockets", maskStr(o.T), maskStr(o.E))
	}
	return fmt.Sprintf("To%s.Except%s.%s(%s)", maskStr(o.T), maskStr(o.E), o.kind, maskStr(o.rooms))
}

// operator (T,E) pairs used by the operator operations of the histories
var opPairs = [][2]int{{0, 0}, {1, 0}, {0, 1}, {1, 2}, {3, 0}, {2, 5}}

func aAlphabet() []aop {
	var ops []aop
	for s := range sockIDs {
		for _, rs := range []int{1, 2, 4, 3, 0} {
			ops = append(ops, aop{kind: "AddAll", s: s, rooms: rs})
		}
		for _, rm := range []int{1, 2, 4} {
			ops = append(ops, aop{kind: "Delete", s: s, rooms: rm})
		}
		ops = append(ops, aop{kind: "DeleteAll", s: s})
	}
	for _, p := range opPairs {
		ops = append(ops,
			aop{kind: "AddSockets", T: p[0], E: p[1], rooms: 4},
			aop{kind: "AddSockets", T: p[0], E: p[1], rooms: 3},
			aop{kind: "DelSockets", T: p[0], E: p[1], rooms: 1},
			aop{kind: "DelSockets", T: p[0], E: p[1], rooms: 6},
			aop{kind: "DisconnectSockets", T: p[0], E: p[1]})
	}
	return ops
}

func (m *amodel) apply(o aop) {
	switch o.kind {
	case "AddAll":
		m.present[o.s] = true
		m.rows[o.s] |= o.rooms
	case "Delete":
		m.rows[o.s] &^= o.rooms
	case "DeleteAll":
		m.present[o.s] = false
		m.rows[o.s] = 0
	default:
		sel := refSelect(*m, o.T, o.E)
		for i := range sel {
			if !sel[i] {
				continue
			}
			switch o.kind {
			case "AddSockets":
				m.rows[i] |= o.rooms
			case "DelSockets":
				m.rows[i] &^= o.rooms
			case "DisconnectSockets":
				m.present[i] = false
				m.rows[i] = 0
			}
		}
	}
}

func doAop(a adapter.Adapter, o aop) {
	switch o.kind {
	case "AddAll":
		a.AddAll(sockIDs[o.s], roomsOf(o.rooms))
	case "Delete":
		a.Delete(sockIDs[o.s], roomsOf(o.rooms)[0])
	case "DeleteAll":
		a.DeleteAll(sockIDs[o.s])
	default:
		op := adapter.NewBroadcastOperator("/", a, notReserved).To(roomsOf(o.T)...).Except(roomsOf(o.E)...)
		switch o.kind {
		case "AddSockets":
			op.SocketsJoin(roomsOf(o.rooms)...)
		case "DelSockets":
			op.SocketsLeave(roomsOf(o.rooms)...)
		case "DisconnectSockets":
			op.DisconnectSockets(false)
		}
	}
}

// aopJ is the serialisable form of an aop (replay files).
type aopJ struct {
	Kind           string
	S, Rooms, T, E int
}

func aopsJ(h []aop) []aopJ {
	out := make([]aopJ, len(h))
	for i, o := range h {
		out[i] = aopJ{o.kind, o.s, o.rooms, o.T, o.E}
	}
	return out
}

func histStr(h []aop) string {
	var s []string
	for _, o := range h {
		s = append(s, o.String())
	}
	return strings.Join(s, " ; ")
}

// replayA runs a history on a fresh real adapter and judges the state it leaves. It returns the
// canonical real state, the answers to all 64 broadcasts, and whether anything was violated.
func replayA(hist []aop, r sink) (canon, answers string, bad bool) {
	m := amodel{}
	last := "(nothing)"
	viol := func(key, detail string) {
		bad = true
		r.Violate(key, fmt.Sprintf("history [%s]: %s", histStr(hist), detail), map[string]any{"part": "A.ii", "history": histStr(hist), "ops": aopsJ(hist)})
	}
	defer func() {
		if p := recover(); p != nil {
			viol("adapter: panic in a sequential membership history (after "+last+")", fmt.Sprint(p))
		}
	}()
	a, st := newRig()
	for _, o := range hist {
		doAop(a, o)
		m.apply(o)
		last = o.kind
	}
	canon = checkIndexes("adapter", a, m, last, viol)
	// read-back API
	for i, id := range sockIDs {
		rs, ok := a.SocketRooms(id)
		switch {
		case ok != m.present[i]:
			viol("adapter: SocketRooms disagrees with the membership", fmt.Sprintf("SocketRooms(%s) ok=%v, model present=%v", id, ok, m.present[i]))
		case ok:
			got := 0
			for b, rn := range roomNames {
				if rs.Contains(rn) {
					got |= 1 << b
				}
			}
			if got != m.rows[i] || rs.Cardinality() != popcount(m.rows[i]) {
				viol("adapter: SocketRooms disagrees with the membership", fmt.Sprintf("SocketRooms(%s)=%v, model %s", id, rs.ToSlice(), maskStr(m.rows[i])))
			}
		}
	}
	var ans strings.Builder
	for T := 0; T < 8; T++ {
		got := countSet(a.Sockets(mapset.NewSet[adapter.Room](roomsOf(T)...)))
		judgeSel("adapter", m, T, 0, got, func(key, detail string) {
			viol(key, fmt.Sprintf("Sockets(%s): %s", maskStr(T), detail))
		})
		for E := 0; E < 8; E++ {
			st.reset()
			a.Broadcast(evHeader(), []any{"ev"}, optsOf(T, E))
			c := st.counts()
			judgeSel("adapter", m, T, E, c, func(key, detail string) {
				viol(key, fmt.Sprintf("Broadcast T=%s E=%s on state %s: %s", maskStr(T), maskStr(E), m.key(), detail))
			})
			fmt.Fprint(&ans, c)
		}
	}
	return canon, ans.String(), bad
}

func partABFS(tier string, r *vx.Report, deadline time.Time) {
	depth := 4
	if tier == "thorough" {
		depth = 5
	}
	ops := aAlphabet()
	type node struct{ hist []aop }
	type first struct {
		answers string
		hist    string
	}
	seen := map[string]*first{}
	c0, a0, _ := replayA(nil, r)
	seen[c0] = &first{a0, "(empty history)"}
	frontier := []node{{}}
	states, trans, nontrivial, reachedTwice := 1, 0, 0, 0
	completed := 0
	for d := 0; d < depth && len(frontier) > 0; d++ {
		var next []node
		for _, n := range frontier {
			if time.Now().After(deadline) {
				r.CapsHit = append(r.CapsHit, fmt.Sprintf("A.ii: deadline at depth %d", d))
				goto done
			}
			for _, o := range ops {
				hist := append(append([]aop{}, n.hist...), o)
				trans++
				r.Evaluations++
				if len(hist) >= 2 {
					nontrivial++
				}
				canon, answers, bad := replayA(hist, r)
				if bad || canon == "" {
					continue // reported; do not build on a state the model does not describe
				}
				if f, ok := seen[canon]; ok {
					reachedTwice++
					if f.answers != answers {
						r.Violate("adapter: the same indexes answer the 64 broadcasts differently depending on the history (hidden state)",
							fmt.Sprintf("indexes %s: after [%s] answers %s, after [%s] answers %s", canon, f.hist, f.answers, histStr(hist), answers),
							map[string]any{"part": "A.ii", "history_1": f.hist, "history_2": histStr(hist)})
					}
					continue
				}
				seen[canon] = &first{answers, histStr(hist)}
				states++
				next = append(next, node{hist})
			}
		}
		frontier = next
		completed = d + 1
	}
done:
	r.States += states
	r.Transitions += trans
	r.TracesValidated += trans
	r.DistinctNontriv += nontrivial
	r.Extra["A.ii/bfs"] = map[string]any{"canonical_states": states, "histories_replayed_on_fresh_real_adapter": trans, "depth_completed": completed, "alphabet": len(ops),
		"frontier_left": len(frontier), "state_reached_again_by_another_history_and_compared": reachedTwice, "broadcasts_per_state": 64}
	r.Sample(map[string]any{"part": "A.ii", "history": histStr([]aop{ops[3], ops[len(ops)-8], ops[8]}), "checked": "indexes inverse, no empty room, equals model, SocketRooms/Sockets, 64 broadcasts"})
}

func partA(tier string, r *vx.Report) {
	func() {
		defer func() {
			if p := recover(); p != nil {
				r.Violate("adapter: panic while enumerating membership matrices", fmt.Sprint(p), map[string]any{"part": "A.i"})
			}
		}()
		partAMatrix(tier, r)
	}()
	budget := 30 * time.Second
	if tier == "thorough" {
		budget = 3 * time.Minute
	}
	partABFS(tier, r, time.Now().Add(budget))
}
