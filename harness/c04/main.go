// C04: a broadcast reaches exactly the sockets its rooms and exclusions select, once.
//
// Part A (parta.go): the real in-memory adapter behind its public creator with a recording
// SocketStore: (i) every membership matrix of 3 sockets x 3 rooms x every (T,E) x every selecting
// method against the reference selection; (ii) explicit-state BFS over membership histories, canonical
// state = the adapter's two raw indexes, with index invariants, a reference model and a differential
// oracle.
// Part B (partb.go): a real sio.Server over rig R1 with 3 real server sockets; BFS over
// Join/Leave/Disconnect/client DISCONNECT/SocketsJoin/SocketsLeave/DisconnectSockets histories, each
// replayed on a fresh server in its own vsched.Run; after each history every (T,E) is broadcast through
// the namespace and through every socket and the EVENT frames each connection received are counted.
// Part C (partc.go): Broadcast(T,E) racing 1-2 membership changes under the controlled scheduler, all
// interleavings, judged with interval semantics.
package main

import (
	"encoding/json"
	"fmt"
	"os"
	"sort"
	"strings"
	"time"

	"github.com/karagenc/socket.io-go/adapter"
	vx "github.com/karagenc/socket.io-go/internal/vexplore"
)

var roomNames = []adapter.Room{"r1", "r2", "r3"}

// roomsOf turns a bit mask over roomNames into a room list.
func roomsOf(mask int) []adapter.Room {
	var out []adapter.Room
	for i, r := range roomNames {
		if mask&(1<<i) != 0 {
			out = append(out, r)
		}
	}
	return out
}

func maskStr(mask int) string {
	var s []string
	for _, r := range roomsOf(mask) {
		s = append(s, string(r))
	}
	return "{" + strings.Join(s, ",") + "}"
}

func popcount(x int) int {
	n := 0
	for ; x != 0; x &= x - 1 {
		n++
	}
	return n
}

func sortedKeys[V any](m map[string]V) []string {
	out := make([]string, 0, len(m))
	for k := range m {
		out = append(out, k)
	}
	sort.Strings(out)
	return out
}

// parts selects which parts run (VERIF_C04_PARTS=abc; default all) - for working on the harness only.
func parts() string {
	if p := os.Getenv("VERIF_C04_PARTS"); p != "" {
		return strings.ToLower(p)
	}
	return "abc"
}

func main() {
	if len(os.Args) > 1 && os.Args[1] == "-c04b" {
		partBWorker(os.Args[2:])
		return
	}
	for i, a := range os.Args {
		if (a == "-replay" || a == "--replay") && i+1 < len(os.Args) {
			replaySequential(os.Args[i+1]) // returns if the file is a schedule replay (part C)
		}
	}
	vx.Main(vx.Config{
		Property: "C04",
		Level:    "model_checking",
		Rule: "A(i): every membership matrix of 3 sockets x 3 rooms (built with AddAll on the real in-memory adapter) x every (T,E) of room subsets x {adapter.Broadcast, adapter.FetchSockets, BroadcastOperator.To.Except.Emit, BroadcastOperator.FetchSockets} (+ Sockets(T)) against the reference selection, each recipient exactly once; " +
			"A(ii): BFS over AddAll/Delete/DeleteAll/AddSockets/DelSockets/DisconnectSockets histories replayed on fresh real adapters, deduplicated by the adapter's raw indexes, with index invariants, reference model and differential broadcast answers; " +
			"B: BFS over Join/Leave/Disconnect/client-DISCONNECT/SocketsJoin/SocketsLeave/DisconnectSockets histories on a real server (each history twice: in-memory adapter, and connection state recovery on = session-aware adapter) with 3 real sockets over rig R1 (one vsched.Run per replay), every (T,E) broadcast through the namespace and through every socket, EVENT frames counted per connection; " +
			"C: one thread Broadcast(T,E) racing one or two threads doing one AddAll/Delete/DeleteAll each on the real adapter (3 sockets x 2 rooms, 2-4 initial matrices, every (T,E), one scenario per mutator choice): every interleaving (happens-before pruned) for single mutators; pairs of mutators on one socket up to 2 preemptions (quick) or every interleaving, plus every pair on different sockets on one matrix (thorough); interval oracle. " +
			"distinct_nontrivial counts matrices with >= 1 membership x (T,E) with T or E non-empty (A.i), distinct histories of length >= 2 (A.ii, B) and deviating schedules (C)",
		Scenarios: func(tier string) []*vx.Scenario {
			if !strings.Contains(parts(), "c") {
				return nil
			}
			return partCScenarios(tier)
		},
		Budget: func(tier string) time.Duration {
			if tier == "thorough" {
				return 9 * time.Minute
			}
			return 60 * time.Second
		},
		Extra: func(tier string, r *vx.Report) {
			summarizeC(r)
			// the server-level workers run while the coordinator does the adapter-level part
			joinB := func() {}
			if strings.Contains(parts(), "b") {
				joinB = partB(tier, r)
			}
			if strings.Contains(parts(), "a") {
				partA(tier, r)
			}
			joinB()
		},
		Assumptions: []string{
			"adapter level: a socket is in the namespace while the adapter has an entry for it (AddAll with no room adds it, DeleteAll removes it, Delete of its last room keeps it); the harness sockets' Join/Leave/Disconnect call AddAll/Delete/DeleteAll like the real server socket does",
			"a broadcast issued through socket s is modelled as E plus the room named after s's id (the mechanism the server uses); the sender itself must never receive it, whatever rooms it is in",
			"concurrent part: the membership states that may be current during a broadcast are over-approximated from the real-time order of the operations' begin/end marks; only sockets selected in all of them (must receive once) or in none of them (must not receive) are judged",
			"set and map iteration inside the adapter follows one fixed (sorted) order, the same in every execution; the order of recipients is not judged",
			"vsched semantics; virtual time",
		},
	})
}

type recorder func(key, msg string)

func (f recorder) Violate(key, msg string, replay any) { f(key, msg) }

// replaySequential re-runs the case of a replay file written by part A or B and exits (1 if the
// recorded violation occurs again, 0 if not). Files of part C are left to vx.Main.
func replaySequential(path string) {
	b, err := os.ReadFile(path)
	if err != nil {
		fmt.Fprintln(os.Stderr, err)
		os.Exit(2)
	}
	var f struct {
		Key    string `json:"key"`
		Replay struct {
			Part     string  `json:"part"`
			Variant  string  `json:"variant"`
			Present  [3]bool `json:"present"`
			Rows     [3]int  `json:"rows"`
			Univ     int     `json:"univ"`
			Ops      json.RawMessage
			SetupOps []bop `json:"setup_ops"`
			NRooms   int   `json:"named_rooms"`
			Recovery bool  `json:"recovery"`
			Pre      int   `json:"pre"`
		} `json:"replay"`
	}
	if err := json.Unmarshal(b, &f); err != nil {
		fmt.Fprintln(os.Stderr, err)
		os.Exit(2)
	}
	hit := false
	report := func(key, msg string) {
		fmt.Printf("violation key=%q: %s\n", key, msg)
		hit = hit || key == f.Key
	}
	r := recorder(report)
	switch f.Replay.Part {
	case "A.i":
		evalMatrix(f.Replay.Variant, amodel{present: f.Replay.Present, rows: f.Replay.Rows}, f.Replay.Univ, r, &aStats{})
	case "A.ii":
		var ops []aopJ
		json.Unmarshal(f.Replay.Ops, &ops)
		var hist []aop
		for _, o := range ops {
			hist = append(hist, aop{o.Kind, o.S, o.Rooms, o.T, o.E})
		}
		if len(ops) == 0 && len(f.Replay.Ops) == 0 {
			fmt.Println("this violation compares two histories; replay each history of the message by hand")
			os.Exit(2)
		}
		replayA(hist, r)
	case "B":
		var hist []bop
		json.Unmarshal(f.Replay.Ops, &hist)
		out := &bOut{}
		replayB(0, bItem{f.Replay.NRooms, f.Replay.SetupOps, hist, f.Replay.Recovery, f.Replay.Pre}, out)
		for _, v := range out.Violations {
			report(v.Key, v.Msg)
		}
		for _, h := range out.HarnessErrs {
			fmt.Println("HARNESS-ERROR", h)
		}
	default:
		return
	}
	if hit {
		fmt.Printf("VIOLATION property=C04 replay=%s\n", path)
		os.Exit(1)
	}
	fmt.Println("the recorded violation does not occur on this tree")
	os.Exit(0)
}
