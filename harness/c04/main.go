// C04: a broadcast reaches exactly the sockets its rooms and exclusions select, once.
//
// Part A (parta.go): the real in-memory adapter behind its public creator with a recording
// SocketStore: (i) every membership matrix of 3 sockets x 3 rooms x every (T,E) x every selecting
// method against the reference selection; (ii) explicit-state BFS over membership histories, canonical
// state = the adapter's two raw indexes, with index invariants, a reference model and a differential
// oracle.
// Part B (partb.go): a real sio.Server over rig R1 with 3 real server sockets; BFS over
// Join/Leave/Disconnect/client DISCONNECT/SocketsJoin/SocketsLeave/DisconnectSockets histories, each
// replayed on a fresh server in its own vsched.Run; after each history every (T,E) is broadcast through
// the namespace and through every socket and the EVENT frames each connection received are counted.
// Part C (partc.go): Broadcast(T,E) racing 1-2 membership changes under the controlled scheduler, all
// interleavings, judged with interval semantics.
package main

import (
	"fmt"
	"os"
	"sort"
	"strings"
	"time"

	"github.com/karagenc/socket.io-go/adapter"
	vx "github.com/karagenc/socket.io-go/internal/vexplore"
)

var roomNames = []adapter.Room{"r1", "r2", "r3"}

// roomsOf turns a bit mask over roomNames into a room list.
func roomsOf(mask int) []adapter.Room {
	var out []adapter.Room
	for i, r := range roomNames {
		if mask&(1<<i) != 0 {
			out = append(out, r)
		}
	}
	return out
}

func maskStr(mask int) string {
	var s []string
	for _, r := range roomsOf(mask) {
		s = append(s, string(r))
	}
	return "{" + strings.Join(s, ",") + "}"
}

func popcount(x int) int {
	n := 0
	for ; x != 0; x &= x - 1 {
		n++
	}
	return n
}

func sortedKeys[V any](m map[string]V) []string {
	out := make([]string, 0, len(m))
	for k := range m {
		out = append(out, k)
	}
	sort.Strings(out)
	return out
}

// parts selects which parts run (VERIF_C04_PARTS=abc; default all) - for working on the harness only.
func parts() string {
	if p := os.Getenv("VERIF_C04_PARTS"); p != "" {
		return strings.ToLower(p)
	}
	return "abc"
}

func main() {
	if len(os.Args) > 1 && os.Args[1] == "-c04b" {
		partBWorker(os.Args[2:])
		return
	}
	vx.Main(vx.Config{
		Property: "C04",
		Level:    "model_checking",
		Rule: "A(i): every membership matrix of 3 sockets x 3 rooms (built with AddAll on the real in-memory adapter) x every (T,E) of room subsets x {adapter.Broadcast, adapter.FetchSockets, BroadcastOperator.To.Except.Emit, BroadcastOperator.FetchSockets} (+ Sockets(T)) against the reference selection, each recipient exactly once; " +
			"A(ii): BFS over AddAll/Delete/DeleteAll/AddSockets/DelSockets/DisconnectSockets histories replayed on fresh real adapters, deduplicated by the adapter's raw indexes, with index invariants, reference model and differential broadcast answers; " +
			"B: BFS over Join/Leave/Disconnect/client-DISCONNECT/SocketsJoin/SocketsLeave/DisconnectSockets histories on a real server with 3 real sockets over rig R1 (one vsched.Run per replay), every (T,E) broadcast through the namespace and through every socket, EVENT frames counted per connection; " +
			"C: Broadcast(T,E) racing one or two of AddAll/Delete/DeleteAll on the real adapter, every interleaving (happens-before pruned), interval oracle. " +
			"distinct_nontrivial counts matrices with >= 1 membership x (T,E) with T or E non-empty (A.i), distinct histories of length >= 2 (A.ii, B) and deviating schedules (C)",
		Scenarios: func(tier string) []*vx.Scenario {
			if !strings.Contains(parts(), "c") {
				return nil
			}
			return partCScenarios(tier)
		},
		Budget: func(tier string) time.Duration {
			if tier == "thorough" {
				return 6 * time.Minute
			}
			return 40 * time.Second
		},
		Extra: func(tier string, r *vx.Report) {
			summarizeC(r)
			// the server-level workers run while the coordinator does the adapter-level part
			joinB := func() {}
			if strings.Contains(parts(), "b") {
				joinB = partB(tier, r)
			}
			if strings.Contains(parts(), "a") {
				partA(tier, r)
			}
			joinB()
		},
		Assumptions: []string{
			"adapter level: a socket is in the namespace while the adapter has an entry for it (AddAll with no room adds it, DeleteAll removes it, Delete of its last room keeps it); the harness sockets' Join/Leave/Disconnect call AddAll/Delete/DeleteAll like the real server socket does",
			"a broadcast issued through socket s is modelled as E plus the room named after s's id (the mechanism the server uses); the sender itself must never receive it, whatever rooms it is in",
			"concurrent part: the membership states that may be current during a broadcast are over-approximated from the real-time order of the operations' begin/end marks; only sockets selected in all of them (must receive once) or in none of them (must not receive) are judged",
			"set and map iteration inside the adapter follows one fixed (sorted) order, the same in every execution; the order of recipients is not judged",
			"vsched semantics; virtual time",
		},
	})
}

func fmtf(format string, a ...any) string { return fmt.Sprintf(format, a...) }
