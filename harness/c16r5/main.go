// Companion of C16 (plain build with -race, real goroutines, real loopback I/O): the parts of the public API
// whose concurrency lives in net/http and the real transports, which the controlled scheduler of the main
// harness does not see. Small concurrent programs run free; the race detector's log is read by the parent
// (GORACE=log_path), which files every report whose racing access lies in repository code. A deterministic
// companion assertion: what the user handed in (an *http.Transport shared by several connections) is not
// written to.
package main

import (
	"bytes"
	"encoding/json"
	"flag"
	"fmt"
	"net/http"
	"net/http/httptest"
	"os"
	"sync"
	"time"

	sio "github.com/karagenc/socket.io-go"
)

type result struct {
	Evaluations int              `json:"evaluations"`
	Caps        []string         `json:"caps"`
	Violations  []map[string]any `json:"violations"`
	Programs    []string         `json:"programs"`
}

var res result

func violate(key, msg string) {
	res.Violations = append(res.Violations, map[string]any{"key": key, "msg": msg})
}

func newServer() (*sio.Server, *httptest.Server) {
	srv := sio.NewServer(nil)
	srv.OnConnection(func(s sio.ServerSocket) {
		s.OnEvent("ping", func(n int, ack func(int)) { ack(n + 1) })
	})
	if err := srv.Run(); err != nil {
		panic(err)
	}
	return srv, httptest.NewServer(srv)
}

type tsnap struct {
	ResponseHeaderTimeout, TLSHandshakeTimeout, IdleConnTimeout, ExpectContinueTimeout time.Duration
	MaxIdleConns, MaxIdleConnsPerHost, MaxConnsPerHost                                 int
	DisableKeepAlives, DisableCompression, ForceAttemptHTTP2                           bool
}

func snap(t *http.Transport) tsnap {
	return tsnap{t.ResponseHeaderTimeout, t.TLSHandshakeTimeout, t.IdleConnTimeout, t.ExpectContinueTimeout, t.MaxIdleConns, t.MaxIdleConnsPerHost, t.MaxConnsPerHost, t.DisableKeepAlives, t.DisableCompression, t.ForceAttemptHTTP2}
}

// sharedTransport: n managers built from ONE configuration that carries a user-supplied *http.Transport connect
// at once over the given transports, emit with an acknowledgement, and close.
func sharedTransport(name string, n int, transports []string, reconnect bool) {
	res.Programs = append(res.Programs, name)
	res.Evaluations++
	srv, ts := newServer()
	defer func() { srv.Close(); ts.Close() }()
	user := &http.Transport{MaxIdleConnsPerHost: 4, IdleConnTimeout: 30 * time.Second}
	before := snap(user)
	cfg := &sio.ManagerConfig{NoReconnection: true}
	cfg.EIO.Transports = transports
	cfg.EIO.HTTPTransport = user
	var wg sync.WaitGroup
	fails := make(chan string, n*4)
	for i := 0; i < n; i++ {
		i := i
		wg.Add(1)
		go func() {
			defer wg.Done()
			rounds := 1
			if reconnect {
				rounds = 2
			}
			m := sio.NewManager(ts.URL, cfg)
			s := m.Socket("/", nil)
			for r := 0; r < rounds; r++ {
				up := make(chan struct{}, 4)
				s.OnceConnect(func() { up <- struct{}{} })
				s.Connect()
				select {
				case <-up:
				case <-time.After(20 * time.Second):
					fails <- fmt.Sprintf("manager %d round %d: not connected within 20 s", i, r)
					return
				}
				got := make(chan int, 1)
				s.Emit("ping", i, func(v int) { got <- v })
				select {
				case v := <-got:
					if v != i+1 {
						fails <- fmt.Sprintf("manager %d: ack %d, expected %d", i, v, i+1)
					}
				case <-time.After(20 * time.Second):
					fails <- fmt.Sprintf("manager %d round %d: no acknowledgement within 20 s", i, r)
				}
				s.Disconnect()
				m.Close()
			}
		}()
	}
	wg.Wait()
	close(fails)
	for f := range fails {
		res.Caps = append(res.Caps, name+": "+f) // real time: a deadline is a cap, not a verdict
	}
	if after := snap(user); after != before {
		violate("shared configuration: the *http.Transport the user supplied was written to (it is shared by every connection made from that configuration)",
			fmt.Sprintf("%s: fields before %+v, after %+v", name, before, after))
	}
	user.CloseIdleConnections()
}

func main() {
	tier := flag.String("tier", "quick", "")
	flag.Parse()
	n := 4
	if *tier == "thorough" {
		n = 8
	}
	sharedTransport(fmt.Sprintf("%d managers, one configuration with a user *http.Transport, polling", n), n, []string{"polling"}, false)
	sharedTransport(fmt.Sprintf("%d managers, one configuration with a user *http.Transport, polling then websocket", n), n, []string{"polling", "websocket"}, false)
	sharedTransport("2 managers, one configuration with a user *http.Transport, each connects twice", 2, []string{"polling"}, true)
	var buf bytes.Buffer
	json.NewEncoder(&buf).Encode(res)
	fmt.Fprintf(os.Stdout, "\nRESULT %s", buf.String())
}
