package main

import (
	"fmt"
	"sort"
	"strings"
	"time"

	sio "github.com/karagenc/socket.io-go"
	eioparser "github.com/karagenc/socket.io-go/engine.io/parser"
	vx "github.com/karagenc/socket.io-go/internal/vexplore"
	"github.com/karagenc/socket.io-go/internal/vrig"
	"github.com/karagenc/socket.io-go/internal/vsched"
)

// ---------------------------------------------------------------- frames of several connections, interleaved
//
// One server, two (or three) Engine.IO connections (rig R1: the harness is the protocol-level client), each
// sending one packet as a sequence of frames, one OnPacket call per frame as a WebSocket / WebTransport
// connection delivers them. EVERY merge of the connections' frame sequences is played (the frames of one
// connection stay in order): header of A, frame of B, attachment of A, ... An event of one connection must
// reach that connection's socket exactly once and intact whatever the other connections send in between.

type wirePacket struct {
	label  string
	frames []*eioparser.Packet
	want   string // what the handler renders; "" for a frame sequence that is no event (CONNECT)
}

func wireShape(shape, tag int) wirePacket {
	switch shape {
	case 1:
		return wirePacket{"text-event", []*eioparser.Packet{vrig.Msg(fmt.Sprintf(`2["evx1",%d]`, tag))}, expectShape(1, tag)}
	case 3:
		return wirePacket{"event+1-attachment", []*eioparser.Packet{
			vrig.Msg(fmt.Sprintf(`51-["evx3",{"n":%d,"b":{"_placeholder":true,"num":0}}]`, tag)),
			vrig.Bin([]byte{byte(tag), 0, 255})}, expectShape(3, tag)}
	case 5:
		return wirePacket{"event+2-attachments", []*eioparser.Packet{
			vrig.Msg(fmt.Sprintf(`52-["evx5",{"_placeholder":true,"num":0},{"_placeholder":true,"num":1},%d]`, tag)),
			vrig.Bin([]byte{1, byte(tag)}), vrig.Bin([]byte{})}, expectShape(5, tag)}
	case 7: // joins a second namespace: a CONNECT frame between another connection's frames
		return wirePacket{"CONNECT-other-namespace", []*eioparser.Packet{vrig.Msg(`0/other,`)}, ""}
	}
	panic("shape")
}

// merges enumerates every interleaving of sequences with the given lengths; a merge is the list of
// sequence indexes in play order.
func merges(lens []int) [][]int {
	var out [][]int
	left := append([]int{}, lens...)
	var cur []int
	var rec func()
	rec = func() {
		done := true
		for i := range left {
			if left[i] > 0 {
				done = false
				left[i]--
				cur = append(cur, i)
				rec()
				cur = cur[:len(cur)-1]
				left[i]++
			}
		}
		if done {
			out = append(out, append([]int{}, cur...))
		}
	}
	rec()
	return out
}

func interleaved(shapes []int, order []int, recovery bool) *vx.Scenario {
	var lbl []string
	for _, s := range shapes {
		lbl = append(lbl, wireShape(s, 0).label)
	}
	name := fmt.Sprintf("connections-interleaved/recovery=%v/%s/order=%v", recovery, strings.Join(lbl, "|"), order)
	sc := &vx.Scenario{Name: name, Bound: 0, Horizon: 10 * time.Second}
	sc.Body = func(e *vsched.Exec) func() vx.Result {
		vsched.SetExploring(false)
		scfg := &sio.ServerConfig{}
		scfg.ServerConnectionStateRecovery.Enabled = recovery
		srv := sio.NewServer(scfg)
		var v vsched.Var
		got := map[string][]string{} // engine.io sid of the connection -> what its socket's handlers saw
		nsock := 0
		srv.Use(func(s sio.ServerSocket, h *sio.Handshake) any {
			sid := vrigSID(s)
			register(s, func(x string) { v.Do(func() { got[sid] = append(got[sid], x) }) })
			v.Do(func() { nsock++ })
			return nil
		})
		srv.Of("/other").OnConnection(func(sio.ServerSocket) {})
		var conns []*vrig.FakeEIO
		var pk []wirePacket
		for i, s := range shapes {
			f := vrig.NewFakeEIO(srv, fmt.Sprintf("conn%d", i))
			f.ConnectNS("/")
			conns = append(conns, f)
			pk = append(pk, wireShape(s, 10+i))
		}
		vsched.Await(func() bool { return nsock == len(shapes) })
		vrig.Settle(time.Second)
		vsched.SetExploring(true)
		next := make([]int, len(shapes))
		for _, c := range order {
			conns[c].InPackets(pk[c].frames[next[c]])
			next[c]++
		}
		vrig.Settle(time.Second)
		return func() vx.Result {
			var r vx.Result
			var all []string
			for i, f := range conns {
				sid := f.SID
				var first, second []string
				for _, x := range got[sid] {
					if strings.HasPrefix(x, "2nd:") {
						second = append(second, strings.TrimPrefix(x, "2nd:"))
					} else {
						first = append(first, x)
					}
				}
				sort.Strings(first)
				all = append(all, fmt.Sprintf("%s=%v", sid, first))
				var want, want2 []string
				if pk[i].want != "" {
					want = []string{pk[i].want}
					if shapes[i] == 3 || shapes[i] == 5 {
						want2 = want
					}
				}
				ctx := fmt.Sprintf("%s: connection %d (%s) sent %s; its socket's handlers saw %v (second handlers %v), expected %v; frames played in connection order %v; connection closed %d time(s)",
					name, i, sid, pk[i].label, first, second, want, order, f.Closed)
				if fmt.Sprint(first) != fmt.Sprint(want) || fmt.Sprint(second) != fmt.Sprint(want2) {
					kind := "altered or delivered to the wrong socket"
					if len(first) < len(want) {
						kind = "lost"
					} else if len(first) > len(want) && len(want) > 0 && first[0] == want[0] && first[len(first)-1] == want[0] {
						kind = "duplicated"
					}
					r.Violate(fmt.Sprintf("interleaved connections: event %s when another connection's frame arrives between its frames", kind), "%s", ctx)
				} else if f.Closed > 0 {
					r.Violate("interleaved connections: connection closed by the server", "%s", ctx)
				}
			}
			r.Outcome = strings.Join(all, " ")
			return r
		}
	}
	return sc
}

// vrigSID: the Engine.IO session id behind a server socket (FakeEIO reports the name it was given).
func vrigSID(s sio.ServerSocket) string { return sio.VerifEIOSocketOf(s).ID() }

func interleavedScenarios(tier string) []*vx.Scenario {
	var out []*vx.Scenario
	sets := [][]int{{3, 1}, {1, 3}, {3, 3}, {5, 1}, {5, 3}, {3, 7}, {5, 5}}
	if tier == "thorough" {
		sets = append(sets, []int{5, 3, 1}, []int{3, 3, 3}, []int{5, 7, 3})
	}
	for _, rec := range []bool{false, true} {
		for _, set := range sets {
			var lens []int
			for _, s := range set {
				lens = append(lens, len(wireShape(s, 0).frames))
			}
			for _, m := range merges(lens) {
				out = append(out, interleaved(set, m, rec))
			}
		}
	}
	return out
}
