// C01: every event emitted on a connected socket reaches the peer exactly once, intact.
//
// (a) schedules: real sio.Manager(s) <-> real sio.Server over the in-process polling link; 2 emitter
// threads per direction, a 6-shape argument alphabet on two event names (one a prefix of the other),
// recovery off/on, 1-2 clients; all schedules up to the deviation bound;
// (b) the companion binary (harness/c01r5, plain build) runs the payload-shape x boundary-size x
// transport x direction x recovery matrix over real loopback I/O; its results are merged here.
package main

import (
	"encoding/json"
	"fmt"
	"os"
	"os/exec"
	"sort"
	"strings"
	"time"

	sio "github.com/karagenc/socket.io-go"
	vx "github.com/karagenc/socket.io-go/internal/vexplore"
	"github.com/karagenc/socket.io-go/internal/vrig"
	"github.com/karagenc/socket.io-go/internal/vsched"
)

type withBin struct {
	N int        `json:"n"`
	B sio.Binary `json:"b"`
}

// shapes: emit(shape, tag) sends one event whose content is derived from tag; handlers for the shape
// render what they got; expect(shape, tag) renders what must arrive.
const nShapes = 7

func evName(shape int) string {
	if shape%2 == 0 {
		return "ev"
	}
	return "evx" // "ev" is a prefix of "evx"
}

type emitter interface {
	Emit(eventName string, v ...any)
}

func emitShape(s emitter, shape, tag int) {
	name := fmt.Sprintf("%s%d", evName(shape), shape)
	switch shape {
	case 0:
		s.Emit(name)
	case 1:
		s.Emit(name, tag)
	case 2:
		s.Emit(name, fmt.Sprintf("héllo wörld ✓ \"%d\"", tag), tag)
	case 3:
		s.Emit(name, withBin{N: tag, B: sio.Binary{byte(tag), 0, 255}})
	case 4:
		s.Emit(name, map[string]any{"k": tag, "bin": sio.Binary{9, byte(tag)}}, tag)
	case 5:
		s.Emit(name, sio.Binary{1, byte(tag)}, sio.Binary{}, tag)
	case 6:
		s.Emit(name, tag, fmt.Sprintf("tail-%d", tag)) // the last argument is a string
	}
}

func expectShape(shape, tag int) string {
	switch shape {
	case 0:
		return "s0()"
	case 1:
		return fmt.Sprintf("s1(%d)", tag)
	case 2:
		return fmt.Sprintf("s2(héllo wörld ✓ \"%d\",%d)", tag, tag)
	case 3:
		return fmt.Sprintf("s3(%d,%x)", tag, []byte{byte(tag), 0, 255})
	case 4:
		return fmt.Sprintf("s4(k=%d,bin=%x,%d)", tag, []byte{9, byte(tag)}, tag)
	case 5:
		return fmt.Sprintf("s5(%x,%x,%d)", []byte{1, byte(tag)}, []byte{}, tag)
	case 6:
		return fmt.Sprintf("s6(%d,tail-%d)", tag, tag)
	}
	return "?"
}

type registrar interface {
	OnEvent(eventName string, handler any)
}

// register installs one handler per shape; rec receives "<event name>:<rendering>".
func register(s registrar, rec func(string)) {
	for shape := 0; shape < nShapes; shape++ {
		name := fmt.Sprintf("%s%d", evName(shape), shape)
		switch shape {
		case 0:
			s.OnEvent(name, func() { rec("s0()") })
		case 1:
			s.OnEvent(name, func(n int) { rec(fmt.Sprintf("s1(%d)", n)) })
		case 2:
			s.OnEvent(name, func(a string, n int) { rec(fmt.Sprintf("s2(%s,%d)", a, n)) })
		case 3:
			s.OnEvent(name, func(w withBin) { rec(fmt.Sprintf("s3(%d,%x)", w.N, []byte(w.B))) })
		case 4:
			s.OnEvent(name, func(m map[string]any, n int) {
				var b []byte
				switch x := m["bin"].(type) {
				case sio.Binary:
					b = x
				case []byte:
					b = x
				default:
					rec(fmt.Sprintf("s4(k=%v,bin=<%T %v>,%d)", m["k"], m["bin"], m["bin"], n))
					return
				}
				rec(fmt.Sprintf("s4(k=%v,bin=%x,%d)", m["k"], b, n))
			})
		case 5:
			s.OnEvent(name, func(a, b sio.Binary, n int) { rec(fmt.Sprintf("s5(%x,%x,%d)", []byte(a), []byte(b), n)) })
		case 6:
			s.OnEvent(name, func(n int, tail string) { rec(fmt.Sprintf("s6(%d,%s)", n, tail)) })
		}
	}
	// a second handler on each event that carries attachments: every handler of an event decodes the packet
	// for itself and must see the same, intact arguments
	for _, shape := range []int{3, 4, 5} {
		name := fmt.Sprintf("%s%d", evName(shape), shape)
		switch shape {
		case 3:
			s.OnEvent(name, func(w withBin) { rec(fmt.Sprintf("2nd:s3(%d,%x)", w.N, []byte(w.B))) })
		case 4:
			s.OnEvent(name, func(m map[string]any, n int) {
				switch x := m["bin"].(type) {
				case sio.Binary:
					rec(fmt.Sprintf("2nd:s4(k=%v,bin=%x,%d)", m["k"], []byte(x), n))
				case []byte:
					rec(fmt.Sprintf("2nd:s4(k=%v,bin=%x,%d)", m["k"], x, n))
				default:
					rec(fmt.Sprintf("2nd:s4(k=%v,bin=<%T %v>,%d)", m["k"], m["bin"], m["bin"], n))
				}
			})
		case 5:
			s.OnEvent(name, func(a, b sio.Binary, n int) { rec(fmt.Sprintf("2nd:s5(%x,%x,%d)", []byte(a), []byte(b), n)) })
		}
	}
	// look-alike names must never receive anything
	s.OnEvent("ev", func() { rec("WRONG-HANDLER(ev)") })
	s.OnEvent("evx", func() { rec("WRONG-HANDLER(evx)") })
}

type plan struct {
	name      string
	recovery  bool
	nclients  int
	up        [][]int // per client-side emitter thread: shapes to emit (client 0 unless upClient says otherwise)
	upClient  []int   // per client-side emitter thread: which client emits (default 0)
	down      [][]int // per server-side emitter thread: shapes to emit to client 0
	broadcast []int   // shapes emitted with nsp.Emit to all clients
}

func scenario(p plan, bound int) *vx.Scenario {
	sc := &vx.Scenario{Name: p.name, Bound: bound, Horizon: 30 * time.Second, Shards: 6}
	sc.Body = func(e *vsched.Exec) func() vx.Result {
		vsched.SetExploring(false)
		scfg := &sio.ServerConfig{}
		scfg.ServerConnectionStateRecovery.Enabled = p.recovery
		srv, mgr0, link := vrig.NewSioPair(scfg, nil)
		var v vsched.Var
		var srvGot []string
		cliGot := make([][]string, p.nclients)
		var ssocks []sio.ServerSocket
		// handlers are registered in a middleware so that they exist before the CONNECT reply
		srv.Use(func(s sio.ServerSocket, h *sio.Handshake) any {
			register(s, func(x string) { v.Do(func() { srvGot = append(srvGot, x) }) })
			v.Do(func() { ssocks = append(ssocks, s) })
			return nil
		})
		connected := 0
		srv.OnConnection(func(s sio.ServerSocket) { v.Do(func() { connected++ }) })
		socks := make([]sio.ClientSocket, p.nclients)
		cup := 0
		for c := 0; c < p.nclients; c++ {
			c := c
			m := mgr0
			if c > 0 {
				m = vrig.NewManagerOn(link, nil)
			}
			socks[c] = m.Socket("/", nil)
			register(socks[c], func(x string) { v.Do(func() { cliGot[c] = append(cliGot[c], x) }) })
			socks[c].OnConnect(func() { v.Do(func() { cup++ }) })
			socks[c].Connect()
			vsched.Await(func() bool { return cup == c+1 && connected == c+1 })
		}
		vrig.Settle(time.Second)
		vsched.SetExploring(true)
		var wantSrv []string
		wantCli := make([][]string, p.nclients)
		tag := 0
		for t, shapes := range p.up {
			t, shapes := t, shapes
			base := tag
			for i, sh := range shapes {
				wantSrv = append(wantSrv, expectShape(sh, base+i))
			}
			tag += len(shapes)
			from := socks[0]
			if t < len(p.upClient) {
				from = socks[p.upClient[t]]
			}
			vsched.GoQuiet(fmt.Sprintf("client-emitter%d", t), func() {
				for i, sh := range shapes {
					emitShape(from, sh, base+i)
				}
				// an event nobody listens to, whose name merely starts with a registered one
				from.Emit("evx-unhandled")
			})
		}
		for t, shapes := range p.down {
			t, shapes := t, shapes
			base := tag
			for i, sh := range shapes {
				wantCli[0] = append(wantCli[0], expectShape(sh, base+i))
			}
			tag += len(shapes)
			vsched.GoQuiet(fmt.Sprintf("server-emitter%d", t), func() {
				for i, sh := range shapes {
					emitShape(ssocks[0], sh, base+i)
				}
				ssocks[0].Emit("ev-unhandled")
			})
		}
		if len(p.broadcast) > 0 {
			base := tag
			for i, sh := range p.broadcast {
				for c := 0; c < p.nclients; c++ {
					wantCli[c] = append(wantCli[c], expectShape(sh, base+i))
				}
			}
			vsched.GoQuiet("server-broadcaster", func() {
				for i, sh := range p.broadcast {
					emitShape(srv.Of("/"), sh, base+i)
				}
			})
		}
		return func() vx.Result {
			var r vx.Result
			var cmp func(side string, got, want []string)
			cmp = func(side string, got, want []string) {
				// the second handlers of the events with attachments: judged like a second receiver
				var first, second, want2 []string
				for _, x := range got {
					if strings.HasPrefix(x, "2nd:") {
						second = append(second, strings.TrimPrefix(x, "2nd:"))
					} else {
						first = append(first, x)
					}
				}
				for _, x := range want {
					if strings.HasPrefix(x, "s3(") || strings.HasPrefix(x, "s4(") || strings.HasPrefix(x, "s5(") {
						want2 = append(want2, x)
					}
				}
				if !strings.HasSuffix(side, "second handler of the event") {
					if len(second) > 0 || len(want2) > 0 {
						cmp(side+", second handler of the event", second, want2)
					}
					got = first
				}
				g := append([]string{}, got...)
				w := append([]string{}, want...)
				sort.Strings(g)
				sort.Strings(w)
				if fmt.Sprint(g) == fmt.Sprint(w) {
					return
				}
				gc, wc := map[string]int{}, map[string]int{}
				for _, x := range g {
					gc[x]++
				}
				for _, x := range w {
					wc[x]++
				}
				kind := "altered or delivered to a handler of another event"
				for x, n := range wc {
					if gc[x] < n {
						kind = "lost"
					}
				}
				for x, n := range gc {
					if wc[x] > 0 && n > wc[x] {
						kind = "duplicated"
					}
				}
				rec := "recovery off"
				if p.recovery {
					rec = "recovery on"
				}
				r.Violate(fmt.Sprintf("schedules: event %s on the %s side (%s)", kind, side, rec), "%s: handlers saw %v, emitted %v", p.name, g, w)
			}
			cmp("server", srvGot, wantSrv)
			for c := 0; c < p.nclients; c++ {
				cmp("client", cliGot[c], wantCli[c])
			}
			r.Outcome = fmt.Sprint(len(srvGot), cliGot)
			return r
		}
	}
	return sc
}

// lateHandlers: the common pattern - the server registers its event handlers in the connection
// handler, the client emits as soon as it is connected.
func lateHandlers(name string, bound int) *vx.Scenario {
	sc := &vx.Scenario{Name: name, Bound: bound, Horizon: 30 * time.Second}
	sc.Body = func(e *vsched.Exec) func() vx.Result {
		srv, mgr, _ := vrig.NewSioPair(nil, nil)
		var v vsched.Var
		var got []int
		srv.OnConnection(func(s sio.ServerSocket) {
			s.OnEvent("first", func(n int) { v.Do(func() { got = append(got, n) }) })
		})
		sock := mgr.Socket("/", nil)
		sock.OnConnect(func() { sock.Emit("first", 1) })
		sock.Connect()
		return func() vx.Result {
			var r vx.Result
			r.Outcome = fmt.Sprint(got)
			if len(got) != 1 {
				r.Violate("schedules: event emitted right after connect arrives before the server's connection handler has registered its handlers (connection handlers run asynchronously after the CONNECT reply)",
					"the client emitted 'first' from its connect callback; server handlers saw %v", got)
			}
			return r
		}
	}
	return sc
}

func scenarios(tier string) []*vx.Scenario {
	b := 1
	if tier == "thorough" {
		b = 2
	}
	s := []*vx.Scenario{lateHandlers("handlers-registered-in-connection-handler", 2)}
	for _, rec := range []bool{false, true} {
		r := "recovery-off"
		if rec {
			r = "recovery-on"
		}
		s = append(s,
			scenario(plan{name: r + "/all-shapes-one-at-a-time", recovery: rec, nclients: 1, up: [][]int{{0, 1, 2, 3, 4, 5, 6}}, down: [][]int{{0, 1, 2, 3, 4, 5, 6}}}, 0),
			scenario(plan{name: r + "/2x2-each-way", recovery: rec, nclients: 1, up: [][]int{{1, 3}, {2, 5}}, down: [][]int{{4, 6}, {3, 2}}}, b),
			scenario(plan{name: r + "/binary-contention", recovery: rec, nclients: 1, up: [][]int{{5, 3}, {4, 5}}, down: [][]int{{5}, {3}}}, b),
			scenario(plan{name: r + "/2-clients-broadcast", recovery: rec, nclients: 2, up: [][]int{{1}}, down: [][]int{{2}}, broadcast: []int{3, 1}}, b),
			// two connections of one server emitting at once, attachments on one or both: the frames of the
			// two connections reach the server interleaved (header A, frame of B, attachment A)
			scenario(plan{name: r + "/2-clients-both-emit/binary-then-text", recovery: rec, nclients: 2, up: [][]int{{3}, {1}}, upClient: []int{0, 1}}, b),
			scenario(plan{name: r + "/2-clients-both-emit/text-then-binary", recovery: rec, nclients: 2, up: [][]int{{2}, {5}}, upClient: []int{0, 1}}, b),
			scenario(plan{name: r + "/2-clients-both-emit/binary-both", recovery: rec, nclients: 2, up: [][]int{{4}, {5}}, upClient: []int{0, 1}}, b),
		)
	}
	return append(s, interleavedScenarios(tier)...)
}

// companion results (real loopback matrix), produced by harness/c01r5
type companionOut struct {
	Evaluations int      `json:"evaluations"`
	Nontrivial  int      `json:"distinct_nontrivial"`
	Caps        []string `json:"caps"`
	Violations  []struct {
		Key    string `json:"key"`
		Msg    string `json:"msg"`
		Replay any    `json:"replay"`
	} `json:"violations"`
	Extra   map[string]any `json:"extra"`
	Samples []any          `json:"samples"`
}

func runCompanion(tier string, r *vx.Report) {
	bin := os.Getenv("VERIF_COMPANION_BIN")
	if os.Getenv("VERIF_NO_COMPANION") == "1" {
		r.CapsHit = append(r.CapsHit, "matrix part skipped (VERIF_NO_COMPANION=1)")
		return
	}
	if bin == "" {
		r.HarnessErrs = append(r.HarnessErrs, "companion binary (real loopback matrix) not built: VERIF_COMPANION_BIN unset")
		return
	}
	cmd := exec.Command(bin, "-tier", tier)
	cmd.Stderr = os.Stderr
	out, err := cmd.Output()
	var co companionOut
	i := strings.LastIndex(string(out), "\nRESULT ")
	if err != nil || i < 0 || json.Unmarshal(out[i+8:], &co) != nil {
		tail := string(out)
		if len(tail) > 2000 {
			tail = tail[len(tail)-2000:]
		}
		r.HarnessErrs = append(r.HarnessErrs, fmt.Sprintf("companion failed: %v\n%s", err, tail))
		return
	}
	r.Evaluations += co.Evaluations
	r.DistinctNontriv += co.Nontrivial
	r.CapsHit = append(r.CapsHit, co.Caps...)
	for _, v := range co.Violations {
		r.Violate(v.Key, v.Msg, v.Replay)
	}
	for k, v := range co.Extra {
		r.Extra["matrix_"+k] = v
	}
	for _, s := range co.Samples {
		r.Sample(s)
	}
}

func main() {
	vx.Main(vx.Config{
		Property: "C01",
		Level:    "model_checking",
		Rule: "schedules: real Manager(s) <-> Server over the in-process polling link, 2 emitter threads per direction (+ a namespace broadcaster with 2 clients), 6 argument shapes (no args, int, unicode string, struct with Binary, map with Binary leaf, two Binary args incl. an empty one) on event names of which one is a prefix of the other, recovery off and on, explored to the deviation bound after a default-schedule set-up; oracle: multiset of rendered (event, arguments) seen by the handlers of each side equals the emitted one. " +
			"Interleaved connections (rig R1, protocol-level clients): 2 (thorough: 3) connections of one server each send one packet frame by frame (text event, event with 1 or 2 attachments, CONNECT of another namespace); every merge of the frame sequences is played; each socket's handlers must see exactly its own event, intact, and no connection may be closed. " +
			"Matrix (real loopback I/O, plain build): argument shape x boundary size x transport {polling, websocket, polling->websocket after the upgrade} x direction x recovery x 1/3 clients, one event at a time followed by a barrier event. distinct_nontrivial = deviating schedules + matrix cells",
		Scenarios: scenarios,
		Budget: func(tier string) time.Duration {
			if tier == "thorough" {
				return 15 * time.Minute
			}
			return 80 * time.Second
		},
		Extra: runCompanion,
		Assumptions: []string{
			"schedule part: in-process polling link (no real TCP); handlers registered before the CONNECT reply (namespace middleware)",
			"every emitted value is fresh (Encode's in-place substitution of nested Binary values is C09's known finding)",
			"matrix part runs in real time: verdicts wait for delivery / the barrier event with a 60 s deadline; a deadline hit is a cap, not a violation",
		},
	})
}
