package main

// Part 5: a frame header must not make the reader allocate beyond the configured limit.
//
// Each case feeds nextPacket a header that declares a length plus 4 payload bytes and measures the
// growth of runtime.MemStats.TotalAlloc around the call. The calls run in a worker subprocess under
// `ulimit -v` so that an allocation of gigabytes ends the worker (a verdict for that case), not the check.

import (
	"bufio"
	"bytes"
	"encoding/hex"
	"encoding/json"
	"fmt"
	"io"
	"os"
	"os/exec"
	"runtime"
	"runtime/debug"
	"strings"
	"sync"
	"time"

	"github.com/karagenc/socket.io-go/engine.io/parser"
	wt "github.com/karagenc/socket.io-go/engine.io/transport/webtransport"
)

const (
	allocCapKiB = 2 << 20  // ulimit -v: 2 GiB of address space
	allocSlack  = 64 << 10 // allowed on top of the limit
	allocKey    = "wt/alloc/header-allocates-beyond-limit"
)

type acase struct {
	Path      string `json:"path"`       // server: nextPacket over newLimitedReader(stream, limit); client: no limit configured
	Limit     int64  `json:"limit"`      // readLimit (MaxBufferSize); ignored on the client path
	HeaderHex string `json:"header_hex"` // the stream is this header followed by the 4 bytes "4abc"
	Declared  uint64 `json:"declared"`   // the length the header declares
	// Full: the whole declared payload follows the header (a sender that really sends what it announces); the
	// limit must bound what the reader allocates all the same
	Full bool `json:"full_payload,omitempty"`
}

func (a acase) String() string {
	kind := "text"
	if strings.HasPrefix(a.HeaderHex, "f") {
		kind = "binary"
	}
	lim := fmt.Sprintf("limit %d", a.Limit)
	if a.Path == "client" {
		lim = "no limit"
	}
	tail := "4 payload bytes"
	if a.Full {
		tail = "the whole declared payload"
	}
	return fmt.Sprintf("%s reader, %s, %s frame header %s (declares %d bytes) + %s", a.Path, lim, kind, a.HeaderHex, a.Declared, tail)
}

func allocCases() []acase {
	var cs []acase
	hdr := func(form int, bin bool, d uint64) string {
		var h []byte
		if form == 16 {
			h = []byte{126, byte(d >> 8), byte(d)}
		} else {
			h = []byte{127, 0, 0, 0, 0, 0, 0, 0, 0}
			for i, v := 8, d; i >= 1; i, v = i-1, v>>8 {
				h[i] = byte(v)
			}
		}
		if bin {
			h[0] |= 0x80
		}
		return hex.EncodeToString(h)
	}
	for _, limit := range []int64{16, 1000, 1000000} {
		l := uint64(limit)
		for _, bin := range []bool{false, true} {
			seen := map[uint64]bool{}
			for _, d := range []uint64{l + 1, 65535} {
				if d <= 65535 && !seen[d] {
					seen[d] = true
					cs = append(cs, acase{"server", limit, hdr(16, bin, d), d, false})
				}
			}
			seen = map[uint64]bool{}
			for _, d := range []uint64{
				l + 1, 65535, 65536, 1 << 24, 1 << 31, 1<<32 - 1,
				// multiples of 2^32: the upper half of the 64-bit field is what a 32-bit read sees
				1 << 32, (l + allocSlack + 1) << 32, 1 << 56, 1 << 62, 1<<63 - 1, 1 << 63, 0xffffffff << 32, 1<<64 - 1,
			} {
				if !seen[d] {
					seen[d] = true
					cs = append(cs, acase{"server", limit, hdr(64, bin, d), d, false})
				}
			}
			// the announced payload really follows: far beyond limit + slack, in both extended forms
			if l+allocSlack < 65535 {
				cs = append(cs, acase{"server", limit, hdr(16, bin, 65535), 65535, true})
			}
			for _, d := range []uint64{l + 4*allocSlack, 1 << 24} {
				cs = append(cs, acase{"server", limit, hdr(64, bin, d), d, true})
			}
		}
	}
	// without a configured limit only "no panic" applies
	for _, bin := range []bool{false, true} {
		for _, d := range []uint64{1 << 47, 1 << 62, 1<<63 - 1, 1 << 63, 1<<64 - 1} {
			cs = append(cs, acase{"client", 0, hdr(64, bin, d), d, false})
		}
	}
	return cs
}

type aresult struct {
	Delta uint64 `json:"delta"`
	Panic string `json:"panic"`
	Err   string `json:"err"`
}

func measure(a acase) (res aresult) {
	hdr, err := hex.DecodeString(a.HeaderHex)
	if err != nil {
		return aresult{Err: "bad header hex"}
	}
	stream := append(hdr, '4', 'a', 'b', 'c')
	if a.Full {
		if a.Declared > 1<<26 {
			return aresult{Err: "full payload too large for the harness"}
		}
		stream = append(hdr, bytes.Repeat([]byte("a"), int(a.Declared))...)
		stream[len(hdr)] = '4'
	}
	rd := bytes.NewReader(stream)
	next := func() (*parser.Packet, error) { return wt.VerifClientNextPacket(rd) }
	if a.Path != "client" {
		next = wt.VerifNewServerReader(rd, a.Limit).NextPacket
	}
	var m0, m1 runtime.MemStats
	var nerr error
	runtime.ReadMemStats(&m0)
	pan := guard(func() { _, nerr = next() })
	runtime.ReadMemStats(&m1)
	res.Delta = m1.TotalAlloc - m0.TotalAlloc
	res.Panic = pan
	if nerr != nil {
		res.Err = nerr.Error()
	}
	return
}

func allocWorkerMain() {
	in := bufio.NewScanner(os.Stdin)
	in.Buffer(make([]byte, 1<<16), 1<<20)
	out := bufio.NewWriter(os.Stdout)
	measure(acase{"server", 1000, "0534616263", 5, false}) // warm-up: one-time allocations of the call path
	out.WriteString("READY\n")
	out.Flush()
	for in.Scan() {
		var a acase
		if err := json.Unmarshal(in.Bytes(), &a); err != nil {
			out.WriteString("END {\"err\":\"bad case\"}\n")
			out.Flush()
			continue
		}
		res := measure(a)
		runtime.GC()
		debug.FreeOSMemory()
		// TotalAlloc is process-wide: a measurement over the bound is repeated and the smallest growth
		// counts, so that a stray allocation of the runtime cannot tip a borderline case
		for k := 0; k < 2 && res.Panic == "" && res.Delta > uint64(a.Limit)+allocSlack; k++ {
			if again := measure(a); again.Delta < res.Delta {
				res = again
			}
			runtime.GC()
			debug.FreeOSMemory()
		}
		b, _ := json.Marshal(res)
		out.WriteString("END " + string(b) + "\n")
		out.Flush()
	}
}

type allocStats struct {
	stats
	table  []string
	deaths int
	caps   []string
}

type worker struct {
	cmd    *exec.Cmd
	stdin  io.WriteCloser
	rd     *bufio.Reader
	stderr *lockedBuf
}

type lockedBuf struct {
	mu sync.Mutex
	b  bytes.Buffer
}

func (l *lockedBuf) Write(p []byte) (int, error) {
	l.mu.Lock()
	defer l.mu.Unlock()
	if l.b.Len() < 1<<16 {
		l.b.Write(p)
	}
	return len(p), nil
}

func (l *lockedBuf) String() string { l.mu.Lock(); defer l.mu.Unlock(); return l.b.String() }

func startWorker() (*worker, error) {
	self, err := os.Executable()
	if err != nil {
		return nil, err
	}
	cmd := exec.Command("sh", "-c", fmt.Sprintf(`ulimit -v %d || exit 97; exec "$0" -alloc-worker`, allocCapKiB), self)
	cmd.Env = append(os.Environ(), "GOMAXPROCS=2")
	w := &worker{cmd: cmd, stderr: &lockedBuf{}}
	cmd.Stderr = w.stderr
	if w.stdin, err = cmd.StdinPipe(); err != nil {
		return nil, err
	}
	so, err := cmd.StdoutPipe()
	if err != nil {
		return nil, err
	}
	if err := cmd.Start(); err != nil {
		return nil, err
	}
	w.rd = bufio.NewReader(so)
	t := time.AfterFunc(60*time.Second, func() { cmd.Process.Kill() })
	line, err := w.rd.ReadString('\n')
	t.Stop()
	if strings.TrimSpace(line) != "READY" {
		cmd.Process.Kill()
		cmd.Wait()
		return nil, fmt.Errorf("alloc worker did not start under ulimit -v %d KiB: %v %s", allocCapKiB, err, w.stderr.String())
	}
	return w, nil
}

func (w *worker) stop() {
	w.stdin.Close()
	w.cmd.Wait()
}

// runAlloc runs the cases in memory-capped workers and records verdicts. The second result is a
// harness error (the worker cannot be started at all), never a verdict.
func runAlloc(c *collector, cases []acase) (st allocStats, harnessErr string) {
	var w *worker
	defer func() {
		if w != nil {
			w.stop()
		}
	}()
	for i, a := range cases {
		if time.Now().After(deadline) {
			st.caps = append(st.caps, fmt.Sprintf("alloc: deadline reached, %d cases not run", len(cases)-i))
			return
		}
		if w == nil {
			var err error
			if w, err = startWorker(); err != nil {
				return st, err.Error()
			}
		}
		st.evals++
		st.nontriv++
		ac := a
		replay := rcase{Part: "alloc", Alloc: &ac}
		b, _ := json.Marshal(a)
		timedOut := false
		t := time.AfterFunc(60*time.Second, func() { timedOut = true; w.cmd.Process.Kill() })
		fmt.Fprintf(w.stdin, "%s\n", b)
		line, err := w.rd.ReadString('\n')
		t.Stop()
		if err != nil || !strings.HasPrefix(line, "END ") {
			// the worker is gone
			w.stdin.Close()
			w.cmd.Wait()
			tail := w.stderr.String()
			w = nil
			if timedOut {
				st.caps = append(st.caps, fmt.Sprintf("alloc: %v did not return within 60 s (worker killed)", a))
				st.out(a.Path + ": no result")
				st.table = append(st.table, a.String()+" -> no result within 60 s")
				continue
			}
			st.deaths++
			first := strings.SplitN(strings.TrimSpace(tail), "\n", 2)[0]
			oom := strings.Contains(tail, "out of memory") || strings.Contains(tail, "cannot allocate memory")
			st.table = append(st.table, a.String()+" -> worker died: "+first)
			switch {
			case oom && a.Path == "client":
				st.out("client: out of memory (no limit configured: not a violation)")
			case oom:
				st.out("server: out of memory")
				c.add(allocKey, i, fmt.Sprintf("%v: the process ran out of memory under a %d MiB address-space cap (%s)", a, allocCapKiB>>10, first), replay)
			default:
				st.out(a.Path + ": crash")
				c.add("wt/alloc/crash: "+norm(first), i, fmt.Sprintf("%v: the process died: %s", a, first), replay)
			}
			continue
		}
		var res aresult
		if err := json.Unmarshal([]byte(strings.TrimPrefix(line, "END ")), &res); err != nil {
			return st, "alloc worker: unreadable result " + line
		}
		st.table = append(st.table, fmt.Sprintf("%v -> +%d bytes allocated, error %q, panic %q", a, res.Delta, res.Err, res.Panic))
		switch {
		case res.Panic != "":
			st.out(a.Path + ": panic")
			d := decoders[3]
			if a.Path == "client" {
				d = decoders[4]
			}
			in := a.HeaderHex + "34616263"
			c.add("arbitrary/"+d+"/panic: "+res.Panic, len(in)/2, fmt.Sprintf("%s panics on the %d bytes %s: %s", d, len(in)/2, in, res.Panic), replay)
		case a.Path != "client" && res.Delta > uint64(a.Limit)+allocSlack:
			st.out("server: allocates beyond limit")
			c.add(allocKey, i, fmt.Sprintf("%v: nextPacket allocated %d bytes before returning %q; allowed: limit + 64 KiB = %d", a, res.Delta, res.Err, uint64(a.Limit)+allocSlack), replay)
		default:
			st.out(a.Path + ": within bound")
		}
	}
	return
}
