package main

// Reference encoders written from the Engine.IO v4 protocol text, independent of the library:
//
//   packet   = <type digit '0'..'6'> <data>                    (text)
//            = <raw bytes>                                     (binary, transport carries binary frames)
//            = 'b' <base64(data), RFC 4648 std alphabet, '=' padded>   (binary, transport without binary support)
//   payload  = packet *( 0x1e packet )                         (HTTP long-polling, always the base64 form)
//   WebTransport frame = header payload, header =
//            byte 0: bit 7 = 1 if the payload is binary, bits 0-6 = L                  if L < 126
//                    bits 0-6 = 126, then L as 16-bit unsigned big endian              if 126 <= L < 65536
//                    bits 0-6 = 127, then L as 64-bit unsigned big endian              otherwise
//            where L is the length of the encoded packet that follows.

import (
	"encoding/base64"
	"encoding/hex"
	"fmt"
)

// pkt is the harness' own description of an Engine.IO packet.
type pkt struct {
	Type   int    // 0 open 1 close 2 ping 3 pong 4 message 5 upgrade 6 noop
	Binary bool   // only with Type == 4 (API precondition of parser.NewPacket)
	Data   []byte // text: must not contain 0x1e (quantifier of the property)
}

const b64abc = "ABCDEFGHIJKLMNOPQRSTUVWXYZabcdefghijklmnopqrstuvwxyz0123456789+/"

// refBase64 is RFC 4648 section 4 written out by hand.
func refBase64(in []byte) []byte {
	out := make([]byte, 0, (len(in)+2)/3*4)
	for i := 0; i+3 <= len(in); i += 3 {
		v := uint(in[i])<<16 | uint(in[i+1])<<8 | uint(in[i+2])
		out = append(out, b64abc[v>>18&63], b64abc[v>>12&63], b64abc[v>>6&63], b64abc[v&63])
	}
	switch len(in) % 3 {
	case 1:
		v := uint(in[len(in)-1]) << 16
		out = append(out, b64abc[v>>18&63], b64abc[v>>12&63], '=', '=')
	case 2:
		v := uint(in[len(in)-2])<<16 | uint(in[len(in)-1])<<8
		out = append(out, b64abc[v>>18&63], b64abc[v>>12&63], b64abc[v>>6&63], '=')
	}
	return out
}

// refPacket returns the bytes protocol v4 prescribes for p.
func refPacket(p pkt, supportsBinary bool) []byte {
	if p.Binary {
		if supportsBinary {
			return append([]byte{}, p.Data...)
		}
		return append([]byte{'b'}, refBase64(p.Data)...)
	}
	return append([]byte{byte('0' + p.Type)}, p.Data...)
}

// refPayload returns the long-polling payload of a packet sequence.
func refPayload(seq []pkt) []byte {
	var out []byte
	for i, p := range seq {
		if i > 0 {
			out = append(out, 0x1e)
		}
		out = append(out, refPacket(p, false)...)
	}
	return out
}

// refHeader returns the WebTransport frame header for an encoded packet of length l.
func refHeader(l int, binary bool) []byte {
	var h []byte
	switch {
	case l < 126:
		h = []byte{byte(l)}
	case l < 65536:
		h = []byte{126, byte(l >> 8), byte(l)}
	default:
		h = []byte{127, 0, 0, 0, 0, 0, 0, 0, 0}
		v := uint64(l)
		for i := 8; i >= 1; i-- {
			h[i] = byte(v)
			v >>= 8
		}
	}
	if binary {
		h[0] |= 0x80
	}
	return h
}

func lenForm(l int) string {
	switch {
	case l < 126:
		return "len7"
	case l < 65536:
		return "len16"
	}
	return "len64"
}

// pattern is the fixed payload pattern used for the longer lengths; text never contains 0x1e.
func pattern(n int, text bool) []byte {
	b := make([]byte, n)
	for i := range b {
		v := byte(i*131 + 7 + i>>8)
		if text && v == 0x1e {
			v = 0x1f
		}
		b[i] = v
	}
	return b
}

// selfTest checks the reference against fixed vectors from the protocol documents and against the
// standard library's base64; a failure is a harness error, never a verdict.
func selfTest() error {
	for n := 0; n <= 70; n++ {
		d := pattern(n, false)
		if string(refBase64(d)) != base64.StdEncoding.EncodeToString(d) {
			return fmt.Errorf("reference base64 differs from encoding/base64 at length %d", n)
		}
	}
	vec := []struct {
		p    pkt
		sb   bool
		want string
	}{
		{pkt{4, false, []byte("hello")}, false, "4hello"},
		{pkt{4, true, []byte{1, 2, 3, 4}}, false, "bAQIDBA=="},
		{pkt{4, true, []byte{1, 2, 3, 4}}, true, "\x01\x02\x03\x04"},
		{pkt{2, false, []byte("probe")}, true, "2probe"},
		{pkt{6, false, nil}, false, "6"},
	}
	for _, v := range vec {
		if got := string(refPacket(v.p, v.sb)); got != v.want {
			return fmt.Errorf("reference packet encoder: %q, protocol document says %q", got, v.want)
		}
	}
	// the example of the protocol document: 4hello\x1e2\x1e4world and 4hello\x1ebAQIDBA==
	if got := string(refPayload([]pkt{{4, false, []byte("hello")}, {2, false, nil}, {4, false, []byte("world")}})); got != "4hello\x1e2\x1e4world" {
		return fmt.Errorf("reference payload encoder: %q", got)
	}
	if got := string(refPayload([]pkt{{4, false, []byte("hello")}, {4, true, []byte{1, 2, 3, 4}}})); got != "4hello\x1ebAQIDBA==" {
		return fmt.Errorf("reference payload encoder: %q", got)
	}
	hv := []struct {
		l    int
		bin  bool
		want string
	}{
		{0, false, "00"}, {0, true, "80"}, {125, false, "7d"}, {125, true, "fd"},
		{126, false, "7e007e"}, {126, true, "fe007e"}, {65535, false, "7effff"},
		{65536, false, "7f0000000000010000"}, {65536, true, "ff0000000000010000"}, {70000, true, "ff0000000000011170"},
	}
	for _, v := range hv {
		if got := hex.EncodeToString(refHeader(v.l, v.bin)); got != v.want {
			return fmt.Errorf("reference frame header for %d: %s want %s", v.l, got, v.want)
		}
	}
	return nil
}
