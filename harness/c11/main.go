// C11: Engine.IO framing round-trips and matches protocol v4 in every transport's form.
//
// Pure input enumeration against reference encoders written from the protocol text (ref.go):
//
//	(1) packet     every single packet: 7 types x {text, binary} x payloads x {binary supported, base64}
//	(1b) handshake the OPEN packet's JSON body, both directions
//	(2) payload    every sequence of 0..N packets over a 13-packet alphabet (long-polling payloads)
//	(3) wt         WebTransport frames of every length, through send / nextPacket as the transports compose them
//	(4) arbitrary  every short byte string into every decoder: no panic
//	(5) alloc      frame headers declaring large lengths: allocation bounded by the configured limit (alloc.go, subprocess)
package main

import (
	"bytes"
	"encoding/hex"
	"encoding/json"
	"flag"
	"fmt"
	"io"
	"os"
	"reflect"
	"regexp"
	"runtime"
	"sort"
	"strings"
	"sync"
	"time"

	"github.com/karagenc/socket.io-go/engine.io/parser"
	wt "github.com/karagenc/socket.io-go/engine.io/transport/webtransport"
	vx "github.com/karagenc/socket.io-go/internal/vexplore"
)

// ---------------------------------------------------------------- findings

type finding struct {
	Key, Msg string
	Size     int
	Replay   any
	Count    int
}

// collector keeps, per violation key, the smallest failing input (size, then message order), so the
// verdict and its message do not depend on the order in which workers finish.
type collector struct {
	mu sync.Mutex
	m  map[string]*finding
}

func newCollector() *collector { return &collector{m: map[string]*finding{}} }

func (c *collector) add(key string, size int, msg string, replay any) {
	c.mu.Lock()
	defer c.mu.Unlock()
	f := c.m[key]
	if f == nil {
		c.m[key] = &finding{key, msg, size, replay, 1}
		return
	}
	f.Count++
	if size < f.Size || (size == f.Size && msg < f.Msg) {
		f.Size, f.Msg, f.Replay = size, msg, replay
	}
}

func (c *collector) keys() []string {
	var ks []string
	for k := range c.m {
		ks = append(ks, k)
	}
	sort.Strings(ks)
	return ks
}

var reHex = regexp.MustCompile(`0x[0-9a-fA-F]+`)
var reNum = regexp.MustCompile(`[0-9]+`)

// norm removes input-specific numbers from a panic / error text so that it can be part of a key.
func norm(s string) string {
	s = reHex.ReplaceAllString(s, "0xN")
	s = reNum.ReplaceAllString(s, "N")
	if len(s) > 120 {
		s = s[:120]
	}
	return s
}

// guard runs f and turns a panic into a value.
func guard(f func()) (pan string) {
	defer func() {
		if r := recover(); r != nil {
			pan = norm(fmt.Sprint(r))
		}
	}()
	f()
	return ""
}

// ---------------------------------------------------------------- replay descriptions

type rpkt struct {
	Type       int    `json:"type"`
	Binary     bool   `json:"binary"`
	DataHex    string `json:"data_hex"`
	PatternLen int    `json:"pattern_len,omitempty"` // data = pattern(n) of ref.go (too long to write out)
}

type rcase struct {
	Part           string  `json:"part"`
	Packets        []rpkt  `json:"packets,omitempty"`
	SupportsBinary bool    `json:"supports_binary,omitempty"`
	FrameLen       int     `json:"frame_len,omitempty"`
	Binary         bool    `json:"binary,omitempty"`
	Type           int     `json:"type,omitempty"`
	InputHex       string  `json:"input_hex,omitempty"`
	Handshake      *hsCase `json:"handshake,omitempty"`
	Alloc          *acase  `json:"alloc,omitempty"`
}

func toRpkt(p pkt) rpkt {
	if len(p.Data) > 64 && bytes.Equal(p.Data, pattern(len(p.Data), !p.Binary)) {
		return rpkt{Type: p.Type, Binary: p.Binary, PatternLen: len(p.Data)}
	}
	return rpkt{Type: p.Type, Binary: p.Binary, DataHex: hex.EncodeToString(p.Data)}
}

func fromRpkt(r rpkt) pkt {
	if r.PatternLen > 0 {
		return pkt{r.Type, r.Binary, pattern(r.PatternLen, !r.Binary)}
	}
	d, _ := hex.DecodeString(r.DataHex)
	return pkt{r.Type, r.Binary, d}
}

var typeNames = [...]string{"open", "close", "ping", "pong", "message", "upgrade", "noop"}

func q(b []byte) string {
	if len(b) <= 48 {
		return fmt.Sprintf("%q", b)
	}
	return fmt.Sprintf("%q...", b[:24])
}

func qn(b []byte) string { return fmt.Sprintf("%s (%d bytes)", q(b), len(b)) }

func descPkt(p pkt) string {
	k := "text"
	if p.Binary {
		k = "binary"
	}
	return fmt.Sprintf("%s %s packet, data %s", k, typeNames[p.Type], qn(p.Data))
}

func diffPkt(got *parser.Packet, want pkt) string {
	if got == nil {
		return "nil packet without an error"
	}
	var d []string
	if int(got.Type) != want.Type {
		d = append(d, fmt.Sprintf("type %d, sent %d", got.Type, want.Type))
	}
	if got.IsBinary != want.Binary {
		d = append(d, fmt.Sprintf("IsBinary %v, sent %v", got.IsBinary, want.Binary))
	}
	if !bytes.Equal(got.Data, want.Data) {
		d = append(d, fmt.Sprintf("data %s, sent %s", qn(got.Data), qn(want.Data)))
	}
	return strings.Join(d, "; ")
}

// plainWriter has no WriteByte: Encode must then go through its byteWriter wrapper.
type plainWriter struct{ b []byte }

func (w *plainWriter) Write(p []byte) (int, error) { w.b = append(w.b, p...); return len(p), nil }

// ---------------------------------------------------------------- statistics and work distribution

type stats struct {
	evals, nontriv int
	outcomes       map[string]int
}

func (s *stats) out(k string) {
	if s.outcomes == nil {
		s.outcomes = map[string]int{}
	}
	s.outcomes[k]++
}

func (s *stats) merge(o *stats) {
	s.evals += o.evals
	s.nontriv += o.nontriv
	for k, v := range o.outcomes {
		if s.outcomes == nil {
			s.outcomes = map[string]int{}
		}
		s.outcomes[k] += v
	}
}

var (
	nworkers = 8
	deadline time.Time
)

// parallel runs chunk 0..n-1 on at most nworkers goroutines; chunks not started before the deadline
// are reported back as skipped.
func parallel(n int, f func(chunk int, st *stats)) (total stats, skipped int) {
	per := make([]stats, n)
	done := make([]bool, n)
	var wg sync.WaitGroup
	var mu sync.Mutex
	next := 0
	for w := 0; w < nworkers; w++ {
		wg.Add(1)
		go func() {
			defer wg.Done()
			for {
				mu.Lock()
				i := next
				next++
				mu.Unlock()
				if i >= n || time.Now().After(deadline) {
					return
				}
				f(i, &per[i])
				done[i] = true
			}
		}()
	}
	wg.Wait()
	for i := range per {
		if done[i] {
			total.merge(&per[i])
		} else {
			skipped++
		}
	}
	return
}

// ---------------------------------------------------------------- (1) single packets

func checkPacket(c *collector, p pkt, sb bool, st *stats) {
	st.evals++
	if len(p.Data) > 0 {
		st.nontriv++
	}
	kind := "text"
	if p.Binary {
		kind = "binary-base64"
		if sb {
			kind = "binary-raw"
		}
	}
	want := refPacket(p, sb)
	failed := false
	fail := func(class, msg string) {
		failed = true
		c.add("packet/"+kind+"/"+class, len(p.Data), fmt.Sprintf("%s, supportsBinary=%v: %s", descPkt(p), sb, msg),
			rcase{Part: "packet", Packets: []rpkt{toRpkt(p)}, SupportsBinary: sb})
	}
	stage := ""
	pan := guard(func() {
		stage = "NewPacket"
		pk, err := parser.NewPacket(parser.PacketType(p.Type), p.Binary, p.Data)
		if err != nil {
			fail("rejected", "NewPacket: "+err.Error())
			return
		}
		stage = "EncodedLen"
		elen := pk.EncodedLen(sb)
		stage = "Encode"
		var buf bytes.Buffer
		if err := pk.Encode(&buf, sb); err != nil {
			fail("encode-error", "Encode: "+err.Error())
			return
		}
		var pw plainWriter
		if err := pk.Encode(&pw, sb); err != nil {
			fail("encode-error", "Encode (writer without WriteByte): "+err.Error())
			return
		}
		got := buf.Bytes()
		if !bytes.Equal(got, want) {
			fail("bytes-differ-from-v4", fmt.Sprintf("Encode wrote %s, protocol v4 prescribes %s", q(got), q(want)))
		} else if !bytes.Equal(pw.b, want) {
			fail("bytes-differ-from-v4", fmt.Sprintf("Encode into a writer without WriteByte wrote %s, protocol v4 prescribes %s", q(pw.b), q(want)))
		}
		if elen != len(got) {
			fail("encoded-len", fmt.Sprintf("EncodedLen = %d, Encode wrote %d bytes", elen, len(got)))
		}
		stage = "Decode"
		dec, err := parser.Decode(bytes.NewReader(got), p.Binary && sb)
		if err != nil {
			fail("roundtrip", fmt.Sprintf("Decode(Encode(p)) of %s: error %v", q(got), err))
		} else if d := diffPkt(dec, p); d != "" {
			fail("roundtrip", fmt.Sprintf("Decode(Encode(p)) of %s: %s", q(got), d))
		}
		if !bytes.Equal(got, want) {
			// the library's own bytes deviate: it must still understand the protocol's bytes
			dec, err := parser.Decode(bytes.NewReader(want), p.Binary && sb)
			if err != nil {
				fail("decode-of-v4-bytes", fmt.Sprintf("Decode(%s): error %v", q(want), err))
			} else if d := diffPkt(dec, p); d != "" {
				fail("decode-of-v4-bytes", fmt.Sprintf("Decode(%s): %s", q(want), d))
			}
		}
	})
	if pan != "" {
		fail("panic in "+stage+": "+pan, "panic in "+stage+": "+pan)
	}
	if failed {
		st.out(kind + ": violation")
	} else {
		st.out(kind + ": ok")
	}
}

// packetKinds: 7 text types + binary message (NewPacket allows binary only for messages).
var packetKinds = []pkt{{0, false, nil}, {1, false, nil}, {2, false, nil}, {3, false, nil}, {4, false, nil}, {5, false, nil}, {6, false, nil}, {4, true, nil}}

// patternLens: payload lengths run with a fixed byte pattern for every packet kind in both modes: every
// length up to 4200 (all base64 padding classes across the 1 KiB / 2 KiB / 3 KiB / 4 KiB marks, where a
// chunked or buffered encoder would show its seams) and the neighbourhoods of 8 KiB ... 64 KiB.
var patternLens = func() []int {
	var ls []int
	for l := 3; l <= 4200; l++ {
		ls = append(ls, l)
	}
	for _, c := range []int{8192, 16384, 32768, 49152, 65536} {
		for l := c - 5; l <= c+5; l++ {
			ls = append(ls, l)
		}
	}
	return append(ls, 70000)
}()

func partPackets(c *collector, tier string) (stats, int) {
	const groups = 257 // 0: empty, all 1-byte payloads, pattern lengths; g>0: 2-byte payloads starting with g-1
	base := len(packetKinds) * groups
	extra := 0
	if tier == "thorough" {
		extra = 256 // binary message, base64 mode: every 3-byte payload (every complete base64 quantum), by first byte
	}
	p3 := pattern(3, false)
	return parallel(base+extra, func(chunk int, st *stats) {
		if chunk >= base {
			a := byte(chunk - base)
			for x := 0; x < 65536; x++ {
				d := []byte{a, byte(x >> 8), byte(x)}
				if bytes.Equal(d, p3) {
					continue // already run as the pattern payload of length 3
				}
				checkPacket(c, pkt{4, true, d}, false, st)
			}
			return
		}
		k := packetKinds[chunk/groups]
		g := chunk % groups
		run := func(data []byte) {
			if !k.Binary && bytes.IndexByte(data, 0x1e) >= 0 {
				return // outside the quantifier: text never contains the record separator
			}
			for _, sb := range []bool{true, false} {
				checkPacket(c, pkt{k.Type, k.Binary, data}, sb, st)
			}
		}
		if g == 0 {
			run([]byte{})
			for a := 0; a < 256; a++ {
				run([]byte{byte(a)})
			}
			for _, n := range patternLens {
				run(pattern(n, !k.Binary))
			}
			return
		}
		for b := 0; b < 256; b++ {
			run([]byte{byte(g - 1), byte(b)})
		}
	})
}

// ---------------------------------------------------------------- (1b) handshake body

type hsCase struct {
	SID          string   `json:"sid"`
	Upgrades     []string `json:"upgrades"`
	PingInterval int64    `json:"pingInterval"`
	PingTimeout  int64    `json:"pingTimeout"`
	MaxPayload   int64    `json:"maxPayload"`
}

func jsonStrings(l []string) string {
	var s []string
	for _, x := range l {
		s = append(s, `"`+x+`"`)
	}
	return "[" + strings.Join(s, ",") + "]"
}

func checkHandshake(c *collector, h hsCase, st *stats) {
	st.evals++
	st.nontriv++
	failed := false
	defer func() {
		if failed {
			st.out("violation")
		} else {
			st.out("ok")
		}
	}()
	fail := func(class, msg string) {
		failed = true
		hc := h
		c.add("handshake/"+class, len(h.SID)+len(h.Upgrades), fmt.Sprintf("handshake %+v: %s", h, msg), rcase{Part: "handshake", Handshake: &hc})
	}
	// the OPEN packet as the protocol document writes it (sids here need no JSON escaping)
	body := fmt.Sprintf(`{"sid":"%s","upgrades":%s,"pingInterval":%d,"pingTimeout":%d,"maxPayload":%d}`, h.SID, jsonStrings(h.Upgrades), h.PingInterval, h.PingTimeout, h.MaxPayload)
	stage := ""
	pan := guard(func() {
		stage = "Decode+ParseHandshakeResponse"
		p, err := parser.Decode(strings.NewReader("0"+body), false)
		if err != nil {
			fail("parse", "Decode: "+err.Error())
			return
		}
		hr, err := parser.ParseHandshakeResponse(p)
		if err != nil {
			fail("parse", fmt.Sprintf("ParseHandshakeResponse(0%s): %v", body, err))
			return
		}
		if hr.SID != h.SID || !reflect.DeepEqual(append([]string{}, hr.Upgrades...), append([]string{}, h.Upgrades...)) || hr.PingInterval != h.PingInterval || hr.PingTimeout != h.PingTimeout || hr.MaxPayload != h.MaxPayload ||
			hr.GetPingInterval() != time.Duration(h.PingInterval)*time.Millisecond || hr.GetPingTimeout() != time.Duration(h.PingTimeout)*time.Millisecond {
			fail("parse", fmt.Sprintf("ParseHandshakeResponse(0%s) = %+v", body, *hr))
		}
		stage = "Marshal"
		b, err := json.Marshal(&parser.HandshakeResponse{SID: h.SID, Upgrades: h.Upgrades, PingInterval: h.PingInterval, PingTimeout: h.PingTimeout, MaxPayload: h.MaxPayload})
		if err != nil {
			fail("marshal", err.Error())
			return
		}
		var got, want map[string]any
		if err := json.Unmarshal(b, &got); err != nil {
			fail("marshal", "not JSON: "+string(b))
			return
		}
		json.Unmarshal([]byte(body), &want)
		if !reflect.DeepEqual(got, want) {
			fail("marshal", fmt.Sprintf("HandshakeResponse marshals to %s, protocol v4 prescribes the members of %s", b, body))
		}
	})
	if pan != "" {
		fail("panic in "+stage+": "+pan, "panic: "+pan)
	}
}

func partHandshake(c *collector) (st stats) {
	for _, sid := range []string{"", "a", "lv_VI97HAXpY6yYWAAAC"} {
		for _, up := range [][]string{{}, {"websocket"}, {"websocket", "webtransport"}} {
			for _, pi := range []int64{0, 1, 25000} {
				for _, pt := range []int64{0, 20000} {
					for _, mp := range []int64{0, 1000000, 1 << 40} {
						checkHandshake(c, hsCase{sid, up, pi, pt, mp}, &st)
					}
				}
			}
		}
	}
	return
}

// ---------------------------------------------------------------- (2) long-polling payloads

var payloadAlphabet = []pkt{
	{0, false, []byte(`{"sid":"x","upgrades":[],"pingInterval":1,"pingTimeout":2,"maxPayload":3}`)},
	{1, false, nil},
	{2, false, []byte("probe")},
	{3, false, []byte("probe")},
	{4, false, []byte{}},
	{4, false, []byte("hello")},
	{4, false, []byte("b4\xe2\x82\xac\x1f")}, // starts like a base64 packet, multi-byte rune, neighbour of the separator
	{4, true, []byte{}},
	{4, true, []byte{0x1e}},             // the separator inside binary, one byte (== padding)
	{4, true, []byte{0x1e, 0x1e}},       // = padding
	{4, true, []byte{0x00, 0xff, 0x1e}}, // no padding
	{5, false, nil},
	{6, false, nil},
}

func checkPayload(c *collector, seq []pkt, st *stats) {
	st.evals++
	if len(seq) >= 2 {
		st.nontriv++
	}
	nclass := fmt.Sprintf("n=%d", len(seq))
	if len(seq) >= 2 {
		nclass = "n>=2"
	}
	failed := false
	fail := func(class, msg string) {
		failed = true
		var rp []rpkt
		var ds []string
		for _, p := range seq {
			rp = append(rp, toRpkt(p))
			ds = append(ds, descPkt(p))
		}
		c.add("payload/"+nclass+"/"+class, len(seq)*1000+len(refPayload(seq)), fmt.Sprintf("payload of %d packets [%s]: %s", len(seq), strings.Join(ds, " | "), msg),
			rcase{Part: "payload", Packets: rp})
	}
	want := refPayload(seq)
	stage := ""
	pan := guard(func() {
		stage = "NewPacket"
		pks := make([]*parser.Packet, 0, len(seq))
		for _, p := range seq {
			pk, err := parser.NewPacket(parser.PacketType(p.Type), p.Binary, p.Data)
			if err != nil {
				fail("rejected", err.Error())
				return
			}
			pks = append(pks, pk)
		}
		stage = "EncodedPayloadsLen"
		l := parser.EncodedPayloadsLen(pks...)
		stage = "EncodePayloads"
		var buf bytes.Buffer
		err := parser.EncodePayloads(&buf, pks...)
		var pw plainWriter
		err2 := parser.EncodePayloads(&pw, pks...)
		stage = "DecodePayloads"
		if len(seq) == 0 {
			// nothing to send (a long poll that times out with an empty queue answers exactly this): nothing
			// is written, nothing panics, and the advertised length is the real one - it becomes the
			// Content-Length of the answer and the size buffers are grown to
			if err != nil || err2 != nil {
				fail("encode-error", fmt.Sprint(err, err2))
			}
			if buf.Len() != 0 || len(pw.b) != 0 {
				fail("bytes-differ-from-v4", fmt.Sprintf("EncodePayloads of no packets wrote %s", q(buf.Bytes())))
			}
			if l != buf.Len() {
				fail("encoded-len", fmt.Sprintf("EncodedPayloadsLen = %d, EncodePayloads wrote %d bytes", l, buf.Len()))
			}
			parser.DecodePayloads(bytes.NewReader(buf.Bytes()))
			return
		}
		if err != nil || err2 != nil {
			fail("encode-error", fmt.Sprint(err, err2))
			return
		}
		got := buf.Bytes()
		if !bytes.Equal(got, want) {
			fail("bytes-differ-from-v4", fmt.Sprintf("EncodePayloads wrote %s, protocol v4 prescribes %s", q(got), q(want)))
		} else if !bytes.Equal(pw.b, want) {
			fail("bytes-differ-from-v4", fmt.Sprintf("EncodePayloads into a writer without WriteByte wrote %s, protocol v4 prescribes %s", q(pw.b), q(want)))
		}
		if l != len(got) {
			fail("encoded-len", fmt.Sprintf("EncodedPayloadsLen = %d, EncodePayloads wrote %d bytes", l, len(got)))
		}
		check := func(class string, in []byte) {
			dec, err := parser.DecodePayloads(bytes.NewReader(in))
			if err != nil {
				fail(class, fmt.Sprintf("DecodePayloads(%s): error %v", q(in), err))
				return
			}
			if len(dec) != len(seq) {
				fail(class, fmt.Sprintf("DecodePayloads(%s) returned %d packets", q(in), len(dec)))
				return
			}
			for i := range dec {
				if d := diffPkt(dec[i], seq[i]); d != "" {
					fail(class, fmt.Sprintf("DecodePayloads(%s): packet %d: %s", q(in), i, d))
					return
				}
			}
		}
		check("roundtrip", got)
		if !bytes.Equal(got, want) {
			check("decode-of-v4-bytes", want)
		}
	})
	if pan != "" {
		fail("panic in "+stage+": "+pan, "panic in "+stage+": "+pan)
	}
	if failed {
		st.out(nclass + ": violation")
	} else {
		st.out(nclass + ": ok")
	}
}

func partPayloads(c *collector, maxN int) (stats, int) {
	// chunk = first packet of the sequence (chunk 0 = the empty sequence)
	na := len(payloadAlphabet)
	return parallel(na+2, func(chunk int, st *stats) {
		if chunk == 0 {
			checkPayload(c, []pkt{}, st)
			return
		}
		if chunk == na+1 {
			// text data with white space and control characters at its edges, as the only, the first and the
			// last packet of a payload (a decoder that "normalises" the HTTP body shows here)
			edge := []byte{'\n', '\r', '\t', ' ', 0x00, 0x1f, 0x7f, 'a'}
			hello := pkt{4, false, []byte("hello")}
			var datas [][]byte
			for _, a := range edge {
				datas = append(datas, []byte{a})
				for _, b := range edge {
					datas = append(datas, []byte{a, b}, []byte{a, 'x', b})
				}
			}
			for _, d := range datas {
				for _, typ := range []int{4, 2} {
					p := pkt{typ, false, d}
					checkPayload(c, []pkt{p}, st)
					checkPayload(c, []pkt{hello, p}, st)
					checkPayload(c, []pkt{p, hello}, st)
					checkPayload(c, []pkt{p, p}, st)
				}
			}
			return
		}
		var rec func(seq []pkt)
		rec = func(seq []pkt) {
			checkPayload(c, seq, st)
			if len(seq) == maxN {
				return
			}
			for _, p := range payloadAlphabet {
				rec(append(seq[:len(seq):len(seq)], p))
			}
		}
		rec([]pkt{payloadAlphabet[chunk-1]})
	})
}

// ---------------------------------------------------------------- (3) WebTransport frames

var compositions = []string{"server", "server-chunked", "client"}

// chunkReader delivers a stream in pieces, as a QUIC stream does: the first `single` reads return one
// byte each (so every header byte arrives alone), later reads at most n bytes.
type chunkReader struct {
	r         io.Reader
	single, n int
}

func (c *chunkReader) Read(p []byte) (int, error) {
	max := c.n
	if c.single > 0 {
		c.single--
		max = 1
	}
	if len(p) > max {
		p = p[:max]
	}
	return c.r.Read(p)
}

const defaultMaxBufferSize = 1e6 // engine.io/constants.go: what a server passes as readLimit by default

func frameReader(comp string, stream []byte) func() (*parser.Packet, error) {
	var rd io.Reader = bytes.NewReader(stream)
	switch comp {
	case "client":
		return func() (*parser.Packet, error) { return wt.VerifClientNextPacket(rd) }
	case "server-chunked":
		rd = &chunkReader{rd, 12, 1021}
	}
	return wt.VerifNewServerReader(rd, defaultMaxBufferSize).NextPacket
}

var sentinel = pkt{2, false, []byte("probe")}

func only(failed []string) string {
	if len(failed) == len(compositions) {
		return ""
	}
	return "/only:" + strings.Join(failed, "+")
}

func checkFrame(c *collector, L int, bin bool, typ int, st *stats) {
	st.evals++
	if L >= 1 {
		st.nontriv++
	}
	n := L
	kind := "binary"
	if !bin {
		n = L - 1
		kind = "text"
	}
	p := pkt{typ, bin, pattern(n, !bin)}
	form := lenForm(L)
	failed := false
	fail := func(class, msg string) {
		failed = true
		c.add("wt/"+form+"/"+class, L, fmt.Sprintf("%s %s frame of length %d: %s", kind, typeNames[typ], L, msg), rcase{Part: "wt", FrameLen: L, Binary: bin, Type: typ})
	}
	wantH := refHeader(L, bin)
	want := append(append([]byte{}, wantH...), refPacket(p, true)...)
	tail := append(refHeader(6, false), refPacket(sentinel, true)...)
	stage := ""
	pan := guard(func() {
		stage = "send"
		pk, err := parser.NewPacket(parser.PacketType(typ), bin, p.Data)
		if err != nil {
			fail("rejected", err.Error())
			return
		}
		var w bytes.Buffer
		if err := wt.VerifSend(&w, pk); err != nil {
			fail("send-error", err.Error())
			return
		}
		frame := w.Bytes()
		conform := bytes.Equal(frame, want)
		if !conform {
			hl := len(wantH)
			if hl > len(frame) {
				hl = len(frame)
			}
			switch {
			case len(frame) == 0:
				fail("header/missing", "send wrote nothing")
			case (frame[0]^wantH[0])&0x80 != 0:
				fail("header/binary-flag", fmt.Sprintf("send wrote header %x..., the protocol prescribes %x", frame[:hl], wantH))
			case frame[0]&0x7f != wantH[0]&0x7f:
				fail("header/length-form", fmt.Sprintf("send wrote header %x..., the protocol prescribes %x", frame[:hl], wantH))
			case !bytes.Equal(frame[:hl], wantH):
				fail("header/length-value", fmt.Sprintf("send wrote header %x, the protocol prescribes %x", frame[:hl], wantH))
			default:
				fail("body", fmt.Sprintf("send wrote %s after the header, the protocol prescribes %s", qn(frame[hl:]), qn(want[hl:])))
			}
		}
		// what the library wrote (then what the protocol prescribes, if different), followed by a
		// second small frame, must come back as the same two packets
		try := func(class, desyncClass string, bytesIn []byte) {
			var bad, desync, aliased []string
			var firstMsg, desyncMsg, aliasedMsg string
			for _, comp := range compositions {
				stage = "nextPacket(" + comp + ")"
				next := frameReader(comp, append(append([]byte{}, bytesIn...), tail...))
				got, err := next()
				m := ""
				if err != nil {
					m = fmt.Sprintf("error %q", err)
				} else {
					m = diffPkt(got, p)
				}
				if m != "" {
					bad = append(bad, comp)
					if firstMsg == "" {
						firstMsg = fmt.Sprintf("nextPacket (%s reader) after header %x: %s", comp, bytesIn[:min(len(bytesIn), len(wantH))], m)
					}
					continue
				}
				got2, err := next()
				if err != nil {
					m = fmt.Sprintf("error %q", err)
				} else {
					m = diffPkt(got2, sentinel)
				}
				if m != "" {
					desync = append(desync, comp)
					if desyncMsg == "" {
						desyncMsg = fmt.Sprintf("the frame came back intact but the next frame on the stream (%s reader) did not: %s", comp, m)
					}
				}
				// a packet belongs to whoever received it: reading the next frame must not change it (the
				// application handles packets after the transport has gone on reading)
				if m2 := diffPkt(got, p); m2 != "" {
					aliased = append(aliased, comp)
					if aliasedMsg == "" {
						aliasedMsg = fmt.Sprintf("the packet came back intact but CHANGED when the next frame on the stream was read (%s reader): %s", comp, m2)
					}
				}
			}
			if len(aliased) > 0 {
				fail(class+"/packet-changes-when-the-next-frame-is-read"+only(aliased), aliasedMsg)
			}
			if len(bad) > 0 {
				fail(class+only(bad), firstMsg)
			}
			if len(desync) > 0 {
				fail(desyncClass+only(desync), desyncMsg)
			}
		}
		try("roundtrip", "stream-desync", frame)
		if !conform {
			try("decode-of-spec-frame", "stream-desync-after-spec-frame", want)
		}
	})
	if pan != "" {
		fail("panic in "+stage+": "+pan, "panic in "+stage+": "+pan)
	}
	if failed {
		st.out(form + " " + kind + ": violation")
	} else {
		st.out(form + " " + kind + ": ok")
	}
}

func frameLengths(tier string) []int {
	var ls []int
	if tier == "thorough" {
		for l := 0; l <= 70000; l++ {
			ls = append(ls, l)
		}
		return ls
	}
	seen := map[int]bool{}
	add := func(l int) {
		if !seen[l] {
			seen[l] = true
			ls = append(ls, l)
		}
	}
	for l := 0; l <= 400; l++ {
		add(l)
	}
	for l := 65100; l <= 65900; l++ {
		add(l)
	}
	for l := 0; l <= 70000; l += 499 {
		add(l)
	}
	add(70000)
	sort.Ints(ls)
	return ls
}

var allTypesAt = map[int]bool{1: true, 2: true, 125: true, 126: true, 127: true, 128: true, 65535: true, 65536: true, 65537: true, 70000: true}

func partFrames(c *collector, tier string) (stats, int, int) {
	ls := frameLengths(tier)
	const per = 32
	nch := (len(ls) + per - 1) / per
	st, sk := parallel(nch, func(chunk int, st *stats) {
		for _, L := range ls[chunk*per : min(len(ls), (chunk+1)*per)] {
			checkFrame(c, L, true, 4, st)
			if L == 0 {
				continue // a text packet is never empty: it has its type digit
			}
			if allTypesAt[L] {
				for t := 0; t < 7; t++ {
					checkFrame(c, L, false, t, st)
				}
			} else {
				checkFrame(c, L, false, L%7, st)
			}
		}
	})
	return st, sk, len(ls)
}

// ---------------------------------------------------------------- (4) arbitrary bytes into every decoder

var decoders = []string{"Decode(text frame)", "Decode(binary frame)", "DecodePayloads", "nextPacket(server reader)", "nextPacket(client reader)", "ParseHandshakeResponse(Decode(text frame))"}

type arbStats struct {
	stats
	res [6]map[string]int // per decoder: "" = accepted, else the error text
}

func checkArbitrary(c *collector, in []byte, st *arbStats) {
	st.evals++
	if len(in) > 0 {
		st.nontriv++
	}
	for d := 0; d < 5; d++ {
		var err error
		var p *parser.Packet
		pan := guard(func() {
			switch d {
			case 0:
				p, err = parser.Decode(bytes.NewReader(in), false)
			case 1:
				_, err = parser.Decode(bytes.NewReader(in), true)
			case 2:
				_, err = parser.DecodePayloads(bytes.NewReader(in))
			case 3:
				_, err = wt.VerifNewServerReader(bytes.NewReader(in), defaultMaxBufferSize).NextPacket()
			case 4:
				_, err = wt.VerifClientNextPacket(bytes.NewReader(in))
			}
		})
		if pan != "" {
			c.add("arbitrary/"+decoders[d]+"/panic: "+pan, len(in), fmt.Sprintf("%s panics on the %d bytes %x: %s", decoders[d], len(in), in, pan), rcase{Part: "arbitrary", InputHex: hex.EncodeToString(in)})
			st.note(d, "panic")
			continue
		}
		if err != nil {
			st.note(d, err.Error())
			continue
		}
		st.note(d, "")
		if d == 0 && p != nil {
			var herr error
			pan := guard(func() { _, herr = parser.ParseHandshakeResponse(p) })
			if pan != "" {
				c.add("arbitrary/"+decoders[5]+"/panic: "+pan, len(in), fmt.Sprintf("%s panics on the %d bytes %x: %s", decoders[5], len(in), in, pan), rcase{Part: "arbitrary", InputHex: hex.EncodeToString(in)})
				st.note(5, "panic")
			} else if herr != nil {
				if p.Type == parser.PacketTypeOpen {
					st.note(5, "error on an OPEN packet")
				} else {
					st.note(5, "not an OPEN packet")
				}
			} else {
				st.note(5, "")
			}
		}
	}
}

// checkEmbedded feeds the string to DecodePayloads as one packet among well-formed ones.
func checkEmbedded(c *collector, in []byte, st *arbStats) {
	for pos, payload := range [][]byte{
		append(append([]byte{}, in...), "\x1e2probe"...),
		append(append([]byte("4hello\x1e"), in...), "\x1e2probe"...),
		append([]byte("4hello\x1e"), in...),
	} {
		st.evals++
		st.nontriv++
		var err error
		pan := guard(func() { _, err = parser.DecodePayloads(bytes.NewReader(payload)) })
		switch {
		case pan != "":
			c.add("arbitrary/"+decoders[2]+"/panic inside a payload: "+pan, len(payload), fmt.Sprintf("DecodePayloads panics on the %d bytes %x (base64-directed packet at position %d of a payload): %s", len(payload), payload, pos, pan), rcase{Part: "arbitrary", InputHex: hex.EncodeToString(payload)})
			st.note(2, "panic")
		case err != nil:
			st.note(2, err.Error())
		default:
			st.note(2, "")
		}
	}
}

func (a *arbStats) note(d int, k string) {
	if a.res[d] == nil {
		a.res[d] = map[string]int{}
	}
	a.res[d][k]++
}

// fold turns the per-decoder result tables into outcome classes (numbers in error texts removed).
func (a *arbStats) fold() {
	for d := range a.res {
		for k, v := range a.res[d] {
			if k == "" {
				k = "accepted"
			} else {
				k = "rejected: " + norm(k)
			}
			if a.outcomes == nil {
				a.outcomes = map[string]int{}
			}
			a.outcomes[decoders[d]+": "+k] += v
		}
		a.res[d] = nil
	}
}

var b64Alphabet = []byte{'A', 'Q', '/', '+', '=', '-', '\n', '\r', 0xff, 0x1e}

func partArbitrary(c *collector, tier string) (stats, int, map[string]int) {
	// chunk 0: every string of length <= 2; chunks 1..256: length 3 by first byte;
	// chunks 257..: 'b' + every string of length 3..K over a base64-directed alphabet, by first letter
	stride := 1
	k := 7
	if tier != "thorough" {
		stride = 251 // prime: every residue of every byte position is visited
		k = 6 // (was 4: 'b' + one whole quantum + padding, the shape of seed c11i, needs 5)
	}
	na := len(b64Alphabet)
	var mu sync.Mutex
	sizes := map[string]int{}
	st, sk := parallel(257+na, func(chunk int, out *stats) {
		var a arbStats
		switch {
		case chunk == 0:
			checkArbitrary(c, []byte{}, &a)
			for x := 0; x < 256; x++ {
				checkArbitrary(c, []byte{byte(x)}, &a)
			}
			for x := 0; x < 65536; x++ {
				checkArbitrary(c, []byte{byte(x >> 8), byte(x)}, &a)
			}
			mu.Lock()
			sizes["len<=2"] += a.evals
			mu.Unlock()
		case chunk <= 256:
			first := (chunk - 1) << 16
			start := (stride - first%stride) % stride
			for x := start; x < 65536; x += stride {
				checkArbitrary(c, []byte{byte(chunk - 1), byte(x >> 8), byte(x)}, &a)
			}
			mu.Lock()
			sizes["len=3"] += a.evals
			mu.Unlock()
		default:
			var rec func(s []byte)
			rec = func(s []byte) {
				if len(s) >= 4 { // shorter ones are part of the all-bytes enumeration
					checkArbitrary(c, s, &a)
					// ... and as the first, middle and last packet of a long-polling payload
					checkEmbedded(c, s, &a)
				}
				if len(s) == 1+k {
					return
				}
				for _, ch := range b64Alphabet {
					rec(append(s[:len(s):len(s)], ch))
				}
			}
			rec([]byte{'b', b64Alphabet[chunk-257]})
			mu.Lock()
			sizes["base64-directed"] += a.evals
			mu.Unlock()
		}
		a.fold()
		out.merge(&a.stats)
	})
	return st, sk, sizes
}

// ---------------------------------------------------------------- replay

func replayOne(c *collector, rc rcase) error {
	var st stats
	switch rc.Part {
	case "packet":
		if len(rc.Packets) != 1 {
			return fmt.Errorf("packet replay needs one packet")
		}
		checkPacket(c, fromRpkt(rc.Packets[0]), rc.SupportsBinary, &st)
	case "payload":
		seq := []pkt{}
		for _, r := range rc.Packets {
			seq = append(seq, fromRpkt(r))
		}
		checkPayload(c, seq, &st)
	case "handshake":
		if rc.Handshake == nil {
			return fmt.Errorf("handshake replay without a case")
		}
		checkHandshake(c, *rc.Handshake, &st)
	case "wt":
		checkFrame(c, rc.FrameLen, rc.Binary, rc.Type, &st)
	case "arbitrary":
		in, err := hex.DecodeString(rc.InputHex)
		if err != nil {
			return err
		}
		var a arbStats
		checkArbitrary(c, in, &a)
	case "alloc":
		if rc.Alloc == nil {
			return fmt.Errorf("alloc replay without a case")
		}
		_, herr := runAlloc(c, []acase{*rc.Alloc})
		if herr != "" {
			return fmt.Errorf("%s", herr)
		}
	default:
		return fmt.Errorf("unknown part %q", rc.Part)
	}
	return nil
}

func doReplay(path string) {
	b, err := os.ReadFile(path)
	if err != nil {
		fmt.Fprintln(os.Stderr, err)
		os.Exit(2)
	}
	var f struct {
		Key    string `json:"key"`
		Replay rcase  `json:"replay"`
	}
	if err := json.Unmarshal(b, &f); err != nil {
		fmt.Fprintln(os.Stderr, err)
		os.Exit(2)
	}
	c := newCollector()
	if err := replayOne(c, f.Replay); err != nil {
		fmt.Fprintln(os.Stderr, "replay:", err)
		os.Exit(2)
	}
	hit := false
	for _, k := range c.keys() {
		fmt.Printf("violation key=%q: %s\n", k, c.m[k].Msg)
		if k == f.Key {
			hit = true
		}
	}
	if hit {
		fmt.Printf("VIOLATION property=C11 replay=%s\n", path)
		os.Exit(1)
	}
	fmt.Println("the recorded violation does not occur on this tree")
	os.Exit(0)
}

// ---------------------------------------------------------------- main

func envOr(k, d string) string {
	if v := os.Getenv(k); v != "" {
		return v
	}
	return d
}

func main() {
	tier := flag.String("tier", envOr("VERIF_TIER", "quick"), "quick|thorough")
	replay := flag.String("replay", "", "replay file written by an earlier run")
	onlyPart := flag.String("only", "", "run only the parts whose name contains this (packet handshake payload wt arbitrary alloc)")
	allocWorker := flag.Bool("alloc-worker", false, "internal: part 5 worker")
	procs := flag.Int("procs", 8, "goroutines")
	flag.Parse()
	if *allocWorker {
		allocWorkerMain()
		return
	}
	if err := selfTest(); err != nil {
		fmt.Fprintln(os.Stderr, "HARNESS-ERROR property=C11 reference self-test:", err)
		os.Exit(2)
	}
	nworkers = min(*procs, 8, runtime.NumCPU())
	if nworkers < 1 {
		nworkers = 1
	}
	runtime.GOMAXPROCS(nworkers)
	if *replay != "" {
		deadline = time.Now().Add(time.Hour)
		doReplay(*replay)
		return
	}
	budget := 50 * time.Second
	if *tier == "thorough" {
		budget = 8 * time.Minute
	}
	deadline = time.Now().Add(budget)

	r := vx.NewReport("C11", *tier, "exploration")
	r.Rule = "exhaustive product enumeration, each case checked against reference encoders written from the Engine.IO v4 protocol text: " +
		"(packet) 7 text types + binary message x every payload of length <= 2 over 256 byte values (text: without 0x1e) and pattern payloads of every length 3..4200 plus the neighbourhoods (+-5) of 8/16/32/48/64 KiB and 70000 x {binary supported, base64} (thorough: binary in base64 mode also every payload of length 3); " +
		"(handshake) OPEN bodies; (payload) every sequence of 0..N packets over a 13-packet alphabet, and text packets with white space / control characters at the edges of their data as the only, first and last packet; (wt) every frame length in the tier's set x {binary, text} through send and nextPacket in the server (limited reader, delivered whole and in pieces: 12 single bytes, then 1021-byte chunks) and client compositions, each followed by a second frame; " +
		"(arbitrary) every byte string of length <= 2, length 3 (thorough: all, quick: every 251st) and 'b' + base64-directed strings into every decoder; (alloc) frame headers declaring more than the limit, in a memory-capped subprocess. " +
		"Every case is generated once (distinct by construction); distinct_nontrivial counts the cases with a non-empty payload (packet), >= 2 packets (payload), frame length >= 1 (wt), non-empty input (arbitrary), and all handshake and alloc cases"
	r.Assumptions = []string{
		"API preconditions respected: binary only for message packets (NewPacket), packet slices non-nil, text payloads without the 0x1e record separator",
		"the WebTransport read side is composed as ServerTransport does (nextPacket over newLimitedReader(stream, readLimit), readLimit = the default MaxBufferSize 1e6 for round trips) and as ClientTransport does (nextPacket over the stream)",
		"allocation is measured as the growth of runtime.MemStats.TotalAlloc around one nextPacket call in a single-goroutine subprocess; 64 KiB of slack is allowed on top of the limit",
	}
	c := newCollector()
	var rmu sync.Mutex
	want := func(part string) bool { return *onlyPart == "" || strings.Contains(part, *onlyPart) }
	if *onlyPart != "" {
		r.CapsHit = append(r.CapsHit, "run restricted with -only "+*onlyPart)
	}
	outcomes := map[string]bool{}
	account := func(part string, st stats, skipped int, extra map[string]any) {
		rmu.Lock()
		defer rmu.Unlock()
		r.Evaluations += st.evals
		r.DistinctNontriv += st.nontriv
		m := map[string]any{"cases": st.evals, "nontrivial": st.nontriv, "outcomes": st.outcomes}
		for k, v := range extra {
			m[k] = v
		}
		for k := range st.outcomes {
			outcomes[part+"|"+k] = true
		}
		r.Extra["part/"+part] = m
		if skipped > 0 {
			r.CapsHit = append(r.CapsHit, fmt.Sprintf("%s: deadline reached, %d chunks not run", part, skipped))
		}
	}
	finish := func() {
		for _, k := range c.keys() {
			f := c.m[k]
			msg := f.Msg
			if f.Count > 1 {
				msg += fmt.Sprintf(" [smallest of %d failing cases with this key]", f.Count)
			}
			r.Violate(k, msg, f.Replay)
		}
		r.DistinctOutcomes = len(outcomes)
		r.BoundCompleted = "all parts enumerated completely"
		if len(r.CapsHit) > 0 {
			r.BoundCompleted = "incomplete, see caps_hit"
		}
		r.Finish()
	}
	// a case that never returns must not hang the check: report what was covered
	go func() {
		time.Sleep(time.Until(deadline) + 90*time.Second)
		rmu.Lock()
		r.CapsHit = append(r.CapsHit, "watchdog: the enumeration did not return 90 s after its deadline (a case is stuck); the parts not listed under part/* were not completed")
		finish()
	}()

	if want("packet") {
		st, sk := partPackets(c, *tier)
		pl := "all of length 0,1,2 over 256 values + pattern lengths 3..4200, 8/16/32/48/64 KiB +-5, 70000"
		if *tier == "thorough" {
			pl += "; binary message in base64 mode also with every payload of length 3"
		}
		account("packet", st, sk, map[string]any{"payloads": pl, "modes": []string{"supportsBinary", "base64"}})
		r.Sample(map[string]any{"part": "packet", "packet": descPkt(pkt{4, true, []byte{0x00, 0xff}}), "supports_binary": false, "protocol_bytes": string(refPacket(pkt{4, true, []byte{0x00, 0xff}}, false))})
	}
	if want("handshake") {
		st := partHandshake(c)
		account("handshake", st, 0, nil)
	}
	if want("payload") {
		maxN := 3
		if *tier == "thorough" {
			maxN = 4
		}
		st, sk := partPayloads(c, maxN)
		account("payload", st, sk, map[string]any{"alphabet": len(payloadAlphabet), "max_packets": maxN})
		seq := []pkt{payloadAlphabet[5], payloadAlphabet[8], payloadAlphabet[12]}
		r.Sample(map[string]any{"part": "payload", "packets": []string{descPkt(seq[0]), descPkt(seq[1]), descPkt(seq[2])}, "protocol_bytes": string(refPayload(seq))})
	}
	if want("wt") {
		st, sk, nl := partFrames(c, *tier)
		account("wt", st, sk, map[string]any{"frame_lengths": nl, "compositions": compositions})
		r.Sample(map[string]any{"part": "wt", "frame_len": 65536, "binary": true, "protocol_header_hex": hex.EncodeToString(refHeader(65536, true))})
		r.Sample(map[string]any{"part": "wt", "frame_len": 126, "binary": false, "type": "message", "protocol_header_hex": hex.EncodeToString(refHeader(126, false))})
	}
	if want("arbitrary") {
		st, sk, sizes := partArbitrary(c, *tier)
		account("arbitrary", st, sk, map[string]any{"inputs_by_class": sizes, "decoders": decoders})
		r.Sample(map[string]any{"part": "arbitrary", "input_hex": "7e0001", "decoders": decoders})
	}
	if want("alloc") {
		st, herr := runAlloc(c, allocCases())
		if herr != "" {
			r.HarnessErrs = append(r.HarnessErrs, herr)
		}
		account("alloc", st.stats, 0, map[string]any{"table": st.table, "worker_deaths": st.deaths, "memory_cap_kib": allocCapKiB})
		if len(st.table) > 0 {
			r.Sample(map[string]any{"part": "alloc", "case_and_result": st.table[len(st.table)/2]})
		}
		if len(st.caps) > 0 {
			rmu.Lock()
			r.CapsHit = append(r.CapsHit, st.caps...)
			rmu.Unlock()
		}
	}
	rmu.Lock()
	finish()
}
