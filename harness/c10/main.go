// C10: no input from a peer can crash or wedge the Socket.IO decoder or the process.
//
// Part 1 (decoder.go, worker.go): bounded exhaustive enumeration of frame sequences given to a fresh parser,
// each finished packet decoded against the handler signature families; oracle = packet or error, never a
// panic, a hang or a wedged parser. Part 2 (process.go, client.go): a representative of every outcome class
// is sent to a live server over rig R1 - and a selection to a live Go client over rig R3 - under the
// controlled scheduler.
//
// The decoder half runs first (in the coordinator, before vx.Main): if it finds an input on which the
// decoder hangs, the process half is skipped (it would only stall the scheduler's watchdog).
//
// Files: decoder.go (case space, guarded calls, classification), worker.go (worker subprocesses, watchdog),
// process.go (server scenarios), client.go (client scenarios), reps_gen.go (generated table of class
// representatives; refresh with `vcheck run c10 -c10printreps > harness/c10/reps_gen.go`), gen.go.
package main

import (
	"encoding/json"
	"fmt"
	"os"
	"sort"
	"strings"
	"time"

	vx "github.com/karagenc/socket.io-go/internal/vexplore"
)

const skipEnv = "VERIF_C10_SKIP_PROCESS"

func skipProcessHalf() bool { return os.Getenv(skipEnv) != "" }

func tierArg() string {
	if v, ok := argValue("tier"); ok && v != "" {
		return v
	}
	if v := os.Getenv("VERIF_TIER"); v != "" {
		return v
	}
	return "quick"
}

func decoderBudget(tier string) time.Duration {
	if tier == "thorough" {
		return 5 * time.Minute
	}
	return 45 * time.Second
}

// replayDecoder re-evaluates the first frame recorded in a decoder replay file (false: not such a file).
func replayDecoder(path string) bool {
	b, err := os.ReadFile(path)
	if err != nil {
		return false
	}
	var f struct {
		Key    string `json:"key"`
		Replay struct {
			Part   string   `json:"part"`
			Frames [][]byte `json:"frames"`
		} `json:"replay"`
	}
	if json.Unmarshal(b, &f) != nil || f.Replay.Part != "decoder" || len(f.Replay.Frames) == 0 {
		return false
	}
	st := newBatchStats()
	fmt.Printf("replaying first frame %s (attachment combinations, all handler families)\n", showFrames(f.Replay.Frames[:1]))
	evalFirst(st, f.Replay.Frames[0])
	hit := false
	for _, k := range sortedKeys(st.Violations) {
		v := st.Violations[k]
		fmt.Printf("violation key=%q: %s %s\n", k, showFrames(v.Ex.Frames), v.Detail)
		if k == f.Key {
			hit = true
		}
	}
	if hit {
		fmt.Printf("VIOLATION property=C10 replay=%s\n", path)
		os.Exit(1)
	}
	fmt.Println("the recorded violation does not occur on this tree")
	os.Exit(0)
	return true
}

func main() {
	if hasFlag("c10worker") {
		decoderWorkerMain()
		return
	}
	if hasFlag("c10printreps") {
		printReps()
		return
	}
	if p, ok := argValue("replay"); ok && replayDecoder(p) {
		return
	}
	tier := tierArg()
	t0 := time.Now()
	var dec *decoderRun
	only, _ := argValue("only")
	coordinator := !hasFlag("worker") && !hasFlag("list") && !hasFlag("replay")
	if coordinator && (only == "" || strings.Contains("decoder", only)) {
		dec = runDecoderHalf(tier, decoderBudget(tier))
		if dec.hangs > 0 {
			os.Setenv(skipEnv, "1") // inherited by the scenario workers
		}
	}
	if !hasFlag("procs") {
		os.Args = append(os.Args, "-procs", fmt.Sprint(maxDecProcs))
	}
	vx.Main(vx.Config{
		Property: "C10",
		Level:    "exploration",
		Rule: "decoder half: every string over the 18 protocol-significant bytes `" + alphabet + "` up to length 5 (quick) / 6 (thorough), plus templates (attachment counts, placeholder num values at top level / in a map / in a struct field / nested / in arrays, " +
			"every truncation of valid packets, 20-25 digit ack ids, packet types 3,4,7-9 and header shapes the alphabet cannot spell), each as the first frame of a fresh parser; a packet that asks for attachments is completed with every combination of {binary, text} frames up to 2 " +
			"and, with maxAttachments=2, must be refused or complete within 2 frames; every finished packet is decoded against 14 handler signature families (sio.Binary, map[string]any, any, struct with a Binary field, no args; map[string]Binary, map[string]*Binary, struct with a map[string]Binary field, pointer to struct, []Binary, []any, (Binary, Binary), struct / pointer to struct with nil-able pointer and interface fields in front; CONNECT also *json.RawMessage) through one decode closure. " +
			"An evaluation is one (frame sequence, family) pair or one frame sequence that yields no packet, or one execution of the process half. distinct_nontrivial = distinct first frames that got past the first-byte check (decoded, asked for attachments, or failed later) + deviating schedules of the process half. " +
			"process half: the shortest input of every decoder outcome class plus hand-picked inputs, sent to a live sio.Server over a harness-implemented eio socket (ACKs also with a matching outstanding emit per callback family, CONNECTs also as first packet), and a selection sent by a live server to a live Go client over the in-process polling link; all schedules with at most 1 (quick) / 2 (thorough) deviations after the connection set-up",
		Scenarios: scenarios,
		Budget: func(tier string) time.Duration {
			if tier == "thorough" {
				return 6 * time.Minute
			}
			return 40 * time.Second
		},
		Assumptions: []string{
			"stdjson serializer (the server's default); maxAttachments 0 (default) and 2",
			"the parser sees only bytes: a 'binary' attachment is a non-UTF-8 byte string, a 'text' attachment is a well-formed Socket.IO text packet",
			"process half: vsched semantics of Go primitives; a panic on a modelled thread ends that thread only (in production it ends the process unless a caller recovers); the harness lets the server settle after every CONNECT before the next frame",
			"a hang is 'no result for one input within 10 s, twice, in a process of its own'",
		},
		Extra: func(tier string, r *vx.Report) {
			r.T0 = t0 // the decoder half ran before the report existed
			if dec == nil {
				r.CapsHit = append(r.CapsHit, "decoder half not run (-only)")
				return
			}
			if skipProcessHalf() {
				r.CapsHit = append(r.CapsHit, "process half skipped: the decoder hangs or dies on an input")
			}
			mergeDecoder(r, dec)
		},
	})
}

func mergeDecoder(r *vx.Report, d *decoderRun) {
	st := d.stats
	procEvals, procNontriv := r.Evaluations, r.DistinctNontriv
	r.Evaluations += st.Evaluations
	r.DistinctNontriv += st.Nontrivial
	r.CapsHit = append(r.CapsHit, d.caps...)
	r.HarnessErrs = append(r.HarnessErrs, d.harnessErrs...)
	if d.batchesDone < d.batches && len(d.caps) == 0 {
		r.CapsHit = append(r.CapsHit, fmt.Sprintf("decoder: %d of %d batches completed", d.batchesDone, d.batches))
	}
	classes := map[string]any{}
	for _, k := range sortedKeys(st.Classes) {
		c := st.Classes[k]
		classes[k] = map[string]any{"count": c.Count, "shortest": showFramesShort(c.Ex.Frames)}
	}
	r.Extra["decoder"] = map[string]any{
		"max_length":                          d.cs.L,
		"alphabet":                            alphabet,
		"enumerated_strings":                  d.cs.nStr,
		"templates":                           len(d.cs.tmpl),
		"first_frames":                        st.Inputs,
		"first_frames_past_first_byte":        st.Nontrivial,
		"first_frames_asking_for_attachments": st.Pending,
		"frame_sequences":                     st.Sequences,
		"packets_finished":                    st.Finished,
		"decode_calls":                        st.Decodes,
		"evaluations":                         st.Evaluations,
		"outcome_classes":                     len(st.Classes),
		"outcome_classes_per_family_detail":   len(st.Fine),
		"worker_processes":                    d.procs,
		"batches":                             d.batches,
		"wall_s":                              d.wall.Seconds(),
	}
	r.Extra["decoder_classes"] = classes
	nvar := 0
	if !skipProcessHalf() {
		nvar = len(variants())
	}
	r.Extra["process"] = map[string]any{"executions": procEvals, "deviating_schedules": procNontriv, "representatives": len(representatives()),
		"server_scenarios": nvar, "client_scenarios": len(clientReps())}
	// every outcome class of the decoder half needs a representative in the process half (the
	// representatives' first frames are part of the case space, so they are known to terminate here)
	if !skipProcessHalf() {
		covered := map[string]bool{}
		for _, rp := range representatives() {
			b := newBatchStats()
			evalFirst(b, []byte(rp.Frames[0].Data))
			for k := range b.Classes {
				covered[k] = true
			}
		}
		var missing []string
		for _, k := range sortedKeys(st.Classes) {
			if !covered[k] {
				missing = append(missing, k+"  e.g. "+showFramesShort(st.Classes[k].Ex.Frames))
			}
		}
		sort.Strings(missing)
		r.Extra["decoder_classes_without_process_representative"] = missing
		if len(missing) > 0 {
			r.CapsHit = append(r.CapsHit, fmt.Sprintf("process half: %d decoder outcome classes have no representative (listed in the evidence)", len(missing)))
		}
	}
	// samples: a few written-out decoder cases in front of the scenario schedules vx.Main recorded
	var ds []any
	for _, k := range sortedKeys(st.Classes) {
		if len(ds) >= 3 {
			break
		}
		if strings.Contains(k, "attachment decode: error for some") || strings.Contains(k, "EVENT decode: ok") {
			ds = append(ds, map[string]any{"frames": showFramesShort(st.Classes[k].Ex.Frames), "outcome_class": k, "inputs_in_class": st.Classes[k].Count})
		}
	}
	r.Samples = append(ds, r.Samples...)
	if len(r.Samples) > 6 {
		r.Samples = r.Samples[:6]
	}
	for _, k := range sortedKeys(st.Violations) {
		v := st.Violations[k]
		msg := fmt.Sprintf("shortest input: frames %s", showFramesShort(v.Ex.Frames))
		if v.Family != "" {
			msg += " decoded for a handler taking (" + v.Family + ")"
		}
		msg += fmt.Sprintf(" (%d evaluations of this class); %s", v.Count, v.Detail)
		r.Violate(k, msg, map[string]any{"part": "decoder", "frames": v.Ex.Frames, "frames_quoted": showFrames(v.Ex.Frames), "family": v.Family, "tier": d.tier})
	}
}

func showFramesShort(frames [][]byte) string {
	var out [][]byte
	for _, f := range frames {
		if len(f) > 160 {
			f = append(append(append([]byte{}, f[:80]...), []byte("...")...), f[len(f)-20:]...)
		}
		out = append(out, f)
	}
	return showFrames(out)
}
