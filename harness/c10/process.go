package main

// Part 2 of C10: one representative input of every outcome class of the decoder half is sent to a live
// sio.Server over rig R1 (vrig.FakeEIO) on connection 1, whose socket has handlers of all five signature
// families registered for the event names used; connection 2 is idle. Judged: no uncaught panic on any
// modelled thread, decode errors are reported (OnError ran or connection 1 was closed), and connection 2
// and a fresh connection 3 still complete an event->ack echo afterwards.

import (
	"fmt"
	"strings"
	"sync"
	"time"

	sio "github.com/karagenc/socket.io-go"
	vx "github.com/karagenc/socket.io-go/internal/vexplore"
	"github.com/karagenc/socket.io-go/internal/vrig"
	"github.com/karagenc/socket.io-go/internal/vsched"
	"github.com/karagenc/socket.io-go/parser"
)

type repFrame struct {
	Bin  bool
	Data string
}

type rep struct {
	Name   string
	Frames []repFrame
}

func txt(s ...string) []repFrame {
	var out []repFrame
	for _, x := range s {
		out = append(out, repFrame{false, x})
	}
	return out
}

func withBin(first string, n int) []repFrame {
	out := []repFrame{{false, first}}
	for i := 0; i < n; i++ {
		out = append(out, repFrame{true, string(attFrames[0].data)})
	}
	return out
}

func withText(first string, n int) []repFrame {
	out := []repFrame{{false, first}}
	for i := 0; i < n; i++ {
		out = append(out, repFrame{false, string(attFrames[1].data)})
	}
	return out
}

// repEventNames: the event names for which the five family handlers are registered on every socket = the
// names carried by the representatives (computed with the pure decoder, deterministically).
//
// Lazy: nothing in the coordinator or in the decoder workers may call into the code under test at package
// initialisation (a hanging decoder would hang them before any watchdog runs).
var (
	repEventNamesOnce sync.Once
	repEventNamesList []string
)

func repEventNames() []string {
	repEventNamesOnce.Do(func() { repEventNamesList = computeRepEventNames() })
	return repEventNamesList
}

func computeRepEventNames() []string {
	seen := map[string]bool{"a": true, "": true}
	for _, rp := range representatives() {
		p := newParser(0)
		for _, f := range rp.Frames {
			r := step(p, []byte(f.Data))
			if r.kind == stepFinished && r.header.IsEvent() && !sio.IsEventReservedForServer(r.event) {
				seen[r.event] = true
			}
			if r.kind != stepPending {
				break
			}
		}
	}
	return sortedKeys(seen)
}

const ph0 = `{"_placeholder":true,"num":0}`

// representatives: the shortest input of every outcome class the decoder half distinguishes (reps_gen.go;
// classes as printed in the evidence under decoder_classes; the coordinator cross-checks that none is
// missing), plus hand-picked inputs: the ones known to panic, text frames where binary is expected, valid
// packets.
func representatives() []rep {
	return append(append([]rep{}, classReps...), extraReps()...)
}

func extraReps() []rep {
	return []rep{
		// ---- header rejected by Add
		{"add-error/empty-frame", txt("")},
		{"add-error/invalid-type", txt("9")},
		{"add-error/binary-without-dash", txt("5")},
		{"add-error/attachment-count-syntax", txt("5-")},
		{"add-error/attachment-count-range", txt(`518446744073709551616-["a"]`)},
		{"add-error/ack-id-range", txt(`21234567890123456789012345["a"]`)},
		{"add-error/event-without-name", txt("2")},
		{"add-error/event-name-unterminated", txt(`2"`)},
		{"add-error/event-name-bad-escape", txt(`2"\a"`)},
		// ---- namespace without a terminating comma (known to panic in parseHeader)
		{"header/namespace-without-comma-connect", txt("0/")},
		{"header/namespace-without-comma-connect-abc", txt("0/abc")},
		{"header/namespace-without-comma-event", txt("2/a")},
		{"header/namespace-without-comma-ack", txt("3/a")},
		{"header/namespace-without-comma-binary", txt("51-/a")},
		// ---- packets that finish without attachments
		{"connect/again", txt("0")},
		{"connect/garbage-auth", txt("0a")},
		{"connect/other-namespace", txt("0/a,")},
		{"connect/with-id", txt("01")},
		{"connect/null-auth", txt("0null")},
		// auth payloads around the fields connection state recovery reads (seed c10i: a pid without an offset)
		{"connect/auth-pid-without-offset", txt(`0{"pid":"x"}`)},
		{"connect/auth-pid-offset-null", txt(`0{"pid":"x","offset":null}`)},
		{"connect/auth-pid-offset-number", txt(`0{"pid":"x","offset":7}`)},
		{"connect/auth-pid-number", txt(`0{"pid":7,"offset":"o"}`)},
		{"connect/auth-pid-null", txt(`0{"pid":null,"offset":"o"}`)},
		{"connect/auth-pid-object-offset-array", txt(`0{"pid":{"a":1},"offset":[1]}`)},
		{"connect/auth-offset-without-pid", txt(`0{"offset":"o"}`)},
		{"connect/auth-empty-pid-and-offset", txt(`0{"pid":"","offset":""}`)},
		{"connect/auth-array", txt(`0[]`)},
		{"connect/auth-array-of-numbers", txt(`0[1,2]`)},
		{"connect/auth-string", txt(`0"pid"`)},
		{"connect/auth-number", txt(`07`)},
		{"connect/auth-true", txt(`0true`)},
		{"connect/auth-empty-object", txt(`0{}`)},
		{"connect/auth-truncated", txt(`0{"pid":"x"`)},
		{"connect/auth-duplicate-keys", txt(`0{"pid":"x","pid":7,"offset":"a","offset":null}`)},
		{"disconnect/null-payload", txt("1null")},
		{"connect-error/null-payload", txt("4null")},
		{"disconnect/plain", txt("1")},
		{"disconnect/garbage", txt("1a")},
		{"disconnect/unknown-namespace", txt("1/a,")},
		{"event/payload-is-a-string", txt(`2"a"`)},
		{"event/no-args", txt(`2["a"]`)},
		{"event/empty-name", txt(`2[""]`)},
		{"event/garbage-after-name", txt(`2"a"]`)},
		{"event/one-number", txt(`2["a",1]`)},
		{"event/one-object", txt(`2["a",{"a":1}]`)},
		{"event/placeholder-without-attachments", txt(`2["a",` + ph0 + `]`)},
		{"event/nested-placeholder-without-attachments", txt(`2["a",{"a":` + ph0 + `}]`)},
		{"event/unknown-namespace", txt(`2/a,["a"]`)},
		{"event/with-ack-id", txt(`27["a",1]`)},
		{"event/truncated-json", txt(`2["a",{"a":`)},
		{"event/deep-nesting", txt(`2["a",` + strings.Repeat("[", 11000) + `]`)},
		{"ack/unknown-id", txt(`31["x"]`)},
		{"ack/without-id", txt(`3["x"]`)},
		{"ack/garbage", txt(`31a`)},
		{"connect-error/from-client", txt(`4{"message":"x"}`)},
		{"binary-event/zero-attachments", txt(`50-["a",{"a":` + ph0 + `}]`)},
		{"binary-ack/zero-attachments", txt(`60-1[]`)},
		// ---- packets completed by attachments (binary, or text where binary is expected)
		{"binary-event/valid-1", withBin(`51-["a",`+ph0+`]`, 1)},
		{"binary-event/valid-1-text-attachment", withText(`51-["a",`+ph0+`]`, 1)},
		{"binary-event/valid-nested-1", withBin(`51-["a",{"a":`+ph0+`}]`, 1)},
		{"binary-event/valid-2", withBin(`52-["a",`+ph0+`,{"a":{"_placeholder":true,"num":1}}]`, 2)},
		{"binary-event/array-of-half-placeholder-1", withBin(`51-["a",[{"num":1}]]`, 1)},
		{"binary-event/array-of-half-placeholder-2", withBin(`52-["a",[{"num":2}]]`, 2)},
		{"binary-event/payload-is-a-string", withBin(`51-"a"`, 1)},
		{"binary-event/truncated-json", withBin(`51-["a",{"_placeholder":tr`, 1)},
		{"binary-event/no-args", withBin(`51-["a"]`, 1)},
		{"binary-event/garbage-payload", withBin(`51-"a"]`, 1)},
		{"binary-event/num-out-of-range", withBin(`51-["a",{"_placeholder":true,"num":1}]`, 1)},
		{"binary-event/num-out-of-range-nested", withBin(`51-["a",{"a":{"_placeholder":true,"num":1}}]`, 1)},
		{"binary-event/num-fraction", withBin(`51-["a",{"a":{"_placeholder":true,"num":0.5}}]`, 1)},
		{"binary-event/num-string", withBin(`51-["a",{"a":{"_placeholder":true,"num":"0"}}]`, 1)},
		{"binary-event/num-null", withBin(`51-["a",{"a":{"_placeholder":true,"num":null}}]`, 1)},
		{"binary-event/num-object", withBin(`51-["a",{"_placeholder":true,"num":{}}]`, 1)},
		{"binary-ack/unknown-id", withBin(`61-1[`+ph0+`]`, 1)},
		{"binary-ack/without-id", withBin(`61-[]`, 1)},
		{"binary-ack/garbage", withBin(`61-`, 1)},
		{"binary-event/still-waiting", withBin(`53-["a",`+ph0+`]`, 2)},
		{"binary-event/huge-count", withBin(`510000000000-["a",`+ph0+`]`, 2)},
		{"binary-event/count-2^63", withBin(`59223372036854775808-["a",`+ph0+`]`, 2)},
		{"binary-event/count-2^64-1", withBin(`518446744073709551615-["a",`+ph0+`]`, 2)},
		// ---- placeholder num below zero (known to panic while decoding, on the per-packet goroutine)
		{"placeholder/num=-5-top-level", withBin(`51-["a",{"_placeholder":true,"num":-5}]`, 1)},
		{"placeholder/num=-2-top-level", withBin(`51-["a",{"_placeholder":true,"num":-2}]`, 1)},
		{"placeholder/num=-1-top-level", withBin(`51-["a",{"_placeholder":true,"num":-1}]`, 1)},
		{"placeholder/num=-2-in-map-or-struct", withBin(`51-["a",{"a":{"_placeholder":true,"num":-2}}]`, 1)},
		{"placeholder/num=-2^63-top-level", withBin(`51-["a",{"_placeholder":true,"num":-9223372036854775808}]`, 1)},
		{"placeholder/num=2^63-1-top-level", withBin(`51-["a",{"_placeholder":true,"num":9223372036854775807}]`, 1)},
		{"placeholder/num=1e30-in-map", withBin(`51-["a",{"a":{"_placeholder":true,"num":1e30}}]`, 1)},
		{"placeholder/num=-2-in-ack", withBin(`61-1[{"a":{"_placeholder":true,"num":-2}}]`, 1)},
		// classes that only exist once the negative-index panics are repaired (num -1e0: float -1 in a map, not an int elsewhere)
		{"placeholder/num=-1e0-in-map-2-attachments", withBin(`52-["a",{"a":{"_placeholder":true,"num":-1e0}}]`, 2)},
		{"placeholder/num=-1e0-in-ack-2-attachments", withBin(`62-1[{"a":{"_placeholder":true,"num":-1e0}}]`, 2)},
	}
}

// variant is one way of sending a representative to the live server.
type variant struct {
	rp rep
	// ackFam >= 0: connection 1's server socket has one emit outstanding whose ack callback is of that
	// signature family, and the representative (an ACK) gets that emit's id, so that serverSocket.onAck
	// decodes it for the callback. -1: sent as it is (an ACK then hits "no emit waits for it").
	ackFam int
	// first: the representative is the first thing connection 1 sends (CONNECT with its auth payload is
	// only decoded for a connection that has not joined the namespace yet).
	first bool
	// recovery: the server has connection state recovery enabled (CONNECT reads pid / offset from the auth payload)
	recovery bool
}

func (v variant) name() string {
	switch {
	case v.ackFam >= 0:
		return "process/ack-for-" + families[v.ackFam].name + "-callback/" + v.rp.Name
	case v.first && v.recovery:
		return "process/as-first-packet-of-a-server-with-recovery/" + v.rp.Name
	case v.first:
		return "process/as-first-packet/" + v.rp.Name
	}
	return "process/" + v.rp.Name
}

// withAckID replaces (or inserts) the ack id of an ACK / BINARY_ACK frame for namespace "/".
func withAckID(frame, id string) (string, bool) {
	if len(frame) == 0 || (frame[0] != '3' && frame[0] != '6') {
		return "", false
	}
	i := 1
	if frame[0] == '6' {
		j := strings.IndexByte(frame, '-')
		if j < 0 {
			return "", false
		}
		for _, c := range frame[1:j] {
			if c < '0' || c > '9' {
				return "", false
			}
		}
		i = j + 1
	}
	if i < len(frame) && frame[i] == '/' {
		return "", false
	}
	j := i
	for j < len(frame) && frame[j] >= '0' && frame[j] <= '9' {
		j++
	}
	return frame[:i] + id + frame[j:], true
}

// ackIDOf extracts the ack id of an EVENT frame such as `20["q"]` (namespace "/").
func ackIDOf(frame string) (string, bool) {
	j := 1
	for j < len(frame) && frame[j] >= '0' && frame[j] <= '9' {
		j++
	}
	return frame[1:j], j > 1
}

func (v variant) frames(ackID string) []repFrame {
	out := append([]repFrame{}, v.rp.Frames...)
	if v.ackFam >= 0 {
		if f, ok := withAckID(out[0].Data, ackID); ok {
			out[0].Data = f
		}
	}
	return out
}

// expectation derives, with the (pure) decoder, whether the server has an error to report for a
// representative sent to a socket of namespace "/" that has all families registered for repEventNames.
// stage says where the input ends up (it is part of violation keys: one key per stage, not per input).
func expectation(v variant) (expectErr bool, stage, why string) {
	p := newParser(0)
	for i, f := range v.frames("0") {
		r := step(p, []byte(f.Data))
		switch r.kind {
		case stepPanic:
			return false, "Parser.Add panics", "" // judged as a panic
		case stepErr:
			return true, "Parser.Add fails", fmt.Sprintf("Parser.Add fails on frame %d (%s)", i, errClass(r.err))
		case stepFinished:
			if r.header.Namespace != "/" && r.header.Namespace != "" {
				return false, "packet for a namespace the connection has not joined", ""
			}
			one := func(fam family, what string) (bool, string, string) {
				var err error
				if pn := guard(func() { _, err = r.decode(fam.types...) }); pn != nil {
					return false, "decoding " + what + " panics", ""
				}
				if err != nil {
					return true, "decoding " + what + " fails", fmt.Sprintf("decode fails for the %s handler (%s)", fam.name, errClass(err))
				}
				return false, what + " decoded", ""
			}
			switch r.header.Type {
			case parser.PacketTypeConnect:
				if v.first {
					return one(authFamily, "the CONNECT packet's auth payload")
				}
				return false, "control packet", ""
			case parser.PacketTypeAck, parser.PacketTypeBinaryAck:
				if v.ackFam < 0 || r.header.ID == nil {
					return true, "ACK that no emit waits for", "an ACK that no emit is waiting for"
				}
				return one(families[v.ackFam], "the ack's arguments")
			case parser.PacketTypeEvent, parser.PacketTypeBinaryEvent:
				registered := false
				for _, n := range repEventNames() {
					if n == r.event {
						registered = true
					}
				}
				if !registered {
					return false, "event without handlers", ""
				}
				for _, fam := range families {
					if e, st, w := one(fam, "the event's arguments"); e || strings.HasSuffix(st, "panics") {
						return e, st, w
					}
				}
				return false, "the event's arguments decoded", ""
			}
			return false, "control packet", ""
		}
	}
	return false, "packet still waiting for attachments", ""
}

// threadRole names the production counterpart of a modelled thread: short form for the key, and what an
// uncaught panic there means.
func threadRole(site string) (short, long string) {
	switch {
	case strings.HasPrefix(site, "conn1-transport"):
		return "the goroutine that feeds the connection's frames to Parser.Add (serverConn.onEIOPacket)",
			"in the server this is an HTTP handler goroutine (polling POST / websocket read loop): net/http recovers the panic, the request or read loop dies, the error is not reported to the socket and the connection is not closed; the Go client runs the same parser on a bare goroutine (see the client/ scenarios)"
	case strings.Contains(site, "onParserFinish"):
		return "the bare per-packet goroutine of serverConn.onParserFinish", "no recover between this goroutine and the runtime: the server process exits"
	}
	return "thread " + site, ""
}

func processScenario(v variant, bound int) *vx.Scenario {
	rp := v.rp
	expectErr, stage, why := expectation(v)
	names := repEventNames()
	sc := &vx.Scenario{Name: v.name(), Bound: bound, Horizon: 2 * time.Minute, AllowPanic: true}
	sc.Body = func(e *vsched.Exec) func() vx.Result {
		var scfg *sio.ServerConfig
		if v.recovery {
			scfg = &sio.ServerConfig{ServerConnectionStateRecovery: sio.ServerConnectionStateRecovery{Enabled: true}}
		}
		srv := sio.NewServer(scfg)
		var sv vsched.Var
		nconn, nreg := 0, 0
		errs := map[int][]string{}
		socks := map[int]sio.ServerSocket{}
		handled, acked := 0, 0
		srv.OnConnection(func(s sio.ServerSocket) {
			var me int
			sv.Do(func() { nconn++; me = nconn; socks[me] = s })
			s.OnError(func(err error) { sv.Do(func() { errs[me] = append(errs[me], err.Error()) }) })
			note := func() { sv.Do(func() { handled++ }) }
			for _, name := range names {
				s.OnEvent(name, func(b sio.Binary) { note() })
				s.OnEvent(name, func(m map[string]any) { note() })
				s.OnEvent(name, func(v any) { note() })
				s.OnEvent(name, func(v structArg) { note() })
				s.OnEvent(name, func() { note() })
			}
			s.OnEvent("echo", func(x string, ack func(string)) { ack(x) })
			sv.Do(func() { nreg++ }) // handlers registered
		})
		f2 := vrig.NewFakeEIO(srv, "conn2")
		f1 := vrig.NewFakeEIO(srv, "conn1")
		var f3 *vrig.FakeEIO
		sent := false
		var sentFrames []repFrame
		// the whole drive runs on its own thread: thread 0 must return the final check whatever happens
		vsched.SetExploring(false)
		vsched.GoQuiet("driver", func() {
			// connection order fixes the numbering seen by OnConnection: conn2 first, then conn1
			// (settle after every connect, so that the set-up is over before the next frame: races between a
			// CONNECT reply and the first packets after it are the business of C01/C06, not a consequence
			// of the malformed input; the set-up runs on the default schedule, the deviation budget is
			// spent on the input and its aftermath)
			f2.ConnectNS("/")
			vsched.Await(func() bool { return nreg == 1 })
			vrig.Settle(time.Second)
			ackID := ""
			if !v.first {
				f1.ConnectNS("/")
				vsched.Await(func() bool { return nreg == 2 })
				vrig.Settle(time.Second)
			}
			if v.ackFam >= 0 {
				got := func() { sv.Do(func() { acked++ }) }
				var cb any
				switch v.ackFam {
				case 0:
					cb = func(b sio.Binary) { got() }
				case 1:
					cb = func(m map[string]any) { got() }
				case 2:
					cb = func(v any) { got() }
				case 3:
					cb = func(v structArg) { got() }
				default:
					cb = func() { got() }
				}
				socks[2].Emit("q", cb)
				vsched.Await(func() bool {
					for _, t := range f1.Texts() {
						if strings.Contains(t, `["q"`) {
							var ok bool
							ackID, ok = ackIDOf(t)
							return ok
						}
					}
					return false
				})
			}
			frames := v.frames(ackID)
			sv.Do(func() { sentFrames = frames })
			vsched.SetExploring(true)
			vsched.GoQuiet("conn1-transport", func() {
				for _, fr := range frames {
					if fr.Bin {
						f1.InPackets(vrig.Bin([]byte(fr.Data)))
					} else {
						f1.In(fr.Data)
					}
				}
				sv.Do(func() { sent = true })
			})
			vrig.Settle(2 * time.Second)
			f2.In(`27["echo","x"]`)
			f2.AwaitFrame(`37["x"]`)
			before := nreg
			c3 := vrig.NewFakeEIO(srv, "conn3")
			sv.Do(func() { f3 = c3 })
			c3.ConnectNS("/")
			vsched.Await(func() bool { return nreg == before+1 })
			vrig.Settle(time.Second)
			c3.In(`28["echo","y"]`)
			c3.AwaitFrame(`38["y"]`)
		})
		return func() vx.Result {
			var r vx.Result
			shown := showRep(rep{Frames: sentFrames})
			if sentFrames == nil {
				shown = showRep(rp)
			}
			npanic := 0
			for _, t := range e.Threads() {
				if t.Panic == nil {
					continue
				}
				npanic++
				fn, via := sitesFromStackText(t.Stack)
				pi := &panicInfo{Fn: fn, Via: via, What: normalisePanic(t.Panic)}
				short, long := threadRole(t.Site)
				r.Violate("process: uncaught "+pi.key()+", on "+short,
					"[%s] frames %s sent to a live server: %v (thread %s); %s", v.name(), shown, t.Panic, t.Site, long)
			}
			// the connection that was attacked is the second to register, the fresh one the last
			conn1, other := 2, []int{1, 3}
			echo2 := f2.HasPrefix(`37["x"]`)
			echo3 := f3 != nil && f3.HasPrefix(`38["y"]`)
			if !echo2 {
				r.Violate("process: the idle connection 2 no longer completes an event->ack echo after connection 1 received an input of the kind: "+stage, "[%s] after %s on connection 1, connection 2 got: %s", v.name(), shown, f2)
			} else if !echo3 {
				got := "(never attached)"
				if f3 != nil {
					got = f3.String()
				}
				r.Violate("process: a fresh connection 3 does not complete an event->ack echo after connection 1 received an input of the kind: "+stage, "[%s] after %s on connection 1, connection 3 got: %s", v.name(), shown, got)
			}
			if expectErr && npanic == 0 && len(errs[conn1]) == 0 && f1.Closed == 0 {
				r.Violate("process: error neither reported to the socket's error handlers nor answered by closing the connection: "+stage,
					"[%s] frames %s: %s, but no OnError handler of connection 1 ran and connection 1 was not closed (frames sent to it: %s)", v.name(), shown, why, f1)
			}
			if !v.first || nconn == 3 {
				for _, o := range other {
					if len(errs[o]) > 0 {
						r.Violate("process: an error of connection 1 was reported on another connection", "[%s] errors seen by connection #%d: %v", v.name(), o, errs[o])
					}
				}
			}
			r.Outcome = fmt.Sprintf("sent=%v errors=%d closed=%v handled=%d acked=%d panics=%d echo2=%v echo3=%v", sent, len(errs[conn1]), f1.Closed > 0, handled, acked, npanic, echo2, echo3)
			return r
		}
	}
	return sc
}

func showRep(rp rep) string {
	var fr [][]byte
	for _, f := range rp.Frames {
		d := f.Data
		if len(d) > 120 {
			d = d[:60] + "..." + d[len(d)-20:]
		}
		fr = append(fr, []byte(d))
	}
	return showFrames(fr)
}

// variants lists how every representative is sent: as it is; every ACK for namespace "/" additionally once
// per callback family with a matching outstanding emit; every CONNECT additionally as the first packet.
func variants() []variant {
	var out []variant
	for _, rp := range representatives() {
		out = append(out, variant{rp: rp, ackFam: -1})
		f0 := rp.Frames[0].Data
		if _, ok := withAckID(f0, "0"); ok {
			for k := range families {
				out = append(out, variant{rp: rp, ackFam: k})
			}
		}
		if strings.HasPrefix(f0, "0") {
			out = append(out, variant{rp: rp, ackFam: -1, first: true})
			out = append(out, variant{rp: rp, ackFam: -1, first: true, recovery: true})
		}
	}
	return out
}

func scenarios(tier string) []*vx.Scenario {
	if skipProcessHalf() {
		return nil
	}
	bound := 1
	if tier == "thorough" {
		bound = 2
	}
	var out []*vx.Scenario
	for _, v := range variants() {
		out = append(out, processScenario(v, bound))
	}
	for _, rp := range clientReps() {
		out = append(out, clientScenario(rp, bound))
	}
	return out
}
