package main

// Part 1 of C10: bounded exhaustive enumeration of first frames (and attachment frames) given to a fresh
// Socket.IO parser, each finished packet decoded against the handler signature families.
//
// Everything here is sequential and pure (parser/json is not instrumented), so it runs outside vsched.Run,
// in worker subprocesses of this binary (flag -c10worker) with recover around every call into the code under
// test and a per-input watchdog.

import (
	"encoding/json"
	"errors"
	"fmt"
	"os"
	"reflect"
	"regexp"
	"runtime"
	"sort"
	"strconv"
	"strings"

	sio "github.com/karagenc/socket.io-go"
	"github.com/karagenc/socket.io-go/parser"
	jsonparser "github.com/karagenc/socket.io-go/parser/json"
	"github.com/karagenc/socket.io-go/parser/json/serializer"
	gojson "github.com/karagenc/socket.io-go/parser/json/serializer/go-json"
	"github.com/karagenc/socket.io-go/parser/json/serializer/stdjson"
)

const modulePath = "github.com/karagenc/socket.io-go/"

// alphabet of protocol-significant bytes (fixed by the property's design section).
const alphabet = "012569-/,\"[]{}\\:a_"

// ---------------------------------------------------------------- handler signature families

// structArg is the "struct with a Binary field" family.
type structArg struct {
	A sio.Binary `json:"a"`
	N int        `json:"n"`
}

type family struct {
	name  string
	types []reflect.Type
}

// inTypes returns what newEventHandler stores in handler.inputArgs for f.
func inTypes(f any) []reflect.Type {
	rt := reflect.TypeOf(f)
	out := make([]reflect.Type, rt.NumIn())
	for i := range out {
		out[i] = rt.In(i)
	}
	return out
}

var families = []family{
	{"binary", inTypes(func(sio.Binary) {})},
	{"map", inTypes(func(map[string]any) {})},
	{"any", inTypes(func(any) {})},
	{"struct", inTypes(func(structArg) {})},
	{"noargs", inTypes(func() {})},
}

// authFamily is what serverConn.connect passes to decode for CONNECT packets (also used for CONNECT_ERROR).
var authFamily = family{"connect-auth", []reflect.Type{reflect.TypeOf(&json.RawMessage{})}}

// structMapArg: a struct whose field is a typed map of Binary (the JSON key "a" holds an object).
type structMapArg struct {
	A map[string]sio.Binary `json:"a"`
}

// structNilArg: a struct whose nil-able fields (pointer, interface) come first; a peer that omits them or sends
// null leaves them nil while the reconstruction still walks the struct.
type structNilArg struct {
	P *structArg  `json:"p"`
	X any         `json:"x"`
	A sio.Binary  `json:"a"`
	Q *sio.Binary `json:"q"`
}

// typedFamilies: statically typed containers of Binary as handler arguments. They are decoded at the
// decoder level only (the process half registers the five families above).
var typedFamilies = []family{
	{"map-of-binary", inTypes(func(map[string]sio.Binary) {})},
	{"map-of-binary-pointers", inTypes(func(map[string]*sio.Binary) {})},
	{"struct-with-map-of-binary", inTypes(func(structMapArg) {})},
	{"pointer-to-struct", inTypes(func(*structArg) {})},
	{"slice-of-binary", inTypes(func([]sio.Binary) {})},
	{"slice-of-any", inTypes(func([]any) {})},
	{"binary-binary", inTypes(func(sio.Binary, sio.Binary) {})},
	{"struct-with-nil-pointer-and-interface-fields", inTypes(func(structNilArg) {})},
	{"pointer-to-struct-with-nil-fields", inTypes(func(*structNilArg) {})},
	// maps whose element type is itself a map type (a placeholder one level below is not assignable to it)
	{"map-of-maps", inTypes(func(map[string]map[string]any) {})},
	{"map-of-named-maps", inTypes(func(map[string]namedObj) {})},
	{"slice-of-maps-of-maps", inTypes(func([]map[string]map[string]any) {})},
	{"struct-with-map-of-maps", inTypes(func(structMapMapArg) {})},
}

type namedObj map[string]any

type structMapMapArg struct {
	A map[string]map[string]any `json:"a"`
}

func familiesFor(typ parser.PacketType) []family {
	all := append(append([]family{}, families...), typedFamilies...)
	if typ == parser.PacketTypeConnect || typ == parser.PacketTypeConnectError {
		return append(all, authFamily)
	}
	return all
}

// ---------------------------------------------------------------- frames

// attachment frames used to complete a packet that asks for attachments: the parser has no notion of
// "binary frame" beyond the bytes, so "binary" is a non-UTF-8, non-JSON byte string and "text" is a
// well-formed Socket.IO text packet arriving where an attachment is expected.
var attFrames = []struct {
	name string
	data []byte
}{
	{"bin", []byte{0x00, 0xff, '"', 0x7b}},
	{"text", []byte(`2["a",{"_placeholder":true,"num":0}]`)},
}

func showFrames(frames [][]byte) string {
	var s []string
	for _, f := range frames {
		s = append(s, strconv.QuoteToASCII(string(f)))
	}
	return "[" + strings.Join(s, ", ") + "]"
}

// ---------------------------------------------------------------- guarded calls

type panicInfo struct {
	Fn    string // function of this module in which (or below which) the panic was raised
	Via   string // the raising function when it is outside the module (reflect, encoding/json, ...)
	What  string // normalised panic value
	Raw   string
	Stack string
}

func (p *panicInfo) key() string {
	k := "panic in " + p.Fn
	if p.Via != "" {
		k += " (raised in " + p.Via + ")"
	}
	k += ": " + p.What
	if h := knownShapes[k]; h != "" {
		k += " (" + h + ")"
	}
	return k
}

// knownShapes attaches the input shape to panic classes that have been triaged (constant per class).
var knownShapes = map[string]string{
	"panic in parseHeader: slice bounds out of range, low > high":         "namespace without a terminating comma",
	"panic in reconstructBinaryValue: index out of range, negative index": "placeholder num below 0",
	"panic in reconstructMap: index out of range, negative index":         "placeholder num below 0 or not an integer in range",
}

var (
	reIndex   = regexp.MustCompile(`index out of range \[(-?\d+)\]( with length (\d+))?`)
	reSliceLH = regexp.MustCompile(`slice bounds out of range \[(-?\d+):(-?\d+)\]`)
	reSliceH  = regexp.MustCompile(`slice bounds out of range \[:(-?\d+)\] with (length|capacity) (\d+)`)
	reSliceL  = regexp.MustCompile(`slice bounds out of range \[(-?\d+):\]`)
	reDigits  = regexp.MustCompile(`-?\d+`)
	reQuoted  = regexp.MustCompile("\"[^\"]*\"|`[^`]*`|'[^']*'")
	reHex     = regexp.MustCompile(`0x[0-9a-fA-F]+`)
)

// normalisePanic removes execution- and input-specific numbers but keeps which bound was broken, so a
// different defect at the same site gets a different key.
func normalisePanic(r any) string {
	s := fmt.Sprint(r)
	s = strings.TrimPrefix(s, "runtime error: ")
	if m := reIndex.FindStringSubmatch(s); m != nil {
		if strings.HasPrefix(m[1], "-") {
			return "index out of range, negative index"
		}
		return "index out of range, index >= length"
	}
	if m := reSliceLH.FindStringSubmatch(s); m != nil {
		return "slice bounds out of range, low > high"
	}
	if m := reSliceH.FindStringSubmatch(s); m != nil {
		return "slice bounds out of range, high > " + m[2]
	}
	if m := reSliceL.FindStringSubmatch(s); m != nil {
		return "slice bounds out of range, low out of range"
	}
	s = reHex.ReplaceAllString(s, "0xN")
	s = reQuoted.ReplaceAllString(s, "\"..\"")
	s = reDigits.ReplaceAllString(s, "N")
	if len(s) > 100 {
		s = s[:100]
	}
	return s
}

func shortFn(fn string) string {
	if i := strings.LastIndex(fn, "/"); i >= 0 {
		fn = fn[i+1:]
	}
	// "json.(*Parser).parseHeader" -> "parseHeader"; "json.convertTypesToValues" -> "convertTypesToValues"
	if i := strings.Index(fn, ")."); i >= 0 {
		return fn[i+2:]
	}
	if i := strings.Index(fn, "."); i >= 0 {
		return fn[i+1:]
	}
	return fn
}

func inModule(fn string) bool {
	return strings.HasPrefix(fn, modulePath) && !strings.Contains(fn, "/internal/vh/") &&
		!strings.Contains(fn, "/internal/vsched") && !strings.Contains(fn, "/internal/vexplore") && !strings.Contains(fn, "/internal/vrig")
}

// sitesFromFrames finds the raising function and the first function of the module on the panicking stack.
// fns is the stack from the top, starting anywhere above runtime.gopanic.
func sitesFromFrames(fns []string) (fn, via string) {
	i := 0
	for i < len(fns) && fns[i] != "runtime.gopanic" && fns[i] != "panic" {
		i++
	}
	if i == len(fns) {
		i = -1
	}
	first := ""
	for _, f := range fns[i+1:] {
		if strings.HasPrefix(f, "runtime.") {
			continue
		}
		if first == "" {
			first = f
		}
		if inModule(f) {
			if first != f {
				via = first
				if j := strings.LastIndex(via, "/"); j >= 0 {
					via = via[j+1:]
				}
			}
			return shortFn(f), via
		}
	}
	if first == "" {
		first = "?"
	}
	return "code outside the module", first
}

func describePanic(r any) *panicInfo {
	pcs := make([]uintptr, 96)
	n := runtime.Callers(2, pcs)
	fr := runtime.CallersFrames(pcs[:n])
	var fns []string
	for {
		f, more := fr.Next()
		fns = append(fns, f.Function)
		if !more {
			break
		}
	}
	p := &panicInfo{What: normalisePanic(r), Raw: fmt.Sprint(r)}
	p.Fn, p.Via = sitesFromFrames(fns)
	if len(fns) > 14 {
		fns = fns[:14]
	}
	p.Stack = strings.Join(fns, " <- ")
	return p
}

// sitesFromStackText does the same on the text of runtime.Stack (what vsched keeps for a panicked thread).
func sitesFromStackText(stack string) (fn, via string) {
	var fns []string
	for _, l := range strings.Split(stack, "\n") {
		if l == "" || l[0] == '\t' || strings.HasPrefix(l, "goroutine ") {
			continue
		}
		// "pkg/path.(*T).fn(args...)" or "panic({...})"
		if i := strings.LastIndex(l, "("); i > 0 {
			l = l[:i]
		}
		fns = append(fns, l)
	}
	return sitesFromFrames(fns)
}

// guard runs f and converts a panic into a value.
func guard(f func()) (p *panicInfo) {
	defer func() {
		if r := recover(); r != nil {
			p = describePanic(r)
		}
	}()
	f()
	return nil
}

// ---------------------------------------------------------------- error classes

func errClass(err error) string {
	if err == nil {
		return "ok"
	}
	var ne *strconv.NumError
	if errors.As(err, &ne) {
		return "error: strconv." + ne.Func + ": " + ne.Err.Error()
	}
	var se *json.SyntaxError
	if errors.As(err, &se) {
		return "error: json syntax"
	}
	var te *json.UnmarshalTypeError
	if errors.As(err, &te) {
		return "error: json type mismatch"
	}
	s := err.Error()
	if strings.HasPrefix(s, "parser") {
		return "error: " + s
	}
	s = reQuoted.ReplaceAllString(s, "\"..\"")
	s = reDigits.ReplaceAllString(s, "N")
	if len(s) > 60 {
		s = s[:60]
	}
	return "error: " + s
}

// trivialClass: rejected on the length check or on the first byte.
func trivialClass(c string) bool {
	return c == "error: parser/json: invalid packet size" || c == "error: parser: invalid packet type"
}

// ---------------------------------------------------------------- one parser step

type stepKind int

const (
	stepErr stepKind = iota
	stepPending
	stepFinished
	stepPanic
)

type stepResult struct {
	kind   stepKind
	err    error
	pan    *panicInfo
	header *parser.PacketHeader
	event  string
	decode parser.Decode
}

// stdJSON is the serializer under test: the server's default. VERIF_C10_SERIALIZER=gojson selects the
// optional goccy/go-json binding instead (an experiment outside the committed evidence: its panics would be
// raised in third-party code).
var stdJSON = func() serializer.JSONSerializer {
	if os.Getenv("VERIF_C10_SERIALIZER") == "gojson" {
		return gojson.New(nil, nil)
	}
	return stdjson.New()
}()

func newParser(maxAttachments int) parser.Parser {
	return jsonparser.NewCreator(maxAttachments, stdJSON)()
}

func step(p parser.Parser, data []byte) (r stepResult) {
	finished := false
	r.pan = guard(func() {
		r.err = p.Add(data, func(h *parser.PacketHeader, ev string, d parser.Decode) {
			finished = true
			r.header, r.event, r.decode = h, ev, d
		})
	})
	switch {
	case r.pan != nil:
		r.kind = stepPanic
	case r.err != nil:
		r.kind = stepErr
	case finished:
		r.kind = stepFinished
	default:
		r.kind = stepPending
	}
	return
}

// ---------------------------------------------------------------- statistics of a batch

type example struct {
	Frames [][]byte `json:"frames"`
	Note   string   `json:"note,omitempty"`
}

func (e example) size() int {
	n := 0
	for _, f := range e.Frames {
		n += len(f) + 1
	}
	return n
}

func (e example) less(o example) bool {
	if a, b := e.size(), o.size(); a != b {
		return a < b
	}
	return showFrames(e.Frames) < showFrames(o.Frames)
}

type classStat struct {
	Count int     `json:"count"`
	Ex    example `json:"ex"`
}

type violStat struct {
	Count  int     `json:"count"`
	Ex     example `json:"ex"`
	Family string  `json:"family,omitempty"`
	Detail string  `json:"detail"`
}

type batchStats struct {
	Inputs      int                   `json:"inputs"`      // first frames
	Sequences   int                   `json:"sequences"`   // frame sequences given to a fresh parser
	Decodes     int                   `json:"decodes"`     // decode calls
	Evaluations int                   `json:"evaluations"` // (sequence, family) pairs + sequences that produced no packet
	Nontrivial  int                   `json:"nontrivial"`  // first frames that got past the first-byte check
	Pending     int                   `json:"pending"`     // first frames that asked for attachments
	Finished    int                   `json:"finished"`    // sequences that produced a packet
	Classes     map[string]*classStat `json:"classes"`     // coarse outcome classes with their shortest input
	Fine        map[string]int        `json:"fine"`        // per-family detail (counts only)
	Violations  map[string]*violStat  `json:"violations"`
}

func newBatchStats() *batchStats {
	return &batchStats{Classes: map[string]*classStat{}, Fine: map[string]int{}, Violations: map[string]*violStat{}}
}

func (b *batchStats) class(c string, frames [][]byte) {
	ex := example{Frames: cloneFrames(frames)}
	s := b.Classes[c]
	if s == nil {
		b.Classes[c] = &classStat{Count: 1, Ex: ex}
		return
	}
	s.Count++
	if ex.less(s.Ex) {
		s.Ex = ex
	}
}

func (b *batchStats) violate(key string, frames [][]byte, fam, detail string) {
	ex := example{Frames: cloneFrames(frames)}
	s := b.Violations[key]
	if s == nil {
		b.Violations[key] = &violStat{Count: 1, Ex: ex, Family: fam, Detail: detail}
		return
	}
	s.Count++
	if ex.less(s.Ex) {
		s.Ex, s.Family, s.Detail = ex, fam, detail
	}
}

func (b *batchStats) merge(o *batchStats) {
	b.Inputs += o.Inputs
	b.Sequences += o.Sequences
	b.Decodes += o.Decodes
	b.Evaluations += o.Evaluations
	b.Nontrivial += o.Nontrivial
	b.Pending += o.Pending
	b.Finished += o.Finished
	for k, n := range o.Fine {
		b.Fine[k] += n
	}
	for k, c := range o.Classes {
		s := b.Classes[k]
		if s == nil {
			cc := *c
			b.Classes[k] = &cc
			continue
		}
		s.Count += c.Count
		if c.Ex.less(s.Ex) {
			s.Ex = c.Ex
		}
	}
	for k, v := range o.Violations {
		s := b.Violations[k]
		if s == nil {
			vv := *v
			b.Violations[k] = &vv
			continue
		}
		s.Count += v.Count
		if v.Ex.less(s.Ex) {
			s.Ex, s.Family, s.Detail = v.Ex, v.Family, v.Detail
		}
	}
}

func cloneFrames(frames [][]byte) [][]byte {
	out := make([][]byte, len(frames))
	for i, f := range frames {
		out[i] = append([]byte{}, f...)
	}
	return out
}

// ---------------------------------------------------------------- evaluating one first frame

// limitForWedgeOracle: a second parser configuration with maxAttachments set. Its documented contract
// ("the maximum number of the binary attachments to parse") gives a black-box oracle for a wedged decoder:
// a header either fails or its packet completes after at most that many further frames.
const limitForWedgeOracle = 2

// decodeAll calls the decode closure once per family (like serverSocket.onPacket does with one closure and
// several handlers). It returns the coarse outcome (which the process half needs a representative of) and
// the per-family detail.
func decodeAll(b *batchStats, frames [][]byte, r stepResult) (coarse, fine string) {
	b.Finished++
	var parts []string
	kinds := map[string]bool{}
	nOK, nErr, nPanic := 0, 0, 0
	for _, fam := range familiesFor(r.header.Type) {
		var err error
		b.Decodes++
		b.Evaluations++
		p := guard(func() { _, err = r.decode(fam.types...) })
		if p != nil {
			b.violate(p.key(), frames, fam.name, fmt.Sprintf("decode(%s) panicked: %s; stack: %s", fam.name, p.Raw, p.Stack))
			parts = append(parts, fam.name+"=PANIC")
			nPanic++
			continue
		}
		c := strings.TrimPrefix(errClass(err), "error: ")
		if err != nil {
			nErr++
			kinds[c] = true
		} else {
			nOK++
		}
		parts = append(parts, fam.name+"="+c)
	}
	switch {
	case nPanic > 0:
		coarse = "PANIC"
	case nErr == 0:
		coarse = "ok for every family"
	case nOK == 0:
		coarse = "error for every family (" + strings.Join(sortedKeys(kinds), "; ") + ")"
	default:
		coarse = "error for some families (" + strings.Join(sortedKeys(kinds), "; ") + ")"
	}
	return coarse, strings.Join(parts, " ")
}

func typeName(h *parser.PacketHeader) string {
	names := []string{"CONNECT", "DISCONNECT", "EVENT", "ACK", "CONNECT_ERROR", "BINARY_EVENT", "BINARY_ACK"}
	if int(h.Type) < len(names) {
		return names[h.Type]
	}
	return fmt.Sprint(h.Type)
}

// evalFirst evaluates one first frame completely (attachment combinations, all families, wedge oracle).
func evalFirst(b *batchStats, first []byte) {
	b.Inputs++
	frames := [][]byte{first}
	b.Sequences++
	r := step(newParser(0), first)
	switch r.kind {
	case stepPanic:
		b.Nontrivial++
		b.Evaluations++
		b.violate(r.pan.key(), frames, "", fmt.Sprintf("Parser.Add(first frame) panicked: %s; stack: %s", r.pan.Raw, r.pan.Stack))
		b.class("Add(first frame): PANIC", frames)
	case stepErr:
		b.Evaluations++
		c := errClass(r.err)
		if !trivialClass(c) {
			b.Nontrivial++
		}
		b.class("Add(first frame): "+c, frames)
	case stepFinished:
		b.Nontrivial++
		c, f := decodeAll(b, frames, r)
		b.class(typeName(r.header)+" decode: "+c, frames)
		b.Fine[typeName(r.header)+" decode: "+f]++
	case stepPending:
		b.Nontrivial++
		b.Pending++
		evalPending(b, first)
		evalWedge(b, first)
	}
}

// evalPending completes a packet that asked for attachments with every combination of {binary, text}
// frames up to 2.
func evalPending(b *batchStats, first []byte) {
	for _, a1 := range attFrames {
		p := newParser(0)
		step(p, first)
		frames := [][]byte{first, a1.data}
		b.Sequences++
		// what the decoder allocates for a frame is bounded by the frame, not by a number the peer announced:
		// a header may ask for 2^31-1 attachments, and memory exhaustion kills the whole process
		var m0, m1 runtime.MemStats
		runtime.ReadMemStats(&m0)
		r1 := step(p, a1.data)
		runtime.ReadMemStats(&m1)
		if d := m1.TotalAlloc - m0.TotalAlloc; d > allocBoundPerFrame {
			b.violate(allocKey, frames, "", fmt.Sprintf("Parser.Add allocated %d bytes for an attachment frame of %d bytes after the header %q (bound %d)", d, len(a1.data), first, allocBoundPerFrame))
		}
		switch r1.kind {
		case stepPanic:
			b.Evaluations++
			b.violate(r1.pan.key(), frames, "", fmt.Sprintf("Parser.Add(attachment) panicked: %s; stack: %s", r1.pan.Raw, r1.pan.Stack))
			b.class("Add(attachment): PANIC", frames)
			continue
		case stepErr:
			b.Evaluations++
			b.class("Add(attachment): "+errClass(r1.err), frames)
			continue
		case stepFinished:
			c, f := decodeAll(b, frames, r1)
			b.class(typeName(r1.header)+" + 1 attachment decode: "+c, frames)
			b.Fine[typeName(r1.header)+"+1("+a1.name+") decode: "+f]++
			continue
		}
		for _, a2 := range attFrames {
			p := newParser(0)
			step(p, first)
			step(p, a1.data)
			frames := [][]byte{first, a1.data, a2.data}
			b.Sequences++
			r2 := step(p, a2.data)
			switch r2.kind {
			case stepPanic:
				b.Evaluations++
				b.violate(r2.pan.key(), frames, "", fmt.Sprintf("Parser.Add(attachment) panicked: %s; stack: %s", r2.pan.Raw, r2.pan.Stack))
				b.class("Add(attachment): PANIC", frames)
			case stepErr:
				b.Evaluations++
				b.class("Add(attachment): "+errClass(r2.err), frames)
			case stepFinished:
				c, f := decodeAll(b, frames, r2)
				b.class(typeName(r2.header)+" + 2 attachments decode: "+c, frames)
				b.Fine[typeName(r2.header)+"+2("+a1.name+","+a2.name+") decode: "+f]++
			case stepPending:
				b.Evaluations++
				b.class("still waiting for attachments after 2", [][]byte{first})
			}
		}
	}
}

const (
	allocBoundPerFrame = 16 << 20
	allocKey           = "memory: a frame makes the decoder allocate far more than the frame (the attachment count announced by the peer drives the allocation)"
)

const wedgeKey = "wedge in Add: attachment count of 2^63 or more becomes a negative int (packet can never complete, maxAttachments bypassed)"

// evalWedge: with maxAttachments = 2 a header that asks for attachments must either be refused or be
// completed by two more frames.
func evalWedge(b *batchStats, first []byte) {
	p := newParser(limitForWedgeOracle)
	b.Sequences++
	b.Evaluations++
	r := step(p, first)
	if r.kind != stepPending {
		// refused (limit exceeded) - or a panic/finish that the unlimited configuration reports already
		if r.kind == stepErr {
			b.class("maxAttachments=2: Add(first frame): "+errClass(r.err), [][]byte{first})
		}
		return
	}
	frames := [][]byte{first}
	for i := 0; i < limitForWedgeOracle; i++ {
		frames = append(frames, attFrames[0].data)
		r = step(p, attFrames[0].data)
		if r.kind != stepPending {
			b.class("maxAttachments=2: completed within the limit", [][]byte{first})
			return
		}
	}
	b.class("maxAttachments=2: WEDGED", [][]byte{first})
	b.violate(wedgeKey, frames, "", fmt.Sprintf("with maxAttachments=%d the header was accepted (no error) but the packet is still incomplete after %d attachment frames: "+
		"Add can neither yield this packet nor any later one, every further frame of the connection is buffered", limitForWedgeOracle, limitForWedgeOracle))
}

// ---------------------------------------------------------------- the case space

// nStrings(L) = number of strings over the alphabet of length <= L.
func nStrings(L int) int {
	n, p := 0, 1
	for k := 0; k <= L; k++ {
		n += p
		p *= len(alphabet)
	}
	return n
}

// stringAt returns the i-th string in (length, lexicographic by alphabet position) order.
func stringAt(i int) []byte {
	k, p := 0, 1
	for i >= p {
		i -= p
		p *= len(alphabet)
		k++
	}
	out := make([]byte, k)
	for j := k - 1; j >= 0; j-- {
		out[j] = alphabet[i%len(alphabet)]
		i /= len(alphabet)
	}
	return out
}

func inAlphabet(s string, L int) bool {
	if len(s) > L {
		return false
	}
	for i := 0; i < len(s); i++ {
		if strings.IndexByte(alphabet, s[i]) < 0 {
			return false
		}
	}
	return true
}

// templates: what length 6 cannot spell. Deterministic, de-duplicated, sorted by construction order.
func templates(L int) []string {
	var out []string
	seen := map[string]bool{}
	add := func(s string) {
		if seen[s] || inAlphabet(s, L) {
			return
		}
		seen[s] = true
		out = append(out, s)
	}
	ph := func(num string) string { return `{"_placeholder":true,"num":` + num + `}` }
	phRev := func(num string) string { return `{"num":` + num + `,"_placeholder":true}` }

	// (a) attachment counts
	counts := []string{"0", "1", "2", "20000000", "1000000000", "2147483647", "10000000000", "9223372036854775808", "18446744073709551615", "-1", "1e3",
		"9223372036854775807", "18446744073709551616", "4294967296", "2147483648", "00", "01", "+1", " 1", ""}
	for _, c := range counts {
		add("5" + c + `-["a",` + ph("0") + `]`)
		add("5" + c + `-["a",{"a":` + ph("0") + `}]`)
		add("5" + c + `-/a,7["a",` + ph("0") + `]`)
		add("6" + c + `-7[` + ph("0") + `]`)
		add("6" + c + `-[]`)
		add("6" + c + "-")
		add("5" + c + "-")
		add("5" + c)
		add("6" + c)
	}
	// (b) placeholder num, at top level / inside a map / inside a struct field / deeper / in an array
	nums := []string{"-9223372036854775808", "-2", "-1", "0", "1", "2", "1e30", "0.5", `"0"`, "null", "true", "{}",
		"9223372036854775807", "9223372036854775806", "-9223372036854775809", "1e400", "-1e30", "-0", "-0.5", "1.9", "3", "[]", "[0]", "1e0", "-1e0"}
	for _, n := range nums {
		for _, p := range []string{ph(n), phRev(n), `{"_placeholder":false,"num":` + n + `}`, `{"num":` + n + `}`, `{"_placeholder":true,"num":` + n + `,"x":1}`} {
			for _, att := range []string{"1", "2"} {
				add("5" + att + `-["a",` + p + `]`)
				add("5" + att + `-["a",{"a":` + p + `}]`)
				add("5" + att + `-["a",{"a":` + p + `,"n":1}]`)
				add("5" + att + `-["a",{"a":{"a":` + p + `}}]`)
				add("5" + att + `-["a",[` + p + `]]`)
				add("5" + att + `-["a",` + p + `,` + p + `]`)
				add("6" + att + `-1[` + p + `]`)
				add("6" + att + `-1[{"a":` + p + `}]`)
			}
			// the same payloads in packets that carry no attachments
			add(`2["a",` + p + `]`)
			add(`2["a",{"a":` + p + `}]`)
			add(`50-["a",{"a":` + p + `}]`)
			add(`31[{"a":` + p + `}]`)
		}
	}
	// (c) truncation at every byte of valid packets
	for _, full := range []string{
		`51-["a",{"_placeholder":true,"num":0}]`,
		`52-/a,12["a",{"_placeholder":true,"num":0},{"a":{"_placeholder":true,"num":1}}]`,
		`61-3[{"a":{"_placeholder":true,"num":0}}]`,
		`2/a,12["a",{"a":1},"b\"c",[1,2]]`,
		`0/a,{"token":"x"}`,
		`4/a,{"message":"x"}`,
		`31["a\\",{"a":null}]`,
	} {
		for i := 0; i <= len(full); i++ {
			add(full[:i])
		}
	}
	// (d) ack ids
	ids := []string{"1234567890123456789012345", "9999999999999999999999999", "18446744073709551615", "18446744073709551616", "0000000000000000000000001", "00"}
	for _, id := range ids {
		add("2" + id + `["a"]`)
		add("2/a," + id + `["a"]`)
		add("3" + id + `[]`)
		add("3" + id)
		add("51-" + id + `["a",` + ph("0") + `]`)
		add("61-" + id + `[` + ph("0") + `]`)
		add("0" + id)
		add("1" + id)
	}
	// (e) the packet types and shapes the alphabet lacks (3 = ACK, 4 = CONNECT_ERROR, 7..9 invalid)
	tails := []string{"", "/", "/a", "/a,", "/a,1", "/,", "//", "1", "1/", `["a"]`, `/a,["a"]`, `1["a"]`, `{}`, `/a,{}`, `"a"`, `["a",1]`, `[]`, `[1]`, "[", "null", "/a,null", `"`, `"\"`, `"\\"`, `"\u00"`, `"\ud800"`, `["a"`, ",", "-"}
	for t := '0'; t <= '9'; t++ {
		for _, tail := range tails {
			add(string(t) + tail)
			if t == '5' || t == '6' {
				add(string(t) + "1-" + tail)
				add(string(t) + "0-" + tail)
				add(string(t) + "2-" + tail)
			}
		}
	}
	// (f) event-name extraction
	for _, s := range []string{`2"a"`, `2["a\"]`, `2["a\\"]`, `2["a"]`, `2["a","b"]`, `2[1,"a"]`, `2{"a":"b"}`, `2["` + strings.Repeat("a", 300) + `"]`, `2["a"]]]]`, `2` + strings.Repeat("[", 200) + `"a"`,
		"2[\"a\x00\"]", "2[\"\xff\"]", "\xff", "2\xff", "5\xff-[\"a\"]", "51-\xff", "2[\"a\", 1]", "2 [\"a\"]", "2\n[\"a\"]", `2["a",` + strings.Repeat("[", 11000) + `]`} {
		add(s)
	}
	// (g) the first frames of the hand-written representatives of the process half
	for _, rp := range append(extraReps(), clientReps()...) {
		add(rp.Frames[0].Data)
	}
	return out
}

// caseAt maps an index of the case space to its first frame.
type caseSpace struct {
	L     int
	nStr  int
	tmpl  []string
	total int
}

func newCaseSpace(tier string) *caseSpace {
	L := 5
	if tier == "thorough" {
		L = 6
	}
	// templates are de-duplicated against the largest enumeration so that both tiers run the same set
	cs := &caseSpace{L: L, nStr: nStrings(L), tmpl: templates(L)}
	cs.total = cs.nStr + len(cs.tmpl)
	return cs
}

func (cs *caseSpace) at(i int) []byte {
	if i < cs.nStr {
		return stringAt(i)
	}
	return []byte(cs.tmpl[i-cs.nStr])
}

// next advances s (a string of the enumeration) to its successor of the same length; false on wrap.
func nextString(s []byte) bool {
	for j := len(s) - 1; j >= 0; j-- {
		k := strings.IndexByte(alphabet, s[j])
		if k+1 < len(alphabet) {
			s[j] = alphabet[k+1]
			return true
		}
		s[j] = alphabet[0]
	}
	return false
}

func sortedKeys[V any](m map[string]V) []string {
	keys := make([]string, 0, len(m))
	for k := range m {
		keys = append(keys, k)
	}
	sort.Strings(keys)
	return keys
}
