package main

// Part 2b of C10: the same question for the Go client (client_manager.go, client_socket.go). A real
// sio.Server and a real sio.Manager are joined by the in-process polling link (rig R3); once the client
// socket is connected the server side hands raw, possibly malformed frames to the connection
// (sio.VerifServerSendRaw), so the client's Manager.onEIOPacket / onParserFinish / clientSocket.onPacket
// decode them. Judged: no uncaught panic on any modelled thread (the client decodes on its transport
// goroutine and on bare per-packet goroutines), errors are reported (Manager OnError / OnClose ran), and a
// fresh manager still completes an event->ack echo with the server afterwards.

import (
	"fmt"
	"strings"
	"time"

	sio "github.com/karagenc/socket.io-go"
	vx "github.com/karagenc/socket.io-go/internal/vexplore"
	"github.com/karagenc/socket.io-go/internal/vrig"
	"github.com/karagenc/socket.io-go/internal/vsched"
	"github.com/karagenc/socket.io-go/parser"
)

func clientReps() []rep {
	return []rep{
		{"valid-event", txt(`2["a",{"a":1}]`)},
		{"valid-binary-event", withBin(`51-["a",`+ph0+`]`, 1)},
		{"valid-binary-event-nested", withBin(`51-["a",{"a":`+ph0+`}]`, 1)},
		{"text-frame-as-attachment", withText(`51-["a",`+ph0+`]`, 1)},
		{"add-error/invalid-type", txt("9")},
		{"add-error/empty-frame", txt("")},
		{"add-error/event-without-name", txt("2")},
		{"add-error/ack-id-range", txt(`21234567890123456789012345["a"]`)},
		{"decode-error/one-number", txt(`2["a",1]`)},
		{"decode-error/truncated-json", txt(`2["a",{"a":`)},
		{"decode-error/num-out-of-range", withBin(`51-["a",{"_placeholder":true,"num":1}]`, 1)},
		{"ack-nobody-waits-for", txt(`31["x"]`)},
		{"connect-again-garbage", txt("0a")},
		{"connect-error-garbage", txt("4a")},
		{"namespace-without-comma-connect", txt("0/")},
		{"namespace-without-comma-event", txt("2/a")},
		{"placeholder-num=-2-top-level", withBin(`51-["a",{"_placeholder":true,"num":-2}]`, 1)},
		{"placeholder-num=-2-in-map-or-struct", withBin(`51-["a",{"a":{"_placeholder":true,"num":-2}}]`, 1)},
		{"placeholder-num=1e30-in-map", withBin(`51-["a",{"a":{"_placeholder":true,"num":1e30}}]`, 1)},
		{"count-2^63", withBin(`59223372036854775808-["a",`+ph0+`]`, 2)},
	}
}

// clientExpectation: must the client report an error for this input (socket of namespace "/", handlers of all
// families for event "a", no outstanding acks)?
func clientExpectation(rp rep) (expectErr bool, stage, why string) {
	p := newParser(0)
	for i, f := range rp.Frames {
		r := step(p, []byte(f.Data))
		switch r.kind {
		case stepPanic:
			return false, "Parser.Add panics", ""
		case stepErr:
			return true, "Parser.Add fails", fmt.Sprintf("Parser.Add fails on frame %d (%s)", i, errClass(r.err))
		case stepFinished:
			if r.header.Namespace != "/" && r.header.Namespace != "" {
				return false, "packet for a namespace without socket", ""
			}
			switch r.header.Type {
			case parser.PacketTypeEvent, parser.PacketTypeBinaryEvent:
				if r.event != "a" {
					return false, "event without handlers", ""
				}
				for _, fam := range families {
					var err error
					if pn := guard(func() { _, err = r.decode(fam.types...) }); pn != nil {
						return false, "decoding the event's arguments panics", ""
					}
					if err != nil {
						return true, "decoding the event's arguments fails", fmt.Sprintf("decode fails for the %s handler (%s)", fam.name, errClass(err))
					}
				}
				return false, "event decoded for every handler", ""
			}
			return false, "control or ack packet", ""
		}
	}
	return false, "packet still waiting for attachments", ""
}

func clientThreadRole(site string) string {
	switch {
	case strings.Contains(site, "onParserFinish"):
		return "the client's bare per-packet goroutine of Manager.onParserFinish"
	case strings.HasPrefix(site, "client_socket.go:") || strings.Contains(site, "polling") || strings.Contains(site, "transport"):
		return "the client's bare transport goroutine, which runs Parser.Add in Manager.onEIOPacket"
	}
	return "client-side thread " + site
}

func clientScenario(rp rep, bound int) *vx.Scenario {
	expectErr, stage, why := clientExpectation(rp)
	sc := &vx.Scenario{Name: "client/" + rp.Name, Bound: bound, Horizon: 2 * time.Minute, AllowPanic: true}
	sc.Body = func(e *vsched.Exec) func() vx.Result {
		srv, mgr, link := vrig.NewSioPair(nil, nil)
		var sv vsched.Var
		var ssocks []sio.ServerSocket
		nreg := 0
		srv.OnConnection(func(s sio.ServerSocket) {
			s.OnEvent("echo", func(x string, ack func(string)) { ack(x) })
			sv.Do(func() { ssocks = append(ssocks, s); nreg++ })
		})
		var reports []string
		note := func(s string) { sv.Do(func() { reports = append(reports, s) }) }
		handled := 0
		sock := mgr.Socket("/", nil)
		mgr.OnError(func(err error) { note("manager.OnError: " + err.Error()) })
		mgr.OnClose(func(reason sio.Reason, err error) { note(fmt.Sprintf("manager.OnClose: %v %v", reason, err)) })
		sock.OnConnectError(func(err any) { note(fmt.Sprintf("socket.OnConnectError: %v", err)) })
		got := func() { sv.Do(func() { handled++ }) }
		sock.OnEvent("a", func(b sio.Binary) { got() })
		sock.OnEvent("a", func(m map[string]any) { got() })
		sock.OnEvent("a", func(v any) { got() })
		sock.OnEvent("a", func(v structArg) { got() })
		sock.OnEvent("a", func() { got() })
		connected, connected2 := false, false
		sock.OnConnect(func() { sv.Do(func() { connected = true }) })
		sent := false
		echo2 := ""
		vsched.SetExploring(false) // the handshake runs on the default schedule
		vsched.GoQuiet("driver", func() {
			sock.Connect()
			vsched.Await(func() bool { return connected && nreg == 1 })
			vrig.Settle(time.Second) // see process.go: the set-up is over before the frames go out
			vsched.SetExploring(true)
			frames := make([][]byte, len(rp.Frames))
			for i, f := range rp.Frames {
				frames[i] = []byte(f.Data)
			}
			sio.VerifServerSendRaw(ssocks[0], frames...)
			sv.Do(func() { sent = true })
			vrig.Settle(2 * time.Second)
			// the process and the server must still serve a fresh client
			m2 := vrig.NewManagerOn(link, nil)
			s2 := m2.Socket("/", nil)
			s2.OnConnect(func() { sv.Do(func() { connected2 = true }) })
			s2.Connect()
			vsched.Await(func() bool { return connected2 && nreg == 2 })
			vrig.Settle(time.Second)
			s2.Emit("echo", "y", func(r string) { sv.Do(func() { echo2 = r }) })
		})
		return func() vx.Result {
			var r vx.Result
			npanic := 0
			for _, t := range e.Threads() {
				if t.Panic == nil {
					continue
				}
				npanic++
				fn, via := sitesFromStackText(t.Stack)
				pi := &panicInfo{Fn: fn, Via: via, What: normalisePanic(t.Panic)}
				r.Violate("client: uncaught "+pi.key()+", on "+clientThreadRole(t.Site),
					"[%s] frames %s sent by the server to a connected Go client: %v (thread %s); no recover between this goroutine and the runtime: the client process exits", rp.Name, showRep(rp), t.Panic, t.Site)
			}
			if !sent {
				r.Violate("client: harness could not deliver the frames", "[%s] connected=%v server sockets=%d", rp.Name, connected, nreg)
			}
			if echo2 != "y" {
				r.Violate("client: a fresh manager does not complete an event->ack echo after a client received an input of the kind: "+stage,
					"[%s] after %s, the second manager: connected=%v echo=%q", rp.Name, showRep(rp), connected2, echo2)
			}
			if expectErr && npanic == 0 && len(reports) == 0 {
				r.Violate("client: error reported neither through Manager.OnError nor by closing the connection: "+stage,
					"[%s] frames %s: %s, but no OnError/OnClose/OnConnectError handler ran", rp.Name, showRep(rp), why)
			}
			kinds := map[string]bool{}
			for _, x := range reports {
				kinds[strings.SplitN(x, ":", 2)[0]] = true
			}
			r.Outcome = fmt.Sprintf("sent=%v reports=%v handled=%d panics=%d echo2=%q", sent, sortedKeys(kinds), handled, npanic, echo2)
			return r
		}
	}
	return sc
}
