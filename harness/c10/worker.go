package main

// Worker subprocesses of the decoder half and their coordinator: batches of the case space run in
// `<this binary> -c10worker -tier T -from A -to B`, every call into the code under test is recovered
// inside, a monitor in the worker reports an input that takes longer than the watchdog limit, and the
// parent turns a worker that died (fatal error, OOM) into a verdict by re-running the batch in step mode.

import (
	"bufio"
	"encoding/json"
	"fmt"
	"os"
	"os/exec"
	"runtime"
	"strconv"
	"strings"
	"sync"
	"sync/atomic"
	"time"
)

const (
	hangLimit   = 10 * time.Second // one input
	maxDecProcs = 8
)

func argValue(name string) (string, bool) {
	for i, a := range os.Args[1:] {
		if a == "-"+name || a == "--"+name {
			if i+2 < len(os.Args) {
				return os.Args[i+2], true
			}
			return "", true
		}
		if strings.HasPrefix(a, "-"+name+"=") {
			return a[len(name)+2:], true
		}
		if strings.HasPrefix(a, "--"+name+"=") {
			return a[len(name)+3:], true
		}
	}
	return "", false
}

func hasFlag(name string) bool {
	_, ok := argValue(name)
	return ok
}

// ---------------------------------------------------------------- worker side

func decoderWorkerMain() {
	tier, _ := argValue("tier")
	fromS, _ := argValue("from")
	toS, _ := argValue("to")
	from, _ := strconv.Atoi(fromS)
	to, _ := strconv.Atoi(toS)
	stepMode := hasFlag("step")
	cs := newCaseSpace(tier)
	if to > cs.total {
		to = cs.total
	}
	out := bufio.NewWriterSize(os.Stdout, 1<<16)
	var outMu sync.Mutex
	var cur atomic.Int64
	cur.Store(int64(from))
	// monitor: heartbeat + per-input watchdog
	go func() {
		last, since := int64(-1), time.Now()
		for {
			time.Sleep(500 * time.Millisecond)
			c := cur.Load()
			if c != last {
				last, since = c, time.Now()
			} else if time.Since(since) > hangLimit {
				outMu.Lock()
				fmt.Fprintf(out, "HANG %d\n", c)
				out.Flush()
				os.Exit(3)
			}
			outMu.Lock()
			fmt.Fprintf(out, "HB %d\n", c)
			out.Flush()
			outMu.Unlock()
		}
	}()
	b := newBatchStats()
	var s []byte
	for i := from; i < to; i++ {
		cur.Store(int64(i))
		if stepMode {
			outMu.Lock()
			fmt.Fprintf(out, "I %d\n", i)
			out.Flush()
			outMu.Unlock()
		}
		if i < cs.nStr {
			// odometer inside a length block, recomputed at block borders
			if s == nil || !nextString(s) {
				s = stringAt(i)
			}
			evalFirst(b, s)
		} else {
			s = nil
			evalFirst(b, []byte(cs.tmpl[i-cs.nStr]))
		}
	}
	cur.Store(int64(to))
	js, _ := json.Marshal(b)
	outMu.Lock()
	out.WriteString("RESULT ")
	out.Write(js)
	out.WriteString("\n")
	out.Flush()
	outMu.Unlock()
}

// ---------------------------------------------------------------- parent side

type workerResult struct {
	stats   *batchStats
	hangAt  int // -1: none
	lastIdx int // last index known to have been started
	died    bool
	stderr  string
}

func runWorker(self, tier string, from, to int, stepMode bool) workerResult {
	args := []string{"-c10worker", "-tier", tier, "-from", strconv.Itoa(from), "-to", strconv.Itoa(to)}
	if stepMode {
		args = append(args, "-step")
	}
	// address space capped (8 GiB): an input that makes the decoder reserve tens of GiB kills the worker (which
	// the coordinator turns into a verdict) instead of the machine
	cmd := exec.Command("sh", append([]string{"-c", `ulimit -v 8388608 || exit 97; exec "$0" "$@"`, self}, args...)...)
	cmd.Env = append(os.Environ(), "GOMAXPROCS=2", "GOMEMLIMIT=1500MiB")
	stdout, _ := cmd.StdoutPipe()
	var stderr strings.Builder
	cmd.Stderr = &stderr
	res := workerResult{hangAt: -1, lastIdx: from}
	if err := cmd.Start(); err != nil {
		res.died = true
		res.stderr = "cannot start worker: " + err.Error()
		return res
	}
	lines := make(chan string, 64)
	go func() {
		rd := bufio.NewReaderSize(stdout, 1<<20)
		for {
			l, err := rd.ReadString('\n')
			if l != "" {
				lines <- l
			}
			if err != nil {
				close(lines)
				return
			}
		}
	}()
	// outer watchdog: the worker's own monitor speaks every 0.5 s; silence means it cannot even do that
	silence := time.NewTimer(4 * hangLimit)
loop:
	for {
		select {
		case l, ok := <-lines:
			if !ok {
				break loop
			}
			if !silence.Stop() {
				select {
				case <-silence.C:
				default:
				}
			}
			silence.Reset(4 * hangLimit)
			switch {
			case strings.HasPrefix(l, "HB "):
				res.lastIdx, _ = strconv.Atoi(strings.TrimSpace(l[3:]))
			case strings.HasPrefix(l, "I "):
				res.lastIdx, _ = strconv.Atoi(strings.TrimSpace(l[2:]))
			case strings.HasPrefix(l, "HANG "):
				res.hangAt, _ = strconv.Atoi(strings.TrimSpace(l[5:]))
				res.lastIdx = res.hangAt
			case strings.HasPrefix(l, "RESULT "):
				st := newBatchStats()
				if err := json.Unmarshal([]byte(l[7:]), st); err == nil {
					res.stats = st
				}
			}
		case <-silence.C:
			cmd.Process.Kill()
			res.died = true
			break loop
		}
	}
	cmd.Process.Kill()
	cmd.Wait()
	if res.stats == nil && res.hangAt < 0 {
		res.died = true
	}
	res.stderr = stderr.String()
	return res
}

type decoderRun struct {
	mu          sync.Mutex
	stats       *batchStats
	cs          *caseSpace
	tier        string
	procs       int
	batches     int
	batchesDone int
	caps        []string
	harnessErrs []string
	hangs       int
	stop        atomic.Bool
	wall        time.Duration
}

func firstFatalLine(stderr string) string {
	for _, l := range strings.Split(stderr, "\n") {
		if strings.HasPrefix(l, "fatal error:") || strings.HasPrefix(l, "panic:") || strings.HasPrefix(l, "runtime:") || strings.HasPrefix(l, "signal:") {
			l = reHex.ReplaceAllString(l, "0xN")
			l = reDigits.ReplaceAllString(l, "N")
			if len(l) > 120 {
				l = l[:120]
			}
			return l
		}
	}
	return "no diagnostic (killed?)"
}

// runRange evaluates [from,to), turning hangs and worker deaths into verdicts.
func (d *decoderRun) runRange(self string, from, to int) {
	cur := from
	for failures := 0; cur < to; {
		if d.stop.Load() {
			return
		}
		res := runWorker(self, d.tier, cur, to, false)
		if res.stats != nil {
			d.mu.Lock()
			d.stats.merge(res.stats)
			d.mu.Unlock()
			return
		}
		failures++
		if failures > 5 {
			d.mu.Lock()
			d.caps = append(d.caps, fmt.Sprintf("decoder: gave up on cases [%d,%d) after %d worker failures", cur, to, failures-1))
			d.mu.Unlock()
			return
		}
		bad := res.hangAt
		kind := "hang"
		diag := ""
		if bad < 0 {
			// the worker died without saying where: find the input in step mode
			kind = "death"
			res2 := runWorker(self, d.tier, cur, to, true)
			if res2.stats != nil {
				d.mu.Lock()
				d.harnessErrs = append(d.harnessErrs, fmt.Sprintf("decoder worker died on cases [%d,%d) but the re-run passed (not a verdict): %s", cur, to, tail(res.stderr)))
				d.stats.merge(res2.stats)
				d.mu.Unlock()
				return
			}
			if res2.hangAt >= 0 {
				bad, kind = res2.hangAt, "hang"
			} else {
				bad = res2.lastIdx
				diag = firstFatalLine(res2.stderr)
			}
		}
		// confirm on the single input
		res3 := runWorker(self, d.tier, bad, bad+1, true)
		input := d.cs.at(bad)
		d.mu.Lock()
		switch {
		case res3.stats != nil:
			d.harnessErrs = append(d.harnessErrs, fmt.Sprintf("decoder worker %s at case %d %s did not reproduce on the input alone (not a verdict): %s", kind, bad, showFrames([][]byte{input}), tail(res.stderr)))
		case res3.hangAt >= 0:
			d.hangs++
			d.stats.violate("hang in the decoder: no result for one input within the watchdog limit", [][]byte{input}, "",
				fmt.Sprintf("a worker evaluating this first frame (with attachment combinations and all handler families) produced nothing for %v, twice", hangLimit))
			if !d.stop.Swap(true) { // every further hanging input would cost another 2 x 10 s
				d.caps = append(d.caps, "decoder: enumeration stopped after the first confirmed hang")
			}
		default:
			d.hangs++
			d.stats.violate("decoder process killed by an input: "+firstFatalLine(res3.stderr), [][]byte{input}, "",
				fmt.Sprintf("the worker process died (unrecoverable) while evaluating this first frame, twice; first run: %s; stderr: %s", diag, tail(res3.stderr)))
		}
		d.mu.Unlock()
		// account for the part before the bad input, then go on behind it
		if bad > cur && !d.stop.Load() {
			d.runRange(self, cur, bad)
		}
		cur = bad + 1
	}
}

func tail(s string) string {
	if len(s) > 1200 {
		return s[:500] + " ... " + s[len(s)-600:]
	}
	return s
}

// runDecoderHalf enumerates the whole case space of the tier in worker subprocesses.
func runDecoderHalf(tier string, budget time.Duration) *decoderRun {
	t0 := time.Now()
	cs := newCaseSpace(tier)
	d := &decoderRun{stats: newBatchStats(), cs: cs, tier: tier}
	procs := runtime.NumCPU()
	if procs > maxDecProcs {
		procs = maxDecProcs
	}
	if v, ok := argValue("procs"); ok {
		if n, err := strconv.Atoi(v); err == nil && n >= 1 && n < procs {
			procs = n
		}
	}
	d.procs = procs
	self, err := os.Executable()
	if err != nil {
		d.harnessErrs = append(d.harnessErrs, "os.Executable: "+err.Error())
		return d
	}
	size := cs.nStr / (procs * 6)
	if size < 20000 {
		size = 20000
	}
	if size > 400000 {
		size = 400000
	}
	type rng struct{ from, to int }
	var batches []rng
	for a := 0; a < cs.nStr; a += size {
		b := a + size
		if b > cs.nStr {
			b = cs.nStr
		}
		batches = append(batches, rng{a, b})
	}
	// templates are heavier per case: smaller batches, dispatched first
	tsize := (len(cs.tmpl) + procs - 1) / procs
	if tsize < 1 {
		tsize = 1
	}
	var tb []rng
	for a := cs.nStr; a < cs.total; a += tsize {
		b := a + tsize
		if b > cs.total {
			b = cs.total
		}
		tb = append(tb, rng{a, b})
	}
	batches = append(tb, batches...)
	d.batches = len(batches)
	deadline := t0.Add(budget)
	var next atomic.Int64
	var wg sync.WaitGroup
	for w := 0; w < procs; w++ {
		wg.Add(1)
		go func() {
			defer wg.Done()
			for {
				i := int(next.Add(1)) - 1
				if i >= len(batches) || d.stop.Load() {
					return
				}
				if time.Now().After(deadline) {
					d.mu.Lock()
					d.caps = append(d.caps, fmt.Sprintf("decoder: deadline before cases [%d,%d)", batches[i].from, batches[i].to))
					d.mu.Unlock()
					continue
				}
				d.runRange(self, batches[i].from, batches[i].to)
				d.mu.Lock()
				d.batchesDone++
				d.mu.Unlock()
			}
		}()
	}
	wg.Wait()
	if len(d.caps) > 6 {
		d.caps = append(d.caps[:5], fmt.Sprintf("... and %d more decoder caps", len(d.caps)-5))
	}
	d.wall = time.Since(t0)
	return d
}
