// C03: acks fire at most once, exactly once with a timeout, and carry the right reply.
//
// Engine A with "early timer" deviations (real time may pass at any instruction):
//  1. narrow: the real ackHandler with timeout || the reply path;
//  2. server side over rig R1 (harness is the protocol-level client answering with ACK frames);
//  3. client side: offline emits with timeout (no rig), and connected over rig R3.
package main

import (
	"errors"
	"fmt"
	"sort"
	"strings"
	"time"

	sio "github.com/karagenc/socket.io-go"
	eio "github.com/karagenc/socket.io-go/engine.io"
	eioparser "github.com/karagenc/socket.io-go/engine.io/parser"
	vx "github.com/karagenc/socket.io-go/internal/vexplore"
	"github.com/karagenc/socket.io-go/internal/vrig"
	"github.com/karagenc/socket.io-go/internal/vsched"
)

const T = 5 * time.Second

// cbLog records invocations of one user callback.
type cbLog struct {
	v     vsched.Var
	calls []string
}

func (c *cbLog) add(s string) { c.v.Do(func() { c.calls = append(c.calls, s) }) }

func errStr(err error) string {
	if err == nil {
		return "nil"
	}
	if errors.Is(err, sio.ErrAckTimeout) {
		return "TIMEOUT"
	}
	return "err:" + err.Error()
}

// judgeTimeoutAck: a callback registered with a timeout must have run exactly once, either with the
// expected reply or with ErrAckTimeout (zero values).
func judgeTimeoutAck(r *vx.Result, what, key string, calls []string, reply string, mayReply, mayTimeout bool) {
	if len(calls) != 1 {
		r.Violate(key+": ack callback with timeout invoked "+countWord(len(calls)), "%s: callback invoked %d times: %v", what, len(calls), calls)
		return
	}
	c := calls[0]
	switch {
	case c == "nil|"+reply:
		if !mayReply {
			r.Violate(key+": reply delivered although none was possible", "%s: %v", what, calls)
		}
	case strings.HasPrefix(c, "TIMEOUT|"):
		if !mayTimeout {
			r.Violate(key+": timeout reported although the reply arrived in time", "%s: %v", what, calls)
		}
		if c != "TIMEOUT|" {
			r.Violate(key+": timeout reported with non-zero reply values", "%s: %v", what, calls)
		}
	default:
		r.Violate(key+": ack callback got a wrong reply", "%s: got %v, the peer replied %q", what, calls, reply)
	}
}

func countWord(n int) string {
	switch n {
	case 0:
		return "never"
	case 2:
		return "twice"
	}
	return "more than twice"
}

// ---------------------------------------------------------------- 1. narrow

func narrow(name string, replyDelay time.Duration, reply bool) *vx.Scenario {
	sc := &vx.Scenario{Name: name, PreemptOnly: true, EarlyTimers: true, Unbounded: true, Horizon: time.Minute}
	sc.Body = func(e *vsched.Exec) func() vx.Result {
		var log cbLog
		purged := 0
		h, err := sio.VerifNewAckHandlerWithTimeout(func(err error, s string) { log.add(errStr(err) + "|" + s) }, T, func() { log.v.Do(func() { purged++ }) })
		if err != nil {
			panic(err)
		}
		if reply {
			vsched.GoQuiet("reply", func() {
				if replyDelay > 0 {
					vsched.Sleep(replyDelay)
				}
				h.Call("pong")
			})
		}
		return func() vx.Result {
			var r vx.Result
			r.Outcome = fmt.Sprint(log.calls, purged)
			judgeTimeoutAck(&r, name, "ackHandler", log.calls, "pong", reply, true)
			if len(log.calls) == 1 && strings.HasPrefix(log.calls[0], "TIMEOUT") != (purged == 1) {
				r.Violate("ackHandler: timeout clean-up and callback disagree", "calls=%v purged=%d", log.calls, purged)
			}
			return r
		}
	}
	return sc
}

// ---------------------------------------------------------------- 2. server side over R1

// ackID extracts the ack id of an EVENT frame such as `212["q","x"]` or `51-7["q",{...}]` (namespace "/").
func ackID(frame string) (string, bool) {
	i := 1
	if strings.HasPrefix(frame, "5") || strings.HasPrefix(frame, "6") {
		j := strings.IndexByte(frame, '-')
		if j < 0 {
			return "", false
		}
		i = j + 1
	}
	j := i
	for j < len(frame) && frame[j] >= '0' && frame[j] <= '9' {
		j++
	}
	if j == i {
		return "", false
	}
	return frame[i:j], true
}

type srvEmit struct {
	ev      string
	timeout bool
	// what the harness-client does with it
	reply      string // payload of the ACK ("" = never reply)
	replyDelay time.Duration
	duplicate  bool // send the ACK twice
	binary     int  // number of attachments in the ACK
	// unencodable: the emit carries a value that cannot be encoded (a channel): nothing goes out, and an ack
	// given with a timeout still gets its one call (the timeout)
	unencodable bool
	// badReply: the peer's reply arrives in time but cannot be decoded into the callback's parameter types (an
	// object where a string is expected): the reply is unusable, so an ack with a timeout gets its timeout
	badReply bool
	// batch: this emit's reply is not sent by a thread of its own but travels in the same batch of Engine.IO packets
	// as the previous emit's reply, right behind it (what one long-polling request body carries; seed c03i: the parser
	// reused the frame list of the previous binary packet while its decode was still pending)
	batch bool
}

// staleAck: an acknowledgement that belongs to a PREVIOUS session of the same client arrives on its new
// session (the client kept the ack function of an event it got before it left the namespace / lost the
// connection, and answers late). The pending emit of the new session must not be answered by it: its
// callback gets its own reply, once, or a timeout. how: "same-connection" (DISCONNECT + CONNECT of the
// namespace on one connection) or "new-connection".
func staleAck(name, how string, withTimeout bool, bound int, early bool) *vx.Scenario {
	sc := &vx.Scenario{Name: name + mode(early), EarlyTimers: early, Bound: bound, Horizon: 3 * time.Minute}
	sc.Body = func(e *vsched.Exec) func() vx.Result {
		srv := sio.NewServer(nil)
		var sv vsched.Var
		var socks []sio.ServerSocket
		srv.OnConnection(func(s sio.ServerSocket) { sv.Do(func() { socks = append(socks, s) }) })
		vsched.SetExploring(false)
		f := vrig.NewFakeEIO(srv, "c03-stale-1")
		f.ConnectNS("/")
		vsched.Await(func() bool { return len(socks) == 1 })
		log1, log2 := &cbLog{}, &cbLog{}
		socks[0].Emit("q1", "x", func(s string) { log1.add("nil|" + s) })
		var id1 string
		vsched.Await(func() bool {
			for _, t := range f.Texts() {
				if strings.Contains(t, `["q1"`) {
					var ok bool
					id1, ok = ackID(t)
					return ok
				}
			}
			return false
		})
		f2 := f
		if how == "same-connection" {
			f.In("1")
			vrig.Settle(time.Second)
			f.ConnectNS("/")
		} else {
			f.TransportClose("transport close")
			vrig.Settle(time.Second)
			f2 = vrig.NewFakeEIO(srv, "c03-stale-2")
			f2.ConnectNS("/")
		}
		vsched.Await(func() bool { return len(socks) == 2 })
		vsched.SetExploring(true)
		if withTimeout {
			socks[1].Timeout(T).Emit("q2", "x", func(err error, s string) { log2.add(errStr(err) + "|" + s) })
		} else {
			socks[1].Emit("q2", "x", func(s string) { log2.add("nil|" + s) })
		}
		var id2 string
		vsched.GoQuiet("client-late-answer-to-q1", func() {
			f2.In("3" + id1 + `["answer to q1"]`)
		})
		vsched.GoQuiet("client-answer-to-q2", func() {
			vsched.Await(func() bool {
				for _, t := range f2.Texts() {
					if strings.Contains(t, `["q2"`) {
						var ok bool
						id2, ok = ackID(t)
						return ok
					}
				}
				return false
			})
			f2.In("3" + id2 + `["answer to q2"]`)
		})
		return func() vx.Result {
			var r vx.Result
			r.Outcome = fmt.Sprint(log1.calls, log2.calls)
			ctx := fmt.Sprintf("%s: q1 got ack id %s in the first session, q2 id %s in the second; callback of q1 %v, callback of q2 %v", how, id1, id2, log1.calls, log2.calls)
			for _, c := range log2.calls {
				if strings.Contains(c, "answer to q1") {
					r.Violate("server: ack callback invoked with the reply to an emit of a previous session", "%s", ctx)
				}
			}
			if len(log2.calls) > 1 {
				r.Violate("server: ack callback invoked twice", "%s", ctx)
			}
			if len(log2.calls) == 1 && !early && log2.calls[0] != "nil|answer to q2" {
				r.Violate("server: ack callback did not get its own reply", "%s", ctx)
			}
			if len(log2.calls) == 0 {
				r.Violate("server: ack callback never invoked although the reply arrived", "%s", ctx)
			}
			return r
		}
	}
	return sc
}

func serverSide(name string, emits []srvEmit, wrongID bool, cut time.Duration, bound int, early bool) *vx.Scenario {
	sc := &vx.Scenario{Name: name + mode(early), EarlyTimers: early, Bound: bound, Horizon: 3 * time.Minute}
	sc.Body = func(e *vsched.Exec) func() vx.Result {
		srv := sio.NewServer(nil)
		logs := make([]*cbLog, len(emits))
		for i := range logs {
			logs[i] = &cbLog{}
		}
		var sock sio.ServerSocket
		var sv vsched.Var
		var errs []string
		afterOK := false
		srv.OnConnection(func(s sio.ServerSocket) {
			s.OnError(func(err error) { sv.Do(func() { errs = append(errs, err.Error()) }) })
			s.OnEvent("after", func() { sv.Do(func() { afterOK = true }) })
			sv.Do(func() { sock = s })
		})
		vsched.SetExploring(false) // set-up on the default schedule (an early connect timeout would end the scenario before it starts)
		f := vrig.NewFakeEIO(srv, "c03")
		f.ConnectNS("/")
		vsched.Await(func() bool { return sock != nil })
		vsched.SetExploring(true)
		for i, em := range emits {
			i, em := i, em
			cb := func(s string) { logs[i].add("nil|" + s) }
			cbT := func(err error, s string) { logs[i].add(errStr(err) + "|" + s) }
			cbBin := func(b sio.Binary, c sio.Binary) { logs[i].add(fmt.Sprintf("nil|%x,%x", []byte(b), []byte(c))) }
			cbBinT := func(err error, b sio.Binary, c sio.Binary) {
				if b == nil && c == nil {
					logs[i].add(errStr(err) + "|")
					return
				}
				logs[i].add(fmt.Sprintf("%s|%x,%x", errStr(err), []byte(b), []byte(c)))
			}
			switch {
			case em.unencodable && em.timeout:
				sock.Timeout(T).Emit(em.ev, make(chan int), cbT)
			case em.unencodable:
				sock.Emit(em.ev, make(chan int), cb)
			case em.timeout && em.binary > 0:
				sock.Timeout(T).Emit(em.ev, "x", cbBinT)
			case em.timeout:
				sock.Timeout(T).Emit(em.ev, "x", cbT)
			case em.binary > 0:
				sock.Emit(em.ev, "x", cbBin)
			default:
				sock.Emit(em.ev, "x", cb)
			}
		}
		// the protocol-level client: one answering thread per emit
		for i, em := range emits {
			i, em := i, em
			if em.reply == "" || em.batch {
				continue
			}
			idOf := func(ev string) (id string) {
				vsched.Await(func() bool {
					for _, t := range f.Texts() {
						if strings.Contains(t, `["`+ev+`"`) {
							var ok bool
							id, ok = ackID(t)
							return ok
						}
					}
					return false
				})
				return id
			}
			replyPackets := func(i int, em srvEmit, id string) []*eioparser.Packet {
				switch {
				case em.binary > 0:
					return []*eioparser.Packet{vrig.Msg(fmt.Sprintf(`6%d-%s[{"_placeholder":true,"num":0},{"_placeholder":true,"num":1}]`, 2, id)), vrig.Bin([]byte{1, byte(i)}), vrig.Bin([]byte{2, byte(i)})}
				case em.badReply:
					return []*eioparser.Packet{vrig.Msg(fmt.Sprintf(`3%s[{"not":"a string"}]`, id))}
				}
				return []*eioparser.Packet{vrig.Msg(fmt.Sprintf(`3%s["%s"]`, id, em.reply))}
			}
			vsched.GoQuiet(fmt.Sprintf("client-reply%d", i), func() {
				ps := replyPackets(i, em, idOf(em.ev))
				// the replies of the following emits marked 'batch' travel in the same batch
				for j := i + 1; j < len(emits) && emits[j].batch; j++ {
					ps = append(ps, replyPackets(j, emits[j], idOf(emits[j].ev))...)
				}
				if em.replyDelay > 0 {
					vsched.Sleep(em.replyDelay)
				}
				n := 1
				if em.duplicate {
					n = 2
				}
				for k := 0; k < n; k++ {
					f.InPackets(ps...)
				}
			})
		}
		if wrongID {
			vsched.GoQuiet("client-wrong-id", func() { f.In(`3999["bogus"]`) })
		}
		if cut > 0 {
			vsched.GoQuiet("cut", func() {
				vsched.Sleep(cut)
				f.TransportClose(eio.ReasonTransportClose)
			})
		} else {
			// the socket must still work afterwards
			vsched.GoQuiet("client-after", func() {
				vsched.Sleep(3 * T)
				f.In(`2["after"]`)
			})
		}
		return func() vx.Result {
			var r vx.Result
			var out []string
			for i, em := range emits {
				out = append(out, fmt.Sprint(logs[i].calls))
				want := em.reply
				if em.binary > 0 {
					want = fmt.Sprintf("%x,%x", []byte{1, byte(i)}, []byte{2, byte(i)})
				}
				what := fmt.Sprintf("%s emit#%d %+v", name, i, em)
				cutBefore := cut > 0 && cut <= em.replyDelay
				if em.timeout {
					mayReply := em.reply != "" && (early || (em.replyDelay <= T && !cutBefore))
					mayTimeout := early || em.reply == "" || em.replyDelay >= T || cutBefore
					if em.badReply {
						mayReply, mayTimeout = false, true
					}
					judgeTimeoutAck(&r, what, "server", logs[i].calls, want, mayReply, mayTimeout)
				} else {
					if len(logs[i].calls) > 1 {
						r.Violate("server: ack callback invoked more than once", "%s: %v", what, logs[i].calls)
					}
					for _, c := range logs[i].calls {
						if c != "nil|"+want {
							r.Violate("server: ack callback got a wrong reply", "%s: got %v, the peer replied %q", what, c, want)
						}
					}
					if em.reply != "" && cut == 0 && len(logs[i].calls) == 0 {
						r.Violate("server: ack callback never invoked although the peer replied", "%s", what)
					}
				}
			}
			if cut == 0 && !afterOK {
				r.Violate("server: socket unusable after the acks", "an event sent afterwards was not delivered; frames: %s errors: %v", f, errs)
			}
			r.Outcome = strings.Join(out, " ")
			return r
		}
	}
	return sc
}

// ---------------------------------------------------------------- 2b. the reply on the wire
//
// The peer is a protocol-level client (any implementation): it sends events that ask for an acknowledgement,
// the server's handlers call their ack functions with 0, 1, 2 or binary arguments. Exactly one ACK frame per
// event must go out, to the namespace the event came from, with the event's ack id (the full uint64 range),
// and its payload is the JSON ARRAY of the arguments - `[]` for an acknowledgement without arguments (other
// implementations refuse anything that is not an array as a parse error and drop the connection).
func handlerAcksWire(name, ns string, bound int) *vx.Scenario {
	sc := &vx.Scenario{Name: name, Bound: bound, Horizon: time.Minute}
	sc.Body = func(e *vsched.Exec) func() vx.Result {
		srv := sio.NewServer(nil)
		ready := false
		var sv vsched.Var
		srv.Of(ns).OnConnection(func(s sio.ServerSocket) {
			s.OnEvent("none", func(ack func()) { ack() })
			s.OnEvent("one", func(ack func(string)) { ack("x") })
			s.OnEvent("two", func(a int, ack func(int, []any)) { ack(a+1, []any{}) })
			s.OnEvent("nil", func(ack func(any)) { ack(nil) })
			s.OnEvent("bin", func(ack func(sio.Binary, string)) { ack(sio.Binary{7, 8}, "t") })
			sv.Do(func() { ready = true })
		})
		vsched.SetExploring(false)
		f := vrig.NewFakeEIO(srv, "c03w")
		f.ConnectNS(ns)
		vsched.Await(func() bool { return ready })
		vsched.SetExploring(true)
		pfx := ""
		if ns != "/" {
			pfx = ns + ","
		}
		type want struct{ id, payload string }
		wants := []want{
			{"0", `[]`}, {"7", `["x"]`}, {"18446744073709551615", `[5,[]]`}, {"9", `[null]`}, {"10", `[{"_placeholder":true,"num":0},"t"]`}, {"18446744073709551614", `[]`},
		}
		f.In("2" + pfx + wants[0].id + `["none"]`)
		f.In("2" + pfx + wants[1].id + `["one"]`)
		f.In("2" + pfx + wants[2].id + `["two",4]`)
		f.In("2" + pfx + wants[3].id + `["nil"]`)
		f.In("2" + pfx + wants[4].id + `["bin"]`)
		f.In("2" + pfx + wants[5].id + `["none"]`)
		vrig.Settle(time.Second)
		return func() vx.Result {
			var r vx.Result
			got := map[string][]string{}
			var acks []string
			for i, fr := range f.Frames {
				if fr.Binary {
					continue
				}
				t := fr.Data
				if !strings.HasPrefix(t, "3") && !strings.HasPrefix(t, "61-") {
					continue
				}
				acks = append(acks, t)
				body := strings.TrimPrefix(strings.TrimPrefix(t, "3"), "61-")
				if pfx != "" {
					if !strings.HasPrefix(body, pfx) {
						r.Violate("server ack on the wire: acknowledgement sent to another namespace than the event came from", "frame %q, namespace %s", t, ns)
						continue
					}
					body = strings.TrimPrefix(body, pfx)
				}
				j := 0
				for j < len(body) && body[j] >= '0' && body[j] <= '9' {
					j++
				}
				id, payload := body[:j], body[j:]
				if strings.HasPrefix(t, "61-") {
					if i+1 >= len(f.Frames) || !f.Frames[i+1].Binary || f.Frames[i+1].Data != string([]byte{7, 8}) {
						r.Violate("server ack on the wire: binary acknowledgement not followed by its attachment", "frame %q", t)
					}
				}
				got[id] = append(got[id], payload)
			}
			r.Outcome = fmt.Sprint(len(acks))
			for _, w := range wants {
				g := got[w.id]
				switch {
				case len(g) == 0:
					r.Violate("server ack on the wire: no ACK frame for an event whose handler acknowledged", "namespace %s, ack id %s: ACK frames sent %q", ns, w.id, acks)
				case len(g) > 1:
					r.Violate("server ack on the wire: more than one ACK frame for one event", "namespace %s, ack id %s: %q", ns, w.id, g)
				case g[0] != w.payload:
					key := "server ack on the wire: payload is not the JSON array of the acknowledgement's arguments"
					if !strings.HasPrefix(g[0], "[") {
						key = "server ack on the wire: payload of an ACK frame is not a JSON array (protocol v5: other implementations refuse it)"
					}
					r.Violate(key, "namespace %s, ack id %s: payload %q, expected %q; ACK frames sent %q", ns, w.id, g[0], w.payload, acks)
				}
			}
			return r
		}
	}
	return sc
}

// clientAcksWire: the same for the Go client: a raw Socket.IO endpoint (the repo's eio.Server driven by the
// harness) sends events that ask for an acknowledgement; the client's handlers acknowledge with 0, 1, 2, nil
// or binary arguments; the ACK frames the client posts are compared with the v5 form.
func clientAcksWire(name, ns string, bound int) *vx.Scenario {
	sc := &vx.Scenario{Name: name, Bound: bound, Horizon: time.Minute}
	sc.Body = func(e *vsched.Exec) func() vx.Result {
		var v vsched.Var
		var ssock eio.ServerSocket
		gotConnect := false
		var texts []string
		var bins [][]byte
		var order []bool // per received message frame: binary?
		es := eio.NewServer(func(s eio.ServerSocket) *eio.Callbacks {
			v.Do(func() { ssock = s })
			return &eio.Callbacks{OnPacket: func(ps ...*eioparser.Packet) {
				for _, p := range ps {
					if p.Type != eioparser.PacketTypeMessage {
						continue
					}
					p := p
					v.Do(func() {
						if p.IsBinary {
							bins = append(bins, append([]byte{}, p.Data...))
							order = append(order, true)
							return
						}
						t := string(p.Data)
						if strings.HasPrefix(t, "0") {
							gotConnect = true
							return
						}
						texts = append(texts, t)
						order = append(order, false)
					})
				}
			}}
		}, &eio.ServerConfig{})
		link := &vrig.Inproc{H: es}
		mcfg := &sio.ManagerConfig{NoReconnection: true}
		mcfg.EIO.Transports = []string{"polling"}
		mcfg.EIO.HTTPTransport = link
		mgr := sio.NewManager("http://inproc/socket.io/", mcfg)
		sock := mgr.Socket(ns, nil)
		sock.OnEvent("none", func(ack func()) { ack() })
		sock.OnEvent("one", func(ack func(string)) { ack("x") })
		sock.OnEvent("two", func(a int, ack func(int, []any)) { ack(a+1, []any{}) })
		sock.OnEvent("nil", func(ack func(any)) { ack(nil) })
		sock.OnEvent("bin", func(ack func(sio.Binary, string)) { ack(sio.Binary{7, 8}, "t") })
		connected := false
		sock.OnConnect(func() { v.Do(func() { connected = true }) })
		vsched.SetExploring(false)
		sock.Connect()
		pfx := ""
		if ns != "/" {
			pfx = ns + ","
		}
		vsched.Await(func() bool { return gotConnect && ssock != nil })
		ssock.Send(vrig.Msg("0" + pfx + `{"sid":"sid0"}`))
		vsched.Await(func() bool { return connected })
		vsched.SetExploring(true)
		type want struct{ id, payload string }
		wants := []want{{"0", `[]`}, {"7", `["x"]`}, {"18446744073709551615", `[5,[]]`}, {"9", `[null]`}, {"10", `[{"_placeholder":true,"num":0},"t"]`}, {"18446744073709551614", `[]`}}
		for i, ev := range []string{`["none"]`, `["one"]`, `["two",4]`, `["nil"]`, `["bin"]`, `["none"]`} {
			ssock.Send(vrig.Msg("2" + pfx + wants[i].id + ev))
		}
		vrig.Settle(2 * time.Second)
		return func() vx.Result {
			var r vx.Result
			got := map[string][]string{}
			for _, t := range texts {
				if !strings.HasPrefix(t, "3") && !strings.HasPrefix(t, "61-") {
					continue
				}
				body := strings.TrimPrefix(strings.TrimPrefix(t, "3"), "61-")
				if pfx != "" {
					if !strings.HasPrefix(body, pfx) {
						r.Violate("client ack on the wire: acknowledgement sent to another namespace than the event came from", "frame %q, namespace %s", t, ns)
						continue
					}
					body = strings.TrimPrefix(body, pfx)
				}
				j := 0
				for j < len(body) && body[j] >= '0' && body[j] <= '9' {
					j++
				}
				got[body[:j]] = append(got[body[:j]], body[j:])
			}
			r.Outcome = fmt.Sprint(len(texts), len(bins))
			if len(bins) != 1 || string(bins[0]) != string([]byte{7, 8}) {
				r.Violate("client ack on the wire: binary acknowledgement without its one attachment", "binary frames %v, text frames %q", bins, texts)
			}
			for _, w := range wants {
				g := got[w.id]
				switch {
				case len(g) == 0:
					r.Violate("client ack on the wire: no ACK frame for an event whose handler acknowledged", "namespace %s, ack id %s: frames sent %q", ns, w.id, texts)
				case len(g) > 1:
					r.Violate("client ack on the wire: more than one ACK frame for one event", "namespace %s, ack id %s: %q", ns, w.id, g)
				case g[0] != w.payload:
					key := "client ack on the wire: payload is not the JSON array of the acknowledgement's arguments"
					if !strings.HasPrefix(g[0], "[") {
						key = "client ack on the wire: payload of an ACK frame is not a JSON array (protocol v5: other implementations refuse it)"
					}
					r.Violate(key, "namespace %s, ack id %s: payload %q, expected %q; frames sent %q", ns, w.id, g[0], w.payload, texts)
				}
			}
			return r
		}
	}
	return sc
}

// ---------------------------------------------------------------- 3. client side

type payload struct{ attachments int }

func (p payload) args() []any {
	if p.attachments == -1 {
		// cannot be encoded (encoding/json refuses channels): nothing is sent, the ack still gets its timeout
		return []any{"x", make(chan int)}
	}
	if p.attachments < -1 {
		return []any{"x"}
	}
	out := []any{"x"}
	for i := 0; i < p.attachments; i++ {
		out = append(out, sio.Binary{byte(i), 0xAB})
	}
	return out
}

// clientOffline: emits with timeout while the socket is not connected; later it connects and emits again.
func clientOffline(name string, payloads []payload, connectLater bool, bound int, early bool) *vx.Scenario {
	sc := &vx.Scenario{Name: name + mode(early), EarlyTimers: early, Bound: bound, Horizon: 2 * time.Minute}
	sc.Body = func(e *vsched.Exec) func() vx.Result {
		srv, mgr, _ := vrig.NewSioPair(nil, nil)
		var sv vsched.Var
		var srvGot []string
		registered := false
		srv.OnConnection(func(s sio.ServerSocket) {
			s.OnEvent("q", func(a string) { sv.Do(func() { srvGot = append(srvGot, "q") }) })
			s.OnEvent("q1", func(a string, b sio.Binary) { sv.Do(func() { srvGot = append(srvGot, "q") }) })
			s.OnEvent("q2", func(a string, b, c sio.Binary) { sv.Do(func() { srvGot = append(srvGot, "q") }) })
			s.OnEvent("q3", func(a string, b, c, d sio.Binary) { sv.Do(func() { srvGot = append(srvGot, "q") }) })
			s.OnEvent("after", func(a string, ack func(string)) {
				sv.Do(func() { srvGot = append(srvGot, "after") })
				ack("ok")
			})
			sv.Do(func() { registered = true })
		})
		sock := mgr.Socket("/", nil)
		logs := make([]*cbLog, len(payloads))
		for i, p := range payloads {
			i := i
			logs[i] = &cbLog{}
			ev := "q"
			if p.attachments > 0 {
				ev = fmt.Sprintf("q%d", p.attachments)
			}
			if p.attachments < 0 {
				ev = "never" // (no handler: nothing may arrive anyway)
			}
			args := append(p.args(), func(err error, s string) { logs[i].add(errStr(err) + "|" + s) })
			switch p.attachments {
			case -2:
				// the timeout first, then the volatile flag: still an ack with a timeout (the packet is dropped
				// while disconnected, the callback gets the timeout error)
				sock.Timeout(T).Volatile().Emit(ev, "x", args[len(args)-1])
			case -3:
				sock.Volatile().Timeout(T).Emit(ev, "x", args[len(args)-1])
			default:
				sock.Timeout(T).Emit(ev, args...)
			}
		}
		var after cbLog
		cliConnected := false
		cliDisconnected := false
		sock.OnConnect(func() { sv.Do(func() { cliConnected = true }) })
		sock.OnDisconnect(func(sio.Reason) { sv.Do(func() { cliDisconnected = true }) })
		if connectLater {
			vsched.GoQuiet("connect-later", func() {
				vsched.Sleep(2 * T)
				sock.Connect()
				// (the server registers its event handlers asynchronously after the CONNECT reply)
				vsched.Await(func() bool { return cliConnected && registered })
				sock.Emit("after", "y", func(s string) { after.add("nil|" + s) })
			})
		}
		return func() vx.Result {
			var r vx.Result
			var out []string
			for i := range payloads {
				out = append(out, fmt.Sprint(logs[i].calls))
				what := fmt.Sprintf("%s emit#%d (%d attachments, buffered offline)", name, i, payloads[i].attachments)
				switch payloads[i].attachments {
				case -1:
					what = fmt.Sprintf("%s emit#%d (an argument that cannot be encoded)", name, i)
				case -2:
					what = fmt.Sprintf("%s emit#%d (Timeout(T).Volatile(): dropped while disconnected)", name, i)
				case -3:
					what = fmt.Sprintf("%s emit#%d (Volatile().Timeout(T): dropped while disconnected)", name, i)
				}
				judgeTimeoutAck(&r, what, "client offline", logs[i].calls, "", false, true)
			}
			sort.Strings(srvGot)
			out = append(out, fmt.Sprint(srvGot, after.calls))
			// With early timers the timeout may elapse before Emit itself has returned (e.g. before the frames
			// reached the send buffer): what then happens to the frames is outside the statement, only the
			// callback count is judged. With the exact clock the purge must have worked.
			for _, g := range srvGot {
				if g == "q" && !early {
					r.Violate("client offline: timed-out packet was sent after all", "the server received an event whose ack had already timed out: %v", srvGot)
				}
			}
			if connectLater && !(early && (cliDisconnected || !cliConnected)) {
				// (an early connect timeout on the server may legitimately have ended the connection)
				if fmt.Sprint(after.calls) != "[nil|ok]" {
					r.Violate("client offline: socket unusable after an ack timeout", "an emit after connecting got %v (server saw %v)", after.calls, srvGot)
				}
			}
			sb, _ := sio.VerifClientSocketBuffers(sock)
			if sb != 0 && !early {
				r.Violate("client offline: frames of a timed-out packet left in the send buffer", "%d frames left", sb)
			}
			r.Outcome = strings.Join(out, " ")
			return r
		}
	}
	return sc
}

// clientOnline: connected client emits with timeout; the server acks after a delay (or never); the
// link may be cut mid-flight.
func clientOnline(name string, delays []time.Duration, attachments int, cut time.Duration, bound int, early bool) *vx.Scenario {
	sc := &vx.Scenario{Name: name + mode(early), EarlyTimers: early, Bound: bound, Horizon: 2 * time.Minute}
	sc.Body = func(e *vsched.Exec) func() vx.Result {
		srv, mgr, _ := vrig.NewSioPair(nil, nil)
		var ssock sio.ServerSocket
		var sv vsched.Var
		registered := false
		srv.OnConnection(func(s sio.ServerSocket) {
			sv.Do(func() { ssock = s })
			s.OnEvent("q", func(i int, ack func(string)) {
				d := delays[i]
				if d < 0 {
					return // never
				}
				if d > 0 {
					vsched.Sleep(d)
				}
				ack(fmt.Sprintf("r%d", i))
			})
			// answers at once with a number where the client's callback takes a string
			s.OnEvent("qbad", func(i int, ack func(int)) { ack(7) })
			s.OnEvent("qb", func(i int, b sio.Binary, ack func(string, sio.Binary)) {
				d := delays[i]
				if d < 0 {
					return
				}
				if d > 0 {
					vsched.Sleep(d)
				}
				ack(fmt.Sprintf("r%d", i), sio.Binary{9, byte(i)})
			})
			sv.Do(func() { registered = true })
		})
		sock := mgr.Socket("/", nil)
		connected := false
		sock.OnConnect(func() { sv.Do(func() { connected = true }) })
		vsched.SetExploring(false)
		sock.Connect()
		// the server runs connection handlers asynchronously after its CONNECT reply: wait until the
		// event handlers exist (an event overtaking their registration is C01's business, not C03's)
		vsched.Await(func() bool { return connected && registered })
		vsched.SetExploring(true)
		logs := make([]*cbLog, len(delays))
		for i := range delays {
			i := i
			logs[i] = &cbLog{}
			if attachments > 0 {
				sock.Timeout(T).Emit("qb", i, sio.Binary{1, 2}, func(err error, s string, b sio.Binary) {
					if err == nil && string(b) != string([]byte{9, byte(i)}) {
						s += fmt.Sprintf("+attachment %x", []byte(b)) // the reply's attachment is part of "the right reply"
					}
					logs[i].add(fmt.Sprintf("%s|%s", errStr(err), s))
				})
			} else if attachments == -4 && i == 0 {
				// the first emit gets a reply it cannot use (wrong type): its ack times out
				sock.Timeout(T).Emit("qbad", i, func(err error, s string) { logs[i].add(errStr(err) + "|" + s) })
			} else if attachments < 0 && i == 0 {
				// the first emit carries an argument that cannot be encoded: nothing goes out, its ack times out
				sock.Timeout(T).Emit("q", i, make(chan int), func(err error, s string) { logs[i].add(errStr(err) + "|" + s) })
			} else {
				sock.Timeout(T).Emit("q", i, func(err error, s string) { logs[i].add(errStr(err) + "|" + s) })
			}
		}
		if cut > 0 {
			vsched.GoQuiet("cut", func() {
				vsched.Sleep(cut)
				vsched.Await(func() bool { return ssock != nil })
				ssock.Disconnect(true)
			})
		}
		return func() vx.Result {
			var r vx.Result
			var out []string
			for i, d := range delays {
				out = append(out, fmt.Sprint(logs[i].calls))
				cutBefore := cut > 0 && (d < 0 || cut <= d)
				mayReply := d >= 0 && (early || (d <= T && !(cut > 0 && cut < d)))
				mayTimeout := early || d < 0 || d >= T || cutBefore
				if attachments < 0 && i == 0 {
					mayReply, mayTimeout = false, true
				}
				judgeTimeoutAck(&r, fmt.Sprintf("%s emit#%d delay=%v", name, i, d), "client online", logs[i].calls, fmt.Sprintf("r%d", i), mayReply, mayTimeout)
			}
			if n := sio.VerifPendingAcks(sock); n != 0 && !early {
				r.Violate("client online: ack entry left behind", "%d ack entries still registered at the end", n)
			}
			r.Outcome = strings.Join(out, " ")
			return r
		}
	}
	return sc
}

// mode: with "early timers" real time may pass at any instruction, so only exactly-once and the
// reply's content are judged; with the exact clock the winner is also determined by the delays.
func mode(early bool) string {
	if early {
		return "/early-timers"
	}
	return "/exact-clock"
}

func scenarios(tier string) []*vx.Scenario {
	var all []*vx.Scenario
	for _, early := range []bool{false, true} {
		all = append(all, scenariosMode(tier, early)...)
	}
	return all
}

func scenariosMode(tier string, early bool) []*vx.Scenario {
	b1, b2 := 1, 1
	if tier == "thorough" {
		b1, b2 = 2, 2
	}
	var s []*vx.Scenario
	if early {
		s = append(s,
			narrow("narrow/no-reply", 0, false),
			narrow("narrow/reply-at-0", 0, true),
			narrow("narrow/reply-before-T", T-time.Second, true),
			narrow("narrow/reply-at-T", T, true),
			narrow("narrow/reply-after-T", T+time.Second, true))
	}
	s = append(s,

		staleAck("server/stale-ack-of-previous-session/same-connection", "same-connection", false, b1, early),
		staleAck("server/stale-ack-of-previous-session/new-connection", "new-connection", false, b1, early),
		staleAck("server/stale-ack-of-previous-session/new-connection-timeout", "new-connection", true, b1, early),
		serverSide("server/plain-reply", []srvEmit{{ev: "a", reply: "ra"}}, false, 0, b1, early),
		serverSide("server/plain-duplicate-reply", []srvEmit{{ev: "a", reply: "ra", duplicate: true}}, false, 0, b1, early),
		serverSide("server/plain-wrong-id", []srvEmit{{ev: "a", reply: "ra"}}, true, 0, b1, early),
		serverSide("server/timeout-reply-early", []srvEmit{{ev: "a", timeout: true, reply: "ra", replyDelay: time.Second}}, false, 0, b1, early),
		serverSide("server/timeout-reply-at-T", []srvEmit{{ev: "a", timeout: true, reply: "ra", replyDelay: T}}, false, 0, b1, early),
		serverSide("server/timeout-reply-late", []srvEmit{{ev: "a", timeout: true, reply: "ra", replyDelay: T + time.Second}}, false, 0, b1, early),
		serverSide("server/timeout-no-reply", []srvEmit{{ev: "a", timeout: true}}, false, 0, b1, early),
		serverSide("server/timeout-duplicate-at-T", []srvEmit{{ev: "a", timeout: true, reply: "ra", replyDelay: T, duplicate: true}}, false, 0, b1, early),
		serverSide("server/binary-reply", []srvEmit{{ev: "a", reply: "-", binary: 2}}, false, 0, b1, early),
		serverSide("server/binary-timeout-at-T", []srvEmit{{ev: "a", timeout: true, reply: "-", binary: 2, replyDelay: T}}, false, 0, b1, early),
		serverSide("server/2-binary-replies-in-one-batch", []srvEmit{{ev: "a", reply: "-", binary: 2}, {ev: "b", reply: "-", binary: 2, batch: true}}, false, 0, b1, early),
		serverSide("server/binary-timeout-reply-then-text-then-binary-in-one-batch", []srvEmit{{ev: "a", timeout: true, reply: "-", binary: 2, replyDelay: time.Second}, {ev: "b", reply: "rb", batch: true}, {ev: "c", timeout: true, reply: "-", binary: 2, batch: true}}, false, 0, b1, early),
		serverSide("server/2-binary-replies-from-two-threads", []srvEmit{{ev: "a", reply: "-", binary: 2}, {ev: "b", timeout: true, reply: "-", binary: 2}}, false, 0, b1, early),
		serverSide("server/timeout-reply-of-the-wrong-type", []srvEmit{{ev: "a", timeout: true, reply: "bad", badReply: true, replyDelay: time.Second}}, false, 0, b1, early),
		serverSide("server/timeout-reply-of-the-wrong-type-then-plain-reply", []srvEmit{{ev: "a", timeout: true, reply: "bad", badReply: true}, {ev: "b", reply: "rb"}}, false, 0, b1, early),
		serverSide("server/timeout-unencodable-argument", []srvEmit{{ev: "a", timeout: true, unencodable: true}}, false, 0, b1, early),
		serverSide("server/unencodable-then-plain-reply", []srvEmit{{ev: "a", timeout: true, unencodable: true}, {ev: "b", reply: "rb"}}, false, 0, b1, early),
		handlerAcksWire("server/handler-acks-on-the-wire/root", "/", b1),
		handlerAcksWire("server/handler-acks-on-the-wire/namespace", "/admin", b1),
		clientAcksWire("client/handler-acks-on-the-wire/root", "/", b1),
		clientAcksWire("client/handler-acks-on-the-wire/namespace", "/admin", b1),
		serverSide("server/3-outstanding", []srvEmit{{ev: "a", reply: "ra"}, {ev: "b", timeout: true, reply: "rb", replyDelay: T}, {ev: "c", timeout: true}}, false, 0, b1, early),
		serverSide("server/2-outstanding-swapped", []srvEmit{{ev: "a", timeout: true, reply: "ra", replyDelay: 2 * time.Second}, {ev: "b", timeout: true, reply: "rb", replyDelay: time.Second}}, true, 0, b1, early),
		serverSide("server/cut-mid-flight", []srvEmit{{ev: "a", timeout: true, reply: "ra", replyDelay: 3 * time.Second}, {ev: "b", reply: "rb", replyDelay: 3 * time.Second}}, false, 2*time.Second, b1, early),

		clientOffline("client-offline/text", []payload{{0}}, true, b2, early),
		clientOffline("client-offline/1-attachment", []payload{{1}}, true, b2, early),
		clientOffline("client-offline/2-attachments", []payload{{2}}, true, b2, early),
		clientOffline("client-offline/3-attachments", []payload{{3}}, true, b2, early),
		clientOffline("client-offline/two-emits", []payload{{1}, {0}}, true, b2, early),
		clientOffline("client-offline/never-connects", []payload{{2}, {0}}, false, b2, early),
		clientOffline("client-offline/unencodable-argument", []payload{{-1}}, true, b2, early),
		clientOffline("client-offline/unencodable-then-text", []payload{{-1}, {0}}, true, b2, early),
		clientOffline("client-offline/timeout-then-volatile", []payload{{-2}, {0}}, true, b2, early),
		clientOffline("client-offline/volatile-then-timeout", []payload{{-3}}, true, b2, early),

		clientOnline("client-online/ack-at-once", []time.Duration{0}, 0, 0, b2, early),
		clientOnline("client-online/ack-at-T", []time.Duration{T}, 0, 0, b2, early),
		clientOnline("client-online/ack-late", []time.Duration{T + time.Second}, 0, 0, b2, early),
		clientOnline("client-online/never", []time.Duration{-1}, 0, 0, b2, early),
		clientOnline("client-online/binary-at-T", []time.Duration{T}, 1, 0, b2, early),
		clientOnline("client-online/3-binary-acks-in-one-poll-answer", []time.Duration{time.Second, time.Second, time.Second}, 1, 0, b2, early),
		clientOnline("client-online/2-binary-acks-at-once", []time.Duration{0, 0}, 1, 0, b2, early),
		clientOnline("client-online/reply-of-the-wrong-type-then-ack-at-once", []time.Duration{0, 0}, -4, 0, b2, early),
		clientOnline("client-online/unencodable-argument-then-ack-at-once", []time.Duration{0, 0}, -1, 0, b2, early),
		clientOnline("client-online/3-outstanding", []time.Duration{time.Second, T, -1}, 0, 0, b2, early),
		clientOnline("client-online/cut-mid-flight", []time.Duration{3 * time.Second, -1}, 0, 2*time.Second, b2, early),
	)
	return s
}

func main() {
	vx.Main(vx.Config{
		Property: "C03",
		Level:    "model_checking",
		Rule: "deviation-bounded exploration (thread choices, select choices and 'a timer fires early' all count) of reply/timer races: the real ackHandler (unbounded), sio.Server over a harness-implemented eio socket answering with ACK frames " +
			"(right/duplicate/wrong id, text/binary, reply before/at/after the timeout, connection cut mid-flight, 1-3 acks outstanding), and the Go client offline (0-3 attachments buffered) and online over an in-process polling link; " +
			"non-trivial = executions whose schedule deviates from the default",
		Scenarios: scenarios,
		Budget: func(tier string) time.Duration {
			if tier == "thorough" {
				return 15 * time.Minute
			}
			return 100 * time.Second
		},
		Assumptions: []string{
			"virtual time; a reply scheduled exactly at the timeout may legitimately end either way (both orders are explored, each must satisfy exactly-once)",
			"vsched semantics of Go primitives; the in-process RoundTripper stands in for TCP",
		},
	})
}
