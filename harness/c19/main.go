// C19: queued packets are sent without waiting for unrelated traffic (no lost wake-up).
//
// Narrow harnesses over the two real wake-up queues and the real polling server transport, explored
// under the controlled scheduler with the CHESS cost model (only preemptions cost), unbounded where
// happens-before caching makes that finite.
package main

import (
	"context"
	"fmt"
	"net/http"
	"net/http/httptest"
	"sort"
	"strings"
	"time"

	sio "github.com/karagenc/socket.io-go"
	eioparser "github.com/karagenc/socket.io-go/engine.io/parser"
	"github.com/karagenc/socket.io-go/engine.io/transport"
	"github.com/karagenc/socket.io-go/engine.io/transport/polling"
	vx "github.com/karagenc/socket.io-go/internal/vexplore"
	"github.com/karagenc/socket.io-go/internal/vrig"
	"github.com/karagenc/socket.io-go/internal/vsched"
)

func msg(s string) *eioparser.Packet {
	p, _ := eioparser.NewPacket(eioparser.PacketTypeMessage, false, []byte(s))
	return p
}

const pollTimeout = 45 * time.Second

// ---- 1. pollQueue: consumers loop poll(T); producers add packets at virtual time 0.
func pollQueueScenario(name string, consumers int, producers [][]int, getter bool, bound int) *vx.Scenario {
	total := 0
	for _, p := range producers {
		for _, n := range p {
			total += n
		}
	}
	sc := &vx.Scenario{Name: name, PreemptOnly: true, Horizon: 10 * pollTimeout}
	if bound < 0 {
		sc.Unbounded = true
	} else {
		sc.Bound = bound
	}
	sc.Body = func(e *vsched.Exec) func() vx.Result {
		q := polling.VerifNewPollQueue()
		var obs vsched.Var
		got := map[string]int{}
		var lateAt []string
		var emptyWhileQueued []string
		received := 0
		inPoll := 0
		var parkedWithQueue string
		record := func(who string, ps []*eioparser.Packet, emptyLen int) {
			obs.Do(func() {
				if len(ps) == 0 && emptyLen > 0 {
					emptyWhileQueued = append(emptyWhileQueued, fmt.Sprintf("%s got an empty answer at t=%v while %d packets were queued", who, e.Clock(), emptyLen))
				}
				for _, p := range ps {
					got[string(p.Data)]++
					received++
					if e.Clock() > 0 {
						lateAt = append(lateAt, fmt.Sprintf("%s@%v", p.Data, e.Clock()))
					}
				}
			})
		}
		e.OnQuiesce = func(e *vsched.Exec) {
			// invariant: packets queued => no consumer is parked inside poll
			if inPoll > 0 && q.LenUnlocked() > 0 && parkedWithQueue == "" {
				parkedWithQueue = fmt.Sprintf("t=%v: %d packet(s) queued while %d consumer(s) sit in poll", e.Clock(), q.LenUnlocked(), inPoll)
			}
		}
		for c := 0; c < consumers; c++ {
			who := fmt.Sprintf("consumer%d", c)
			vsched.GoQuiet(who, func() {
				for {
					stop := false
					obs.Do(func() { stop = received >= total })
					if stop {
						return
					}
					inPoll++
					ps := q.Poll(pollTimeout)
					inPoll--
					n := 0
					if len(ps) == 0 {
						n = q.LenUnlocked() // no scheduling point since poll returned
					} else {
						// the consumer needs time to write the batch out (the slice it was handed is read
						// only afterwards, as the HTTP handler does): anything may happen meanwhile
						vsched.Yield()
					}
					record(who, ps, n)
				}
			})
		}
		for p, adds := range producers {
			p, adds := p, adds
			vsched.GoQuiet(fmt.Sprintf("producer%d", p), func() {
				for i, n := range adds {
					var ps []*eioparser.Packet
					for k := 0; k < n; k++ {
						ps = append(ps, msg(fmt.Sprintf("p%d.%d.%d", p, i, k)))
					}
					q.Add(ps...)
				}
			})
		}
		if getter {
			// what upgradeTo does: take the queued packets without waiting
			vsched.GoQuiet("getter", func() { record("getter", q.Get(), 0) })
		}
		return func() vx.Result {
			var r vx.Result
			keys := make([]string, 0, len(got))
			dup := ""
			for k, n := range got {
				keys = append(keys, k)
				if n != 1 {
					dup += fmt.Sprintf(" %s x%d", k, n)
				}
			}
			sort.Strings(keys)
			r.Outcome = fmt.Sprintf("delivered=%d late=%d emptyWhileQueued=%d end=%v", len(keys), len(lateAt), len(emptyWhileQueued), e.Clock())
			if len(keys) != total || dup != "" {
				r.Violate("pollQueue: packets lost or duplicated", "delivered %v of %d packets (dups:%s)", keys, total, dup)
			}
			if len(lateAt) > 0 {
				r.Violate("pollQueue: queued packet waited for the poll timeout", "packets added at virtual time 0 were only returned later: %v (a consumer was polling all the time)", lateAt)
			}
			if parkedWithQueue != "" {
				r.Violate("pollQueue: queued packet waited for the poll timeout", "%s", parkedWithQueue)
			}
			if len(emptyWhileQueued) > 0 {
				r.Violate("pollQueue: empty answer while packets are queued", "%v", emptyWhileQueued)
			}
			return r
		}
	}
	return sc
}

// ---- 2. packetQueue: one drainer (pollAndSend) with a slow fake socket, producers, closer / reset.
type fakeSocket struct {
	obs  *vsched.Var
	sent [][]string
	e    *vsched.Exec
	at   []time.Duration
}

func (f *fakeSocket) ID() string                  { return "fake" }
func (f *fakeSocket) PingInterval() time.Duration { return 25 * time.Second }
func (f *fakeSocket) PingTimeout() time.Duration  { return 20 * time.Second }
func (f *fakeSocket) TransportName() string       { return "fake" }
func (f *fakeSocket) Close()                      {}
func (f *fakeSocket) Send(packets ...*eioparser.Packet) {
	vsched.PointL("slow-transport") // a transport that takes its time
	f.obs.Do(func() {
		var b []string
		for _, p := range packets {
			b = append(b, string(p.Data))
		}
		f.sent = append(f.sent, b)
		f.at = append(f.at, f.e.Clock())
	})
}

func packetQueueScenario(name string, producers [][]int, closer, resetter bool, bound int) *vx.Scenario {
	sc := &vx.Scenario{Name: name, PreemptOnly: true, Horizon: 10 * time.Minute}
	if bound < 0 {
		sc.Unbounded = true
	} else {
		sc.Bound = bound
	}
	sc.Body = func(e *vsched.Exec) func() vx.Result {
		q := sio.VerifNewPacketQueue()
		var obs vsched.Var
		sock := &fakeSocket{obs: &obs, e: e}
		drainerDone := false
		producersLeft := len(producers)
		closeBegan := false
		var addedBeforeClose []string
		var allAdded []string
		resetDone := false
		vsched.GoQuiet("drainer", func() {
			q.PollAndSend(sock)
			obs.Do(func() { drainerDone = true })
		})
		for p, adds := range producers {
			p, adds := p, adds
			vsched.GoQuiet(fmt.Sprintf("producer%d", p), func() {
				for i, n := range adds {
					var ps []*eioparser.Packet
					var names []string
					for k := 0; k < n; k++ {
						nm := fmt.Sprintf("p%d.%d.%d", p, i, k)
						ps = append(ps, msg(nm))
						names = append(names, nm)
					}
					q.Add(ps...)
					obs.Do(func() {
						allAdded = append(allAdded, names...)
						if !closeBegan && !resetDone {
							addedBeforeClose = append(addedBeforeClose, names...)
						}
					})
				}
				obs.Do(func() { producersLeft-- })
			})
		}
		if resetter {
			vsched.GoQuiet("resetter", func() {
				obs.Do(func() { resetDone = true; addedBeforeClose = nil })
				q.Reset()
			})
		}
		if closer {
			// the body of serverConn.closePacketQueue / Manager.closePacketQueue
			vsched.GoQuiet("closer", func() {
				if !resetter {
					vsched.Await(func() bool { return producersLeft == 0 })
				}
				obs.Do(func() { closeBegan = true })
				q.WaitForDrain(2 * time.Minute)
				q.Close()
			})
		}
		return func() vx.Result {
			var r vx.Result
			sent := map[string]int{}
			var order []string
			late := ""
			for i, b := range sock.sent {
				for _, s := range b {
					sent[s]++
					order = append(order, s)
					if sock.at[i] > 0 {
						late += fmt.Sprintf(" %s@%v", s, sock.at[i])
					}
				}
			}
			r.Outcome = fmt.Sprintf("sent=%d drainerDone=%v late=%v", len(order), drainerDone, late != "")
			for s, n := range sent {
				if n > 1 {
					r.Violate("packetQueue: packet sent twice", "%s sent %d times", s, n)
				}
			}
			must := allAdded
			if closer || resetter {
				must = addedBeforeClose
			}
			for _, s := range must {
				if sent[s] == 0 && !resetter {
					r.Violate("packetQueue: packet added before close never sent", "%s was added before close() began but never reached the socket (sent: %v)", s, order)
				}
			}
			if !closer && !resetter && late != "" {
				r.Violate("packetQueue: queued packet waited for unrelated wake-up", "packets added at virtual time 0 sent later:%s", late)
			}
			if !closer && !resetter && q.LenUnlocked() > 0 {
				r.Violate("packetQueue: packet left in queue with the drainer parked", "%d packets still queued at the end", q.LenUnlocked())
			}
			// per-producer FIFO and contiguity of each add (C02 relies on it too)
			pos := map[string]int{}
			for i, s := range order {
				pos[s] = i
			}
			for p, adds := range producers {
				prev := -1
				for i, n := range adds {
					for k := 0; k < n; k++ {
						nm := fmt.Sprintf("p%d.%d.%d", p, i, k)
						ix, ok := pos[nm]
						if !ok {
							continue
						}
						if ix < prev {
							r.Violate("packetQueue: per-producer order broken", "order %v", order)
						}
						if k > 0 && ok && ix != prev+1 {
							if _, okPrev := pos[fmt.Sprintf("p%d.%d.%d", p, i, k-1)]; okPrev {
								r.Violate("packetQueue: frames of one add not contiguous", "order %v", order)
							}
						}
						prev = ix
					}
				}
			}
			if closer && !drainerDone {
				r.Violate("packetQueue: drainer does not terminate after close", "drainer still parked; sent=%v", order)
			}
			return r
		}
	}
	return sc
}

// slowWriter: writing the response takes time (a scheduling point before the status line and before every
// chunk of the body goes out), as a network write does: the handler reads the batch it took only afterwards.
type slowWriter struct {
	*httptest.ResponseRecorder
	// queued: length of the transport's queue when the handler came back from its poll (read before the first
	// yield: there is no scheduling point between the poll's return and the first write)
	queued  *int
	lenFunc func() int
}

func (w slowWriter) WriteHeader(code int) {
	if *w.queued < 0 {
		*w.queued = w.lenFunc()
	}
	vsched.Yield()
	w.ResponseRecorder.WriteHeader(code)
}
func (w slowWriter) Write(p []byte) (int, error) {
	if *w.queued < 0 {
		*w.queued = w.lenFunc()
	}
	vsched.Yield()
	return w.ResponseRecorder.Write(p)
}

// ---- 3. the real polling.ServerTransport: pollers through ServeHTTP(GET), senders through Send.
func transportScenario(name string, pollers int, senders [][]int, discard bool, bound int) *vx.Scenario {
	total := 0
	for _, p := range senders {
		for _, n := range p {
			total += n
		}
	}
	sc := &vx.Scenario{Name: name, PreemptOnly: true, Horizon: 10 * pollTimeout}
	if bound < 0 {
		sc.Unbounded = true
	} else {
		sc.Bound = bound
	}
	sc.Body = func(e *vsched.Exec) func() vx.Result {
		cb := transport.NewCallbacks()
		tr := polling.NewServerTransport(cb, 0, pollTimeout)
		var obs vsched.Var
		got := map[string]int{}
		received := 0
		var late, empties []string
		want := total
		// With discard the scenario plays serverSocket.upgradeTo: senders hold the transport read lock
		// around Send (and use the new transport once it is swapped in), the upgrader takes the write
		// lock, swaps, calls Discard and collects QueuedPackets for the new transport. A poller stops
		// polling once it has seen the discard (the NOOP, or an empty answer): a correct client does
		// not poll a discarded transport again, and every later poll would be answered at once.
		var tmu vsched.RWMutex
		swapped := false
		for c := 0; c < pollers; c++ {
			who := fmt.Sprintf("poller%d", c)
			vsched.GoQuiet(who, func() {
				for {
					stop := false
					obs.Do(func() { stop = received >= want })
					if stop {
						return
					}
					rec := httptest.NewRecorder()
					req, _ := http.NewRequest("GET", "http://x/engine.io/?EIO=4&transport=polling&sid=s", nil)
					queued := -1
					tr.ServeHTTP(slowWriter{rec, &queued, tr.VerifQueueLenUnlocked}, req)
					if queued < 0 {
						queued = tr.VerifQueueLenUnlocked() // the handler wrote nothing: no scheduling point since its poll returned
					}
					body := rec.Body.String()
					sawDiscard := false
					obs.Do(func() {
						if body == "" {
							if queued > 0 {
								empties = append(empties, fmt.Sprintf("%s answered empty at t=%v while %d packets were queued", who, e.Clock(), queued))
							}
							sawDiscard = discard
							return
						}
						for _, part := range strings.Split(body, "\x1e") {
							if discard && part == "6" {
								sawDiscard = true
								continue
							}
							got[part]++
							received++
							if e.Clock() > 0 {
								late = append(late, fmt.Sprintf("%s@%v", part, e.Clock()))
							}
						}
					})
					if sawDiscard {
						return
					}
				}
			})
		}
		for p, adds := range senders {
			p, adds := p, adds
			vsched.GoQuiet(fmt.Sprintf("sender%d", p), func() {
				for i, n := range adds {
					var ps []*eioparser.Packet
					for k := 0; k < n; k++ {
						ps = append(ps, msg(fmt.Sprintf("p%d.%d.%d", p, i, k)))
					}
					tmu.RLock()
					if swapped {
						// the new transport takes it
						obs.Do(func() {
							for _, pk := range ps {
								got["4"+string(pk.Data)]++
								received++
							}
						})
					} else {
						tr.Send(ps...)
					}
					tmu.RUnlock()
				}
			})
		}
		if discard {
			vsched.GoQuiet("upgrader", func() {
				tmu.Lock()
				swapped = true
				tr.Discard()
				qp := tr.QueuedPackets()
				obs.Do(func() {
					for _, pk := range qp {
						if pk.Type == eioparser.PacketTypeNoop {
							continue
						}
						got["4"+string(pk.Data)]++ // re-sent on the new transport
						received++
					}
				})
				tmu.Unlock()
			})
		}
		return func() vx.Result {
			var r vx.Result
			r.Outcome = fmt.Sprintf("delivered=%d late=%d empties=%d end=%v", len(got), len(late), len(empties), e.Clock())
			dup := ""
			for k, n := range got {
				if n != 1 {
					dup += fmt.Sprintf(" %s x%d", k, n)
				}
			}
			if len(got) != want || dup != "" {
				r.Violate("polling transport: packets lost or duplicated", "delivered %d of %d (dups:%s)", len(got), want, dup)
			}
			if len(late) > 0 {
				r.Violate("pollQueue: queued packet waited for the poll timeout", "through ServerTransport: packets sent at virtual time 0 were returned only at %v", late)
			}
			if len(empties) > 0 {
				r.Violate("pollQueue: empty answer while packets are queued", "%v", empties)
			}
			return r
		}
	}
	return sc
}

// timedWriter: the client reads slowly - writing a response takes W of virtual time. takenAt is the moment
// the handler starts to write, i.e. came back from its poll with the batch.
type timedWriter struct {
	*httptest.ResponseRecorder
	takenAt *time.Duration
	w       time.Duration
	e       *vsched.Exec
}

func (w timedWriter) begin() {
	if *w.takenAt < 0 {
		*w.takenAt = w.e.Clock()
		vsched.Sleep(w.w)
	}
}
func (w timedWriter) WriteHeader(code int)        { w.begin(); w.ResponseRecorder.WriteHeader(code) }
func (w timedWriter) Write(p []byte) (int, error) { w.begin(); return w.ResponseRecorder.Write(p) }

// ---- 4. two overlapping polls of one transport, a client that reads slowly, packets sent every W/2:
// a packet sent while one response is still being written is returned at once by the OTHER pending poll
// (it is unrelated traffic the packet must not wait for). At every send instant one of the two polls is
// pending or arrives, so every packet must leave the queue at the instant it was sent.
func transportSlowClientScenario(name string, batches int, bound int) *vx.Scenario {
	const W = time.Second
	sc := &vx.Scenario{Name: name, PreemptOnly: true, Bound: bound, Horizon: 10 * pollTimeout}
	sc.Body = func(e *vsched.Exec) func() vx.Result {
		cb := transport.NewCallbacks()
		tr := polling.NewServerTransport(cb, 0, pollTimeout)
		var obs vsched.Var
		got := map[string]time.Duration{}
		dups := 0
		received := 0
		for c := 0; c < 2; c++ {
			who := fmt.Sprintf("poller%d", c)
			vsched.GoQuiet(who, func() {
				for {
					stop := false
					obs.Do(func() { stop = received >= batches })
					if stop {
						return
					}
					rec := httptest.NewRecorder()
					req, _ := http.NewRequest("GET", "http://x/engine.io/?EIO=4&transport=polling&sid=s", nil)
					takenAt := time.Duration(-1)
					tr.ServeHTTP(timedWriter{rec, &takenAt, W, e}, req)
					body := rec.Body.String()
					obs.Do(func() {
						if body == "" {
							return
						}
						for _, part := range strings.Split(body, "\x1e") {
							if _, ok := got[part]; ok {
								dups++
							}
							got[part] = takenAt
							received++
						}
					})
				}
			})
		}
		vsched.GoQuiet("sender", func() {
			for i := 0; i < batches; i++ {
				tr.Send(msg(fmt.Sprintf("b%d", i)))
				vsched.Sleep(W / 2)
			}
		})
		return func() vx.Result {
			var r vx.Result
			var late []string
			for i := 0; i < batches; i++ {
				sent := time.Duration(i) * W / 2
				at, ok := got[fmt.Sprintf("4b%d", i)]
				if !ok {
					r.Violate("polling transport: packets lost or duplicated", "slow-reading client: packet b%d never returned by a poll (returned: %v)", i, got)
					continue
				}
				if at > sent {
					late = append(late, fmt.Sprintf("b%d sent at %v left the queue at %v", i, sent, at))
				}
			}
			if dups > 0 {
				r.Violate("polling transport: packets lost or duplicated", "slow-reading client: %d packets returned twice", dups)
			}
			r.Outcome = fmt.Sprintf("delivered=%d late=%d end=%v", len(got), len(late), e.Clock())
			if len(late) > 0 {
				r.Violate("pollQueue: queued packet waited for unrelated traffic although a poll was pending", "two overlapping polls, every response takes %v to write, a packet every %v: %v", W, W/2, late)
			}
			return r
		}
	}
	return sc
}

// ---- 4b. one of two pending polls belongs to a request whose context is already done (the client gave up, a proxy
// deadline passed) when a packet is queued: the packet is answered at that instant by one of the polls - it does
// not go back into the queue without anybody being woken.
func transportCancelledPollScenario(name string, bound int) *vx.Scenario {
	sc := &vx.Scenario{Name: name, PreemptOnly: true, Bound: bound, Horizon: 10 * pollTimeout}
	sc.Body = func(e *vsched.Exec) func() vx.Result {
		cb := transport.NewCallbacks()
		tr := polling.NewServerTransport(cb, 0, pollTimeout)
		var obs vsched.Var
		got := map[string]time.Duration{}
		pending := 0
		ctx, cancel := context.WithCancel(context.Background())
		for c := 0; c < 2; c++ {
			c := c
			vsched.GoQuiet(fmt.Sprintf("poller%d", c), func() {
				rec := httptest.NewRecorder()
				req, _ := http.NewRequest("GET", "http://x/engine.io/?EIO=4&transport=polling&sid=s", nil)
				if c == 0 {
					req = req.WithContext(ctx)
				}
				obs.Do(func() { pending++ })
				tr.ServeHTTP(rec, req)
				body := rec.Body.String()
				obs.Do(func() {
					for _, part := range strings.Split(body, "\x1e") {
						if part != "" {
							got[part] = e.Clock()
						}
					}
				})
			})
		}
		vsched.GoQuiet("sender", func() {
			vsched.Sleep(time.Second) // both polls are pending
			cancel()                  // the first request is dead from now on
			vsched.Sleep(time.Second)
			tr.Send(msg("after-the-cancel"))
		})
		return func() vx.Result {
			var r vx.Result
			at, ok := got["4after-the-cancel"]
			r.Outcome = fmt.Sprintf("delivered=%v at=%v", ok, at)
			if !ok || at > 2*time.Second {
				r.Violate("pollQueue: queued packet waited although a poll was pending (one of the pending polls belonged to a cancelled request)",
					"two polls pending, the request of the first was cancelled at 1 s, a packet was sent at 2 s: answered=%v at %v (poll timeout %v)", ok, at, pollTimeout)
			}
			return r
		}
	}
	return sc
}

// ---- 5. the whole send path of a connected Socket.IO client: an event emitted on a connected socket leaves at
// once (the in-process link has no latency: the server's handler runs at the same virtual instant), whatever
// the socket went through before - an ack timeout that fired, events buffered while it was connecting, a
// volatile emit. It never waits in the socket's send buffer for the next reconnection or another flush.
func clientSendPath(name, history string, bound int) *vx.Scenario {
	sc := &vx.Scenario{Name: name, Bound: bound, Horizon: 10 * time.Minute}
	sc.Body = func(e *vsched.Exec) func() vx.Result {
		vsched.SetExploring(false)
		scfg := &sio.ServerConfig{}
		scfg.EIO.PingInterval = 30 * time.Minute // no heartbeat inside the scenario: nothing else flushes anything
		scfg.EIO.PingTimeout = 30 * time.Minute
		srv, mgr, _ := vrig.NewSioPair(scfg, nil)
		var v vsched.Var
		arrived := map[string]time.Duration{}
		seenFlaky := map[string]int{}
		flakyAt := map[string][]time.Duration{}
		ready := false
		srv.Use(func(s sio.ServerSocket, h *sio.Handshake) any {
			s.OnEvent("m", func(tag string) { v.Do(func() { arrived[tag] = e.Clock() }) })
			s.OnEvent("noack", func(tag string, ack func(string)) { v.Do(func() { arrived[tag] = e.Clock() }) }) // never answers
			// answers only the second time it sees a tag (the first acknowledgement "gets lost")
			s.OnEvent("flaky", func(tag string, ack func(string)) {
				n := 0
				v.Do(func() { seenFlaky[tag]++; n = seenFlaky[tag]; flakyAt[tag] = append(flakyAt[tag], e.Clock()) })
				if n >= 2 {
					ack("ok")
				}
			})
			v.Do(func() { ready = true })
			return nil
		})
		srv.OnConnection(func(sio.ServerSocket) {})
		var ccfg *sio.ClientSocketConfig
		if history == "retry-after-an-ack-timeout" {
			// the socket's own retry queue: an emit is sent again when its acknowledgement does not come in time
			ccfg = &sio.ClientSocketConfig{Retries: 3, AckTimeout: time.Second}
		}
		sock := mgr.Socket("/", ccfg)
		connected := false
		sock.OnConnect(func() { v.Do(func() { connected = true }) })
		timeouts := 0
		sock.Connect()
		if history == "emitted-while-connecting" {
			sock.Emit("m", "early") // buffered until the CONNECT reply, flushed by it
		}
		vsched.Await(func() bool { return connected && ready })
		vrig.Settle(time.Second)
		switch history {
		case "ack-timeout-fired", "two-ack-timeouts-fired":
			n := 1
			if history == "two-ack-timeouts-fired" {
				n = 2
			}
			for i := 0; i < n; i++ {
				sock.Timeout(time.Second).Emit("noack", fmt.Sprintf("t%d", i), func(err error, s string) {
					if err != nil {
						v.Do(func() { timeouts++ })
					}
				})
			}
			vsched.Sleep(3 * time.Second)
		case "volatile-emit":
			sock.Volatile().Emit("m", "vol")
			vrig.Settle(time.Second)
		}
		vsched.SetExploring(true)
		sent := map[string]time.Duration{}
		if history == "retry-after-an-ack-timeout" {
			t0 := e.Clock()
			acked := 0
			sock.Emit("flaky", "r1", func(err error, s string) {
				if err == nil {
					v.Do(func() { acked++ })
				}
			})
			vsched.Sleep(time.Minute) // nothing else is emitted in this minute: the retry has to go out by itself
			return func() vx.Result {
				var r vx.Result
				at := flakyAt["r1"]
				r.Outcome = fmt.Sprintf("seen=%v acked=%d", at, acked)
				ctx := fmt.Sprintf("socket with Retries 3 / AckTimeout 1s emitted at %v an event whose first acknowledgement never comes: the server saw it at %v (a retry is due %v after each try), the emit was acknowledged %d time(s); nothing else was emitted for a minute", t0, at, time.Second, acked)
				if len(at) < 2 || at[1] != t0+time.Second {
					r.Violate("client send path: a retry waits in the socket's retry queue until other traffic flushes it", "%s", ctx)
				} else if acked != 1 {
					r.Violate("client send path: a retried emit is not acknowledged exactly once", "%s", ctx)
				}
				return r
			}
		}
		for _, tag := range []string{"after-1", "after-2"} {
			sent[tag] = e.Clock()
			sock.Emit("m", tag)
			vsched.Sleep(time.Minute) // nothing else happens in this minute
		}
		return func() vx.Result {
			var r vx.Result
			var late []string
			for _, tag := range []string{"after-1", "after-2"} {
				at, ok := arrived[tag]
				switch {
				case !ok:
					late = append(late, fmt.Sprintf("%s emitted at %v never reached the server", tag, sent[tag]))
				case at > sent[tag]:
					late = append(late, fmt.Sprintf("%s emitted at %v reached the server at %v", tag, sent[tag], at))
				}
			}
			sb, _ := sio.VerifClientSocketBuffers(sock)
			r.Outcome = fmt.Sprintf("late=%d timeouts=%d buffered=%d", len(late), timeouts, sb)
			if len(late) > 0 {
				r.Violate("client send path: an event emitted on a connected socket waits in the socket's send buffer", "history %q (ack timeouts fired: %d): %v; frames left in the send buffer at the end: %d", history, timeouts, late, sb)
			}
			return r
		}
	}
	return sc
}

// ---- 6. the same send path, whatever the MANAGER (and its socket) went through BEFORE the connection under study:
// every sequence of lifecycle operations of the client API - Manager.Close, Manager.Open, ClientSocket.Disconnect,
// a successful ClientSocket.Connect, a ClientSocket.Connect that is refused because the server is unreachable - up to
// a given length, each operation followed by a pause of `gap` (0 = the next operation follows back to back), and
// then the connection under study. The operations may come before the manager has ever been connected (a user who
// cancels the first attempt) or after. The manager does not reconnect by itself (NoReconnection) and there is no
// heartbeat inside the scenario, so nothing but the send path itself can flush a packet:
//   - the CONNECT packet the socket hands to the manager's send path reaches the server (a reachable server on a link
//     without latency) within the settle time;
//   - an event emitted on the connected socket reaches the server at the virtual instant it was emitted.
var lifecycleSteps = []string{"manager.Close", "socket.Disconnect", "socket.Connect", "refused-socket.Connect", "manager.Open"}

func lifecycleHistories(maxLen int) [][]string {
	out := [][]string{{}}
	prev := [][]string{{}}
	for l := 1; l <= maxLen; l++ {
		var next [][]string
		for _, h := range prev {
			for _, st := range lifecycleSteps {
				next = append(next, append(append([]string{}, h...), st))
			}
		}
		out = append(out, next...)
		prev = next
	}
	return out
}

func clientSendPathAfterLifecycle(name string, history []string, gap time.Duration, bound int) *vx.Scenario {
	sc := &vx.Scenario{Name: name, Bound: bound, Horizon: 10 * time.Minute}
	sc.Body = func(e *vsched.Exec) func() vx.Result {
		vsched.SetExploring(false)
		scfg := &sio.ServerConfig{}
		scfg.EIO.PingInterval = 30 * time.Minute // no heartbeat inside the scenario: nothing else flushes anything
		scfg.EIO.PingTimeout = 30 * time.Minute
		srv, mgr, link := vrig.NewSioPair(scfg, nil) // NoReconnection: the manager never connects by itself
		var v vsched.Var
		arrived := map[string]time.Duration{}
		connectsSeen := 0 // CONNECT packets the server has seen
		srv.Use(func(s sio.ServerSocket, h *sio.Handshake) any {
			s.OnEvent("m", func(tag string) { v.Do(func() { arrived[tag] = e.Clock() }) })
			v.Do(func() { connectsSeen++ })
			return nil
		})
		srv.OnConnection(func(sio.ServerSocket) {})
		sock := mgr.Socket("/", nil)
		connected, mgrOpen := false, false
		sock.OnConnect(func() { v.Do(func() { connected = true }) })
		lastDisconnect := ""
		sock.OnDisconnect(func(why sio.Reason) {
			v.Do(func() { connected = false; lastDisconnect = fmt.Sprintf("%q at %v", why, e.Clock()) })
		})
		mgr.OnOpen(func() { v.Do(func() { mgrOpen = true }) })
		mgr.OnClose(func(sio.Reason, error) { v.Do(func() { mgrOpen = false }) })
		flags := func() (c, o bool, n int) {
			v.Do(func() { c, o, n = connected, mgrOpen, connectsSeen })
			return
		}
		// connect on a reachable server. "" = connected; otherwise what was observed instead.
		connect := func() (violation string) {
			if c, _, _ := flags(); c {
				return ""
			}
			_, _, n0 := flags()
			t0 := e.Clock()
			sock.Connect()
			vrig.Settle(2 * time.Second)
			c, o, n := flags()
			switch {
			case c:
				return ""
			case !o:
				// not what this check is about: the manager did not even open. Never pass silently.
				vsched.Await(func() bool { return false })
			case n == n0:
				return fmt.Sprintf("socket.Connect() at %v: the manager opened its connection (reachable server, link without latency, no reconnection, no heartbeat), so the socket's CONNECT packet was handed to the send path, but the server has not seen it %v later", t0, e.Clock()-t0)
			default:
				// the server answered the CONNECT and the socket did not report its connect event: not a statement of C19
				vsched.Await(func() bool { return false })
			}
			return ""
		}
		pause := func() {
			if gap > 0 {
				vrig.Settle(gap)
			}
		}
		problem := ""
		// The socket learns of a close through a handler that runs on its own goroutine; until then it takes itself
		// for connected and ignores Connect. Back to back means no virtual time in between, not "before the socket
		// has reported the disconnect".
		awaitDisconnect := func(was bool) {
			if was {
				vsched.Await(func() bool { return !connected })
			}
		}
		for _, st := range history {
			was, _, _ := flags()
			switch st {
			case "manager.Close":
				mgr.Close()
				awaitDisconnect(was)
			case "manager.Open":
				mgr.Open()
			case "socket.Disconnect":
				sock.Disconnect()
				awaitDisconnect(was)
			case "socket.Connect":
				problem = connect()
			case "refused-socket.Connect":
				// the server is unreachable during this attempt (if the socket is connected, Connect does nothing)
				link.V.Do(func() { link.Down = true })
				sock.Connect()
				vrig.Settle(time.Second)
				link.V.Do(func() { link.Down = false })
			}
			if problem != "" {
				break
			}
			pause()
		}
		if problem == "" {
			problem = connect()
		}
		const stuckConnect = "client send path: a socket's CONNECT packet waits in the manager's packet queue (the manager/socket were closed, opened or refused before this connection)"
		const stuckEvent = "client send path: an event emitted on a connected socket waits in the manager's packet queue (the manager/socket were closed, opened or refused before this connection)"
		if problem != "" {
			return func() vx.Result {
				var r vx.Result
				r.Outcome = "CONNECT not transmitted"
				r.Violate(stuckConnect, "history %q, pause after each operation %v: %s", history, gap, problem)
				return r
			}
		}
		vsched.SetExploring(true)
		sent := map[string]time.Duration{}
		for _, tag := range []string{"after-1", "after-2"} {
			sent[tag] = e.Clock()
			sock.Emit("m", tag)
			vsched.Sleep(time.Minute) // nothing else happens in this minute
		}
		return func() vx.Result {
			var r vx.Result
			var late []string
			for _, tag := range []string{"after-1", "after-2"} {
				at, ok := arrived[tag]
				switch {
				case !ok:
					late = append(late, fmt.Sprintf("%s emitted at %v never reached the server", tag, sent[tag]))
				case at > sent[tag]:
					late = append(late, fmt.Sprintf("%s emitted at %v reached the server at %v", tag, sent[tag], at))
				}
			}
			sb, _ := sio.VerifClientSocketBuffers(sock)
			r.Outcome = fmt.Sprintf("late=%d buffered=%d connected=%v", len(late), sb, connected)
			if !connected {
				r.Outcome += " (the socket reported the disconnect " + lastDisconnect + fmt.Sprintf("; emits at %v)", sent)
			}
			if len(late) > 0 && connected {
				r.Violate(stuckEvent, "history %q, pause after each operation %v, then the socket connected: %v; frames left in the socket's send buffer at the end: %d (the socket reported no disconnect)", history, gap, late, sb)
			}
			return r
		}
	}
	return sc
}

func lifecycleName(history []string, gap time.Duration) string {
	h := "fresh-manager"
	if len(history) > 0 {
		h = strings.Join(history, ",")
	}
	g := "back-to-back"
	if gap > 0 {
		g = "paused"
	}
	return fmt.Sprintf("client-send-path/lifecycle/%s/%s", g, h)
}

func scenarios(tier string) []*vx.Scenario {
	big := 3 // preemption bound for the scenarios whose unbounded space does not fit the quick budget
	// thorough: iterative preemption bounding up to 8 for the spaces that do not fit the budget unbounded
	// (every completed bound is reported; an unbounded run that hits its deadline has completed none)
	deep := 8
	if tier == "thorough" {
		big = deep
	}
	s := []*vx.Scenario{
		pollQueueScenario("pollQueue/1c-1p", 1, [][]int{{1}}, false, -1),
		pollQueueScenario("pollQueue/1c-2p", 1, [][]int{{1}, {1}}, false, -1),
		pollQueueScenario("pollQueue/1c-3p", 1, [][]int{{1}, {1}, {1}}, false, -1),
		pollQueueScenario("pollQueue/1c-1p-adds-twice", 1, [][]int{{1, 2}}, false, -1),
		pollQueueScenario("pollQueue/1c-2p-getter", 1, [][]int{{1}, {1}}, true, -1),
		pollQueueScenario("pollQueue/2c-2p", 2, [][]int{{1}, {1}}, false, -1),
		// two consumers that are slow to write their batch out and three batches: a queue that recycles the
		// memory of a batch it handed out shows here
		pollQueueScenario("pollQueue/2c-1p-adds-thrice", 2, [][]int{{1, 1, 1}}, false, big),
		pollQueueScenario("pollQueue/2c-1p-adds-2-1-2", 2, [][]int{{2, 1, 2}}, false, big),
		packetQueueScenario("packetQueue/1p", [][]int{{1}}, false, false, -1),
		packetQueueScenario("packetQueue/2p", [][]int{{1}, {2}}, false, false, -1),
		packetQueueScenario("packetQueue/3p", [][]int{{1}, {2}, {3}}, false, false, big),
		packetQueueScenario("packetQueue/1p-twice", [][]int{{2, 1}}, false, false, -1),
		packetQueueScenario("packetQueue/2p-closer", [][]int{{1}, {2}}, true, false, -1),
		packetQueueScenario("packetQueue/2p-reset", [][]int{{1}, {1}}, false, true, big),
		packetQueueScenario("packetQueue/1p-reset-closer", [][]int{{1, 1}}, true, true, big),
		transportScenario("transport/1poller-2senders", 1, [][]int{{1}, {1}}, false, -1),
		transportScenario("transport/1poller-1sender-discard", 1, [][]int{{1}}, true, -1),
		transportScenario("transport/2pollers-1sender-thrice", 2, [][]int{{1, 1, 1}}, false, big),
		transportScenario("transport/2pollers-1sender-twice-discard", 2, [][]int{{1, 1}}, true, big-1),
		transportSlowClientScenario("transport/2pollers-slow-reading-client-3-packets", 3, big),
		transportCancelledPollScenario("transport/2pollers-one-cancelled-request", big),
		clientSendPath("client-send-path/plain", "plain", 1),
		clientSendPath("client-send-path/after-an-ack-timeout-fired", "ack-timeout-fired", 1),
		clientSendPath("client-send-path/after-two-ack-timeouts-fired", "two-ack-timeouts-fired", 1),
		clientSendPath("client-send-path/after-events-were-buffered-while-connecting", "emitted-while-connecting", 1),
		clientSendPath("client-send-path/after-a-volatile-emit", "volatile-emit", 1),
		clientSendPath("client-send-path/retry-after-an-ack-timeout", "retry-after-an-ack-timeout", 1),
	}
	// lifecycle histories before the connection under study: every sequence of up to 2 (thorough: 3) operations,
	// once with a pause after each operation and once back to back
	maxHistory := 2
	if tier == "thorough" {
		maxHistory = 3
	}
	for _, h := range lifecycleHistories(maxHistory) {
		s = append(s, clientSendPathAfterLifecycle(lifecycleName(h, time.Second), h, time.Second, 1))
		if len(h) > 0 {
			s = append(s, clientSendPathAfterLifecycle(lifecycleName(h, 0), h, 0, 1))
		}
	}
	if tier == "thorough" {
		s = append(s,
			pollQueueScenario("pollQueue/2c-3p", 2, [][]int{{1}, {1}, {1}}, false, -1),
			pollQueueScenario("pollQueue/2c-2p-twice-getter", 2, [][]int{{1, 1}, {1}}, true, deep),
			pollQueueScenario("pollQueue/1c-3p-twice", 1, [][]int{{1, 1}, {1, 1}, {1}}, false, -1),
			packetQueueScenario("packetQueue/3p-closer", [][]int{{1}, {2}, {1, 1}}, true, false, deep),
			packetQueueScenario("packetQueue/3p-twice", [][]int{{1, 1}, {2, 1}, {1}}, false, false, deep),
			packetQueueScenario("packetQueue/2p-reset-closer", [][]int{{1, 1}, {1}}, true, true, deep),
			transportScenario("transport/2pollers-2senders", 2, [][]int{{1}, {1, 1}}, false, deep),
			transportScenario("transport/2pollers-2senders-discard", 2, [][]int{{1}, {1}}, true, deep),
			transportScenario("transport/1poller-3senders", 1, [][]int{{1}, {1}, {2}}, false, -1),
		)
	}
	return s
}

func main() {
	vx.Main(vx.Config{
		Property: "C19",
		Level:    "model_checking",
		Rule: "every interleaving (happens-before pruned; without preemption bound where the scenario list says -1, else iteratively to preemption bound 3 (quick) / 8 (thorough), completed bound reported) of 1-2 consumers with 1-3 producers over the real pollQueue, the real packetQueue " +
			"(drainer, closer, reset) and the real polling.ServerTransport; the whole client send path (rig R3) after every history of the socket (ack timeouts, buffered and volatile emits, retries) and after every sequence of up to 2 (thorough 3) " +
			"lifecycle operations (Manager.Close/Open, ClientSocket.Disconnect/Connect, a refused Connect; paused or back to back) before the connection under study, 1 deviation; an execution is non-trivial when its schedule deviates from the default run-until-blocked order",
		Scenarios: scenarios,
		Budget: func(tier string) time.Duration {
			if tier == "thorough" {
				return 15 * time.Minute
			}
			return 150 * time.Second
		},
		Assumptions: []string{
			"vsched's model of Go mutexes, channels, select and timers (validated by the litmus suite in harness/litmus)",
			"virtual time: the clock only advances when no thread can run, so 'returned at t>0' means the packet waited for a timer",
		},
	})
}
