// C18: On fires every time, Once at most once, Off removes exactly what it names.
//
// (1) explicit-state BFS over On/Once/Off/OffAll/fire histories on the real registries and through
// every public wrapper family reachable without a network, against a reference list model;
// (2) all interleavings of fire || fire || off || on on the real registries.
package main

import (
	"fmt"
	"reflect"
	"strings"
	"time"
	"unsafe"

	sio "github.com/karagenc/socket.io-go"
	eio "github.com/karagenc/socket.io-go/engine.io"
	eioparser "github.com/karagenc/socket.io-go/engine.io/parser"
	vx "github.com/karagenc/socket.io-go/internal/vexplore"
	"github.com/karagenc/socket.io-go/internal/vrig"
	"github.com/karagenc/socket.io-go/internal/vsched"
)

// ---------------------------------------------------------------- alphabet and reference model

type op struct {
	kind string // on once off offall fire
	ev   int
	hs   []int // handler indices
}

func (o op) String() string {
	var h []string
	for _, x := range o.hs {
		h = append(h, string(rune('A'+x)))
	}
	s := o.kind
	if o.kind != "offall" {
		s += fmt.Sprintf("[e%d]", o.ev)
	}
	if len(h) > 0 || o.kind == "off" {
		s += "(" + strings.Join(h, ",") + ")"
	}
	return s
}

type model struct {
	on, once [][]int // per event
}

func newModel(nev int) *model { return &model{on: make([][]int, nev), once: make([][]int, nev)} }

func (m *model) clone() *model {
	c := newModel(len(m.on))
	for i := range m.on {
		c.on[i] = append([]int{}, m.on[i]...)
		c.once[i] = append([]int{}, m.once[i]...)
	}
	return c
}

func without(l []int, hs []int) []int {
	var out []int
	for _, x := range l {
		drop := false
		for _, h := range hs {
			if h == x {
				drop = true
			}
		}
		if !drop {
			out = append(out, x)
		}
	}
	return out
}

// apply returns the handlers a fire must run (nil otherwise).
func (m *model) apply(o op) []int {
	switch o.kind {
	case "on":
		m.on[o.ev] = append(m.on[o.ev], o.hs[0])
	case "once":
		m.once[o.ev] = append(m.once[o.ev], o.hs[0])
	case "off":
		if len(o.hs) == 0 {
			m.on[o.ev], m.once[o.ev] = nil, nil
		} else {
			m.on[o.ev] = without(m.on[o.ev], o.hs)
			m.once[o.ev] = without(m.once[o.ev], o.hs)
		}
	case "offall":
		for i := range m.on {
			m.on[i], m.once[i] = nil, nil
		}
	case "fire":
		ran := append(append([]int{}, m.on[o.ev]...), m.once[o.ev]...)
		m.once[o.ev] = nil
		return ran
	}
	return nil
}

func (m *model) key() string { return fmt.Sprint(m.on, m.once) }

func alphabet(nev int, multiOff bool) []op {
	var ops []op
	for ev := 0; ev < nev; ev++ {
		for h := 0; h < 3; h++ {
			ops = append(ops, op{"on", ev, []int{h}}, op{"once", ev, []int{h}}, op{"off", ev, []int{h}})
		}
		ops = append(ops, op{"off", ev, nil}, op{"fire", ev, nil})
		if multiOff {
			for a := 0; a < 3; a++ {
				for b := 0; b < 3; b++ {
					ops = append(ops, op{"off", ev, []int{a, b}})
				}
			}
			ops = append(ops, op{"off", ev, []int{0, 1, 2}})
		}
	}
	ops = append(ops, op{"offall", 0, nil})
	return ops
}

// absentOffs: Off naming only things that are not registered handlers (a never-registered function, a nil
// function value, untyped nil, a non-function), alone and together with a real handler. Event families only.
func absentOffs(nev int) []op {
	var ops []op
	for ev := 0; ev < nev; ev++ {
		for _, k := range []int{hForeign, hNilFunc, hNil, hNotFunc} {
			ops = append(ops, op{"off", ev, []int{k}}, op{"off", ev, []int{k, 0}})
		}
		ops = append(ops, op{"off", ev, []int{hNilFunc, hNil}})
	}
	return ops
}

// ---------------------------------------------------------------- families (real objects)

// inst is one fresh real registry (or API object wrapping one).
type inst interface {
	do(o op)           // perform a non-fire op
	fire(ev int) []int // trigger an occurrence; returns the handlers that ran, in order
	lists(ev int) (on, once []int, ok bool)
}

type family struct {
	name     string
	nev      int
	multiOff bool
	vs       bool // needs the scheduler (spawns goroutines)
	fresh    func() inst
	absent   bool // Off(...) also with things that are not registered handlers (event families: handlers are `any`)
}

var ran []int // log of handler invocations (reset per fire)
var ranV vsched.Var

func note(h int) { ranV.Do(func() { ran = append(ran, h) }) }

// --- handlerStore[*fn] at store level: identity is the pointer
type tfn func()

// A is a plain function; B and C are two closures of ONE function literal (same code pointer,
// different function values): removing B must not remove C.
//
//go:noinline
func mkT(id int) tfn { return func() { note(id) } }

var tfns = [3]tfn{func() { note(0) }, mkT(1), mkT(2)}

type hsInst struct {
	s sio.VerifHandlerStore[*tfn]
}

func (i *hsInst) ptrs(hs []int) []*tfn {
	var out []*tfn
	for _, h := range hs {
		out = append(out, &tfns[h])
	}
	return out
}
func (i *hsInst) do(o op) {
	switch o.kind {
	case "on":
		i.s.On(&tfns[o.hs[0]])
	case "once":
		i.s.Once(&tfns[o.hs[0]])
	case "off":
		i.s.Off(i.ptrs(o.hs)...)
	case "offall":
		i.s.OffAll()
	}
}
func (i *hsInst) fire(ev int) []int {
	ran = nil
	i.s.ForEach(func(f *tfn) { (*f)() }, false)
	return ran
}
func (i *hsInst) lists(ev int) (on, once []int, ok bool) {
	f, o := i.s.Lists()
	idx := func(p *tfn) int {
		for k := range tfns {
			if p == &tfns[k] {
				return k
			}
		}
		return -1
	}
	for _, p := range f {
		on = append(on, idx(p))
	}
	for _, p := range o {
		once = append(once, idx(p))
	}
	return on, once, true
}

// --- handlerStore with a sub event: the library's own subscription (a client socket listening to its manager's
// open / error / close events is registered this way). It is no handler of the application: no Off, no OffAll
// removes it, and it runs for every occurrence.
type hsSubInst struct{ hsInst }

var subFn tfn = func() { note(9) }

func newHSSubInst() inst {
	i := &hsSubInst{hsInst{sio.VerifNewHandlerStore[*tfn]()}}
	i.s.OnSub(&subFn)
	return i
}

func (i *hsSubInst) fire(ev int) []int {
	all := i.hsInst.fire(ev)
	var out []int
	subs := 0
	for _, h := range all {
		if h == 9 {
			subs++
			continue
		}
		out = append(out, h)
	}
	if subs != 1 {
		return append([]int{-9 - subs}, out...) // the model never says this: reported as a wrong set of handlers
	}
	return out
}

// lists: the reference model merges states that differ only in what the library subscribed (it believes that
// to be invariant), so the subscription is checked after EVERY operation, not only when an occurrence follows.
func (i *hsSubInst) lists(ev int) (on, once []int, ok bool) {
	on, once, ok = i.hsInst.lists(ev)
	if subs := i.s.Subs(); len(subs) != 1 || subs[0] != &subFn {
		on = append([]int{-9 - len(subs)}, on...)
	}
	return
}

// --- eventHandlerStore at store level: identity is the code pointer
func evA() { note(0) }

//go:noinline
func mkEv(id int) func() { return func() { note(id) } }

var evFns = [3]func(){evA, mkEv(1), mkEv(2)}

// funcID is the identity of a function value (address of its closure object).
func funcID(rv reflect.Value) unsafe.Pointer {
	f := rv.Interface()
	return (*[2]unsafe.Pointer)(unsafe.Pointer(&f))[1]
}

var evNames = [2]string{"e1", "e1x"} // one name is a prefix of the other

type ehInst struct{ s sio.VerifEventHandlerStore }

func anyFns(hs []int) []any {
	if hs == nil {
		return nil
	}
	out := make([]any, len(hs))
	for i, h := range hs {
		switch h {
		case hForeign:
			out[i] = foreignFn // a function that is never registered
		case hNilFunc:
			var f func()
			out[i] = f // a nil function value
		case hNil:
			out[i] = nil // untyped nil
		case hNotFunc:
			out[i] = 42 // not a function at all
		default:
			out[i] = evFns[h]
		}
	}
	return out
}

// handler ids >= 3 name nothing that is (or can be) registered: Off with them removes nothing.
const (
	hForeign = 3 + iota
	hNilFunc
	hNil
	hNotFunc
)

func foreignFn() { note(99) }
func (i *ehInst) do(o op) {
	switch o.kind {
	case "on":
		i.s.On(evNames[o.ev], evFns[o.hs[0]])
	case "once":
		i.s.Once(evNames[o.ev], evFns[o.hs[0]])
	case "off":
		i.s.Off(evNames[o.ev], anyFns(o.hs)...)
	case "offall":
		i.s.OffAll()
	}
}
func (i *ehInst) fire(ev int) []int {
	ran = nil
	i.s.Fire(evNames[ev])
	return ran
}
func codeIdx(p reflect.Value) int {
	for k, f := range evFns {
		if funcID(reflect.ValueOf(f)) == funcID(p) {
			return k
		}
	}
	return -1
}
func (i *ehInst) lists(ev int) (on, once []int, ok bool) {
	a, b := i.s.Lists(evNames[ev])
	for _, p := range a {
		on = append(on, codeIdx(p))
	}
	for _, p := range b {
		once = append(once, codeIdx(p))
	}
	return on, once, true
}

// --- Server.On/Once/OffNewNamespace, fired by Of(fresh)
func nnA(*sio.Namespace) { note(0) }

//go:noinline
func mkNN(id int) sio.ServerNewNamespaceFunc {
	return func(*sio.Namespace) { note(id) }
}

var nnFns = [3]sio.ServerNewNamespaceFunc{nnA, mkNN(1), mkNN(2)}

type nnInst struct {
	srv *sio.Server
	n   int
}

func (i *nnInst) do(o op) {
	switch o.kind {
	case "on":
		i.srv.OnNewNamespace(nnFns[o.hs[0]])
	case "once":
		i.srv.OnceNewNamespace(nnFns[o.hs[0]])
	case "off":
		var fs []sio.ServerNewNamespaceFunc
		for _, h := range o.hs {
			fs = append(fs, nnFns[h])
		}
		i.srv.OffNewNamespace(fs...)
	case "offall":
		i.srv.OffNewNamespace()
	}
}
func (i *nnInst) fire(ev int) []int {
	ran = nil
	i.n++
	i.srv.Of(fmt.Sprintf("/fresh%d", i.n))
	vrig.Settle(time.Second)
	return ran
}
func (i *nnInst) lists(int) ([]int, []int, bool) { return nil, nil, false }

// --- Namespace.On/Once/OffEvent/OffAll, fired by OnServerSideEmit
type nsInst struct{ nsp *sio.Namespace }

func (i *nsInst) do(o op) {
	switch o.kind {
	case "on":
		i.nsp.OnEvent(evNames[o.ev], evFns[o.hs[0]])
	case "once":
		i.nsp.OnceEvent(evNames[o.ev], evFns[o.hs[0]])
	case "off":
		i.nsp.OffEvent(evNames[o.ev], anyFns(o.hs)...)
	case "offall":
		i.nsp.OffAll()
	}
}
func (i *nsInst) fire(ev int) []int {
	ran = nil
	i.nsp.OnServerSideEmit(evNames[ev])
	vrig.Settle(time.Second)
	return ran
}
func (i *nsInst) lists(int) ([]int, []int, bool) { return nil, nil, false }

// --- ServerSocket.On/Once/OffEvent/OffAll over rig R1, fired by EVENT frames
type ssInst struct {
	f    *vrig.FakeEIO
	sock sio.ServerSocket
}

func newSSInst() inst {
	srv := sio.NewServer(nil)
	i := &ssInst{}
	srv.OnConnection(func(s sio.ServerSocket) { ranV.Do(func() { i.sock = s }) })
	i.f = vrig.NewFakeEIO(srv, "c18")
	i.f.ConnectNS("/")
	vsched.Await(func() bool { return i.sock != nil })
	return i
}
func (i *ssInst) do(o op) {
	switch o.kind {
	case "on":
		i.sock.OnEvent(evNames[o.ev], evFns[o.hs[0]])
	case "once":
		i.sock.OnceEvent(evNames[o.ev], evFns[o.hs[0]])
	case "off":
		i.sock.OffEvent(evNames[o.ev], anyFns(o.hs)...)
	case "offall":
		i.sock.OffAll()
	}
}
func (i *ssInst) fire(ev int) []int {
	ran = nil
	i.f.In(`2["` + evNames[ev] + `"]`)
	vrig.Settle(time.Second)
	return ran
}
func (i *ssInst) lists(int) ([]int, []int, bool) { return nil, nil, false }

// --- ServerSocket.On/Once/OffError (a handlerStore wrapper with func identity), fired by an event
// whose argument cannot be decoded into the handler's parameter.
func erA(error) { note(0) }

//go:noinline
func mkEr(id int) sio.ServerSocketErrorFunc {
	return func(error) { note(id) }
}

var erFns = [3]sio.ServerSocketErrorFunc{erA, mkEr(1), mkEr(2)}

type seInst struct {
	ssInst
}

func newSEInst() inst {
	b := newSSInst().(*ssInst)
	b.sock.OnEvent("bad", func(n int) {})
	return &seInst{*b}
}
func (i *seInst) do(o op) {
	switch o.kind {
	case "on":
		i.sock.OnError(erFns[o.hs[0]])
	case "once":
		i.sock.OnceError(erFns[o.hs[0]])
	case "off":
		var fs []sio.ServerSocketErrorFunc
		for _, h := range o.hs {
			fs = append(fs, erFns[h])
		}
		i.sock.OffError(fs...)
	case "offall":
		i.sock.OffError()
	}
}
func (i *seInst) fire(ev int) []int {
	ran = nil
	i.f.In(`2["bad","not a number"]`)
	vrig.Settle(time.Second)
	return ran
}

func families(tier string) []family {
	return []family{
		{"handlerStore", 1, true, false, func() inst { return &hsInst{sio.VerifNewHandlerStore[*tfn]()} }, false},
		{"handlerStore with a library subscription (sub event)", 1, true, false, newHSSubInst, false},
		{"eventHandlerStore", 2, true, false, func() inst { return &ehInst{sio.VerifNewEventHandlerStore()} }, true},
		{"Server.NewNamespace", 1, true, true, func() inst { return &nnInst{srv: sio.NewServer(nil)} }, false},
		{"Namespace.Event", 2, true, true, func() inst { return &nsInst{sio.NewServer(nil).Of("/x")} }, true},
		{"ServerSocket.Event", 2, true, true, newSSInst, true},
		{"ServerSocket.Error", 1, true, true, newSEInst, false},
	}
}

// ---------------------------------------------------------------- BFS

type bfsStats struct {
	states, transitions, replays int
}

// replay runs a history on a fresh instance; returns what each op observed and the first failure.
func replay(f family, hist []op) (fail string, failKind string) {
	body := func() {
		defer func() {
			if r := recover(); r != nil {
				fail = fmt.Sprintf("panic: %v", r)
				failKind = "panics"
			}
		}()
		in := f.fresh()
		m := newModel(f.nev)
		for k, o := range hist {
			want := m.apply(o)
			if o.kind == "fire" {
				got := in.fire(o.ev)
				if fmt.Sprint(got) != fmt.Sprint(want) {
					fail = fmt.Sprintf("step %d %v: handlers run %v, reference model %v", k, o, names(got), names(want))
					failKind = "runs the wrong handlers"
					return
				}
			} else {
				in.do(o)
			}
			for ev := 0; ev < f.nev; ev++ {
				on, once, ok := in.lists(ev)
				if !ok {
					continue
				}
				if fmt.Sprint(on) != fmt.Sprint(m.on[ev]) || fmt.Sprint(once) != fmt.Sprint(m.once[ev]) {
					fail = fmt.Sprintf("step %d %v: registry e%d on=%v once=%v, reference model on=%v once=%v", k, o, ev, names(on), names(once), names(m.on[ev]), names(m.once[ev]))
					failKind = "leaves the wrong handlers registered"
					return
				}
			}
		}
	}
	if f.vs {
		e := vsched.Run(vsched.Options{Horizon: time.Hour}, func(e *vsched.Exec) { body() })
		if e.HarnessErr != "" {
			replayHarnessErrs = append(replayHarnessErrs, e.HarnessErr)
		}
		if fail == "" && len(e.Panics) > 0 {
			fail, failKind = e.Panics[0], "panics"
		}
		if fail == "" && e.Deadlock != "" {
			fail, failKind = "deadlock: "+e.Deadlock, "deadlocks"
		}
		if fail == "" {
			if h := e.HeldLocks(); len(h) > 0 {
				fail, failKind = fmt.Sprint(h), "leaves a mutex held"
			}
		}
	} else {
		body()
	}
	return
}

// replayHarnessErrs: replays whose body did not run to its end (filed as harness errors by bfs).
var replayHarnessErrs []string

func names(l []int) string {
	var s []string
	for _, x := range l {
		if x <= -9 {
			s = append(s, fmt.Sprintf("<the library's own subscription ran %d times instead of once>", -9-x))
		} else if x < 0 {
			s = append(s, "?")
		} else {
			s = append(s, string(rune('A'+x)))
		}
	}
	return "[" + strings.Join(s, " ") + "]"
}

func opShape(o op) string {
	switch {
	case o.kind == "off" && len(o.hs) == 0:
		return "Off()"
	case o.kind == "off" && o.hs[0] >= hForeign:
		return "Off(something that is not a registered handler" + map[bool]string{true: ", h", false: ""}[len(o.hs) > 1 && o.hs[1] < hForeign] + ")"
	case o.kind == "off" && len(o.hs) == 1:
		return "Off(h)"
	case o.kind == "off" && len(o.hs) >= 2:
		dup := false
		for a := range o.hs {
			for b := range o.hs {
				if a != b && o.hs[a] == o.hs[b] {
					dup = true
				}
			}
		}
		if dup {
			return "Off(h,h)"
		}
		return "Off(h,h',..)"
	}
	return o.kind
}

func bfs(f family, depth int, r *vx.Report, deadline time.Time) {
	ops := alphabet(f.nev, f.multiOff)
	if f.absent {
		ops = append(ops, absentOffs(f.nev)...)
	}
	type node struct {
		hist []op
		m    *model
	}
	seen := map[string]bool{newModel(f.nev).key(): true}
	frontier := []node{{nil, newModel(f.nev)}}
	states, trans := 1, 0
	nontrivial := map[string]bool{}
	for d := 0; d < depth && len(frontier) > 0; d++ {
		var next []node
		for _, n := range frontier {
			if time.Now().After(deadline) {
				r.CapsHit = append(r.CapsHit, fmt.Sprintf("%s: deadline at depth %d", f.name, d))
				goto done
			}
			for _, o := range ops {
				hist := append(append([]op{}, n.hist...), o)
				trans++
				r.Evaluations++
				fail, kind := replay(f, hist)
				if fail == "" && f.vs && o.kind != "fire" {
					// the registry behind a public wrapper cannot be read back: observe the state
					// reached by firing every event once (on a separate replay)
					for ev := 0; ev < f.nev && fail == ""; ev++ {
						trans++
						r.Evaluations++
						fail, kind = replay(f, append(append([]op{}, hist...), op{"fire", ev, nil}))
					}
				}
				if fail != "" {
					// identify by family, operation shape and failure kind, plus whether a handler
					// was registered more than once (the history shape that matters)
					dupReg := ""
					for ev := range n.m.on {
						all := append(append([]int{}, n.m.on[ev]...), n.m.once[ev]...)
						for a := range all {
							for b := range all {
								if a != b && all[a] == all[b] {
									dupReg = " with a handler registered twice"
								}
							}
						}
					}
					key := fmt.Sprintf("%s: %s%s %s", f.name, opShape(o), dupReg, kind)
					r.Violate(key, fmt.Sprintf("history %v: %s", hist, fail), map[string]any{"family": f.name, "history": fmt.Sprint(hist)})
					continue
				}
				m := n.m.clone()
				m.apply(o)
				k := m.key()
				if len(hist) >= 2 {
					nontrivial[fmt.Sprint(hist)] = true
				}
				if !seen[k] {
					seen[k] = true
					states++
					next = append(next, node{hist, m})
				}
			}
		}
		frontier = next
	}
done:
	r.HarnessErrs = append(r.HarnessErrs, replayHarnessErrs...)
	replayHarnessErrs = nil
	r.States += states
	r.Transitions += trans
	r.TracesValidated += trans
	r.DistinctNontriv += len(nontrivial)
	r.Extra["bfs/"+f.name] = map[string]any{"canonical_states": states, "transitions_replayed_on_real_object": trans, "depth": depth, "alphabet": len(ops)}
	if len(r.Samples) < 6 {
		for h := range nontrivial {
			r.Sample(map[string]any{"family": f.name, "history": h})
			break
		}
	}
}

// ---------------------------------------------------------------- concurrent scenarios

func concScenario(name string, fires int, withOff, withOn bool) *vx.Scenario {
	sc := &vx.Scenario{Name: name, PreemptOnly: true, Unbounded: true}
	sc.Body = func(e *vsched.Exec) func() vx.Result {
		s := sio.VerifNewHandlerStore[*tfn]()
		var v vsched.Var
		counts := [3]int{}
		fs := [3]tfn{}
		for i := range fs {
			i := i
			fs[i] = func() { v.Do(func() { counts[i]++ }) } // closures of one literal: distinct handlers
		}
		s.Once(&fs[0]) // h: once
		s.On(&fs[1])   // g: registered before all fires
		for k := 0; k < fires; k++ {
			vsched.GoQuiet(fmt.Sprintf("fire%d", k), func() {
				s.ForEach(func(f *tfn) { (*f)() }, false)
			})
		}
		if withOff {
			vsched.GoQuiet("off", func() { s.Off(&fs[0]) })
		}
		if withOn {
			vsched.GoQuiet("on", func() { s.On(&fs[2]) })
		}
		return func() vx.Result {
			var r vx.Result
			r.Outcome = fmt.Sprint(counts)
			if counts[0] > 1 {
				r.Violate("handlerStore: Once handler ran more than once under racing occurrences", "once handler ran %d times for %d racing occurrences", counts[0], fires)
			}
			if !withOff && counts[0] != 1 {
				r.Violate("handlerStore: Once handler did not run", "once handler ran %d times", counts[0])
			}
			if counts[1] != fires {
				r.Violate("handlerStore: On handler missed an occurrence", "on handler ran %d times for %d occurrences", counts[1], fires)
			}
			if counts[2] > fires {
				r.Violate("handlerStore: handler ran more often than occurrences", "late handler ran %d times", counts[2])
			}
			return r
		}
	}
	return sc
}

// concOverlapScenario: two occurrences overlap (the handlers of the first are still running when the second
// is dispatched) while a handler is registered in between. nOn On handlers are registered first, so that the
// store's On list has every small length / spare capacity (1, 2, 3, 5 handlers: capacities 1, 2, 4, 8).
// late = "once": a second Once handler is registered before the second occurrence; "on": an On handler is.
func concOverlapScenario(name string, nOn int, late string) *vx.Scenario {
	sc := &vx.Scenario{Name: name, PreemptOnly: true, Unbounded: true}
	sc.Body = func(e *vsched.Exec) func() vx.Result {
		s := sio.VerifNewHandlerStore[*tfn]()
		var v vsched.Var
		counts := make([]int, nOn+3)
		fs := make([]tfn, nOn+3)
		for i := range fs {
			i := i
			fs[i] = func() { v.Do(func() { counts[i]++ }) }
		}
		for i := 0; i < nOn; i++ {
			s.On(&fs[i])
		}
		h1, h2, g := nOn, nOn+1, nOn+2
		s.Once(&fs[h1])
		vsched.GoQuiet("occurrence1", func() { s.ForEach(func(f *tfn) { (*f)() }, false) })
		vsched.GoQuiet("register-then-occurrence2", func() {
			switch late {
			case "once":
				s.Once(&fs[h2])
			case "on":
				s.On(&fs[g])
			}
			s.ForEach(func(f *tfn) { (*f)() }, false)
		})
		return func() vx.Result {
			var r vx.Result
			r.Outcome = fmt.Sprint(counts)
			ctx := fmt.Sprintf("%d On handlers, Once handler h1 registered before two overlapping occurrences, %s handler registered before the second: run counts on=%v h1=%d h2=%d late-on=%d", nOn, late, counts[:nOn], counts[h1], counts[h2], counts[g])
			if counts[h1] > 1 || counts[h2] > 1 {
				r.Violate("handlerStore: Once handler ran more than once under racing occurrences", "%s", ctx)
			}
			if counts[h1] != 1 || (late == "once" && counts[h2] != 1) {
				r.Violate("handlerStore: Once handler did not run", "%s", ctx)
			}
			for i := 0; i < nOn; i++ {
				if counts[i] != 2 {
					r.Violate("handlerStore: On handler missed an occurrence", "%s", ctx)
				}
			}
			if late == "on" && (counts[g] < 1 || counts[g] > 2) {
				r.Violate("handlerStore: On handler registered before an occurrence did not run for it (or ran more often than occurrences)", "%s", ctx)
			}
			return r
		}
	}
	return sc
}

func concEventScenario(name string, fires int, withOff bool) *vx.Scenario {
	sc := &vx.Scenario{Name: name, PreemptOnly: true, Unbounded: true}
	sc.Body = func(e *vsched.Exec) func() vx.Result {
		s := sio.VerifNewEventHandlerStore()
		var v vsched.Var
		a, b := 0, 0
		s.Once("e1", func() { v.Do(func() { a++ }) })
		s.On("e1", func() { v.Do(func() { b++ }) })
		for k := 0; k < fires; k++ {
			vsched.GoQuiet(fmt.Sprintf("fire%d", k), func() { s.Fire("e1") })
		}
		if withOff {
			vsched.GoQuiet("off-other", func() { s.Off("e1x") })
		}
		return func() vx.Result {
			var r vx.Result
			r.Outcome = fmt.Sprint(a, b)
			if a != 1 {
				r.Violate("eventHandlerStore: Once handler count under racing occurrences", "once handler ran %d times for %d racing occurrences", a, fires)
			}
			if b != fires {
				r.Violate("eventHandlerStore: On handler missed an occurrence", "on handler ran %d times for %d occurrences", b, fires)
			}
			return r
		}
	}
	return sc
}

// clientSocketOccurrences: the handlers of a ClientSocket, with occurrences that arrive BEFORE the CONNECT reply
// (the client keeps them in its receive buffer, one entry per handler, and runs them once it is connected) and
// after it, with and without an ack id, against a raw Socket.IO endpoint (the repo's eio.Server driven by the
// harness). Two On handlers and one Once handler on the event: every On handler runs for every occurrence, the
// Once handler for exactly the first.
func clientSocketOccurrences(name string, early []string, late []string, bound int, recovery ...bool) *vx.Scenario {
	sc := &vx.Scenario{Name: name, Bound: bound, Horizon: 20 * time.Second}
	// recovery: the endpoint behaves like a server with connection state recovery - its CONNECT reply carries a
	// private session id and every event without an ack id carries its offset as an extra last argument
	// (seed c18i: the client skipped every handler but the first once it had noted the packet's offset)
	connectReply := `0{"sid":"sid0"}`
	if len(recovery) > 0 && recovery[0] {
		connectReply = `0{"sid":"sid0","pid":"pid0"}`
		late = append([]string{}, late...)
		for i, fr := range late {
			hdr := strings.Index(fr, "[")
			if fr == "ATTACHMENT" || hdr < 0 {
				continue
			}
			if c := fr[hdr-1]; hdr > 1 && c >= '0' && c <= '9' {
				continue // carries an ack id: no offset
			}
			late[i] = fr[:len(fr)-1] + fmt.Sprintf(`,"offset-%d"]`, i)
		}
	}
	sc.Body = func(e *vsched.Exec) func() vx.Result {
		var v vsched.Var
		var ssock eio.ServerSocket
		gotConnect := false
		es := eio.NewServer(func(s eio.ServerSocket) *eio.Callbacks {
			v.Do(func() { ssock = s })
			return &eio.Callbacks{OnPacket: func(ps ...*eioparser.Packet) {
				for _, p := range ps {
					if p.Type == eioparser.PacketTypeMessage && strings.HasPrefix(string(p.Data), "0") {
						v.Do(func() { gotConnect = true })
					}
				}
			}}
		}, &eio.ServerConfig{})
		link := &vrig.Inproc{H: es}
		mcfg := &sio.ManagerConfig{NoReconnection: true}
		mcfg.EIO.Transports = []string{"polling"}
		mcfg.EIO.HTTPTransport = link
		mgr := sio.NewManager("http://inproc/socket.io/", mcfg)
		counts := [3]int{}
		sock := mgr.Socket("/", nil)
		sock.OnEvent("e", func() { v.Do(func() { counts[0]++ }) })
		sock.OnEvent("e", func() { v.Do(func() { counts[1]++ }) })
		sock.OnceEvent("e", func() { v.Do(func() { counts[2]++ }) })
		// the same three handlers on an event that carries an attachment: every handler decodes the packet
		// for itself, and each must get the bytes
		okBin := func(b sio.Binary) bool { return string(b) == "\x07\x08" }
		sock.OnEvent("b", func(b sio.Binary) {
			if okBin(b) {
				v.Do(func() { counts[0]++ })
			}
		})
		sock.OnEvent("b", func(b sio.Binary) {
			if okBin(b) {
				v.Do(func() { counts[1]++ })
			}
		})
		sock.OnceEvent("b", func(b sio.Binary) {
			if okBin(b) {
				v.Do(func() { counts[2]++ })
			}
		})
		send := func(fr string) {
			if fr == "ATTACHMENT" {
				ssock.Send(vrig.Bin([]byte{7, 8}))
				return
			}
			ssock.Send(vrig.Msg(fr))
		}
		occurrences := func(l []string) int {
			n := 0
			for _, fr := range l {
				if fr != "ATTACHMENT" {
					n++
				}
			}
			return n
		}
		connected := false
		sock.OnConnect(func() { v.Do(func() { connected = true }) })
		sock.Connect()
		vsched.GoQuiet("raw-server", func() {
			vsched.Await(func() bool { return gotConnect && ssock != nil })
			for _, fr := range early {
				send(fr)
			}
			ssock.Send(vrig.Msg(connectReply))
			vsched.Await(func() bool { return connected })
			for _, fr := range late {
				send(fr)
			}
		})
		return func() vx.Result {
			var r vx.Result
			n := occurrences(early) + occurrences(late)
			r.Outcome = fmt.Sprint(counts)
			ctx := fmt.Sprintf("the endpoint sent %q before its CONNECT reply and %q after it; the two On handlers of 'e' ran %d and %d times, the Once handler %d time(s)", early, late, counts[0], counts[1], counts[2])
			if counts[0] != n || counts[1] != n {
				r.Violate("ClientSocket.Event: an On handler did not run once for every occurrence (occurrences buffered until the socket is connected included)", "%s", ctx)
			}
			if counts[2] > 1 {
				r.Violate("ClientSocket.Event: Once handler ran more than once", "%s", ctx)
			}
			if counts[2] < 1 && n > 0 {
				r.Violate("ClientSocket.Event: Once handler did not run for the first occurrence", "%s", ctx)
			}
			return r
		}
	}
	return sc
}

func scenarios(tier string) []*vx.Scenario {
	s := []*vx.Scenario{
		concScenario("handlerStore/2fires", 2, false, false),
		concScenario("handlerStore/2fires-off", 2, true, false),
		concScenario("handlerStore/2fires-off-on", 2, true, true),
		concScenario("handlerStore/3fires", 3, false, false),
		concEventScenario("eventHandlerStore/2fires", 2, false),
		concEventScenario("eventHandlerStore/3fires-off-other", 3, true),
	}
	for _, nOn := range []int{1, 2, 3, 5} {
		for _, late := range []string{"once", "on"} {
			s = append(s, concOverlapScenario(fmt.Sprintf("handlerStore/overlapping-occurrences/%d-on-handlers/late-%s", nOn, late), nOn, late))
		}
	}
	s = append(s,
		clientSocketOccurrences("ClientSocket/occurrences-after-connect", nil, []string{`2["e"]`, `25["e"]`}, 1),
		clientSocketOccurrences("ClientSocket/recovery-session/occurrences-after-connect", nil, []string{`2["e"]`, `25["e"]`, `2["e"]`}, 1, true),
		clientSocketOccurrences("ClientSocket/recovery-session/occurrences-with-an-attachment-after-connect", nil, []string{`51-["b",{"_placeholder":true,"num":0}]`, "ATTACHMENT", `51-["b",{"_placeholder":true,"num":0}]`, "ATTACHMENT"}, 1, true),
		clientSocketOccurrences("ClientSocket/occurrence-buffered-before-the-CONNECT-reply", []string{`2["e"]`}, []string{`2["e"]`}, 1),
		clientSocketOccurrences("ClientSocket/occurrence-with-ack-id-buffered-before-the-CONNECT-reply", []string{`27["e"]`}, []string{`2["e"]`}, 1),
		clientSocketOccurrences("ClientSocket/two-buffered-occurrences-with-and-without-ack-id", []string{`27["e"]`, `2["e"]`}, []string{`28["e"]`}, 1),
		clientSocketOccurrences("ClientSocket/occurrences-with-an-attachment-after-connect", nil, []string{`51-["b",{"_placeholder":true,"num":0}]`, "ATTACHMENT", `51-["b",{"_placeholder":true,"num":0}]`, "ATTACHMENT"}, 1),
		clientSocketOccurrences("ClientSocket/occurrence-with-an-attachment-buffered-before-the-CONNECT-reply", []string{`51-["b",{"_placeholder":true,"num":0}]`, "ATTACHMENT"}, []string{`51-3["b",{"_placeholder":true,"num":0}]`, "ATTACHMENT"}, 1))
	if tier == "thorough" {
		s = append(s, concScenario("handlerStore/3fires-off-on", 3, true, true))
	}
	return s
}

func main() {
	vx.Main(vx.Config{
		Property: "C18",
		Level:    "model_checking",
		Rule: "explicit-state BFS: every history of On/Once/Off(0..3 handlers, incl. duplicates; for the event families also Off naming a never-registered function, a nil function value, untyped nil or a non-function, alone and next to a real handler)/OffAll/fire over 3 handlers x 1-2 events (one name a prefix of the other) up to the depth shown per family, " +
			"each replayed on a fresh real registry / public wrapper and compared step by step with a reference list model; plus all interleavings of racing occurrences with Off/On, overlapping occurrences with a late registration, and a ClientSocket's handlers with occurrences buffered before the CONNECT reply (raw endpoint). " +
			"distinct_nontrivial counts distinct histories of length >= 2 (BFS) and deviating schedules (concurrent part)",
		Scenarios: scenarios,
		Budget: func(tier string) time.Duration {
			if tier == "thorough" {
				return 10 * time.Minute
			}
			return 60 * time.Second
		},
		Extra: func(tier string, r *vx.Report) {
			depth := 4
			budget := 60 * time.Second
			if tier == "thorough" {
				depth = 5
				budget = 8 * time.Minute
			}
			deadline := time.Now().Add(budget)
			for _, f := range families(tier) {
				d := depth
				if f.vs && d > 3 && tier != "thorough" {
					d = 3
				}
				if f.vs && tier == "thorough" {
					d = 4
				}
				bfs(f, d, r, deadline)
			}
		},
		Assumptions: []string{
			"a handler is a function value: handler A is a top-level function, B and C are two closures of one function literal (same code, different values) and count as different handlers",
			"Off(h) with h registered twice: the reference model removes every registration of h",
		},
	})
}
