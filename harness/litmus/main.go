// Litmus suite for the trusted base (vsched + explorer): small programs whose complete set of outcomes
// is known from the Go specification / memory model. For each program the set of outcomes explored
// (unbounded, with and without happens-before caching) must equal the expected set exactly.
// Exit 0 = all equal; exit 2 otherwise (this is a machinery test, not a property check).
package main

import (
	"fmt"
	"os"
	"sort"
	"strings"
	"time"

	vx "github.com/karagenc/socket.io-go/internal/vexplore"
	"github.com/karagenc/socket.io-go/internal/vsched"
)

type litmus struct {
	name   string
	expect []string
	early  bool
	body   func(e *vsched.Exec, out *[]string, v *vsched.Var)
}

func rec(out *[]string, v *vsched.Var, s string) { v.Do(func() { *out = append(*out, s) }) }

var tests = []litmus{
	{"mutex-two-appenders", []string{"a b", "b a"}, false, func(e *vsched.Exec, out *[]string, v *vsched.Var) {
		var mu vsched.Mutex
		var log []string
		for _, n := range []string{"a", "b"} {
			n := n
			vsched.GoQuiet(n, func() { mu.Lock(); log = append(log, n); mu.Unlock() })
		}
		vsched.GoQuiet("join", func() {
			vsched.Sleep(time.Second)
			rec(out, v, strings.Join(log, " "))
		})
	}},
	{"mutex-three-appenders", []string{"a b c", "a c b", "b a c", "b c a", "c a b", "c b a"}, false, func(e *vsched.Exec, out *[]string, v *vsched.Var) {
		var mu vsched.Mutex
		var log []string
		for _, n := range []string{"a", "b", "c"} {
			n := n
			vsched.GoQuiet(n, func() { mu.Lock(); log = append(log, n); mu.Unlock() })
		}
		vsched.GoQuiet("join", func() {
			vsched.Sleep(time.Second)
			rec(out, v, strings.Join(log, " "))
		})
	}},
	{"lost-update-without-lock", []string{"1", "2"}, false, func(e *vsched.Exec, out *[]string, v *vsched.Var) {
		var x vsched.AtomicValue
		x.Store(0)
		for _, n := range []string{"a", "b"} {
			vsched.GoQuiet(n, func() { t := x.Load().(int); x.Store(t + 1) })
		}
		vsched.GoQuiet("join", func() {
			vsched.Sleep(time.Second)
			rec(out, v, fmt.Sprint(x.Load()))
		})
	}},
	{"typed-atomic-add-never-loses-an-update", []string{"2"}, false, func(e *vsched.Exec, out *[]string, v *vsched.Var) {
		var x vsched.AtomicInt32
		for _, n := range []string{"a", "b"} {
			vsched.GoQuiet(n, func() { x.Add(1) })
		}
		vsched.GoQuiet("join", func() {
			vsched.Sleep(time.Second)
			rec(out, v, fmt.Sprint(x.Load()))
		})
	}},
	{"typed-atomic-load-then-store-loses-an-update", []string{"1", "2"}, false, func(e *vsched.Exec, out *[]string, v *vsched.Var) {
		var x vsched.AtomicInt64
		for _, n := range []string{"a", "b"} {
			vsched.GoQuiet(n, func() { t := x.Load(); x.Store(t + 1) })
		}
		vsched.GoQuiet("join", func() {
			vsched.Sleep(time.Second)
			rec(out, v, fmt.Sprint(x.Load()))
		})
	}},
	{"typed-atomic-bool-cas-has-one-winner", []string{"a", "b"}, false, func(e *vsched.Exec, out *[]string, v *vsched.Var) {
		var x vsched.AtomicBool
		var log []string
		var mu vsched.Mutex
		for _, n := range []string{"a", "b"} {
			n := n
			vsched.GoQuiet(n, func() {
				if x.CompareAndSwap(false, true) {
					mu.Lock()
					log = append(log, n)
					mu.Unlock()
				}
			})
		}
		vsched.GoQuiet("join", func() {
			vsched.Sleep(time.Second)
			rec(out, v, strings.Join(log, " "))
		})
	}},
	{"function-form-atomic-on-a-plain-variable", []string{"flag-seen data=7", "flag-unseen"}, false, func(e *vsched.Exec, out *[]string, v *vsched.Var) {
		var flag uint32
		var data vsched.AtomicPointer[int]
		vsched.GoQuiet("writer", func() {
			seven := 7
			data.Store(&seven)
			vsched.AtomicStoreUint32(&flag, 1)
		})
		vsched.GoQuiet("reader", func() {
			if vsched.AtomicLoadUint32(&flag) == 1 {
				rec(out, v, fmt.Sprintf("flag-seen data=%d", *data.Load()))
			} else {
				rec(out, v, "flag-unseen")
			}
		})
	}},
	{"unbuffered-nonblocking-send-lost", []string{"delivered", "lost"}, false, func(e *vsched.Exec, out *[]string, v *vsched.Var) {
		ch := make(chan struct{})
		vsched.GoQuiet("recv", func() {
			switch vsched.Select(false, vsched.Recv(ch), vsched.Recv(vsched.After(time.Second))) {
			case 0:
				rec(out, v, "delivered")
			case 1:
				rec(out, v, "lost")
			}
		})
		vsched.GoQuiet("send", func() { vsched.Select(true, vsched.Send(ch)) })
	}},
	{"buffered-nonblocking-send-never-lost", []string{"delivered"}, false, func(e *vsched.Exec, out *[]string, v *vsched.Var) {
		ch := make(chan struct{}, 1)
		vsched.GoQuiet("recv", func() {
			switch vsched.Select(false, vsched.Recv(ch), vsched.Recv(vsched.After(time.Second))) {
			case 0:
				rec(out, v, "delivered")
			case 1:
				rec(out, v, "lost")
			}
		})
		vsched.GoQuiet("send", func() { vsched.Select(true, vsched.Send(ch)) })
	}},
	{"newtimer-vs-done-channel", []string{"done at 500ms"}, false, func(e *vsched.Exec, out *[]string, v *vsched.Var) {
		done := make(chan struct{})
		vsched.GoQuiet("waiter", func() {
			t := vsched.NewTimer(time.Second)
			switch vsched.Select(false, vsched.Recv(done), vsched.Recv(t.C)) {
			case 0:
				t.Stop()
				vsched.Sleep(5 * time.Second)
				if vsched.Select(true, vsched.Recv(t.C)) == 0 {
					rec(out, v, "stopped timer fired")
					return
				}
				rec(out, v, "done at 500ms")
			case 1:
				rec(out, v, "timeout")
			}
		})
		vsched.GoQuiet("closer", func() { vsched.Sleep(time.Second / 2); vsched.Close(done) })
	}},
	{"newtimer-stopped-never-fires-reset-fires", []string{"stopped=true fired-after-reset at 5s"}, false, func(e *vsched.Exec, out *[]string, v *vsched.Var) {
		t := vsched.NewTimer(time.Second)
		was := t.Stop()
		vsched.Sleep(2 * time.Second)
		if vsched.Select(true, vsched.Recv(t.C)) == 0 {
			rec(out, v, "stopped timer fired")
			return
		}
		t.Reset(3 * time.Second)
		vsched.Select(false, vsched.Recv(t.C))
		rec(out, v, fmt.Sprintf("stopped=%v fired-after-reset at %v", was, e.Clock()))
	}},
	{"ticker-ticks-every-period-until-stopped", []string{"ticks at [1s 2s 3s] none after Stop"}, false, func(e *vsched.Exec, out *[]string, v *vsched.Var) {
		t := vsched.NewTicker(time.Second)
		var at []time.Duration
		for i := 0; i < 3; i++ {
			vsched.Select(false, vsched.Recv(t.C))
			at = append(at, e.Clock())
		}
		t.Stop()
		vsched.Sleep(5 * time.Second)
		if vsched.Select(true, vsched.Recv(t.C)) == 0 {
			rec(out, v, "tick after Stop")
			return
		}
		rec(out, v, fmt.Sprintf("ticks at %v none after Stop", at))
	}},
	{"ticker-drops-ticks-for-a-slow-receiver", []string{"received at [2.5s 3s 5.5s 6s]"}, false, func(e *vsched.Exec, out *[]string, v *vsched.Var) {
		// ticks at 1,2,3,...; the channel holds one: the tick of 1 s waits, the tick of 2 s is dropped
		t := vsched.NewTicker(time.Second)
		var at []time.Duration
		for i := 0; i < 2; i++ {
			vsched.Sleep(2500 * time.Millisecond)
			vsched.Select(false, vsched.Recv(t.C)) // the waiting tick, at once
			at = append(at, e.Clock())
			vsched.Select(false, vsched.Recv(t.C)) // the next tick
			at = append(at, e.Clock())
		}
		t.Stop()
		rec(out, v, fmt.Sprintf("received at %v", at))
	}},
	{"ticker-reset-changes-the-period", []string{"ticks at [1s 3s 5s]"}, false, func(e *vsched.Exec, out *[]string, v *vsched.Var) {
		t := vsched.NewTicker(time.Second)
		var at []time.Duration
		vsched.Select(false, vsched.Recv(t.C))
		at = append(at, e.Clock())
		t.Reset(2 * time.Second)
		for i := 0; i < 2; i++ {
			vsched.Select(false, vsched.Recv(t.C))
			at = append(at, e.Clock())
		}
		t.Stop()
		rec(out, v, fmt.Sprintf("ticks at %v", at))
	}},
	{"ticker-vs-done-channel", []string{"done at 2.5s after 2 ticks"}, false, func(e *vsched.Exec, out *[]string, v *vsched.Var) {
		done := make(chan struct{})
		vsched.GoQuiet("loop", func() {
			t := vsched.NewTicker(time.Second)
			n := 0
			for {
				switch vsched.Select(false, vsched.Recv(done), vsched.Recv(t.C)) {
				case 0:
					t.Stop()
					rec(out, v, fmt.Sprintf("done at %v after %d ticks", e.Clock(), n))
					return
				case 1:
					n++
				}
			}
		})
		vsched.GoQuiet("closer", func() { vsched.Sleep(2500 * time.Millisecond); vsched.Close(done) })
	}},
	{"select-two-ready-cases", []string{"0", "1"}, false, func(e *vsched.Exec, out *[]string, v *vsched.Var) {
		a, b := make(chan struct{}, 1), make(chan struct{}, 1)
		vsched.SendStmt(a)
		vsched.SendStmt(b)
		rec(out, v, fmt.Sprint(vsched.Select(false, vsched.Recv(a), vsched.Recv(b))))
	}},
	{"select-default-only-when-nothing-ready", []string{"0"}, false, func(e *vsched.Exec, out *[]string, v *vsched.Var) {
		a := make(chan struct{}, 1)
		vsched.SendStmt(a)
		rec(out, v, fmt.Sprint(vsched.Select(true, vsched.Recv(a))))
	}},
	{"buffer-capacity-blocks-second-send", []string{"s1 r s2"}, false, func(e *vsched.Exec, out *[]string, v *vsched.Var) {
		ch := make(chan struct{}, 1)
		var log []string
		vsched.GoQuiet("sender", func() {
			vsched.SendStmt(ch)
			log = append(log, "s1")
			vsched.SendStmt(ch)
			log = append(log, "s2")
		})
		vsched.GoQuiet("recv", func() {
			vsched.Sleep(time.Second)
			log = append(log, "r")
			vsched.RecvStmt(ch)
			vsched.Sleep(time.Second)
			rec(out, v, strings.Join(log, " "))
		})
	}},
	{"close-wakes-all-receivers", []string{"2"}, false, func(e *vsched.Exec, out *[]string, v *vsched.Var) {
		ch := make(chan struct{})
		n := 0
		var nv vsched.Var
		for i := 0; i < 2; i++ {
			vsched.GoQuiet("r", func() { vsched.RecvStmt(ch); nv.Do(func() { n++ }) })
		}
		vsched.GoQuiet("closer", func() { vsched.Close(ch); vsched.Sleep(time.Second); rec(out, v, fmt.Sprint(n)) })
	}},
	{"once-runs-once-and-blocks-others", []string{"1 after-init"}, false, func(e *vsched.Exec, out *[]string, v *vsched.Var) {
		var once vsched.Once
		n := 0
		inited := false
		var res []string
		var rv vsched.Var
		for i := 0; i < 2; i++ {
			vsched.GoQuiet("o", func() {
				once.Do(func() { n++; vsched.Point(); inited = true })
				ok := inited
				rv.Do(func() {
					if !ok {
						res = append(res, "before-init")
					}
				})
			})
		}
		vsched.GoQuiet("join", func() {
			vsched.Sleep(time.Second)
			s := "after-init"
			if len(res) > 0 {
				s = res[0]
			}
			rec(out, v, fmt.Sprintf("%d %s", n, s))
		})
	}},
	{"waitgroup-waits", []string{"2"}, false, func(e *vsched.Exec, out *[]string, v *vsched.Var) {
		var wg vsched.WaitGroup
		n := 0
		var nv vsched.Var
		wg.Add(2)
		for i := 0; i < 2; i++ {
			vsched.GoQuiet("w", func() { nv.Do(func() { n++ }); wg.Done() })
		}
		wg.Wait()
		rec(out, v, fmt.Sprint(n))
	}},
	{"rwmutex-readers-share-writer-excludes", []string{"ok"}, false, func(e *vsched.Exec, out *[]string, v *vsched.Var) {
		var mu vsched.RWMutex
		readers, writers, bad := 0, 0, false
		for i := 0; i < 2; i++ {
			vsched.GoQuiet("r", func() {
				mu.RLock()
				readers++
				if writers > 0 {
					bad = true
				}
				vsched.Point()
				readers--
				mu.RUnlock()
			})
		}
		vsched.GoQuiet("w", func() {
			mu.Lock()
			writers++
			if readers > 0 || writers > 1 {
				bad = true
			}
			vsched.Point()
			writers--
			mu.Unlock()
		})
		vsched.GoQuiet("join", func() {
			vsched.Sleep(time.Second)
			if bad {
				rec(out, v, "violated")
			} else {
				rec(out, v, "ok")
			}
		})
	}},
	{"rwmutex-recursive-read-lock-can-deadlock", []string{"DEADLOCK", "done"}, false, func(e *vsched.Exec, out *[]string, v *vsched.Var) {
		var mu vsched.RWMutex
		vsched.GoQuiet("r", func() {
			mu.RLock()
			mu.RLock() // blocks forever if a writer announced itself in between (Go's writer preference)
			mu.RUnlock()
			mu.RUnlock()
			rec(out, v, "done")
		})
		vsched.GoQuiet("w", func() { mu.Lock(); mu.Unlock() })
	}},
	{"timers-fire-in-deadline-order", []string{"1s 2s"}, false, func(e *vsched.Exec, out *[]string, v *vsched.Var) {
		var log []string
		var lv vsched.Var
		vsched.GoQuiet("t2", func() { vsched.Sleep(2 * time.Second); lv.Do(func() { log = append(log, "2s") }) })
		vsched.GoQuiet("t1", func() { vsched.Sleep(time.Second); lv.Do(func() { log = append(log, "1s") }) })
		vsched.GoQuiet("join", func() { vsched.Sleep(3 * time.Second); rec(out, v, strings.Join(log, " ")) })
	}},
	{"equal-deadlines-both-orders", []string{"a b", "b a"}, false, func(e *vsched.Exec, out *[]string, v *vsched.Var) {
		var log []string
		var lv vsched.Var
		vsched.GoQuiet("a", func() { vsched.Sleep(time.Second); lv.Do(func() { log = append(log, "a") }) })
		vsched.GoQuiet("b", func() { vsched.Sleep(time.Second); lv.Do(func() { log = append(log, "b") }) })
		vsched.GoQuiet("join", func() { vsched.Sleep(3 * time.Second); rec(out, v, strings.Join(log, " ")) })
	}},
	{"early-timer-races-work", []string{"timer-first", "work-first"}, true, func(e *vsched.Exec, out *[]string, v *vsched.Var) {
		var log []string
		var lv vsched.Var
		vsched.GoQuiet("timer", func() { vsched.Sleep(time.Second); lv.Do(func() { log = append(log, "timer") }) })
		vsched.GoQuiet("work", func() { lv.Do(func() { log = append(log, "work") }) })
		vsched.GoQuiet("join", func() {
			vsched.Await(func() bool { return len(log) == 2 })
			rec(out, v, log[0]+"-first")
		})
	}},
	{"await-sees-condition", []string{"seen"}, false, func(e *vsched.Exec, out *[]string, v *vsched.Var) {
		x := 0
		var xv vsched.Var
		vsched.GoQuiet("setter", func() { xv.Do(func() { x = 1 }) })
		vsched.Await(func() bool { return x == 1 })
		rec(out, v, "seen")
	}},
	{"message-passing-over-channel", []string{"1"}, false, func(e *vsched.Exec, out *[]string, v *vsched.Var) {
		data := 0
		ch := make(chan struct{})
		vsched.GoQuiet("producer", func() { data = 1; vsched.SendStmt(ch) })
		vsched.RecvStmt(ch)
		rec(out, v, fmt.Sprint(data))
	}},
	{"bare-points-between-operations", []string{"ab", "ba"}, false, func(e *vsched.Exec, out *[]string, v *vsched.Var) {
		var ml vsched.Mutex
		log := ""
		vsched.GoQuiet("a", func() {
			vsched.Point()
			vsched.PointL("x")
			vsched.Point()
			ml.Lock()
			log += "a"
			ml.Unlock()
		})
		vsched.GoQuiet("b", func() {
			vsched.Point()
			vsched.Point()
			ml.Lock()
			log += "b"
			ml.Unlock()
			vsched.Point()
		})
		vsched.GoQuiet("join", func() { vsched.Sleep(time.Second); rec(out, v, log) })
	}},
	{"three-threads-two-locks-all-orders", []string{"ab", "ba"}, false, func(e *vsched.Exec, out *[]string, v *vsched.Var) {
		// two independent counters under two locks plus one ordered log: independent steps commute,
		// dependent ones (the log) must produce both orders
		var m1, m2, ml vsched.Mutex
		c1, c2 := 0, 0
		log := ""
		vsched.GoQuiet("a", func() {
			m1.Lock()
			c1++
			m1.Unlock()
			ml.Lock()
			log += "a"
			ml.Unlock()
		})
		vsched.GoQuiet("b", func() {
			m2.Lock()
			c2++
			m2.Unlock()
			ml.Lock()
			log += "b"
			ml.Unlock()
		})
		vsched.GoQuiet("join", func() { vsched.Sleep(time.Second); rec(out, v, log) })
	}},
}

func run(t litmus, cache, preemptOnly bool, bound int) (map[string]int, *vx.Stats) {
	sc := &vx.Scenario{Name: t.name, Unbounded: bound < 0, Bound: bound, NoCache: !cache, PreemptOnly: preemptOnly, EarlyTimers: t.early, Horizon: time.Minute, AllowDeadlock: true}
	sc.Body = func(e *vsched.Exec) func() vx.Result {
		var out []string
		var v vsched.Var
		t.body(e, &out, &v)
		return func() vx.Result {
			var r vx.Result
			r.Outcome = strings.Join(out, "|")
			if e.Deadlock != "" {
				r.Outcome = "DEADLOCK"
			}
			return r
		}
	}
	st := vx.Explore(sc, 0, time.Now().Add(2*time.Minute))
	return st.Outcomes, st
}

func main() {
	bad := 0
	total := 0
	for _, t := range tests {
		want := append([]string{}, t.expect...)
		sort.Strings(want)
		for _, mode := range []struct {
			name       string
			cache, pre bool
			bound      int
		}{{"unbounded+cache", true, true, -1}, {"unbounded+cache/delay", true, false, -1}, {"unbounded-nocache", false, true, -1}, {"bound6+cache/delay", true, false, 6}} {
			outs, st := run(t, mode.cache, mode.pre, mode.bound)
			var got []string
			for o := range outs {
				got = append(got, o)
			}
			sort.Strings(got)
			total++
			ok := fmt.Sprint(got) == fmt.Sprint(want) && st.HarnessErr == "" && st.Exhaustive
			status := "ok  "
			if !ok {
				status = "FAIL"
				bad++
			}
			fmt.Printf("%s %-45s %-22s execs=%-6d pruned=%-6d outcomes=%v", status, t.name, mode.name, st.Execs, st.Pruned, got)
			if !ok {
				fmt.Printf("  EXPECTED %v %s %s", want, st.HarnessErr, st.CapHit)
			}
			fmt.Println()
		}
	}
	// bounded search: happens-before caching must not change the set of outcomes reachable within a bound
	for _, t := range tests {
		for _, pre := range []bool{true, false} {
			for b := 0; b <= 3; b++ {
				with, s1 := run(t, true, pre, b)
				without, s2 := run(t, false, pre, b)
				total++
				k1, k2 := keys(with), keys(without)
				if fmt.Sprint(k1) != fmt.Sprint(k2) || s1.HarnessErr != "" || s2.HarnessErr != "" {
					bad++
					fmt.Printf("FAIL %-45s bound=%d preemptOnly=%v cache=%v nocache=%v\n", t.name, b, pre, k1, k2)
				}
			}
		}
	}
	fmt.Printf("litmus: %d/%d configurations explored exactly the allowed outcome set (bounded: same set with and without caching)\n", total-bad, total)
	if bad > 0 {
		os.Exit(2)
	}
}

func keys(m map[string]int) []string {
	var out []string
	for k := range m {
		out = append(out, k)
	}
	sort.Strings(out)
	return out
}
