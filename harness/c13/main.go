// C13: size limits are enforced on every transport, and traffic within them is accepted.
//
// Plain mode (real goroutines, real time). Five parts:
//
//	batcher  every vector of 1..6 packets x every maxPayload through the real clientSocket.Send /
//	         writeWritablePackets with a recording transport named "polling" (pure enumeration);
//	polling  a real eio.Server: handshake GET, then POST bodies around every limit, declared by
//	         Content-Length, chunked, or with a Content-Length smaller than the body (ServeHTTP with a
//	         counting body; plus the chunked/declared cases through a real net/http server);
//	ws       real loopback (httptest.NewServer + eio.Dial, transport websocket), both directions;
//	wt       the WebTransport ServerTransport read loop over a harness stream (limit x length x chunking);
//	wte2e    a real eio.Server behind a real webtransport.Server (HTTP/3 over QUIC on UDP loopback) and a raw
//	         WebTransport client session of the harness (limit configuration x length x text/binary).
//
// Nothing is judged by elapsed time: verdicts in the loopback parts wait for an event (delivery of a
// barrier message sent after the tested one, or a close callback) with a 60 s deadline (wte2e: 20 s); a deadline
// that expires is recorded as a cap, never as a violation.
package main

import (
	"encoding/json"
	"flag"
	"fmt"
	"os"
	"sort"
	"strings"
	"sync"
	"sync/atomic"
	"time"

	vx "github.com/karagenc/socket.io-go/internal/vexplore"
)

const eventDeadline = 60 * time.Second

// deadlineHits counts waits that ran into the deadline (each is a cap, never a verdict). A tree that silently drops
// what the cases wait for would make every further case wait a full minute: after three hits the remaining
// waits of the run are cut to 3 s (their caps are recorded all the same).
var deadlineHits atomic.Int32

func curDeadline() time.Duration {
	if deadlineHits.Load() >= 3 {
		return 3 * time.Second
	}
	return eventDeadline
}

// ---------------------------------------------------------------- violation collection

// found is the best (simplest) failing case of one violation key.
type found struct {
	key    string
	msg    string
	replay any
	rank   []int
	count  int
}

// collector keeps, per key, the failing case with the smallest rank and the number of failing cases.
// It is deterministic whatever the order in which cases are reported.
type collector struct {
	mu sync.Mutex
	m  map[string]*found
}

func newCollector() *collector { return &collector{m: map[string]*found{}} }

func rankLess(a, b []int) bool {
	for i := 0; i < len(a) && i < len(b); i++ {
		if a[i] != b[i] {
			return a[i] < b[i]
		}
	}
	return len(a) < len(b)
}

// add reports one failing case; describe is only called when the case is the new best of its key.
func (c *collector) add(key string, rank []int, describe func() (msg string, replay any)) {
	c.mu.Lock()
	defer c.mu.Unlock()
	f := c.m[key]
	if f == nil {
		f = &found{key: key}
		c.m[key] = f
	} else if !rankLess(rank, f.rank) {
		f.count++
		return
	}
	f.count++
	f.rank = append([]int{}, rank...)
	f.msg, f.replay = describe()
}

func (c *collector) merge(o *collector) {
	o.mu.Lock()
	defer o.mu.Unlock()
	c.mu.Lock()
	defer c.mu.Unlock()
	for k, f := range o.m {
		g := c.m[k]
		if g == nil {
			cp := *f
			c.m[k] = &cp
			continue
		}
		g.count += f.count
		if rankLess(f.rank, g.rank) {
			g.rank, g.msg, g.replay = f.rank, f.msg, f.replay
		}
	}
}

func (c *collector) flush(r *vx.Report) {
	keys := make([]string, 0, len(c.m))
	for k := range c.m {
		keys = append(keys, k)
	}
	sort.Strings(keys)
	for _, k := range keys {
		f := c.m[k]
		r.Violate(k, fmt.Sprintf("%s [%d failing case(s) of this kind; simplest shown]", f.msg, f.count), f.replay)
	}
}

// ---------------------------------------------------------------- run context

type ctx struct {
	tier      string
	thorough  bool
	r         *vx.Report
	col       *collector
	mu        sync.Mutex
	caps      map[string]bool
	harness   map[string]bool
	extra     map[string]any
	samples   map[string][]any
	anomalies []string
}

// anomaly records something unexpected that is not a verdict on C13 (kept in the evidence for diagnosis).
func (c *ctx) anomaly(s string) {
	c.mu.Lock()
	defer c.mu.Unlock()
	if len(c.anomalies) < 20 {
		c.anomalies = append(c.anomalies, s)
	}
}

// sample keeps a few written-out cases per part (added to the report in a fixed order at the end).
func (c *ctx) sample(part string, v any) {
	c.mu.Lock()
	defer c.mu.Unlock()
	if len(c.samples[part]) < 2 {
		c.samples[part] = append(c.samples[part], v)
	}
}

func (c *ctx) capHit(s string) {
	deadlineHits.Add(1)
	c.mu.Lock()
	defer c.mu.Unlock()
	c.caps[s] = true
}

func (c *ctx) harnessErr(s string) {
	c.mu.Lock()
	defer c.mu.Unlock()
	c.harness[s] = true
}

func sortedKeys(m map[string]bool) []string {
	var out []string
	for k := range m {
		out = append(out, k)
	}
	sort.Strings(out)
	return out
}

// partStats is what every part returns for the coverage numbers.
type partStats struct {
	Evaluations int            `json:"evaluations"`
	Nontrivial  int            `json:"distinct_nontrivial"`
	Outcomes    map[string]int `json:"outcomes,omitempty"`
	Detail      map[string]any `json:"detail,omitempty"`
}

func main() {
	tierDef := os.Getenv("VERIF_TIER")
	if tierDef == "" {
		tierDef = "quick"
	}
	tier := flag.String("tier", tierDef, "quick|thorough")
	only := flag.String("only", "", "comma separated subset of parts: batcher,polling,ws,wt,wte2e,cli")
	replay := flag.String("replay", "", "replay file written by an earlier run")
	flag.Int("procs", 0, "accepted for uniformity with the other checks (the batcher part uses up to 8 goroutines)")
	flag.Parse()

	r := vx.NewReport("C13", *tier, "exploration")
	c := &ctx{tier: *tier, thorough: *tier == "thorough", r: r, col: newCollector(), caps: map[string]bool{}, harness: map[string]bool{}, extra: map[string]any{}, samples: map[string][]any{}}

	if *replay != "" {
		doReplay(c, *replay)
		return
	}

	r.Rule = "batcher: one evaluation = one (packet vector, maxPayload) pair pushed through the real clientSocket.Send; vectors of 1..6 packets (quick: 1..5), data sizes {0,1,2,3,4,6,9}, text/binary in the first two positions, maxPayload 0..(encoded size+8); non-trivial = the batcher split the vector at least once. " +
		"polling/ws/wt/wte2e: one evaluation = one (limit, message size, declaration or direction or chunking or text/binary) case on a fresh server (wte2e: a fresh WebTransport session on the server of its limit configuration); non-trivial = the case must trigger or just miss the limit mechanism (size >= limit-1) or lies around the WebSocket library's 32 KiB default (size >= 32767). All matrices are run completely. cli: one evaluation = one burst (limit, number of packets, packet size) handed to the real client's Send over polling against the real server, every POST measured at the HTTP round trip; non-trivial = the burst does not fit one request."

	want := func(p string) bool {
		if *only == "" {
			return true
		}
		for _, x := range strings.Split(*only, ",") {
			if strings.TrimSpace(x) == p {
				return true
			}
		}
		return false
	}

	parts := []struct {
		name string
		run  func(*ctx) partStats
	}{
		{"batcher", runBatcher},
		{"polling", runPolling},
		{"ws", runWS},
		{"wt", runWT},
		{"wte2e", runWTE2E},
		{"cli", runCli},
	}
	stats := map[string]partStats{}
	var smu sync.Mutex
	var wg sync.WaitGroup
	// The batcher is CPU bound (<= 8 goroutines); the other parts are short and sequential. They run
	// next to each other: no verdict depends on how long anything takes.
	seq := make(chan struct{}, 1)
	for _, p := range parts {
		if !want(p.name) {
			continue
		}
		p := p
		wg.Add(1)
		go func() {
			defer wg.Done()
			if p.name != "batcher" {
				seq <- struct{}{}
				defer func() { <-seq }()
			}
			st := p.run(c)
			smu.Lock()
			stats[p.name] = st
			smu.Unlock()
		}()
	}
	wg.Wait()

	outcomes := map[string]bool{}
	for name, st := range stats {
		r.Evaluations += st.Evaluations
		r.DistinctNontriv += st.Nontrivial
		for o := range st.Outcomes {
			outcomes[name+": "+o] = true
		}
		r.Extra["part_"+name] = st
	}
	r.DistinctOutcomes = len(outcomes)
	r.Extra["unexpected_observations"] = append([]string{}, c.anomalies...)
	for _, a := range c.anomalies {
		fmt.Println("NOTE (not a verdict):", a)
	}
	for _, p := range parts {
		for _, s := range c.samples[p.name] {
			r.Sample(s)
		}
	}
	r.BoundCompleted = boundText(c)
	r.CapsHit = append(r.CapsHit, sortedKeys(c.caps)...)
	r.HarnessErrs = append(r.HarnessErrs, sortedKeys(c.harness)...)
	r.Assumptions = []string{
		"sizes are boundary sizes only (around each limit and around 32 KiB), not every size up to MaxBufferSize",
		"WebTransport is exercised both at the ServerTransport read loop over a harness stream (every chunking of the stream) and end to end over HTTP/3 (QUIC on UDP loopback) against a real eio.Server with a raw client session; end to end the segmentation of the stream is whatever QUIC makes of it",
		"a Content-Length smaller than the body can only be produced by calling ServeHTTP directly (net/http truncates such bodies itself); chunked bodies are also sent through a real net/http server",
		"server->client messages larger than the announced maxPayload carry no requirement in the statement; they are run and their outcome recorded only",
	}
	c.col.flush(r)
	r.Finish()
}

func boundText(c *ctx) string {
	if c.thorough {
		return "batcher vectors<=6; polling/ws/wt/wte2e full matrices (thorough size sets, text+binary)"
	}
	return "batcher vectors<=5; polling/ws/wt/wte2e full matrices (quick size sets)"
}

// ---------------------------------------------------------------- replay

func doReplay(c *ctx, path string) {
	b, err := os.ReadFile(path)
	if err != nil {
		fmt.Fprintf(os.Stderr, "replay: %v\n", err)
		os.Exit(2)
	}
	var f struct {
		Key    string          `json:"key"`
		Replay json.RawMessage `json:"replay"`
	}
	if err := json.Unmarshal(b, &f); err != nil {
		fmt.Fprintf(os.Stderr, "replay: %v\n", err)
		os.Exit(2)
	}
	var head struct {
		Part string `json:"part"`
	}
	json.Unmarshal(f.Replay, &head)
	c.r.Rule = "replay of one recorded case"
	var st partStats
	switch head.Part {
	case "batcher":
		st = replayBatcher(c, f.Replay)
	case "polling":
		st = replayPolling(c, f.Replay)
	case "ws":
		st = replayWS(c, f.Replay)
	case "wt":
		st = replayWT(c, f.Replay)
	case "cli":
		st = replayCli(c, f.Replay)
	case "wte2e":
		st = replayWTE2E(c, f.Replay)
	default:
		fmt.Fprintf(os.Stderr, "replay: unknown part %q\n", head.Part)
		os.Exit(2)
	}
	c.r.Evaluations = st.Evaluations
	c.r.DistinctNontriv = st.Nontrivial
	c.r.Extra["replayed_key"] = f.Key
	c.r.Extra["replay_outcomes"] = st.Outcomes
	c.r.CapsHit = append(c.r.CapsHit, sortedKeys(c.caps)...)
	c.r.HarnessErrs = append(c.r.HarnessErrs, sortedKeys(c.harness)...)
	if os.Getenv("VERIF_OUT") == "" {
		// a replay never overwrites the committed evidence
		os.Setenv("VERIF_OUT", "/verif/.work/replay")
	}
	c.col.flush(c.r)
	c.r.Finish()
}
