package main

import (
	"bytes"
	"context"
	"crypto/ecdsa"
	"crypto/elliptic"
	"crypto/rand"
	"crypto/tls"
	"crypto/x509"
	"crypto/x509/pkix"
	"encoding/binary"
	"encoding/json"
	"fmt"
	"io"
	"math/big"
	"net"
	"os"
	"sync"
	"time"

	"github.com/quic-go/quic-go"
	qwt "github.com/quic-go/webtransport-go"

	eio "github.com/karagenc/socket.io-go/engine.io"
	"github.com/karagenc/socket.io-go/engine.io/parser"
)

// Part 5: the WebTransport size limit end to end. A real eio.Server is served by a real
// webtransport.Server (HTTP/3 over QUIC on a UDP loopback port); the limit reaches the transport only
// through the repository's own wiring: ServerConfig -> Server.onWebTransport -> NewServerTransport ->
// Handshake -> PostHandshake. The client is a raw WebTransport session of the harness (the repository's
// client would refuse to send what the server announced it would not take): CONNECT, one bidirectional
// stream, OPEN frame, the server's handshake frame, the tested message frame, a barrier frame (PING
// without data). The application callbacks of the server socket say what was delivered.
//
// One server per limit configuration, a fresh QUIC connection + session + stream per case.

const (
	wteDeadline = 20 * time.Second
	// largest length a replay file may ask for
	maxWTELength = 8 << 20
)

type wteLimit struct {
	Name  string
	cfg   eio.ServerConfig
	limit int // MaxBufferSize the transport must apply; 0 = none; -1 = the server's default
}

var wteLimits = []wteLimit{
	// MaxBufferSize is set as well: DisableMaxBufferSize must make the server ignore it.
	{"disabled", eio.ServerConfig{MaxBufferSize: 1000, DisableMaxBufferSize: true}, 0},
	{"1000", eio.ServerConfig{MaxBufferSize: 1000}, 1000},
	{"40000", eio.ServerConfig{MaxBufferSize: 40000}, 40000},
	{"70000", eio.ServerConfig{MaxBufferSize: 70000}, 70000},
	{"default", eio.ServerConfig{}, -1},
}

func wteLimitByName(n string) (wteLimit, bool) {
	for _, l := range wteLimits {
		if l.Name == n {
			return l, true
		}
	}
	return wteLimit{}, false
}

// resolve returns the numeric limit of a configuration (asks a default-configured server for its default).
func (l wteLimit) resolve(c *ctx) int {
	if l.limit < 0 {
		return defaultLimit(c)
	}
	return l.limit
}

type wteCase struct {
	Part      string `json:"part"`
	LimitName string `json:"limit_name"`
	Limit     int    `json:"limit"`  // MaxBufferSize in force; 0 = disabled
	Length    int    `json:"length"` // bytes of the framed message (type byte included for text)
	Binary    bool   `json:"binary"`
}

func (c wteCase) String() string {
	kind := "text"
	if c.Binary {
		kind = "binary"
	}
	return fmt.Sprintf("eio.Server with MaxBufferSize=%s (%d) over a real WebTransport session, %s message of %d bytes", c.LimitName, c.Limit, kind, c.Length)
}

// ---------------------------------------------------------------- the server rig

type wteEvent struct {
	kind   string // packet | close
	msg    gotMsg
	binary bool
	close  closeInfo
}

// wteRec is what the application saw of one server socket.
type wteRec struct {
	ev chan wteEvent
}

func (r *wteRec) push(e wteEvent) {
	select {
	case r.ev <- e:
	default: // nobody listens any more (after the verdict)
	}
}

type wteServer struct {
	io        *eio.Server
	wt        *qwt.Server
	pc        *net.UDPConn
	port      int
	serveDone chan error

	mu   sync.Mutex
	recs map[string]*wteRec
}

func wteCertificate() (tls.Certificate, error) {
	key, err := ecdsa.GenerateKey(elliptic.P256(), rand.Reader)
	if err != nil {
		return tls.Certificate{}, err
	}
	tmpl := &x509.Certificate{
		SerialNumber:          big.NewInt(13),
		Subject:               pkix.Name{CommonName: "verif c13"},
		NotBefore:             time.Now().Add(-time.Hour),
		NotAfter:              time.Now().Add(24 * time.Hour),
		KeyUsage:              x509.KeyUsageDigitalSignature,
		ExtKeyUsage:           []x509.ExtKeyUsage{x509.ExtKeyUsageServerAuth},
		BasicConstraintsValid: true,
		IPAddresses:           []net.IP{net.IPv4(127, 0, 0, 1)},
		DNSNames:              []string{"localhost"},
	}
	der, err := x509.CreateCertificate(rand.Reader, tmpl, tmpl, &key.PublicKey, key)
	if err != nil {
		return tls.Certificate{}, err
	}
	return tls.Certificate{Certificate: [][]byte{der}, PrivateKey: key}, nil
}

var (
	wteCertOnce sync.Once
	wteCert     tls.Certificate
	wteCertErr  error
)

func newWTEServer(spec wteLimit) (*wteServer, error) {
	os.Setenv("QUIC_GO_DISABLE_RECEIVE_BUFFER_WARNING", "true") // a log line of quic-go, nothing else
	wteCertOnce.Do(func() { wteCert, wteCertErr = wteCertificate() })
	if wteCertErr != nil {
		return nil, fmt.Errorf("certificate: %w", wteCertErr)
	}
	s := &wteServer{recs: map[string]*wteRec{}, serveDone: make(chan error, 1)}
	s.wt = &qwt.Server{}
	cfg := quietHeartbeat(spec.cfg)
	cfg.WebTransportServer = s.wt
	s.io = eio.NewServer(func(sock eio.ServerSocket) *eio.Callbacks {
		// Registered before the handshake packet (which tells the client the id) is written.
		rec := &wteRec{ev: make(chan wteEvent, 64)}
		s.mu.Lock()
		s.recs[sock.ID()] = rec
		s.mu.Unlock()
		return &eio.Callbacks{
			OnPacket: func(packets ...*parser.Packet) {
				for _, p := range packets {
					if p.Type == parser.PacketTypePing && len(p.Data) == 0 {
						// the barrier: a one-byte PING frame, so that it fits every limit >= 1
						rec.push(wteEvent{kind: "packet", msg: gotMsg{wire: 1, intact: true, barrier: true}})
						continue
					}
					if g, ok := classify(p); ok {
						g.barrier = false // a "4B" message means nothing here
						rec.push(wteEvent{kind: "packet", msg: g, binary: p.IsBinary})
					}
				}
			},
			OnClose: func(reason eio.Reason, err error) {
				rec.push(wteEvent{kind: "close", close: closeInfo{string(reason), errString(err)}})
			},
		}
	}, &cfg)
	if err := s.io.Run(); err != nil {
		return nil, err
	}
	// http3.Server.Serve wraps this configuration with http3.ConfigureTLSConfig (ALPN by QUIC version).
	s.wt.H3.TLSConfig = &tls.Config{Certificates: []tls.Certificate{wteCert}, NextProtos: []string{"h3"}}
	s.wt.H3.Handler = s.io
	pc, err := net.ListenUDP("udp", &net.UDPAddr{IP: net.IPv4(127, 0, 0, 1), Port: 0})
	if err != nil {
		s.io.Close()
		return nil, err
	}
	s.pc = pc
	s.port = pc.LocalAddr().(*net.UDPAddr).Port
	go func() { s.serveDone <- s.wt.Serve(pc) }()
	return s, nil
}

func (s *wteServer) rec(sid string) *wteRec {
	s.mu.Lock()
	defer s.mu.Unlock()
	return s.recs[sid]
}

func (s *wteServer) forget(sid string) {
	s.mu.Lock()
	defer s.mu.Unlock()
	delete(s.recs, sid)
}

// serveErr tells why Serve returned, if it has.
func (s *wteServer) serveErr() string {
	select {
	case err := <-s.serveDone:
		s.serveDone <- err
		return fmt.Sprintf(" (webtransport.Server.Serve returned: %v)", err)
	default:
		return ""
	}
}

// bounded runs a teardown aside: teardown never decides anything and a stuck Close must not stall the check.
func bounded(c *ctx, what string, f func()) {
	done := make(chan struct{})
	go func() {
		defer close(done)
		f()
	}()
	t := time.NewTimer(wteDeadline)
	defer t.Stop()
	select {
	case <-done:
	case <-t.C:
		c.capHit("wte2e rig: " + what + " did not finish within 20 s (left behind)")
	}
}

func (s *wteServer) close(c *ctx) {
	bounded(c, "teardown of a server", func() {
		s.io.Close()
		s.wt.Close()
		s.pc.Close()
	})
}

// ---------------------------------------------------------------- the raw client

// wtReadFrame reads one frame of the Engine.IO v4 WebTransport framing.
func wtReadFrame(r io.Reader) (payload []byte, isBinary bool, err error) {
	var b [8]byte
	if _, err = io.ReadFull(r, b[:1]); err != nil {
		return nil, false, err
	}
	isBinary = b[0]&0x80 != 0
	n := uint64(b[0] & 0x7f)
	switch n {
	case 126:
		if _, err = io.ReadFull(r, b[:2]); err != nil {
			return nil, false, err
		}
		n = uint64(binary.BigEndian.Uint16(b[:2]))
	case 127:
		if _, err = io.ReadFull(r, b[:8]); err != nil {
			return nil, false, err
		}
		n = binary.BigEndian.Uint64(b[:8])
	}
	if n > 1<<20 {
		return nil, false, fmt.Errorf("frame of %d bytes", n)
	}
	payload = make([]byte, n)
	_, err = io.ReadFull(r, payload)
	return payload, isBinary, err
}

type wteSetup struct {
	sid        string
	maxPayload int64
	err        error
}

// wteClient is the client side of one case.
type wteClient struct {
	dialer *qwt.Dialer
	mu     sync.Mutex
	qconn  quic.EarlyConnection
	sess   *qwt.Session
	done   chan struct{} // closed when the client goroutine has returned
	setup  chan wteSetup
}

func startWTEClient(port int, frames ...[]byte) *wteClient {
	cl := &wteClient{done: make(chan struct{}), setup: make(chan wteSetup, 1)}
	cl.dialer = &qwt.Dialer{
		TLSClientConfig: &tls.Config{InsecureSkipVerify: true, NextProtos: []string{"h3"}},
		QUICConfig:      &quic.Config{EnableDatagrams: true},
		// as the default, but the QUIC connection is kept: closing a Session does not close it
		DialAddr: func(ctx context.Context, addr string, tlsCfg *tls.Config, cfg *quic.Config) (quic.EarlyConnection, error) {
			conn, err := quic.DialAddrEarly(ctx, addr, tlsCfg, cfg)
			if err == nil {
				cl.mu.Lock()
				cl.qconn = conn
				cl.mu.Unlock()
			}
			return conn, err
		},
	}
	go func() {
		defer close(cl.done)
		ctx, cancel := context.WithTimeout(context.Background(), wteDeadline)
		defer cancel()
		fail := func(step string, err error) { cl.setup <- wteSetup{err: fmt.Errorf("%s: %w", step, err)} }
		// No transport parameter: Server.handleHandshake takes the WebTransport path for a CONNECT over
		// HTTP/3 without one (that is what the repository's own client sends).
		_, sess, err := cl.dialer.Dial(ctx, fmt.Sprintf("https://127.0.0.1:%d/engine.io/?EIO=4", port), nil)
		if err != nil {
			fail("dial", err)
			return
		}
		cl.mu.Lock()
		cl.sess = sess
		cl.mu.Unlock()
		stream, err := sess.OpenStreamSync(ctx)
		if err != nil {
			fail("open stream", err)
			return
		}
		if _, err = stream.Write(wtFrame([]byte("0"), false)); err != nil {
			fail("write OPEN", err)
			return
		}
		hs, _, err := wtReadFrame(stream)
		if err != nil {
			fail("read the handshake frame", err)
			return
		}
		var hr struct {
			SID        string `json:"sid"`
			MaxPayload int64  `json:"maxPayload"`
		}
		if len(hs) < 2 || hs[0] != '0' || json.Unmarshal(hs[1:], &hr) != nil || hr.SID == "" {
			fail("handshake frame", fmt.Errorf("unexpected content %.60q", hs))
			return
		}
		cl.setup <- wteSetup{sid: hr.SID, maxPayload: hr.MaxPayload}
		// A write blocks (flow control) once the server has stopped reading, and fails once the
		// connection is gone; neither matters: the server's callbacks decide.
		for _, f := range frames {
			if _, err := stream.Write(f); err != nil {
				return
			}
		}
	}()
	return cl
}

func (cl *wteClient) close(c *ctx) {
	bounded(c, "teardown of a client", func() {
		cl.mu.Lock()
		qconn := cl.qconn
		cl.mu.Unlock()
		// Without a QUIC connection the client is still dialing (bounded by its context) or has failed.
		if qconn != nil {
			cl.dialer.Close()           // releases a Dial waiting for the server's SETTINGS
			qconn.CloseWithError(0, "") // closes the UDP socket of this connection as well
		}
		<-cl.done
	})
}

// ---------------------------------------------------------------- one case

func runWTE2ECase(c *ctx, srv *wteServer, wc wteCase, st *partStats) {
	binIdx := 0
	if wc.Binary {
		binIdx = 1
	}
	rank := []int{5, wc.Limit, wc.Length, binIdx}
	report := func(key, what string) {
		st.Outcomes["violation"]++
		c.col.add(key, rank, func() (string, any) { return wc.String() + ": " + what, wc })
	}

	payload := bytes.Repeat([]byte("a"), wc.Length)
	if !wc.Binary {
		payload[0] = '4'
	}
	deadline := time.NewTimer(wteDeadline)
	defer deadline.Stop()

	cl := startWTEClient(srv.port, wtFrame(payload, wc.Binary), wtFrame([]byte("2"), false))
	defer cl.close(c)

	var su wteSetup
	select {
	case su = <-cl.setup:
	case <-deadline.C:
		c.capHit("wte2e rig: WebTransport session and Engine.IO handshake not completed within 20 s" + srv.serveErr())
		return
	}
	if su.err != nil {
		c.harnessErr("wte2e rig: " + su.err.Error() + srv.serveErr())
		return
	}
	rec := srv.rec(su.sid)
	if rec == nil {
		c.harnessErr("wte2e rig: the handshake names a session the server's onSocket callback never saw")
		return
	}
	defer srv.forget(su.sid)
	if su.maxPayload != int64(wc.Limit) {
		c.anomaly(fmt.Sprintf("wte2e: the %s server announces maxPayload %d over WebTransport, %d expected", wc.LimitName, su.maxPayload, wc.Limit))
	}

	st.Evaluations++
	if nontrivialSize(wc.Length, wc.Limit) || wc.Limit == 0 {
		st.Nontrivial++
	}
	over := wc.Limit > 0 && wc.Length > wc.Limit

	var tested *gotMsg
	testedBin := false
	barrier, closed, timedOut := false, false, false
	var ci closeInfo
wait:
	for {
		select {
		case e := <-rec.ev:
			switch {
			case e.kind == "close":
				closed, ci = true, e.close
				break wait
			case e.msg.barrier:
				barrier = true
				break wait
			default:
				if tested == nil {
					g := e.msg
					tested, testedBin = &g, e.binary
				}
				if over {
					break wait // already decided
				}
			}
		case <-deadline.C:
			timedOut = true
			break wait
		}
	}

	if over {
		switch {
		case tested != nil:
			report(kWTOverDelivered, fmt.Sprintf("the application's OnPacket received a %d-byte message (data starts %s; limit %d)", tested.wire, tested.head, wc.Limit))
		case barrier:
			report(kWTOverOpen, "the barrier message behind it was delivered")
		case timedOut:
			c.capHit("wte2e: message over the limit: no delivery, no barrier and no OnClose within 20 s")
		case ci.err == "":
			report(kWTOverOpen, fmt.Sprintf("not delivered, but the socket did not close with an error (OnClose reason %q, no error)", ci.reason))
		default:
			st.Outcomes["over limit: refused, socket closed ("+ci.reason+")"]++
		}
		return
	}
	switch {
	case timedOut:
		c.capHit("wte2e: message within the limit: neither the barrier nor OnClose within 20 s")
	case closed || tested == nil:
		what := fmt.Sprintf("tested delivered=%v, barrier delivered=%v, socket closed=%v (reason %q, err %q)", tested != nil, barrier, closed, ci.reason, ci.err)
		if wc.Limit == 0 {
			report(kWTDisabled, what)
		} else {
			report(kWTInRefused, what)
		}
	case tested.wire != wc.Length || !tested.intact || testedBin != wc.Binary:
		report(kWTCorrupt, fmt.Sprintf("OnPacket saw %+v binary=%v", *tested, testedBin))
	default:
		st.Outcomes["within limit: delivered intact, next message delivered"]++
	}
}

// ---------------------------------------------------------------- the matrix

func wteLengths(spec wteLimit, l int, thorough bool) []int {
	var lens []int
	switch {
	case spec.limit == 0:
		lens = []int{1, 126, 65536, 200000, 1500000}
		if thorough {
			lens = append(lens, 125, 127, 65535, 65537, 131072, 4000000)
		}
	case spec.limit < 0:
		lens = []int{1, 65536, l - 1, l, l + 1, l + 2, 2 * l}
		if thorough {
			lens = append(lens, l+4096, l+4097, 3*l, 131072)
		}
	default:
		lens = []int{1, 125, 126, 127, l - 1, l, l + 1, l + 2, 2 * l, 65535, 65536, 65537}
		if thorough {
			lens = append(lens, l+4096, l+4097, 3*l, 131072)
		}
	}
	return uniqSorted(lens)
}

func runWTE2E(c *ctx) partStats {
	st := partStats{Outcomes: map[string]int{}, Detail: map[string]any{}}
	var all []wteCase
	servers := 0
	for _, spec := range wteLimits {
		l := spec.resolve(c)
		if spec.limit != 0 && l <= 0 {
			c.harnessErr("wte2e rig: no default MaxBufferSize could be determined")
			continue
		}
		srv, err := newWTEServer(spec)
		if err != nil {
			c.harnessErr("wte2e rig: the WebTransport server could not be started: " + err.Error())
			continue
		}
		servers++
		for _, n := range wteLengths(spec, l, c.thorough) {
			for _, b := range []bool{false, true} {
				wc := wteCase{Part: "wte2e", LimitName: spec.Name, Limit: l, Length: n, Binary: b}
				all = append(all, wc)
				runWTE2ECase(c, srv, wc, &st)
			}
		}
		srv.close(c)
	}
	st.Detail["cases"] = len(all)
	st.Detail["servers"] = servers
	if len(all) > 0 {
		c.sample("wte2e", all[len(all)/2])
	}
	return st
}

func replayWTE2E(c *ctx, raw json.RawMessage) partStats {
	st := partStats{Outcomes: map[string]int{}}
	var wc wteCase
	if err := json.Unmarshal(raw, &wc); err != nil || wc.Length < 1 || wc.Length > maxWTELength {
		c.harnessErr("replay: bad wte2e replay data")
		return st
	}
	spec, ok := wteLimitByName(wc.LimitName)
	if !ok {
		c.harnessErr("replay: bad wte2e case")
		return st
	}
	wc.Limit = spec.resolve(c)
	srv, err := newWTEServer(spec)
	if err != nil {
		c.harnessErr("wte2e rig: the WebTransport server could not be started: " + err.Error())
		return st
	}
	runWTE2ECase(c, srv, wc, &st)
	srv.close(c)
	fmt.Printf("replay wte2e: %s -> %v\n", wc, st.Outcomes)
	return st
}
