package main

import (
	"bytes"
	"encoding/json"
	"fmt"
	"io"
	"net/http"
	"net/http/httptest"
	"sync"
	"time"

	eio "github.com/karagenc/socket.io-go/engine.io"
	"github.com/karagenc/socket.io-go/engine.io/parser"
)

// Part 6 ("cli"): the real Engine.IO client against the real server over long-polling, end to end. The
// batcher part enumerates writeWritablePackets on a socket whose maxPayload the harness sets; here the limit
// travels the real way - server configuration -> OPEN packet -> the client's handshake -> its batcher - and
// a burst of packets, each within the limit but together beyond it, is handed to Send at once. Every POST
// the client makes is measured at the HTTP round trip: a batch of several packets never exceeds the
// announced maxPayload, every packet arrives exactly once, in order, and the connection stays open.

const (
	kCliBatchOver = "client (end to end): a long-polling request with several packets exceeds the announced maxPayload"
	kCliLost      = "client (end to end): packets of a burst within the limit lost, duplicated, reordered or altered"
	kCliClosed    = "client (end to end): connection closed although every packet is within the announced limit"
	kCliS2CLost   = "client (end to end): packets of a server burst within the limit lost, duplicated, reordered or altered on their way to a polling client"
	kCliS2CClosed = "client (end to end): connection closed by a server burst whose packets are each within the announced limit"
)

type cliCase struct {
	Part  string `json:"part"`
	Limit string `json:"limit"` // name of a cliLimit
	N     int    `json:"packets"`
	Size  int    `json:"size"` // encoded size of each packet (type byte included)
	// S2C: the burst goes the other way - the server hands N packets to Send at once (they are answered by one
	// poll, whatever they add up to: maxPayload bounds what a client SENDS), the client must receive them all
	S2C bool `json:"server_to_client,omitempty"`
}

func (c cliCase) String() string {
	if c.S2C {
		return fmt.Sprintf("server limit %s, server sends %d text packets of %d bytes in one Send to a polling client", c.Limit, c.N, c.Size)
	}
	return fmt.Sprintf("server limit %s, client sends %d text packets of %d bytes in one Send over polling", c.Limit, c.N, c.Size)
}

var cliLimits = []limitSpec{
	{"50", eio.ServerConfig{MaxBufferSize: 50}, 50},
	{"100", eio.ServerConfig{MaxBufferSize: 100}, 100},
	{"1000", eio.ServerConfig{MaxBufferSize: 1000}, 1000},
	{"default", eio.ServerConfig{}, -1},
	{"disabled", eio.ServerConfig{MaxBufferSize: 50, DisableMaxBufferSize: true}, 0},
}

// measuringRT serves the client's requests in-process and records the body size and packet count of every POST.
type measuringRT struct {
	h     http.Handler
	mu    sync.Mutex
	posts []postInfo
}

type postInfo struct {
	bytes, packets int
}

func (t *measuringRT) RoundTrip(r *http.Request) (*http.Response, error) {
	var body []byte
	if r.Body != nil {
		body, _ = io.ReadAll(r.Body)
		r.Body.Close()
	}
	r2 := httptest.NewRequest(r.Method, r.URL.String(), bytes.NewReader(body))
	r2 = r2.WithContext(r.Context())
	for k, v := range r.Header {
		r2.Header[k] = v
	}
	if r.Method == "POST" {
		n := bytes.Count(body, []byte{0x1e}) + 1
		t.mu.Lock()
		t.posts = append(t.posts, postInfo{len(body), n})
		t.mu.Unlock()
	}
	rec := httptest.NewRecorder()
	t.h.ServeHTTP(rec, r2)
	return rec.Result(), nil
}

func runCliCase(c *ctx, cc cliCase, limIdx int, st *partStats) {
	var spec limitSpec
	for _, l := range cliLimits {
		if l.Name == cc.Limit {
			spec = l
		}
	}
	rank := []int{6, limIdx, cc.N, cc.Size}
	report := func(key, what string) {
		st.Outcomes["violation"]++
		c.col.add(key, rank, func() (string, any) { return cc.String() + ": " + what, cc })
	}
	st.Evaluations++
	limit := int(spec.configured)
	if limit < 0 {
		limit = defaultLimit(c)
	}
	if limit > 0 && cc.N*cc.Size+cc.N-1 > limit {
		st.Nontrivial++ // the burst does not fit one request: the batcher has to split it
	}
	var mu sync.Mutex
	var got []string
	closed := make(chan closeInfo, 4)
	arrived := make(chan struct{}, 1024)
	cfg := quietHeartbeat(spec.cfg)
	ssockCh := make(chan eio.ServerSocket, 4)
	srv := eio.NewServer(func(s eio.ServerSocket) *eio.Callbacks {
		select {
		case ssockCh <- s:
		default:
		}
		return &eio.Callbacks{
			OnPacket: func(packets ...*parser.Packet) {
				for _, p := range packets {
					if p.Type != parser.PacketTypeMessage {
						continue
					}
					mu.Lock()
					got = append(got, string(p.Data))
					mu.Unlock()
					select {
					case arrived <- struct{}{}:
					default:
					}
				}
			},
			OnClose: func(reason eio.Reason, err error) {
				select {
				case closed <- closeInfo{string(reason), errString(err)}:
				default:
				}
			},
		}
	}, &cfg)
	if err := srv.Run(); err != nil {
		c.harnessErr("cli rig: " + err.Error())
		return
	}
	rt := &measuringRT{h: srv}
	cliClosed := make(chan closeInfo, 4)
	cli, err := eio.Dial("http://inproc/engine.io/", &eio.Callbacks{
		OnPacket: func(packets ...*parser.Packet) {
			if !cc.S2C {
				return
			}
			for _, p := range packets {
				if p.Type != parser.PacketTypeMessage {
					continue
				}
				mu.Lock()
				got = append(got, string(p.Data))
				mu.Unlock()
				select {
				case arrived <- struct{}{}:
				default:
				}
			}
		},
		OnClose: func(reason eio.Reason, err error) {
			select {
			case cliClosed <- closeInfo{string(reason), errString(err)}:
			default:
			}
		},
	}, &eio.ClientConfig{Transports: []string{"polling"}, HTTPTransport: rt})
	if err != nil {
		srv.Close()
		c.harnessErr("cli rig: dial: " + err.Error())
		return
	}
	defer func() {
		done := make(chan struct{})
		go func() { cli.Close(); srv.Close(); close(done) }()
		select {
		case <-done:
		case <-time.After(curDeadline()):
			c.capHit("cli rig: teardown of a case did not finish within 60 s (left behind)")
		}
	}()
	var want []string
	var pk []*parser.Packet
	for i := 0; i < cc.N; i++ {
		data := bytes.Repeat([]byte{byte('a' + i%26)}, cc.Size-1)
		want = append(want, string(data))
		pk = append(pk, &parser.Packet{Type: parser.PacketTypeMessage, Data: data})
	}
	if cc.S2C {
		select {
		case ss := <-ssockCh:
			ss.Send(pk...)
		case <-time.After(curDeadline()):
			c.capHit("cli rig: the server socket callback did not arrive")
			return
		}
	} else {
		cli.Send(pk...)
	}
	deadline := time.NewTimer(curDeadline())
	defer deadline.Stop()
	n := 0
	var ci closeInfo
	isClosed := false
wait:
	for n < cc.N {
		select {
		case <-arrived:
			n++
		case ci = <-closed:
			isClosed = true
			break wait
		case ci = <-cliClosed:
			isClosed = true
			break wait
		case <-deadline.C:
			break wait
		}
	}
	rt.mu.Lock()
	posts := append([]postInfo{}, rt.posts...)
	rt.mu.Unlock()
	mu.Lock()
	g := append([]string{}, got...)
	mu.Unlock()
	if cc.S2C {
		switch {
		case isClosed:
			report(kCliS2CClosed, fmt.Sprintf("closed with reason %q err %q after %d of %d packets", ci.reason, ci.err, len(g), cc.N))
		case len(g) < cc.N:
			c.capHit(fmt.Sprintf("cli rig: only %d of %d packets arrived within the deadline and nothing was closed (%s)", len(g), cc.N, cc))
		case fmt.Sprint(g) != fmt.Sprint(want):
			report(kCliS2CLost, fmt.Sprintf("client received %d packets, sent %d (first difference matters); sizes %d", len(g), len(want), cc.Size))
		default:
			st.Outcomes["server burst delivered to the polling client in order"]++
		}
		return
	}
	for _, p := range posts {
		if limit > 0 && p.packets > 1 && p.bytes > limit {
			report(kCliBatchOver, fmt.Sprintf("a POST carried %d packets in %d bytes (announced maxPayload %d); all POSTs (bytes, packets): %v", p.packets, p.bytes, limit, posts))
			return
		}
	}
	short := func(l []string) []string {
		var o []string
		for _, x := range l {
			if len(x) > 0 {
				o = append(o, fmt.Sprintf("%c*%d", x[0], len(x)))
			} else {
				o = append(o, "<empty>")
			}
		}
		return o
	}
	switch {
	case isClosed:
		report(kCliClosed, fmt.Sprintf("closed with reason %q err %q after %d of %d packets; POSTs (bytes, packets): %v", ci.reason, ci.err, len(g), cc.N, posts))
	case len(g) < cc.N:
		c.capHit(fmt.Sprintf("cli rig: only %d of %d packets arrived within 60 s and nothing was closed (%s)", len(g), cc.N, cc))
	case fmt.Sprint(g) != fmt.Sprint(want):
		report(kCliLost, fmt.Sprintf("server received %v, sent %v; POSTs (bytes, packets): %v", short(g), short(want), posts))
	default:
		if len(posts) > 1 {
			st.Outcomes["burst split into several requests, all delivered in order"]++
		} else {
			st.Outcomes["burst sent in one request, all delivered in order"]++
		}
	}
}

func cliCases(c *ctx) (cases []cliCase, limIdx []int) {
	for li, l := range cliLimits {
		limit := int(l.configured)
		if limit < 0 {
			limit = defaultLimit(c)
		}
		var sizes, ns []int
		switch {
		case limit == 0:
			sizes, ns = []int{1, 50, 51, 1000}, []int{2, 5}
		case limit > 100000:
			sizes, ns = []int{1, limit / 2, limit/2 + 1, limit - 1, limit}, []int{2, 3}
		default:
			sizes = []int{1, 2, limit/3 - 1, limit / 3, limit/2 - 1, limit / 2, limit/2 + 1, limit - 1, limit}
			ns = []int{2, 3, 5}
			if c.thorough {
				sizes = append(sizes, limit/4, limit/5, limit-2, 3)
				ns = append(ns, 4, 7, 12)
			}
		}
		for _, n := range ns {
			for _, s := range uniqSorted(sizes) {
				cases = append(cases, cliCase{Part: "cli", Limit: l.Name, N: n, Size: s})
				limIdx = append(limIdx, li)
				if n <= 3 {
					cases = append(cases, cliCase{Part: "cli", Limit: l.Name, N: n, Size: s, S2C: true})
					limIdx = append(limIdx, li)
				}
			}
		}
	}
	return
}

func runCli(c *ctx) partStats {
	st := partStats{Outcomes: map[string]int{}, Detail: map[string]any{}}
	cases, limIdx := cliCases(c)
	for i, cc := range cases {
		runCliCase(c, cc, limIdx[i], &st)
	}
	st.Detail["cases"] = len(cases)
	if len(cases) > 0 {
		c.sample("cli", cases[len(cases)/2])
	}
	return st
}

func replayCli(c *ctx, raw json.RawMessage) partStats {
	st := partStats{Outcomes: map[string]int{}}
	var cc cliCase
	if err := json.Unmarshal(raw, &cc); err != nil || cc.N < 1 || cc.Size < 1 {
		c.harnessErr("replay: bad cli replay data")
		return st
	}
	li := 0
	for i, l := range cliLimits {
		if l.Name == cc.Limit {
			li = i
		}
	}
	runCliCase(c, cc, li, &st)
	fmt.Printf("replay cli: %s -> %v\n", cc, st.Outcomes)
	return st
}
