package main

import (
	"bytes"
	"encoding/binary"
	"encoding/json"
	"fmt"
	"io"

	"github.com/karagenc/socket.io-go/engine.io/parser"
	"github.com/karagenc/socket.io-go/engine.io/transport/webtransport"
)

// Part 4: the WebTransport server transport's read loop (limitedReader + nextPacket as the real
// ServerTransport composes them) over a stream made by the harness: one tested message, one barrier
// packet (a one-byte PING frame, within every limit), end of stream. The stream hands out at most `chunk` bytes per Read.

const (
	kWTOverDelivered = "webtransport server: message larger than MaxBufferSize delivered"
	kWTOverOpen      = "webtransport server: oversized message dropped but the read loop goes on"
	kWTRead          = "webtransport server: oversized message read beyond MaxBufferSize + 4 KiB before the refusal"
	kWTDisabled      = "webtransport server: message refused although the limit is disabled (MaxBufferSize 0)"
	kWTInRefused     = "webtransport server: message within MaxBufferSize refused"
	kWTCorrupt       = "webtransport server: message within the limit delivered corrupted"
	kWTPanic         = "webtransport server: panic in the read loop"
)

const maxWTLength = 1 << 18

type wtCase struct {
	Part   string `json:"part"`
	Limit  int    `json:"limit"`  // MaxBufferSize; 0 = disabled
	Length int    `json:"length"` // bytes of the framed message (type byte included for text)
	Chunk  int    `json:"chunk"`  // the stream returns at most this many bytes per Read; 0 = no bound
	Binary bool   `json:"binary"`
}

func (c wtCase) String() string {
	kind := "text"
	if c.Binary {
		kind = "binary"
	}
	ch := "as much as asked per Read"
	if c.Chunk > 0 {
		ch = fmt.Sprintf("at most %d byte(s) per Read", c.Chunk)
	}
	return fmt.Sprintf("MaxBufferSize=%d, %s message of %d bytes, stream delivering %s", c.Limit, kind, c.Length, ch)
}

type chunkReader struct {
	data  []byte
	off   int
	chunk int
}

func (r *chunkReader) Read(p []byte) (int, error) {
	if r.off >= len(r.data) {
		return 0, io.EOF
	}
	if r.chunk > 0 && len(p) > r.chunk {
		p = p[:r.chunk]
	}
	n := copy(p, r.data[r.off:])
	r.off += n
	return n, nil
}

// wtFrame frames a payload the way the Engine.IO v4 WebTransport framing does.
func wtFrame(payload []byte, isBinary bool) []byte {
	var h []byte
	switch {
	case len(payload) < 126:
		h = []byte{byte(len(payload))}
	case len(payload) < 65536:
		h = []byte{126, 0, 0}
		binary.BigEndian.PutUint16(h[1:], uint16(len(payload)))
	default:
		h = make([]byte, 9)
		h[0] = 127
		binary.BigEndian.PutUint64(h[1:], uint64(len(payload)))
	}
	if isBinary {
		h[0] |= 0x80
	}
	return append(h, payload...)
}

func runWTCase(c *ctx, wc wtCase, st *partStats) {
	chunkRank := wc.Chunk
	if chunkRank == 0 {
		chunkRank = 1 << 30
	}
	binIdx := 0
	if wc.Binary {
		binIdx = 1
	}
	rank := []int{4, wc.Limit, wc.Length, chunkRank, binIdx}
	report := func(key, what string) {
		st.Outcomes["violation"]++
		c.col.add(key, rank, func() (string, any) { return wc.String() + ": " + what, wc })
	}
	st.Evaluations++
	if nontrivialSize(wc.Length, wc.Limit) || wc.Limit == 0 {
		st.Nontrivial++
	}
	payload := bytes.Repeat([]byte("a"), wc.Length)
	if !wc.Binary {
		payload[0] = '4'
	}
	frame := wtFrame(payload, wc.Binary)
	hdr := len(frame) - len(payload)
	stream := &chunkReader{data: append(append([]byte{}, frame...), wtFrame([]byte("2"), false)...), chunk: wc.Chunk}

	var got []gotMsg
	var gotBinary []bool
	closes := 0
	var closeErr error
	consumedAtClose := -1
	var panicked any
	func() {
		defer func() { panicked = recover() }()
		webtransport.VerifC13Serve(stream, int64(wc.Limit),
			func(packets ...*parser.Packet) {
				for _, p := range packets {
					if p.Type == parser.PacketTypePing && len(p.Data) == 0 {
						// the barrier: a one-byte PING frame, so that it fits every limit >= 1
						got = append(got, gotMsg{wire: 1, intact: true, barrier: true})
						gotBinary = append(gotBinary, false)
						continue
					}
					if g, ok := classify(p); ok {
						got = append(got, g)
						gotBinary = append(gotBinary, p.IsBinary)
					}
				}
			},
			func(name string, err error) {
				closes++
				closeErr = err
				if consumedAtClose < 0 {
					consumedAtClose = stream.off
				}
			})
	}()
	if panicked != nil {
		report(kWTPanic, fmt.Sprintf("panic: %v", panicked))
		return
	}
	var tested *gotMsg
	testedBin := false
	barrier := false
	for i := range got {
		if got[i].barrier {
			barrier = true
		} else if tested == nil {
			tested, testedBin = &got[i], gotBinary[i]
		}
	}
	over := wc.Limit > 0 && wc.Length > wc.Limit
	if over {
		switch {
		case tested != nil:
			report(kWTOverDelivered, fmt.Sprintf("OnPacket received the %d-byte message (limit %d); %d bytes were read from the stream", tested.wire, wc.Limit, stream.off))
		case barrier:
			report(kWTOverOpen, "the barrier message behind it was delivered")
		case closes == 0 || closeErr == nil:
			report(kWTOverOpen, fmt.Sprintf("not delivered, but the transport did not close with an error (OnClose calls %d, err %v)", closes, closeErr))
		case consumedAtClose > hdr+wc.Limit+slackBytes:
			report(kWTRead, fmt.Sprintf("refused with %q after reading %d bytes from the stream", closeErr, consumedAtClose))
		default:
			st.Outcomes["over limit: refused with an error, transport closed"]++
		}
		return
	}
	switch {
	case tested == nil || !barrier:
		what := fmt.Sprintf("tested delivered=%v, barrier delivered=%v, transport closed with %q after %d of %d stream bytes", tested != nil, barrier, errString(closeErr), consumedAtClose, len(stream.data))
		if wc.Limit == 0 {
			report(kWTDisabled, what)
		} else {
			report(kWTInRefused, what)
		}
	case tested.wire != wc.Length || !tested.intact || testedBin != wc.Binary:
		report(kWTCorrupt, fmt.Sprintf("OnPacket saw %+v binary=%v", *tested, testedBin))
	default:
		st.Outcomes["within limit: delivered intact, next message delivered"]++
	}
}

func wtCases(c *ctx) []wtCase {
	limits := []int{0, 1, 5, 16, 126, 1000, 40000, 70000}
	var cases []wtCase
	for _, l := range limits {
		var lens []int
		if l > 0 {
			lens = []int{1, l - 1, l, l + 1, 2 * l, 125, 126, 127, 32768, 65535, 65536}
			if c.thorough {
				lens = append(lens, 2, l+2, 3*l, l+4096, l+4097, 4096, 65534, 65537, 131072)
			}
		} else {
			lens = []int{1, 125, 126, 127, 1000, 32768, 65535, 65536}
			if c.thorough {
				lens = append(lens, 2, 4096, 65534, 65537, 131072)
			}
		}
		chunks := []int{1, 2, 3, 7, 64, l, l + 1, 0}
		if c.thorough {
			chunks = append(chunks, 5, 16, 255, 4096, l-1, 2*l)
		}
		var cs []int
		seen := map[int]bool{}
		for _, k := range chunks {
			if k >= 0 && !seen[k] {
				seen[k] = true
				cs = append(cs, k)
			}
		}
		for _, n := range uniqSorted(lens) {
			if n > maxWTLength {
				continue
			}
			for _, k := range cs {
				for _, b := range []bool{false, true} {
					cases = append(cases, wtCase{Part: "wt", Limit: l, Length: n, Chunk: k, Binary: b})
				}
			}
		}
	}
	return cases
}

func runWT(c *ctx) partStats {
	st := partStats{Outcomes: map[string]int{}, Detail: map[string]any{}}
	cases := wtCases(c)
	for _, wc := range cases {
		runWTCase(c, wc, &st)
	}
	st.Detail["cases"] = len(cases)
	if len(cases) > 0 {
		c.sample("wt", cases[len(cases)/2])
	}
	return st
}

func replayWT(c *ctx, raw json.RawMessage) partStats {
	st := partStats{Outcomes: map[string]int{}}
	var wc wtCase
	if err := json.Unmarshal(raw, &wc); err != nil || wc.Length < 1 || wc.Length > maxWTLength {
		c.harnessErr("replay: bad wt replay data")
		return st
	}
	runWTCase(c, wc, &st)
	fmt.Printf("replay wt: %s -> %v\n", wc, st.Outcomes)
	return st
}
