package main

import (
	"bytes"
	"encoding/json"
	"fmt"
	"io"
	"net/http"
	"net/http/httptest"
	"sort"
	"strconv"
	"strings"
	"sync"
	"time"

	eio "github.com/karagenc/socket.io-go/engine.io"
	"github.com/karagenc/socket.io-go/engine.io/parser"
)

// Part 2: polling inbound. Shared by part 3: the limit configurations.

type limitSpec struct {
	Name       string
	cfg        eio.ServerConfig
	configured int64 // maxPayload the handshake must announce; -1: whatever the default is
}

var limitSpecs = []limitSpec{
	{"16", eio.ServerConfig{MaxBufferSize: 16}, 16},
	{"1000", eio.ServerConfig{MaxBufferSize: 1000}, 1000},
	{"default", eio.ServerConfig{}, -1},
	// MaxBufferSize is set as well: DisableMaxBufferSize must make the server ignore it.
	{"disabled", eio.ServerConfig{MaxBufferSize: 16, DisableMaxBufferSize: true}, 0},
}

func limitByName(n string) (limitSpec, bool) {
	for _, l := range limitSpecs {
		if l.Name == n {
			return l, true
		}
	}
	return limitSpec{}, false
}

func uniqSorted(in []int) []int {
	m := map[int]bool{}
	var out []int
	for _, x := range in {
		if x >= 1 && !m[x] {
			m[x] = true
			out = append(out, x)
		}
	}
	sort.Ints(out)
	return out
}

// sizesFor returns the message sizes tried against an announced limit (0 = no limit).
func sizesFor(limit int, thorough bool, min int) []int {
	var s []int
	if limit > 0 {
		s = []int{1, limit - 1, limit, limit + 1, 2 * limit, 32767, 32768, 32769, 65536}
		if thorough {
			s = append(s, 2, limit-2, limit+2, 3*limit, limit+4096, limit+4097, 131072)
		}
	} else {
		s = []int{1, 32767, 32768, 32769, 65536, 1000000, 1000001, 2000000}
		if thorough {
			s = append(s, 2, 131072, 4000000)
		}
	}
	var out []int
	for _, x := range uniqSorted(s) {
		if x >= min {
			out = append(out, x)
		}
	}
	return out
}

func nontrivialSize(size, limit int) bool {
	return (limit > 0 && size >= limit-1) || size >= 32767
}

const (
	kPollCL        = "polling: body larger than MaxBufferSize accepted although its Content-Length says so"
	kPollChunked   = "polling: chunked body bypasses MaxBufferSize"
	kPollUnder     = "polling: body longer than its declared Content-Length bypasses MaxBufferSize"
	kPollRead      = "polling: oversized body read beyond MaxBufferSize + 4 KiB before the refusal"
	kPoll2xx       = "polling: oversized body not delivered but answered 2xx"
	kPollOpen      = "polling: oversized request refused but the session stays open"
	kPollRefused   = "polling: body within the announced limit refused"
	kPollCorrupt   = "polling: message within the limit delivered corrupted or more than once"
	kPollAfter     = "polling: session unusable after a message within the limit"
	kPollPanic     = "polling: panic in ServeHTTP"
	kAnnounce      = "handshake: announced maxPayload differs from the configured MaxBufferSize"
	slackBytes     = 4096
	barrierPayload = "4B"
)

type gotMsg struct {
	wire    int // bytes on the wire (type byte + data)
	intact  bool
	barrier bool
	head    string // first bytes of the data, for messages
}

type closeInfo struct {
	reason string
	err    string
}

type pollSession struct {
	srv       *eio.Server
	sid       string
	announced int64
	mu        sync.Mutex
	got       []gotMsg
	closed    chan closeInfo
}

func allA(b []byte) bool {
	for _, c := range b {
		if c != 'a' {
			return false
		}
	}
	return true
}

func classify(p *parser.Packet) (gotMsg, bool) {
	if p.Type != parser.PacketTypeMessage {
		return gotMsg{}, false
	}
	if !p.IsBinary && string(p.Data) == "B" {
		return gotMsg{wire: 2, intact: true, barrier: true}, true
	}
	w := len(p.Data)
	if !p.IsBinary {
		w++
	}
	h := p.Data
	if len(h) > 8 {
		h = h[:8]
	}
	return gotMsg{wire: w, intact: allA(p.Data), head: fmt.Sprintf("%q binary=%v", h, p.IsBinary)}, true
}

func errString(err error) string {
	if err == nil {
		return ""
	}
	return err.Error()
}

// quietHeartbeat keeps PING/PONG and their timeouts out of the cases: no heartbeat is due while a case
// runs, so a close can only come from the mechanism under test.
func quietHeartbeat(cfg eio.ServerConfig) eio.ServerConfig {
	cfg.PingInterval = 5 * time.Minute
	cfg.PingTimeout = 5 * time.Minute
	return cfg
}

func newPollSession(spec limitSpec) (*pollSession, error) {
	s := &pollSession{closed: make(chan closeInfo, 4)}
	cfg := quietHeartbeat(spec.cfg)
	// Only the session opened by this harness counts. While the server listens on a loopback port
	// (real net/http cases) a stray client of some other process on this machine - e.g. a Socket.IO
	// client of another test run reconnecting to a port number it used before - may open a session
	// of its own on this server; its packets and its close say nothing about the case.
	s.srv = eio.NewServer(func(sock eio.ServerSocket) *eio.Callbacks {
		id := sock.ID()
		mine := func() bool {
			s.mu.Lock()
			defer s.mu.Unlock()
			return s.sid != "" && id == s.sid
		}
		return &eio.Callbacks{
			OnPacket: func(packets ...*parser.Packet) {
				if !mine() {
					return
				}
				s.mu.Lock()
				defer s.mu.Unlock()
				for _, p := range packets {
					if g, ok := classify(p); ok {
						s.got = append(s.got, g)
					}
				}
			},
			OnClose: func(reason eio.Reason, err error) {
				if !mine() {
					return
				}
				select {
				case s.closed <- closeInfo{string(reason), errString(err)}:
				default:
				}
			},
		}
	}, &cfg)
	if err := s.srv.Run(); err != nil {
		return nil, err
	}
	rec := httptest.NewRecorder()
	req := httptest.NewRequest("GET", "/engine.io/?EIO="+strconv.Itoa(eio.ProtocolVersion)+"&transport=polling", nil)
	s.srv.ServeHTTP(rec, req)
	if rec.Code != 200 {
		return nil, fmt.Errorf("handshake status %d", rec.Code)
	}
	pk, err := parser.DecodePayloads(bytes.NewReader(rec.Body.Bytes()))
	if err != nil || len(pk) == 0 {
		return nil, fmt.Errorf("handshake body %q: %v", rec.Body.String(), err)
	}
	hr, err := parser.ParseHandshakeResponse(pk[0])
	if err != nil {
		return nil, err
	}
	s.mu.Lock()
	s.sid, s.announced = hr.SID, hr.MaxPayload
	s.mu.Unlock()
	return s, nil
}

func (s *pollSession) target() string {
	return "/engine.io/?EIO=" + strconv.Itoa(eio.ProtocolVersion) + "&transport=polling&sid=" + s.sid
}

func (s *pollSession) delivered() []gotMsg {
	s.mu.Lock()
	defer s.mu.Unlock()
	return append([]gotMsg{}, s.got...)
}

// countingBody is a request body that knows how much of it was read.
type countingBody struct {
	data []byte
	off  int
}

func (b *countingBody) Read(p []byte) (int, error) {
	if b.off >= len(b.data) {
		return 0, io.EOF
	}
	n := copy(p, b.data[b.off:])
	b.off += n
	return n, nil
}
func (b *countingBody) Close() error { return nil }

func textMessage(size int) []byte {
	m := bytes.Repeat([]byte("a"), size)
	m[0] = '4'
	return m
}

// post hands one POST to the server's ServeHTTP. declared < 0 means chunked.
func (s *pollSession) post(body []byte, declared int64, jsonp ...bool) (code int, read int, panicked any) {
	cb := &countingBody{data: body}
	target := s.target()
	isJSONP := len(jsonp) > 0 && jsonp[0]
	if isJSONP {
		target += "&j=0" // JSON-P polling: the payload travels as form field d
	}
	req := httptest.NewRequest("POST", target, cb)
	req.ContentLength = declared
	if declared < 0 {
		req.TransferEncoding = []string{"chunked"}
	} else {
		req.Header.Set("Content-Length", strconv.FormatInt(declared, 10))
	}
	req.Header.Set("Content-Type", "text/plain;charset=UTF-8")
	if isJSONP {
		req.Header.Set("Content-Type", "application/x-www-form-urlencoded")
	}
	rec := httptest.NewRecorder()
	func() {
		defer func() { panicked = recover() }()
		s.srv.ServeHTTP(rec, req)
	}()
	return rec.Code, cb.off, panicked
}

type pollCase struct {
	Part  string `json:"part"`
	Limit string `json:"limit"`
	Size  int    `json:"size"`
	Mode  string `json:"mode"` // content-length | chunked | under-declared
	Real  bool   `json:"real_http"`
}

func (c pollCase) String() string {
	via := "ServeHTTP"
	if c.Real {
		via = "real net/http server"
	}
	return fmt.Sprintf("MaxBufferSize=%s, POST body of %d bytes ('4' + %d x 'a'), %s, via %s", c.Limit, c.Size, c.Size-1, c.Mode, via)
}

var pollModes = []string{"content-length", "chunked", "under-declared", "jsonp-content-length", "jsonp-chunked", "jsonp-under-declared"}

func modeIndex(m string) int {
	for i, x := range pollModes {
		if x == m {
			return i
		}
	}
	return len(pollModes)
}

// awaitClose waits for the server side OnClose of a session. The first wait for a given key uses the
// full deadline; once that key is already reported the later cases only add to its count.
func awaitClose(c *ctx, closed chan closeInfo, key string) (closeInfo, bool) {
	d := curDeadline()
	c.col.mu.Lock()
	if c.col.m[key] != nil {
		d = 2 * time.Second
	}
	c.col.mu.Unlock()
	t := time.NewTimer(d)
	defer t.Stop()
	select {
	case ci := <-closed:
		return ci, true
	case <-t.C:
		return closeInfo{}, false
	}
}

func runPollCase(c *ctx, pc pollCase, limIdx int, st *partStats) {
	spec, _ := limitByName(pc.Limit)
	rank := []int{2, limIdx, pc.Size, modeIndex(pc.Mode), 0}
	if pc.Real {
		rank[4] = 1
	}
	sess, err := newPollSession(spec)
	if err != nil {
		c.harnessErr("polling rig: " + err.Error())
		return
	}
	defer sess.srv.Close()
	st.Evaluations++
	report := func(key, what string) {
		st.Outcomes["violation"]++
		c.col.add(key, rank, func() (string, any) { return pc.String() + ": " + what, pc })
	}
	if spec.configured >= 0 && sess.announced != spec.configured {
		report(kAnnounce, fmt.Sprintf("handshake announces maxPayload=%d", sess.announced))
	}
	limit := int(sess.announced)
	if nontrivialSize(pc.Size, limit) {
		st.Nontrivial++
	}
	over := limit > 0 && pc.Size > limit
	body := textMessage(pc.Size)
	isJSONP := strings.HasPrefix(pc.Mode, "jsonp")
	msgSize := pc.Size
	if isJSONP {
		// the HTTP body has the tested size: "d=" + message
		msgSize = pc.Size - 2
		body = append([]byte("d="), textMessage(msgSize)...)
		if over && msgSize <= limit {
			st.Outcomes["jsonp: body above, message within the limit (no requirement)"]++
			return
		}
	}
	declared := int64(pc.Size)
	switch strings.TrimPrefix(pc.Mode, "jsonp-") {
	case "chunked":
		declared = -1
	case "under-declared":
		// the largest lie that still passes a Content-Length test
		declared = int64(pc.Size - 1)
		if limit > 0 && declared > int64(limit) {
			declared = int64(limit)
		}
	}

	var code, read int
	if pc.Real {
		var ok bool
		code, ok = realPost(c, sess, body, declared)
		if !ok {
			return
		}
		read = -1
	} else {
		var p any
		code, read, p = sess.post(body, declared, isJSONP)
		if p != nil {
			report(kPollPanic, fmt.Sprintf("panic: %v", p))
			return
		}
	}
	got := sess.delivered()
	deliveredTested := false
	var oversize *gotMsg // a delivered message larger than the limit: the property itself
	for i, g := range got {
		if !g.barrier {
			deliveredTested = true
		}
		if limit > 0 && g.wire > limit && oversize == nil {
			oversize = &got[i]
		}
	}

	if over {
		if oversize != nil {
			key := kPollCL
			switch strings.TrimPrefix(pc.Mode, "jsonp-") {
			case "chunked":
				key = kPollChunked
			case "under-declared":
				key = kPollUnder
			}
			if isJSONP {
				key += " (JSON-P form body)"
			}
			report(key, fmt.Sprintf("status %d, the %d-byte message was delivered to OnPacket although the limit is %d (declared Content-Length %d, %d body bytes read)", code, oversize.wire, limit, declared, read))
			st.Outcomes["over limit: delivered"]++
			return
		}
		if read > limit+slackBytes {
			report(kPollRead, fmt.Sprintf("status %d, not delivered, but %d bytes of the body were read (limit %d)", code, read, limit))
		}
		if code >= 200 && code < 300 {
			report(kPoll2xx, fmt.Sprintf("status %d, OnPacket saw %+v", code, got))
			return
		}
		// refused: the session must be closed (OnClose on the server side)
		if _, ok := awaitClose(c, sess.closed, kPollOpen); !ok {
			report(kPollOpen, fmt.Sprintf("status %d, but OnClose was not called within the deadline", code))
			return
		}
		if pc.Real {
			// net/http may cut the connection of a refused request before the client has read the status
			st.Outcomes["over limit: refused (4xx, or connection cut by net/http), not delivered, closed"]++
		} else {
			st.Outcomes[fmt.Sprintf("over limit: refused %d, not delivered, closed", code)]++
		}
		return
	}

	// within the announced limit: accepted
	if pc.Real && code == -1 && deliveredTested {
		// The handler has returned (realPost waited for it) and delivered the message; that the client
		// then failed to read the answer over loopback is the rig's trouble, not a verdict.
		c.anomaly("polling rig (real net/http): the client got a transport error although the server delivered the message: " + pc.String())
		code = 200
	}
	if code != 200 || !deliveredTested {
		report(kPollRefused, fmt.Sprintf("status %d, delivered=%v (announced maxPayload %d)", code, deliveredTested, sess.announced))
		return
	}
	if len(got) != 1 || got[0].wire != msgSize || !got[0].intact {
		report(kPollCorrupt, fmt.Sprintf("OnPacket saw %+v", got))
		return
	}
	// the session still works: a second small message goes through
	code2, _, p2 := sess.post([]byte(barrierPayload), int64(len(barrierPayload)))
	got = sess.delivered()
	if p2 != nil || code2 != 200 || len(got) != 2 || !got[1].barrier {
		report(kPollAfter, fmt.Sprintf("follow-up POST %q: status %d panic=%v delivered=%+v", barrierPayload, code2, p2, got))
		return
	}
	st.Outcomes["within limit: 200, delivered intact, session usable"]++
}

type onlyReader struct{ r io.Reader }

func (o onlyReader) Read(p []byte) (int, error) { return o.r.Read(p) }

// realPost sends the POST through a real net/http server on loopback and waits until the handler has
// returned (event, not time). A transport error on the client side is reported as status -1: net/http
// may cut the connection of a request it refuses before the whole body was sent.
func realPost(c *ctx, sess *pollSession, body []byte, declared int64) (code int, ok bool) {
	handlerDone := make(chan struct{}, 4)
	ts := httptest.NewServer(http.HandlerFunc(func(w http.ResponseWriter, r *http.Request) {
		// only the request of this case counts (see newPollSession about stray clients)
		if r.Method == "POST" && r.URL.Query().Get("sid") == sess.sid {
			defer func() { handlerDone <- struct{}{} }()
		}
		sess.srv.ServeHTTP(w, r)
	}))
	defer ts.Close()
	tr := &http.Transport{DisableKeepAlives: true}
	defer tr.CloseIdleConnections()
	cl := &http.Client{Transport: tr}
	req, err := http.NewRequest("POST", ts.URL+sess.target(), io.NopCloser(onlyReader{bytes.NewReader(body)}))
	if err != nil {
		c.harnessErr("polling rig: " + err.Error())
		return 0, false
	}
	req.ContentLength = declared
	req.Header.Set("Content-Type", "text/plain;charset=UTF-8")
	resp, err := cl.Do(req)
	code = -1
	if err == nil {
		code = resp.StatusCode
		io.Copy(io.Discard, resp.Body)
		resp.Body.Close()
	}
	t := time.NewTimer(curDeadline())
	defer t.Stop()
	select {
	case <-handlerDone:
	case <-t.C:
		c.capHit("polling (real net/http): handler did not return within 60 s")
		return 0, false
	}
	return code, true
}

func pollCases(c *ctx) (cases []pollCase, limIdx []int) {
	for li, spec := range limitSpecs {
		// the announced limit decides the sizes: ask a fresh server once
		sess, err := newPollSession(spec)
		if err != nil {
			c.harnessErr("polling rig: " + err.Error())
			continue
		}
		limit := int(sess.announced)
		sess.srv.Close()
		for _, size := range sizesFor(limit, c.thorough, 1) {
			for _, mode := range pollModes {
				if strings.HasSuffix(mode, "under-declared") && !(limit > 0 && size > limit) {
					continue // a lie only matters where the truth would have been refused
				}
				if strings.HasPrefix(mode, "jsonp") && size < 4 {
					continue // "d=4" is the smallest JSON-P body that carries a message
				}
				cases = append(cases, pollCase{Part: "polling", Limit: spec.Name, Size: size, Mode: mode})
				limIdx = append(limIdx, li)
			}
		}
		if limit > 0 {
			for _, size := range []int{limit, limit + 1} {
				for _, mode := range []string{"content-length", "chunked"} {
					cases = append(cases, pollCase{Part: "polling", Limit: spec.Name, Size: size, Mode: mode, Real: true})
					limIdx = append(limIdx, li)
				}
			}
		}
	}
	return
}

func runPolling(c *ctx) partStats {
	st := partStats{Outcomes: map[string]int{}, Detail: map[string]any{}}
	cases, idx := pollCases(c)
	for i, pc := range cases {
		runPollCase(c, pc, idx[i], &st)
	}
	st.Detail["cases"] = len(cases)
	if len(cases) > 0 {
		c.sample("polling", cases[len(cases)/3])
		c.sample("polling", cases[len(cases)-1])
	}
	return st
}

func replayPolling(c *ctx, raw json.RawMessage) partStats {
	st := partStats{Outcomes: map[string]int{}}
	var pc pollCase
	if err := json.Unmarshal(raw, &pc); err != nil {
		c.harnessErr("replay: bad polling replay data")
		return st
	}
	if _, ok := limitByName(pc.Limit); !ok {
		c.harnessErr("replay: unknown limit " + pc.Limit)
		return st
	}
	runPollCase(c, pc, 0, &st)
	fmt.Printf("replay polling: %s -> %v\n", pc, st.Outcomes)
	return st
}
