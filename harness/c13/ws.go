package main

import (
	"bytes"
	"context"
	"encoding/json"
	"fmt"
	"net/http/httptest"
	"strings"
	"time"

	"nhooyr.io/websocket"

	eio "github.com/karagenc/socket.io-go/engine.io"
	"github.com/karagenc/socket.io-go/engine.io/parser"
)

// Part 3: WebSocket over real loopback, both directions.
//
// Protocol of one case: fresh server, fresh connection; the sender sends the tested message and then a
// two-byte barrier message ("4B"). Messages on one connection are handled in order by one goroutine,
// so the arrival of the barrier decides "the tested message was (not) delivered and the connection
// is still up" without any sleep; a close callback decides the opposite.

const (
	kWSOverDelivered = "websocket server: client->server message larger than MaxBufferSize delivered"
	kWSOverOpen      = "websocket server: oversized client->server message dropped but the connection stays open"
	kWSOverWedged    = "websocket server: oversized client->server message neither delivered nor the connection closed"
	kWSInDisabled32k = "websocket server: client->server message > 32 KiB refused although the limit is disabled (the library's default read limit stays in force)"
	kWSInRefused     = "websocket server: client->server message within the announced maxPayload refused, connection closed"
	kWSOut32k        = "websocket client: server->client message within maxPayload but > 32 KiB kills the connection"
	kWSOutRefused    = "websocket client: server->client message within maxPayload kills the connection"
	kWSCorrupt       = "websocket: message within the limit lost or delivered corrupted while the connection stays up"
	libDefaultLimit  = 32768
)

type wsCase struct {
	Part   string `json:"part"`
	Limit  string `json:"limit"`
	Size   int    `json:"size"` // bytes of the WebSocket message
	Dir    string `json:"dir"`  // c2s | s2c
	Binary bool   `json:"binary"`
	// Upgraded: the session starts on long-polling and is upgraded to WebSocket before the message is sent
	// (the server transport is then set up by the upgrade path, not by the handshake)
	Upgraded bool `json:"upgraded,omitempty"`
	// B64: the client is a raw WebSocket client that announced b64=1 in its handshake URL (a client without
	// binary support: the server sends binary data as base64 text). Client->server only; the Go client never
	// asks for that (seed c13i: the read limit of such connections inflated to the base64 size of the limit).
	B64 bool `json:"b64,omitempty"`
}

func (c wsCase) String() string {
	kind := "text"
	if c.Binary {
		kind = "binary"
	}
	dir := "client->server"
	if c.Dir == "s2c" {
		dir = "server->client"
	}
	how := "a real WebSocket"
	if c.Upgraded {
		how = "a real WebSocket reached by upgrading a long-polling session"
	}
	if c.B64 {
		how = "a real WebSocket whose client announced b64=1 (raw client)"
	}
	return fmt.Sprintf("MaxBufferSize=%s, %s %s message of %d bytes over %s", c.Limit, dir, kind, c.Size, how)
}

type wsEvent struct {
	sid    string // server side: id of the session the event belongs to
	side   string // server | client
	kind   string // packet | close
	msg    gotMsg
	binary bool
	close  closeInfo
}

func wsPacket(size int, binary bool) *parser.Packet {
	if binary {
		return &parser.Packet{Type: parser.PacketTypeMessage, IsBinary: true, Data: bytes.Repeat([]byte("a"), size)}
	}
	return &parser.Packet{Type: parser.PacketTypeMessage, Data: bytes.Repeat([]byte("a"), size-1)}
}

func runWSCase(c *ctx, wc wsCase, limIdx int, st *partStats) {
	spec, _ := limitByName(wc.Limit)
	dirIdx := 0
	if wc.Dir == "s2c" {
		dirIdx = 1
	}
	binIdx := 0
	if wc.Binary {
		binIdx = 1
	}
	upIdx := 0
	if wc.Upgraded {
		upIdx = 1
	}
	if wc.B64 {
		upIdx = 2
	}
	rank := []int{3, limIdx, wc.Size, dirIdx, binIdx, upIdx}
	report := func(key, what string) {
		st.Outcomes["violation"]++
		c.col.add(key, rank, func() (string, any) { return wc.String() + ": " + what, wc })
	}

	events := make(chan wsEvent, 256)
	push := func(e wsEvent) {
		select {
		case events <- e:
		default: // nobody listens any more (after the verdict)
		}
	}
	callbacks := func(side, sid string) *eio.Callbacks {
		return &eio.Callbacks{
			OnPacket: func(packets ...*parser.Packet) {
				for _, p := range packets {
					if g, ok := classify(p); ok {
						push(wsEvent{sid: sid, side: side, kind: "packet", msg: g, binary: p.IsBinary})
					}
				}
			},
			OnClose: func(reason eio.Reason, err error) {
				push(wsEvent{sid: sid, side: side, kind: "close", close: closeInfo{string(reason), errString(err)}})
			},
		}
	}
	// The server listens on a loopback port, and port numbers are recycled: a stray client of some
	// other process on this machine (e.g. a Socket.IO client of another test run reconnecting to a
	// port it used before) may open a session of its own here. Only the session of the client dialed
	// below counts: server side events carry their session id and are matched with the client's.
	sockCh := make(chan eio.ServerSocket, 64)
	cfg := quietHeartbeat(spec.cfg)
	srv := eio.NewServer(func(s eio.ServerSocket) *eio.Callbacks {
		select {
		case sockCh <- s:
		default:
		}
		return callbacks("server", s.ID())
	}, &cfg)
	if err := srv.Run(); err != nil {
		c.harnessErr("ws rig: " + err.Error())
		return
	}
	ts := httptest.NewServer(srv)
	var cli eio.ClientSocket
	defer func() {
		// teardown never decides anything; it runs aside so that a stuck Close cannot stall the check
		done := make(chan struct{})
		go func() {
			if cli != nil {
				cli.Close()
			}
			srv.Close()
			ts.CloseClientConnections()
			ts.Close()
			close(done)
		}()
		t := time.NewTimer(curDeadline())
		defer t.Stop()
		select {
		case <-done:
		case <-t.C:
			c.capHit("ws rig: teardown of a case did not finish within 60 s (left behind)")
		}
	}()

	deadline := time.NewTimer(curDeadline())
	defer deadline.Stop()

	var err error
	ccfg := &eio.ClientConfig{Transports: []string{"websocket"}}
	upgraded := make(chan string, 4)
	if wc.Upgraded {
		ccfg = &eio.ClientConfig{Transports: []string{"polling", "websocket"}, UpgradeDone: func(name string) {
			select {
			case upgraded <- name:
			default:
			}
		}}
	}
	var raw *websocket.Conn
	rawSID := ""
	if wc.B64 {
		dctx, cancel := context.WithTimeout(context.Background(), curDeadline())
		defer cancel()
		raw, _, err = websocket.Dial(dctx, "ws"+strings.TrimPrefix(ts.URL, "http")+"/engine.io/?EIO=4&transport=websocket&b64=1", nil)
		if err != nil {
			c.harnessErr("ws rig: raw dial: " + err.Error())
			return
		}
		defer raw.CloseNow()
		_, open, rerr := raw.Read(dctx)
		var hs struct {
			SID string `json:"sid"`
		}
		if rerr != nil || len(open) < 2 || open[0] != '0' || json.Unmarshal(open[1:], &hs) != nil || hs.SID == "" {
			c.harnessErr(fmt.Sprintf("ws rig: raw client: no OPEN packet (%v, %q)", rerr, open))
			return
		}
		rawSID = hs.SID
		// keep reading like any client does (pings, and the close handshake when the server refuses a message)
		go func() {
			for {
				if _, _, err := raw.Read(dctx); err != nil {
					return
				}
			}
		}()
	} else {
		cli, err = eio.Dial(ts.URL, callbacks("client", ""), ccfg)
		if err != nil {
			c.harnessErr("ws rig: dial: " + err.Error())
			return
		}
	}
	if wc.Upgraded {
		select {
		case <-upgraded:
		case <-deadline.C:
			c.capHit("ws rig: the upgrade to websocket did not complete within 60 s")
			return
		}
	}
	if cli != nil && cli.TransportName() != "websocket" {
		c.harnessErr("ws rig: transport is " + cli.TransportName())
		return
	}
	mySID := rawSID
	if cli != nil {
		mySID = cli.ID()
	}
	var ss eio.ServerSocket
	for ss == nil {
		select {
		case s := <-sockCh:
			if s.ID() == mySID {
				ss = s
			} else {
				c.anomaly("ws rig: a session that is not the harness's was opened on the case's loopback server (ignored)")
			}
		case <-deadline.C:
			c.capHit("ws rig: server socket callback did not arrive within 60 s")
			return
		}
	}

	// The announced limit is what the configuration says (the polling part checks the announcement).
	limit := 0
	switch wc.Limit {
	case "16":
		limit = 16
	case "1000":
		limit = 1000
	case "default":
		limit = defaultLimit(c)
	}
	st.Evaluations++
	if nontrivialSize(wc.Size, limit) {
		st.Nontrivial++
	}
	over := limit > 0 && wc.Size > limit

	tested := wsPacket(wc.Size, wc.Binary)
	barrier := &parser.Packet{Type: parser.PacketTypeMessage, Data: []byte("B")}
	var sender eio.Socket = cli
	recvSide := "server"
	if wc.Dir == "s2c" {
		sender, recvSide = ss, "client"
	}
	go func() {
		// Send may block on a peer that stopped reading, or fail; neither matters here
		if raw != nil {
			wctx, cancel := context.WithTimeout(context.Background(), curDeadline())
			defer cancel()
			raw.Write(wctx, websocket.MessageText, append([]byte("4"), tested.Data...))
			raw.Write(wctx, websocket.MessageText, []byte("4B"))
			return
		}
		sender.Send(tested)
		sender.Send(barrier)
	}()

	// What the receiver saw. A message counts as "the tested message" only if it has the tested size;
	// any other non-barrier message is unexpected: it is recorded (coverage detail, for diagnosis) but
	// is neither a delivery of the tested message nor, being no larger than the barrier or not the
	// size under test, a verdict on the limit.
	var testedGot *gotMsg
	var testedBinary bool
	var oversizeGot *gotMsg // any delivered message larger than the limit (the property itself)
	barrierGot, closedRecv := false, false
	var closeSeen closeInfo
	timedOut := false
wait:
	for {
		select {
		case e := <-events:
			if e.side != recvSide {
				continue // the sender's own close follows or precedes; the receiver's view decides
			}
			if e.side == "server" && e.sid != mySID {
				c.anomaly("ws rig: event of a session that is not the harness's (ignored)")
				continue
			}
			switch {
			case e.kind == "close":
				closedRecv, closeSeen = true, e.close
				break wait
			case e.msg.barrier:
				barrierGot = true
				break wait
			default:
				g := e.msg
				if limit > 0 && g.wire > limit && wc.Dir == "c2s" && oversizeGot == nil {
					oversizeGot = &g
				}
				if g.wire == wc.Size && testedGot == nil {
					testedGot, testedBinary = &g, e.binary
				} else if g.wire != wc.Size {
					c.anomaly(fmt.Sprintf("%s: the %s received an unexpected %d-byte message (data starts %s)", wc.String(), recvSide, g.wire, g.head))
				}
				if oversizeGot != nil {
					break wait // already decided
				}
			}
		case <-deadline.C:
			timedOut = true
			break wait
		}
	}

	intact := testedGot != nil && testedGot.wire == wc.Size && testedGot.intact && testedBinary == wc.Binary
	outcome := ""
	switch {
	case wc.Dir == "c2s" && over:
		switch {
		case oversizeGot != nil:
			report(kWSOverDelivered, fmt.Sprintf("OnPacket received a %d-byte message (data starts %s; limit %d)", oversizeGot.wire, oversizeGot.head, limit))
		case barrierGot:
			report(kWSOverOpen, "the barrier message sent after it was delivered")
		case timedOut:
			report(kWSOverWedged, "no delivery and no OnClose on the server within 60 s")
		default:
			outcome = "c2s over limit: not delivered, server closed the connection (" + closeSeen.reason + ")"
		}
	case wc.Dir == "s2c" && over:
		// no requirement in the statement; recorded only
		switch {
		case timedOut:
			c.capHit("ws: server->client message above maxPayload: no event within 60 s")
		case barrierGot && intact:
			outcome = "s2c above maxPayload (no requirement): delivered"
		case closedRecv:
			outcome = "s2c above maxPayload (no requirement): client closed the connection"
		default:
			outcome = "s2c above maxPayload (no requirement): other"
		}
	default: // within the announced limit, either direction
		switch {
		case timedOut:
			c.capHit(fmt.Sprintf("ws: %s message within the limit: neither barrier nor close within 60 s", wc.Dir))
		case closedRecv:
			what := fmt.Sprintf("the %s closed the connection (reason %q, err %q); tested message delivered before that: %v", recvSide, closeSeen.reason, closeSeen.err, testedGot != nil)
			switch {
			case wc.Dir == "s2c" && wc.Size > libDefaultLimit:
				report(kWSOut32k, what)
			case wc.Dir == "s2c":
				report(kWSOutRefused, what)
			case limit == 0 && wc.Size > libDefaultLimit:
				report(kWSInDisabled32k, what)
			default:
				report(kWSInRefused, what)
			}
		case !intact:
			report(kWSCorrupt, fmt.Sprintf("barrier delivered, tested message seen as %+v", testedGot))
		default:
			outcome = wc.Dir + " within limit: delivered intact, connection up"
		}
	}
	if outcome != "" {
		st.Outcomes[outcome]++
	}
}

var cachedDefault = -1

// defaultLimit asks a default-configured server what it announces.
func defaultLimit(c *ctx) int {
	if cachedDefault >= 0 {
		return cachedDefault
	}
	spec, _ := limitByName("default")
	sess, err := newPollSession(spec)
	if err != nil {
		c.harnessErr("ws rig: " + err.Error())
		return 0
	}
	sess.srv.Close()
	cachedDefault = int(sess.announced)
	return cachedDefault
}

func wsCases(c *ctx) (cases []wsCase, limIdx []int) {
	for li, spec := range limitSpecs {
		limit := 0
		switch spec.Name {
		case "16":
			limit = 16
		case "1000":
			limit = 1000
		case "default":
			limit = defaultLimit(c)
		}
		kinds := []bool{false}
		if c.thorough {
			kinds = []bool{false, true}
		}
		for _, size := range sizesFor(limit, c.thorough, 3) {
			for _, dir := range []string{"c2s", "s2c"} {
				for _, bin := range kinds {
					for _, up := range []bool{false, true} {
						cases = append(cases, wsCase{Part: "ws", Limit: spec.Name, Size: size, Dir: dir, Binary: bin, Upgraded: up})
						limIdx = append(limIdx, li)
					}
				}
			}
			// a client without binary support (b64=1), text, client->server; also 4/3 of the limit (what the base64
			// form of a message of limit bytes takes)
			cases = append(cases, wsCase{Part: "ws", Limit: spec.Name, Size: size, Dir: "c2s", B64: true})
			limIdx = append(limIdx, li)
			if limit > 0 && size == limit {
				cases = append(cases, wsCase{Part: "ws", Limit: spec.Name, Size: 1 + (limit+2)/3*4, Dir: "c2s", B64: true})
				limIdx = append(limIdx, li)
			}
		}
	}
	return
}

func runWS(c *ctx) partStats {
	st := partStats{Outcomes: map[string]int{}, Detail: map[string]any{}}
	cases, idx := wsCases(c)
	for i, wc := range cases {
		runWSCase(c, wc, idx[i], &st)
	}
	st.Detail["cases"] = len(cases)
	if len(cases) > 0 {
		c.sample("ws", cases[len(cases)/2])
	}
	return st
}

func replayWS(c *ctx, raw json.RawMessage) partStats {
	st := partStats{Outcomes: map[string]int{}}
	var wc wsCase
	if err := json.Unmarshal(raw, &wc); err != nil {
		c.harnessErr("replay: bad ws replay data")
		return st
	}
	if _, ok := limitByName(wc.Limit); !ok || wc.Size < 3 {
		c.harnessErr("replay: bad ws case")
		return st
	}
	runWSCase(c, wc, 0, &st)
	fmt.Printf("replay ws: %s -> %v\n", wc, st.Outcomes)
	return st
}
