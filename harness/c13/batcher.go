package main

import (
	"bytes"
	"encoding/json"
	"errors"
	"fmt"
	"runtime"
	"sync"
	"sync/atomic"
	"time"

	eio "github.com/karagenc/socket.io-go/engine.io"
	"github.com/karagenc/socket.io-go/engine.io/parser"
)

// Part 1: the client batcher.

var batchSizes = []int{0, 1, 2, 3, 4, 6, 9}

const (
	kBatchSplit = "batcher: multi-packet batch exceeds maxPayload after a split"
	kBatchFirst = "batcher: multi-packet batch exceeds maxPayload (first batch, no earlier split)"
	kBatchEmpty = "batcher: multi-packet batch exceeds maxPayload by no more than its number of empty-data packets (their type byte is not counted)"
	kBatchDrop  = "batcher: packets dropped"
	kBatchDup   = "batcher: packets duplicated"
	kBatchOrder = "batcher: packets reordered or replaced"
	kBatchPanic = "batcher: panic in clientSocket.Send"
	kBatchLoop  = "batcher: more batches than packets handed to the transport"
	kBatchHang  = "batcher: clientSocket.Send does not return"
	kBatchLen   = "batcher oracle: parser.EncodedPayloadsLen differs from the bytes EncodePayloads writes"
)

var errTooManySends = errors.New("c13: too many sends")

// recTransport is the recording eio.ClientTransport; its name makes the socket batch for polling.
type recTransport struct {
	flat     []*parser.Packet
	cuts     []int
	maxSends int
}

func (t *recTransport) Name() string { return "polling" }
func (t *recTransport) Handshake() (*parser.HandshakeResponse, error) {
	return nil, errors.New("c13: recording transport")
}
func (t *recTransport) Run()     {}
func (t *recTransport) Discard() {}
func (t *recTransport) Close()   {}
func (t *recTransport) Send(packets ...*parser.Packet) {
	if len(t.cuts) >= t.maxSends {
		panic(errTooManySends)
	}
	t.flat = append(t.flat, packets...)
	t.cuts = append(t.cuts, len(packets))
}

func (t *recTransport) reset(maxSends int) {
	t.flat = t.flat[:0]
	t.cuts = t.cuts[:0]
	t.maxSends = maxSends
}

// pkSpec is one position of a vector.
type pkSpec struct {
	Size   int  `json:"size"`
	Binary bool `json:"binary"`
}

type batchReplay struct {
	Part       string   `json:"part"`
	Packets    []pkSpec `json:"packets"`
	MaxPayload int      `json:"maxPayload"`
}

var dataPool = bytes.Repeat([]byte("a"), 16)

func mkPackets(specs []pkSpec) []*parser.Packet {
	out := make([]*parser.Packet, len(specs))
	for i, s := range specs {
		data := dataPool
		if s.Size > len(data) {
			data = bytes.Repeat([]byte("a"), s.Size)
		}
		out[i] = &parser.Packet{Type: parser.PacketTypeMessage, IsBinary: s.Binary, Data: data[:s.Size:s.Size]}
	}
	return out
}

// options of position pos: 7 sizes x {text, binary} for pos < 2, 7 sizes (text) after.
func nOptions(pos int) int {
	if pos < 2 {
		return 2 * len(batchSizes)
	}
	return len(batchSizes)
}

func optionSpec(o int) pkSpec {
	return pkSpec{Size: batchSizes[o%len(batchSizes)], Binary: o >= len(batchSizes)}
}

type batchWorker struct {
	sock  eio.ClientSocket
	rec   *recTransport
	col   *collector
	evals int
	nontr int
	vecs  int
	maxM  int
	out   map[string]int
	cur   atomic.Value // string: the case being evaluated (for the hang watchdog)
}

func newBatchWorker() *batchWorker {
	rec := &recTransport{}
	return &batchWorker{sock: eio.VerifC13NewClientSocket(rec, 0), rec: rec, col: newCollector(), out: map[string]int{}}
}

func (w *batchWorker) send(pk []*parser.Packet) (p any) {
	defer func() { p = recover() }()
	w.sock.Send(pk...)
	return nil
}

func describeBatches(cuts []int, flat []*parser.Packet) string {
	var b bytes.Buffer
	i := 0
	for _, n := range cuts {
		b.WriteString("[")
		for j := 0; j < n && i < len(flat); j, i = j+1, i+1 {
			if j > 0 {
				b.WriteString(" ")
			}
			k := "t"
			if flat[i].IsBinary {
				k = "b"
			}
			fmt.Fprintf(&b, "%s%d", k, len(flat[i].Data))
		}
		fmt.Fprintf(&b, "]")
	}
	return b.String()
}

func describeSpecs(specs []pkSpec) string {
	var b bytes.Buffer
	b.WriteString("[")
	for i, s := range specs {
		if i > 0 {
			b.WriteString(" ")
		}
		k := "t"
		if s.Binary {
			k = "b"
		}
		fmt.Fprintf(&b, "%s%d", k, s.Size)
	}
	b.WriteString("]")
	return b.String()
}

// evalOne pushes one vector through Send with maxPayload m and applies the oracle.
func (w *batchWorker) evalOne(specs []pkSpec, pk []*parser.Packet, m int, rank []int) {
	w.evals++
	w.rec.reset(len(pk) + 1)
	eio.VerifC13SetMaxPayload(w.sock, int64(m))
	p := w.send(pk)
	rec := w.rec
	report := func(key, what string) {
		w.out["violation"]++
		w.col.add(key, rank, func() (string, any) {
			cp := append([]pkSpec{}, specs...)
			return fmt.Sprintf("packets %s (t=text b=binary, number=len(Data)) maxPayload=%d: %s; batches handed to the transport: %s",
				describeSpecs(specs), m, what, describeBatches(rec.cuts, rec.flat)), batchReplay{Part: "batcher", Packets: cp, MaxPayload: m}
		})
	}
	if p != nil {
		if p == errTooManySends {
			report(kBatchLoop, fmt.Sprintf("Send called the transport more than %d times", len(pk)+1))
		} else {
			report(kBatchPanic, fmt.Sprintf("panic: %v", p))
		}
		return
	}
	if len(rec.cuts) > 1 {
		w.nontr++
	}
	// (a) concatenation of the batches == input, by pointer
	same := len(rec.flat) == len(pk)
	if same {
		for i := range pk {
			if rec.flat[i] != pk[i] {
				same = false
				break
			}
		}
	}
	if !same {
		dropped, dup := false, false
		for _, in := range pk {
			n := 0
			for _, o := range rec.flat {
				if o == in {
					n++
				}
			}
			if n == 0 {
				dropped = true
			}
			if n > 1 {
				dup = true
			}
		}
		switch {
		case dropped:
			report(kBatchDrop, "a packet given to Send never reached the transport")
		case dup:
			report(kBatchDup, "a packet given to Send reached the transport more than once")
		default:
			report(kBatchOrder, "the transport received other packets or another order than Send was given")
		}
		return
	}
	// (b) every batch of >= 2 packets fits maxPayload
	if m > 0 {
		i := 0
		for bi, n := range rec.cuts {
			batch := rec.flat[i : i+n]
			i += n
			if n < 2 {
				continue
			}
			l := parser.EncodedPayloadsLen(batch...)
			if l <= m {
				continue
			}
			empties := 0
			for _, q := range batch {
				if len(q.Data) == 0 {
					empties++
				}
			}
			what := fmt.Sprintf("batch #%d has %d packets and encodes to %d bytes > maxPayload", bi+1, n, l)
			switch {
			case empties > 0 && l-m <= empties:
				report(kBatchEmpty, what)
			case bi > 0:
				report(kBatchSplit, what)
			default:
				report(kBatchFirst, what)
			}
			return
		}
	}
	w.out["ok"]++
}

// evalVector runs every maxPayload for one vector.
func (w *batchWorker) evalVector(specs []pkSpec, rankPrefix []int) {
	pk := mkPackets(specs)
	w.vecs++
	total := parser.EncodedPayloadsLen(pk...)
	var buf bytes.Buffer
	if err := parser.EncodePayloads(&buf, pk...); err != nil || buf.Len() != total {
		w.col.add(kBatchLen, rankPrefix, func() (string, any) {
			return fmt.Sprintf("packets %s: EncodedPayloadsLen=%d, EncodePayloads wrote %d bytes (err %v)", describeSpecs(specs), total, buf.Len(), err),
				batchReplay{Part: "batcher", Packets: append([]pkSpec{}, specs...), MaxPayload: 0}
		})
	}
	top := total + 8
	if top > w.maxM {
		w.maxM = top
	}
	rank := append(append([]int{}, rankPrefix...), 0)
	for m := 0; m <= top; m++ {
		rank[len(rank)-1] = m
		w.evalOne(specs, pk, m, rank)
	}
}

// unit is a set of vectors: fixed length and fixed options of the first (up to) two positions.
type batchUnit struct {
	l      int
	o0, o1 int
}

func (w *batchWorker) runUnit(u batchUnit) {
	specs := make([]pkSpec, u.l)
	specs[0] = optionSpec(u.o0)
	fixed := 1
	if u.l >= 2 {
		specs[1] = optionSpec(u.o1)
		fixed = 2
	}
	rest := u.l - fixed
	n := 1
	for i := 0; i < rest; i++ {
		n *= len(batchSizes)
	}
	for v := 0; v < n; v++ {
		x := v
		for i := u.l - 1; i >= fixed; i-- {
			specs[i] = optionSpec(x % len(batchSizes))
			x /= len(batchSizes)
		}
		w.cur.Store(describeSpecs(specs))
		// simplest first: fewer packets, then vectors without empty-data packets, then enumeration order
		hasEmpty := 0
		for _, s := range specs {
			if s.Size == 0 {
				hasEmpty = 1
			}
		}
		w.evalVector(specs, []int{u.l, hasEmpty, u.o0, u.o1, v})
	}
}

func runBatcher(c *ctx) partStats {
	maxLen := 5
	if c.thorough {
		maxLen = 6
	}
	var units []batchUnit
	for l := 1; l <= maxLen; l++ {
		for o0 := 0; o0 < nOptions(0); o0++ {
			if l == 1 {
				units = append(units, batchUnit{l, o0, 0})
				continue
			}
			for o1 := 0; o1 < nOptions(1); o1++ {
				units = append(units, batchUnit{l, o0, o1})
			}
		}
	}
	nw := runtime.GOMAXPROCS(0)
	if nw > 8 {
		nw = 8
	}
	if nw < 1 {
		nw = 1
	}
	workers := make([]*batchWorker, nw)
	var next int64 = -1
	var progress int64
	var wg sync.WaitGroup
	done := make(chan struct{})
	for i := range workers {
		w := newBatchWorker()
		workers[i] = w
		wg.Add(1)
		go func() {
			defer wg.Done()
			for {
				k := int(atomic.AddInt64(&next, 1))
				if k >= len(units) {
					return
				}
				w.runUnit(units[k])
				atomic.AddInt64(&progress, 1)
			}
		}()
	}
	go func() { wg.Wait(); close(done) }()
	// Hang watchdog: a unit is at most a few hundred thousand microsecond-evaluations. Ten minutes
	// without a single finished unit anywhere means Send does not return.
	last, lastAt := int64(0), time.Now()
	tick := time.NewTicker(5 * time.Second)
	defer tick.Stop()
wait:
	for {
		select {
		case <-done:
			break wait
		case <-tick.C:
			if p := atomic.LoadInt64(&progress); p != last {
				last, lastAt = p, time.Now()
			} else if time.Since(lastAt) > 10*time.Minute {
				var cur []string
				for _, w := range workers {
					if s, _ := w.cur.Load().(string); s != "" {
						cur = append(cur, s)
					}
				}
				c.col.add(kBatchHang, []int{0}, func() (string, any) {
					return fmt.Sprintf("no unit of vectors finished for 10 minutes; vectors in flight: %v", cur), map[string]any{"part": "batcher", "in_flight": cur}
				})
				c.capHit("batcher: enumeration abandoned (Send does not return)")
				return partStats{}
			}
		}
	}
	st := partStats{Outcomes: map[string]int{}, Detail: map[string]any{}}
	vecs, maxM := 0, 0
	for _, w := range workers {
		st.Evaluations += w.evals
		st.Nontrivial += w.nontr
		vecs += w.vecs
		if w.maxM > maxM {
			maxM = w.maxM
		}
		for k, v := range w.out {
			st.Outcomes[k] += v
		}
		c.col.merge(w.col)
	}
	st.Detail["vectors"] = vecs
	st.Detail["max_vector_len"] = maxLen
	st.Detail["largest_maxPayload_tried"] = maxM
	st.Detail["goroutines"] = nw
	// two written-out evaluations (run again here, outside the counts)
	for _, sm := range []struct {
		specs []pkSpec
		m     int
	}{
		{[]pkSpec{{9, false}, {9, false}, {3, true}}, 21},
		{[]pkSpec{{4, false}, {4, true}, {4, false}, {0, false}}, 12},
	} {
		w := newBatchWorker()
		pk := mkPackets(sm.specs)
		w.rec.reset(len(pk) + 1)
		eio.VerifC13SetMaxPayload(w.sock, int64(sm.m))
		w.send(pk)
		c.sample("batcher", map[string]any{"part": "batcher", "packets": describeSpecs(sm.specs), "maxPayload": sm.m,
			"encoded_len_of_all": parser.EncodedPayloadsLen(pk...), "batches_handed_to_transport": describeBatches(w.rec.cuts, w.rec.flat)})
	}
	return st
}

func replayBatcher(c *ctx, raw json.RawMessage) partStats {
	var rp batchReplay
	if err := json.Unmarshal(raw, &rp); err != nil || len(rp.Packets) == 0 {
		c.harnessErr("replay: bad batcher replay data")
		return partStats{}
	}
	w := newBatchWorker()
	pk := mkPackets(rp.Packets)
	w.evalOne(rp.Packets, pk, rp.MaxPayload, []int{0})
	fmt.Printf("replay batcher: packets %s maxPayload=%d -> batches %s\n", describeSpecs(rp.Packets), rp.MaxPayload, describeBatches(w.rec.cuts, w.rec.flat))
	c.col.merge(w.col)
	return partStats{Evaluations: w.evals, Nontrivial: w.nontr, Outcomes: w.out}
}
