package main

// The bounded grammar and how it is enumerated. The full cross product of all dimensions is far out
// of reach (820 names x 48 headers x >10^14 argument lists), so every dimension is enumerated
// completely against a small representative set of the others; the blocks are listed in blocks().

import (
	"github.com/karagenc/socket.io-go/parser"
)

var (
	nsps     = []string{"/", "/a", "/a-b_c", "/ü", "/a/b", "/1"}
	ackIDs   = []string{"", "0", "1", "9", "10", "4294967296", "9223372036854775808", "18446744073709551615"} // "" = none
	alphabet = []string{"a", `"`, `\`, "ü", " ", "[", "]", ",", "1"}
)

// extraNames: a few names outside the alphabet whose JSON form uses other escapes (\u003c, \n, \u0000,
// surrogate-free 4-byte UTF-8) or ends in several backslashes.
var extraNames = []string{"<", "&", "\u2028", "\n", "\x00", "\x7f", "😀", `a\\\\`, `a\\\\\`, `ü"\\`, `\\a`}

const placeholderText = `{"_placeholder":true,"num":0}`

var (
	lInt   = &node{K: kInt}
	lFloat = &node{K: kFloat}
	lBool  = &node{K: kBool}
	lNil   = &node{K: kNil}
	lStr   = &node{K: kStr, Str: `x"y`}
	bEmpty = &node{K: kBin, Bin: []byte{}}
	bBytes = &node{K: kBin, Bin: []byte{0, 255}}
	bPlace = &node{K: kBin, Bin: []byte(placeholderText)}

	bins   = []*node{bEmpty, bBytes, bPlace}
	leaves = []*node{lInt, lFloat, lBool, lNil, lStr, bEmpty, bBytes, bPlace}
)

// seqs returns every sequence over set of length min..max.
func seqs(set []*node, min, max int) [][]*node {
	var out [][]*node
	var rec func(cur []*node)
	rec = func(cur []*node) {
		if len(cur) >= min {
			out = append(out, append([]*node{}, cur...))
		}
		if len(cur) == max {
			return
		}
		for _, n := range set {
			rec(append(cur, n))
		}
	}
	rec(nil)
	return out
}

func names(maxLen int) []string {
	out := []string{""}
	prev := []string{""}
	for l := 1; l <= maxLen; l++ {
		var next []string
		for _, p := range prev {
			for _, a := range alphabet {
				next = append(next, p+a)
			}
		}
		out = append(out, next...)
		prev = next
	}
	return out
}

// anyContainers returns every []any and map[string]any with 0..2 children taken from set (map keys
// "a","b"; plus every one-entry map under the hostile key `x"y`). If needContainer is set, only those with
// at least one non-leaf child are returned (the others are already part of the shallower level).
func anyContainers(set []*node, needContainer bool) []*node {
	var out []*node
	isLeaf := func(n *node) bool { return n.K <= kBin }
	for _, s := range seqs(set, 0, 2) {
		if needContainer {
			deep := false
			for _, c := range s {
				if !isLeaf(c) {
					deep = true
				}
			}
			if !deep {
				continue
			}
		}
		out = append(out, &node{K: kSliceAny, Kids: s})
		out = append(out, &node{K: kMapAny, Kids: s, Keys: []string{"a", "b"}[:len(s)]})
		if len(s) == 1 {
			out = append(out, &node{K: kMapAny, Kids: s, Keys: []string{`x"y`}})
		}
	}
	return out
}

func structsOver(k kind) []*node {
	var out []*node
	for _, b := range bins {
		out = append(out, &node{K: k, Kids: []*node{b}})
	}
	return out
}

// depth1 = leaves + every container of the grammar whose children are leaves.
func depth1() []*node {
	out := append([]*node{}, leaves...)
	out = append(out, anyContainers(leaves, false)...)
	out = append(out, structsOver(kS)...)
	out = append(out, structsOver(kPtrS)...)
	for _, s := range seqs(bins, 0, 2) {
		out = append(out, &node{K: kSliceBin, Kids: s})
	}
	out = append(out, &node{K: kPlain}, &node{K: kPtrPlain})
	return out
}

// depth1small = the members of depth1 whose containers have at most one child.
func depth1small(d1 []*node) []*node {
	var out []*node
	for _, n := range d1 {
		if len(n.Kids) <= 1 {
			out = append(out, n)
		}
	}
	return out
}

// depth2only = every []any / map[string]any with 0..2 children from depth1, at least one of them a container.
func depth2only(d1 []*node, maxKids int) []*node {
	if maxKids == 2 {
		return anyContainers(d1, true)
	}
	var out []*node
	for _, c := range d1 {
		if c.K <= kBin {
			continue
		}
		out = append(out, &node{K: kSliceAny, Kids: []*node{c}})
		out = append(out, &node{K: kMapAny, Kids: []*node{c}, Keys: []string{"a"}})
	}
	return out
}

// representatives: the leaves plus one or two members of every container family, with and without binary.
func representatives() []*node {
	s := &node{K: kS, Kids: []*node{bBytes}}
	ps := &node{K: kPtrS, Kids: []*node{bPlace}}
	return append(append([]*node{}, leaves...),
		&node{K: kSliceAny, Kids: []*node{lInt}},
		&node{K: kSliceAny, Kids: []*node{bBytes, lStr}},
		&node{K: kMapAny, Keys: []string{"a"}, Kids: []*node{lFloat}},
		&node{K: kMapAny, Keys: []string{"a", "b"}, Kids: []*node{bBytes, bEmpty}},
		s, ps,
		&node{K: kSliceBin, Kids: []*node{bBytes, bPlace}},
		&node{K: kPlain},
		&node{K: kSliceAny, Kids: []*node{ps}},
		&node{K: kSliceAny, Kids: []*node{s}},
		&node{K: kMapAny, Keys: []string{"a"}, Kids: []*node{ps}},
		&node{K: kSliceAny, Kids: []*node{{K: kSliceBin, Kids: []*node{bBytes}}, lNil}},
	)
}

// typedExtras: statically typed containers one level deeper than the listed grammar, so that the
// decoder's reconstruction is observable in map values and nested slices too.
func typedExtras() []*node {
	var out []*node
	sv := structsOver(kS)
	psv := structsOver(kPtrS)
	for _, s := range seqs(bins, 0, 2) {
		out = append(out, &node{K: kMapBin, Kids: s, Keys: []string{"a", "b"}[:len(s)]})
	}
	for _, s := range seqs(sv, 0, 2) {
		out = append(out, &node{K: kSliceS, Kids: s})
		out = append(out, &node{K: kSlicePtrS, Kids: s})
		out = append(out, &node{K: kMapPtrS, Kids: s, Keys: []string{"a", "b"}[:len(s)]})
	}
	var sbs []*node
	for _, s := range seqs(bins, 0, 2) {
		sbs = append(sbs, &node{K: kSliceBin, Kids: s})
	}
	for _, s := range seqs(sbs[:4], 0, 2) {
		out = append(out, &node{K: kSliceSliceBin, Kids: s})
	}
	// typed containers of untyped containers: the walk that decides "does this packet carry binary?" and the
	// deconstruction must descend through a map or slice whose ELEMENT type is itself a map or a slice
	inner := []*node{
		{K: kMapAny},
		{K: kMapAny, Keys: []string{"k"}, Kids: []*node{lInt}},
		{K: kMapAny, Keys: []string{"bin"}, Kids: []*node{bBytes}},
		{K: kMapAny, Keys: []string{"bin", "k"}, Kids: []*node{bPlace, lStr}},
	}
	innerL := []*node{
		{K: kSliceAny},
		{K: kSliceAny, Kids: []*node{lInt}},
		{K: kSliceAny, Kids: []*node{bBytes}},
		{K: kSliceAny, Kids: []*node{lStr, bPlace}},
	}
	for _, s := range seqs(inner, 0, 2) {
		out = append(out, &node{K: kMapMapAny, Kids: s, Keys: []string{"a", "b"}[:len(s)]})
		out = append(out, &node{K: kSliceMapAny, Kids: s})
	}
	for _, s := range seqs(innerL, 0, 2) {
		out = append(out, &node{K: kMapSliceAny, Kids: s, Keys: []string{"a", "b"}[:len(s)]})
	}
	ls := []*node{sbs[0], sbs[2], sbs[len(sbs)-1]}
	ms := []*node{{K: kMapBin}, {K: kMapBin, Keys: []string{"a"}, Kids: []*node{bBytes}}, {K: kMapBin, Keys: []string{"a", "b"}, Kids: []*node{bPlace, bBytes}}}
	for _, s := range sv {
		for _, p := range append([]*node{lNil}, psv...) {
			for _, l := range ls {
				for _, m := range ms {
					out = append(out, &node{K: kT, Kids: []*node{s, p, l, m}}, &node{K: kPtrT, Kids: []*node{s, p, l, m}})
				}
			}
		}
	}
	return out
}

type block struct {
	name string
	what string
	gen  func(emit func(*packet))
	// distinctByConstruction: the block emits every sequence over a set of pairwise different values
	// exactly once per type and no other block emits packets with as many arguments, so its packets
	// need not be remembered for de-duplication (main verifies the premises it can: see checkDistinctSets).
	distinctByConstruction bool
}

func pk(t parser.PacketType, nsp, id, name string, args []*node) *packet {
	return &packet{Type: t, Nsp: nsp, HasID: id != "", ID: id, Name: name, Args: args}
}

func blocks(tier string) []block {
	thorough := tier == "thorough"
	d1 := depth1()
	reps := representatives()
	evAck := []parser.PacketType{parser.PacketTypeEvent, parser.PacketTypeAck}
	repArgs := [][]*node{nil, {lInt}, {bBytes}, {lStr}, {{K: kS, Kids: []*node{bBytes}}}, {{K: kMapAny, Keys: []string{"a"}, Kids: []*node{bBytes}}}}

	bl := []block{
		{"headers", "every type x namespace x ack id, against 6 representative argument lists (EVENT, ACK; thorough: also every single argument of depth <= 1) / every control payload (CONNECT, DISCONNECT, CONNECT_ERROR)", func(emit func(*packet)) {
			for _, nsp := range nsps {
				for _, id := range ackIDs {
					for _, t := range evAck {
						for _, a := range repArgs {
							emit(pk(t, nsp, id, "a", a))
						}
						if thorough {
							for _, v := range d1 {
								emit(pk(t, nsp, id, "a", []*node{v}))
							}
						}
					}
					for ctl := 0; ctl <= 2; ctl++ {
						p := pk(parser.PacketTypeConnect, nsp, id, "", nil)
						p.Ctl = ctl
						emit(p)
					}
					emit(pk(parser.PacketTypeDisconnect, nsp, id, "", nil))
					for _, ctl := range []int{0, 1, 3} {
						p := pk(parser.PacketTypeConnectError, nsp, id, "", nil)
						p.Ctl = ctl
						emit(p)
					}
				}
			}
		}, false},
		{"namespaces", "every namespace '/'+s with s = one printable ASCII character other than ',' (the terminator of the namespace field) or two characters over {a ? # & = % [ { \" \\ space 1 ü /} x every type x ack ids {none, 10} x 3 argument lists (none, Binary, string with a quote) / control payloads", func(emit func(*packet)) {
			var list []string
			for c := byte(0x21); c <= 0x7e; c++ {
				if c != ',' {
					list = append(list, "/"+string(c))
				}
			}
			two := []string{"a", "?", "#", "&", "=", "%", "[", "{", "\"", "\\", " ", "1", "ü", "/"}
			for _, x := range two {
				for _, y := range two {
					list = append(list, "/"+x+y)
				}
			}
			for _, nsp := range list {
				for _, id := range []string{"", "10"} {
					for _, t := range evAck {
						for _, a := range [][]*node{nil, {bBytes}, {lStr}} {
							name := ""
							if t == parser.PacketTypeEvent {
								name = "ev"
							}
							emit(pk(t, nsp, id, name, a))
						}
					}
				}
				emit(pk(parser.PacketTypeConnect, nsp, "", "", nil))
				emit(pk(parser.PacketTypeDisconnect, nsp, "", "", nil))
				emit(pk(parser.PacketTypeConnectError, nsp, "", "", nil))
			}
		}, false},
		{"names", "every event name over the hostile alphabet up to the tier's length (plus 11 names with other escapes) x namespaces {/, /a} x ack ids {none, 10} x 4 argument lists (none, number, Binary, string with a quote)", func(emit func(*packet)) {
			max := 2
			if thorough {
				max = 3
			}
			for _, name := range append(names(max), extraNames...) {
				for _, nsp := range nsps[:2] {
					for _, id := range []string{"", "10"} {
						for _, a := range repArgs[:4] {
							emit(pk(parser.PacketTypeEvent, nsp, id, name, a))
						}
					}
				}
			}
		}, false},
		{"args/1", "EVENT and ACK with one argument: every value of depth <= 1", func(emit func(*packet)) {
			for _, t := range evAck {
				for _, v := range d1 {
					emit(pk(t, "/", "", "a", []*node{v}))
				}
			}
		}, false},
		{"args/2", "two arguments: every pair of values of depth <= 1 as EVENT (thorough: and as ACK; quick: ACK with every pair of representatives)", func(emit func(*packet)) {
			for _, a := range d1 {
				for _, b := range d1 {
					emit(pk(parser.PacketTypeEvent, "/", "", "a", []*node{a, b}))
					if thorough {
						emit(pk(parser.PacketTypeAck, "/", "", "", []*node{a, b}))
					}
				}
			}
			for _, a := range reps {
				for _, b := range reps {
					emit(pk(parser.PacketTypeAck, "/a", "1", "", []*node{a, b}))
				}
			}
		}, false},
		{"args/3", "three arguments: every triple of the depth <= 1 values whose containers have at most one child, as EVENT and ACK; thorough: also every triple of ALL values of depth <= 1 as EVENT", func(emit func(*packet)) {
			small := depth1small(d1)
			inSmall := map[*node]bool{}
			for _, n := range small {
				inSmall[n] = true
			}
			for _, s := range seqs(small, 3, 3) {
				emit(pk(parser.PacketTypeAck, "/", "", "", s))
				emit(pk(parser.PacketTypeEvent, "/", "", "a", s))
			}
			if thorough {
				for _, a := range d1 {
					for _, b := range d1 {
						for _, c := range d1 {
							if inSmall[a] && inSmall[b] && inSmall[c] {
								continue // emitted above
							}
							emit(pk(parser.PacketTypeEvent, "/", "", "a", []*node{a, b, c}))
						}
					}
				}
			}
		}, true},
		{"args/depth2", "one argument of depth 2: every []any / map[string]any with up to two children of depth <= 1, at least one child a container, as EVENT (thorough: and as ACK; quick: ACK with the one-child ones)", func(emit func(*packet)) {
			for _, v := range depth2only(d1, 2) {
				emit(pk(parser.PacketTypeEvent, "/", "", "a", []*node{v}))
				if thorough || len(v.Kids) == 1 {
					emit(pk(parser.PacketTypeAck, "/", "", "", []*node{v}))
				}
			}
		}, false},
		{"typed", "statically typed nested containers (map[string]Binary, []S, []*S, map[string]*S, [][]Binary, T, *T, map[string]map[string]any, map[string][]any, []map[string]any) alone and next to a leading Binary", func(emit func(*packet)) {
			for _, v := range typedExtras() {
				emit(pk(parser.PacketTypeEvent, "/", "", "a", []*node{v}))
				emit(pk(parser.PacketTypeAck, "/a", "10", "", []*node{bBytes, v}))
			}
		}, false},
	}
	return bl
}

// nontrivial: anything beyond a bare packet in the default namespace with a plain ASCII name.
func nontrivial(p *packet) bool {
	if p.Nsp != "/" || p.HasID || len(p.Args) > 0 || p.Ctl != 0 {
		return true
	}
	for _, r := range p.Name {
		if !(r >= 'a' && r <= 'z') {
			return true
		}
	}
	return false
}
