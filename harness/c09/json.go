package main

// An independent, minimal JSON reader/writer and the reference Socket.IO v5 encoder. Nothing here
// uses encoding/json or the parser under test.

import (
	"bytes"
	"encoding/hex"
	"fmt"
	"sort"
	"strconv"
	"strings"
	"unicode/utf16"
	"unicode/utf8"

	"github.com/karagenc/socket.io-go/parser"
)

// jv is a JSON value; t: 'z' null, 't' true, 'f' false, 'n' number, 's' string, 'a' array, 'o' object,
// 'b' binary attachment (a dereferenced placeholder).
type jv struct {
	t byte
	s string // number text (normalised) / string value / attachment bytes
	a []*jv
	k []string // object keys in document order, parallel to a
}

// ---------------------------------------------------------------- model -> reference tree

func obj(kv ...any) *jv {
	j := &jv{t: 'o'}
	for i := 0; i < len(kv); i += 2 {
		j.k = append(j.k, kv[i].(string))
		j.a = append(j.a, kv[i+1].(*jv))
	}
	return j
}

func refArr(kids []*node) *jv {
	j := &jv{t: 'a'}
	for _, c := range kids {
		j.a = append(j.a, refTree(c))
	}
	return j
}

func refMap(n *node) *jv {
	idx := make([]int, len(n.Keys))
	for i := range idx {
		idx[i] = i
	}
	sort.Slice(idx, func(a, b int) bool { return n.Keys[idx[a]] < n.Keys[idx[b]] })
	j := &jv{t: 'o'}
	for _, i := range idx {
		j.k = append(j.k, n.Keys[i])
		j.a = append(j.a, refTree(n.Kids[i]))
	}
	return j
}

func refS(n *node) *jv { return obj("n", &jv{t: 'n', s: "1"}, "b", refTree(n.Kids[0])) }

// refTree is the JSON document the protocol prescribes for a value, with binaries still in place.
// Struct members are in declaration order, map members sorted (any order is legal JSON; comparison
// is order-insensitive for objects).
func refTree(n *node) *jv {
	switch n.K {
	case kInt:
		return &jv{t: 'n', s: "1"}
	case kFloat:
		return &jv{t: 'n', s: "-1.5"}
	case kBool:
		return &jv{t: 't'}
	case kNil:
		return &jv{t: 'z'}
	case kStr:
		return &jv{t: 's', s: n.Str}
	case kBin:
		return &jv{t: 'b', s: string(n.Bin)}
	case kSliceAny, kSliceBin, kSliceS, kSlicePtrS, kSliceSliceBin, kSliceMapAny:
		return refArr(n.Kids)
	case kMapAny, kMapBin, kMapPtrS, kMapMapAny, kMapSliceAny:
		return refMap(n)
	case kS, kPtrS:
		return refS(n)
	case kPlain, kPtrPlain:
		return obj("name", &jv{t: 's', s: `x"y`}, "age", &jv{t: 'n', s: "1"})
	case kT, kPtrT:
		p := &jv{t: 'z'}
		if n.Kids[1].K == kPtrS {
			p = refS(n.Kids[1])
		}
		return obj("s", refS(n.Kids[0]), "p", p, "l", refArr(n.Kids[2].Kids), "m", refMap(n.Kids[3]))
	}
	panic("refTree: unknown kind")
}

// payloadTree is the JSON part of the packet (nil = no JSON part).
func payloadTree(p *packet) *jv {
	if p.hasArgs() {
		j := &jv{t: 'a'}
		if p.isEvent() {
			j.a = append(j.a, &jv{t: 's', s: p.Name})
		}
		for _, a := range p.Args {
			j.a = append(j.a, refTree(a))
		}
		return j
	}
	if c := p.ctlNode(); c != nil {
		return refTree(c)
	}
	return nil
}

// ---------------------------------------------------------------- reference encoder

// writeString writes a JSON string the way JSON.stringify does: only ", \ and control characters are escaped.
func writeString(b *bytes.Buffer, s string) {
	b.WriteByte('"')
	for _, r := range s {
		switch {
		case r == '"':
			b.WriteString(`\"`)
		case r == '\\':
			b.WriteString(`\\`)
		case r == '\n':
			b.WriteString(`\n`)
		case r == '\r':
			b.WriteString(`\r`)
		case r == '\t':
			b.WriteString(`\t`)
		case r == '\b':
			b.WriteString(`\b`)
		case r == '\f':
			b.WriteString(`\f`)
		case r < 0x20:
			fmt.Fprintf(b, `\u%04x`, r)
		default:
			b.WriteRune(r)
		}
	}
	b.WriteByte('"')
}

// emit writes the tree as compact JSON; every binary is replaced by {"_placeholder":true,"num":i}
// with i counting in document order, and its bytes are appended to atts.
func emit(j *jv, b *bytes.Buffer, atts *[][]byte) {
	switch j.t {
	case 'z':
		b.WriteString("null")
	case 't':
		b.WriteString("true")
	case 'f':
		b.WriteString("false")
	case 'n':
		b.WriteString(j.s)
	case 's':
		writeString(b, j.s)
	case 'b':
		b.WriteString(`{"_placeholder":true,"num":`)
		b.WriteString(strconv.Itoa(len(*atts)))
		b.WriteByte('}')
		*atts = append(*atts, []byte(j.s))
	case 'a':
		b.WriteByte('[')
		for i, c := range j.a {
			if i > 0 {
				b.WriteByte(',')
			}
			emit(c, b, atts)
		}
		b.WriteByte(']')
	case 'o':
		b.WriteByte('{')
		for i, c := range j.a {
			if i > 0 {
				b.WriteByte(',')
			}
			writeString(b, j.k[i])
			b.WriteByte(':')
			emit(c, b, atts)
		}
		b.WriteByte('}')
	}
}

type refFrames struct {
	header []byte   // <type>[<n>-][<nsp>,][<id>]
	frames [][]byte // frames[0] = header + json, then the attachments in placeholder order
	tree   *jv
	wire   parser.PacketType // type on the wire (binary variant if there are attachments)
}

// refEncode is the reference encoder, written from the Socket.IO v5 protocol description:
//
//	<packet type>[<# of binary attachments>-][<namespace>,][<acknowledgment id>][JSON-stringified payload without binary]
//	followed by the extracted binary attachments, in placeholder order; namespace "/" is omitted.
func refEncode(p *packet) *refFrames {
	r := &refFrames{tree: payloadTree(p), wire: p.Type}
	var js bytes.Buffer
	var atts [][]byte
	if r.tree != nil {
		emit(r.tree, &js, &atts)
	}
	if len(atts) > 0 {
		switch p.Type {
		case parser.PacketTypeEvent:
			r.wire = parser.PacketTypeBinaryEvent
		case parser.PacketTypeAck:
			r.wire = parser.PacketTypeBinaryAck
		}
	}
	var h bytes.Buffer
	h.WriteByte('0' + byte(r.wire))
	if len(atts) > 0 {
		h.WriteString(strconv.Itoa(len(atts)))
		h.WriteByte('-')
	}
	if p.Nsp != "/" {
		h.WriteString(p.Nsp)
		h.WriteByte(',')
	}
	if p.HasID {
		h.WriteString(p.ID)
	}
	r.header = append([]byte{}, h.Bytes()...)
	h.Write(js.Bytes())
	r.frames = append([][]byte{h.Bytes()}, atts...)
	return r
}

// ---------------------------------------------------------------- JSON reader

type jreader struct {
	b []byte
	i int
}

func (r *jreader) ws() {
	for r.i < len(r.b) && (r.b[r.i] == ' ' || r.b[r.i] == '\t' || r.b[r.i] == '\n' || r.b[r.i] == '\r') {
		r.i++
	}
}

func parseJSON(b []byte) (*jv, error) {
	r := &jreader{b: b}
	v, err := r.value(0)
	if err != nil {
		return nil, err
	}
	r.ws()
	if r.i != len(b) {
		return nil, fmt.Errorf("trailing bytes after JSON value at offset %d", r.i)
	}
	return v, nil
}

func (r *jreader) lit(s string, t byte) (*jv, error) {
	if bytes.HasPrefix(r.b[r.i:], []byte(s)) {
		r.i += len(s)
		return &jv{t: t}, nil
	}
	return nil, fmt.Errorf("bad literal at offset %d", r.i)
}

func (r *jreader) value(depth int) (*jv, error) {
	if depth > 64 {
		return nil, fmt.Errorf("too deep")
	}
	r.ws()
	if r.i >= len(r.b) {
		return nil, fmt.Errorf("unexpected end of JSON")
	}
	switch c := r.b[r.i]; {
	case c == 'n':
		return r.lit("null", 'z')
	case c == 't':
		return r.lit("true", 't')
	case c == 'f':
		return r.lit("false", 'f')
	case c == '"':
		s, err := r.str()
		if err != nil {
			return nil, err
		}
		return &jv{t: 's', s: s}, nil
	case c == '[':
		r.i++
		j := &jv{t: 'a'}
		r.ws()
		if r.i < len(r.b) && r.b[r.i] == ']' {
			r.i++
			return j, nil
		}
		for {
			v, err := r.value(depth + 1)
			if err != nil {
				return nil, err
			}
			j.a = append(j.a, v)
			r.ws()
			if r.i >= len(r.b) {
				return nil, fmt.Errorf("unterminated array")
			}
			if r.b[r.i] == ',' {
				r.i++
				continue
			}
			if r.b[r.i] == ']' {
				r.i++
				return j, nil
			}
			return nil, fmt.Errorf("bad array at offset %d", r.i)
		}
	case c == '{':
		r.i++
		j := &jv{t: 'o'}
		r.ws()
		if r.i < len(r.b) && r.b[r.i] == '}' {
			r.i++
			return j, nil
		}
		for {
			r.ws()
			if r.i >= len(r.b) || r.b[r.i] != '"' {
				return nil, fmt.Errorf("object key expected at offset %d", r.i)
			}
			k, err := r.str()
			if err != nil {
				return nil, err
			}
			r.ws()
			if r.i >= len(r.b) || r.b[r.i] != ':' {
				return nil, fmt.Errorf("':' expected at offset %d", r.i)
			}
			r.i++
			v, err := r.value(depth + 1)
			if err != nil {
				return nil, err
			}
			j.k = append(j.k, k)
			j.a = append(j.a, v)
			r.ws()
			if r.i >= len(r.b) {
				return nil, fmt.Errorf("unterminated object")
			}
			if r.b[r.i] == ',' {
				r.i++
				continue
			}
			if r.b[r.i] == '}' {
				r.i++
				return j, nil
			}
			return nil, fmt.Errorf("bad object at offset %d", r.i)
		}
	case c == '-' || (c >= '0' && c <= '9'):
		st := r.i
		for r.i < len(r.b) && strings.IndexByte("+-0123456789.eE", r.b[r.i]) >= 0 {
			r.i++
		}
		txt := string(r.b[st:r.i])
		f, err := strconv.ParseFloat(txt, 64)
		if err != nil {
			return nil, fmt.Errorf("bad number %q", txt)
		}
		return &jv{t: 'n', s: strconv.FormatFloat(f, 'g', -1, 64)}, nil
	}
	return nil, fmt.Errorf("unexpected byte %q at offset %d", r.b[r.i], r.i)
}

func (r *jreader) hex4() (rune, error) {
	if r.i+4 > len(r.b) {
		return 0, fmt.Errorf("short \\u escape")
	}
	n, err := strconv.ParseUint(string(r.b[r.i:r.i+4]), 16, 32)
	if err != nil {
		return 0, fmt.Errorf("bad \\u escape")
	}
	r.i += 4
	return rune(n), nil
}

func (r *jreader) str() (string, error) {
	r.i++ // opening quote
	var sb strings.Builder
	for {
		if r.i >= len(r.b) {
			return "", fmt.Errorf("unterminated string")
		}
		c := r.b[r.i]
		switch {
		case c == '"':
			r.i++
			return sb.String(), nil
		case c < 0x20:
			return "", fmt.Errorf("raw control byte in string at offset %d", r.i)
		case c == '\\':
			r.i++
			if r.i >= len(r.b) {
				return "", fmt.Errorf("unterminated escape")
			}
			e := r.b[r.i]
			r.i++
			switch e {
			case '"', '\\', '/':
				sb.WriteByte(e)
			case 'b':
				sb.WriteByte('\b')
			case 'f':
				sb.WriteByte('\f')
			case 'n':
				sb.WriteByte('\n')
			case 'r':
				sb.WriteByte('\r')
			case 't':
				sb.WriteByte('\t')
			case 'u':
				u, err := r.hex4()
				if err != nil {
					return "", err
				}
				if utf16.IsSurrogate(u) && r.i+6 <= len(r.b) && r.b[r.i] == '\\' && r.b[r.i+1] == 'u' {
					save := r.i
					r.i += 2
					u2, err := r.hex4()
					if err == nil {
						if d := utf16.DecodeRune(u, u2); d != utf8.RuneError {
							sb.WriteRune(d)
							continue
						}
					}
					r.i = save
				}
				sb.WriteRune(u)
			default:
				return "", fmt.Errorf("bad escape \\%c", e)
			}
		default:
			_, n := utf8.DecodeRune(r.b[r.i:])
			sb.Write(r.b[r.i : r.i+n])
			r.i += n
		}
	}
}

// ---------------------------------------------------------------- placeholders and canonical form

// deref replaces every {"_placeholder":true,"num":i} object by the i-th attachment, walking in
// document order; nums receives the numbers in the order met.
func deref(j *jv, atts [][]byte, nums *[]int) error {
	if j.t == 'o' && len(j.k) == 2 {
		pi, ni := -1, -1
		for i, k := range j.k {
			if k == "_placeholder" {
				pi = i
			} else if k == "num" {
				ni = i
			}
		}
		if pi >= 0 && ni >= 0 && j.a[pi].t == 't' && j.a[ni].t == 'n' {
			n, err := strconv.Atoi(j.a[ni].s)
			if err != nil {
				return fmt.Errorf("placeholder num %q is not an integer", j.a[ni].s)
			}
			if n < 0 || n >= len(atts) {
				return fmt.Errorf("placeholder num %d but only %d attachment frames", n, len(atts))
			}
			*nums = append(*nums, n)
			*j = jv{t: 'b', s: string(atts[n])}
			return nil
		}
	}
	for _, c := range j.a {
		if err := deref(c, atts, nums); err != nil {
			return err
		}
	}
	return nil
}

// canon writes the tree with object keys sorted; two documents are the same JSON value with the same
// attachments in the same places iff their canonical forms are equal.
func canon(j *jv, sb *strings.Builder) {
	switch j.t {
	case 'z':
		sb.WriteString("null")
	case 't':
		sb.WriteString("true")
	case 'f':
		sb.WriteString("false")
	case 'n':
		f, _ := strconv.ParseFloat(j.s, 64)
		sb.WriteString(strconv.FormatFloat(f, 'g', -1, 64))
	case 's':
		sb.WriteString(strconv.Quote(j.s))
	case 'b':
		sb.WriteString("<bin:")
		sb.WriteString(hex.EncodeToString([]byte(j.s)))
		sb.WriteString(">")
	case 'a':
		sb.WriteByte('[')
		for i, c := range j.a {
			if i > 0 {
				sb.WriteByte(',')
			}
			canon(c, sb)
		}
		sb.WriteByte(']')
	case 'o':
		idx := make([]int, len(j.k))
		for i := range idx {
			idx[i] = i
		}
		sort.SliceStable(idx, func(a, b int) bool { return j.k[idx[a]] < j.k[idx[b]] })
		sb.WriteByte('{')
		for n, i := range idx {
			if n > 0 {
				sb.WriteByte(',')
			}
			sb.WriteString(strconv.Quote(j.k[i]))
			sb.WriteByte(':')
			canon(j.a[i], sb)
		}
		sb.WriteByte('}')
	}
}

func canonString(j *jv) string {
	if j == nil {
		return "(no JSON part)"
	}
	var sb strings.Builder
	canon(j, &sb)
	return sb.String()
}

// wire is one set of frames taken apart by the harness's own reader.
type wire struct {
	header string // everything before the JSON part
	canon  string // canonical JSON part with attachments dereferenced
	nums   []int  // placeholder numbers in document order
	natt   int
}

// splitFrames takes frames apart given where the JSON part starts.
func splitFrames(frames [][]byte, jsonStart int) (*wire, error) {
	if len(frames) == 0 {
		return nil, fmt.Errorf("no frames")
	}
	w := &wire{header: string(frames[0][:jsonStart]), natt: len(frames) - 1}
	rest := frames[0][jsonStart:]
	if len(rest) == 0 {
		w.canon = canonString(nil)
		return w, nil
	}
	j, err := parseJSON(rest)
	if err != nil {
		return nil, fmt.Errorf("JSON part %q: %v", rest, err)
	}
	if err := deref(j, frames[1:], &w.nums); err != nil {
		return nil, err
	}
	w.canon = canonString(j)
	return w, nil
}

// jsonStartOf finds the start of the JSON part of a first frame without relying on the expected
// header: <digit>[<digits>-][/...,][<digits>] then JSON. Used to compare two encodings with each other.
func jsonStartOf(f []byte) int {
	i := 0
	if i < len(f) {
		i++ // type
	}
	if len(f) > 0 && (f[0] == '5' || f[0] == '6') {
		j := i
		for j < len(f) && f[j] >= '0' && f[j] <= '9' {
			j++
		}
		if j < len(f) && f[j] == '-' {
			i = j + 1
		}
	}
	if i < len(f) && f[i] == '/' {
		j := bytes.IndexByte(f[i:], ',')
		if j < 0 {
			return len(f)
		}
		i += j + 1
	}
	for i < len(f) && f[i] >= '0' && f[i] <= '9' {
		i++
	}
	return i
}

func showFrames(frames [][]byte) string {
	var sb strings.Builder
	for i, f := range frames {
		if i > 0 {
			sb.WriteString(" + ")
		}
		if i == 0 {
			sb.WriteString(strconv.Quote(string(f)))
		} else {
			sb.WriteString("<" + hex.EncodeToString(f) + ">")
		}
	}
	return sb.String()
}
