package main

// The four oracles, applied to one packet of the model.

import (
	"bytes"
	"fmt"
	"reflect"
	"regexp"
	"strconv"
	"strings"

	sio "github.com/karagenc/socket.io-go"
	"github.com/karagenc/socket.io-go/parser"
)

type finding struct{ key, msg string }

type stats struct {
	ByteIdentical   int            // frames byte-identical to the reference encoder's
	CanonIdentical  int            // equal only after canonicalisation (object key order / placeholder renumbering / escaping)
	BinaryPackets   int            // packets with >= 1 attachment
	Attachments     int            // attachments compared byte by byte after decode in typed positions
	AnyBinSkipped   int            // Binary below an `any` slot on the decoding side: reconstruction not demanded
	AnyBinRestored  int            // ... of which the decoder did restore the bytes (then they must be the right ones)
	ChangedAt       map[string]int // oracle 3: where Encode changed its input
	DecodedOK       int
	EncodeErrors    int
	SecondEncodes   int
	MapOrderRepeats int
}

func (s *stats) add(o *stats) {
	s.ByteIdentical += o.ByteIdentical
	s.CanonIdentical += o.CanonIdentical
	s.BinaryPackets += o.BinaryPackets
	s.Attachments += o.Attachments
	s.AnyBinSkipped += o.AnyBinSkipped
	s.AnyBinRestored += o.AnyBinRestored
	s.DecodedOK += o.DecodedOK
	s.EncodeErrors += o.EncodeErrors
	s.SecondEncodes += o.SecondEncodes
	s.MapOrderRepeats += o.MapOrderRepeats
	for k, v := range o.ChangedAt {
		s.ChangedAt[k] += v
	}
}

type checker struct {
	creator parser.Creator
	st      stats
}

func newChecker(c parser.Creator) *checker {
	return &checker{creator: c, st: stats{ChangedAt: map[string]int{}}}
}

// ---------------------------------------------------------------- guarded calls into the code under test

func safeEncode(p parser.Parser, h *parser.PacketHeader, v any) (frames [][]byte, err error, pan any) {
	defer func() {
		if r := recover(); r != nil {
			pan = r
		}
	}()
	frames, err = p.Encode(h, v)
	return
}

func safeAdd(p parser.Parser, data []byte, fin parser.Finish) (err error, pan any) {
	defer func() {
		if r := recover(); r != nil {
			pan = r
		}
	}()
	err = p.Add(data, fin)
	return
}

func safeDecode(d parser.Decode, types ...reflect.Type) (vals []reflect.Value, err error, pan any) {
	defer func() {
		if r := recover(); r != nil {
			pan = r
		}
	}()
	vals, err = d(types...)
	return
}

var addrRe = regexp.MustCompile(`0x[0-9a-fA-F]+`)

// stable strips anything execution specific from an error / panic text used inside a key.
func stable(s string) string {
	s = addrRe.ReplaceAllString(s, "0x?")
	if len(s) > 120 {
		s = s[:120]
	}
	return s
}

func copyFrames(f [][]byte) [][]byte {
	c := make([][]byte, len(f))
	for i := range f {
		c[i] = append([]byte{}, f[i]...)
	}
	return c
}

// ---------------------------------------------------------------- the check of one packet

func (c *checker) check(p *packet) (fs []finding) {
	in := p.String()
	add := func(key, format string, a ...any) {
		fs = append(fs, finding{key, fmt.Sprintf(format, a...) + " | input: " + in})
	}
	defer func() {
		if r := recover(); r != nil {
			add("panic outside a guarded call", "%v", r)
		}
	}()

	ref := refEncode(p)
	v, snap := buildPayload(p), buildPayload(p)
	if !reflect.DeepEqual(v, snap) {
		panic("harness: two builds of one model differ")
	}
	enc := c.creator()
	h1 := buildHeader(p)
	frames, err, pan := safeEncode(enc, h1, v)
	if pan != nil {
		add("Encode panics: "+stable(fmt.Sprint(pan)), "Encode panicked: %v", pan)
		return
	}
	if err != nil {
		c.st.EncodeErrors++
		add("Encode returns an error: "+stable(err.Error()), "Encode of a packet of the grammar failed: %v", err)
		return
	}
	frames = copyFrames(frames) // attachments alias the caller's memory; keep what was produced now
	if len(ref.frames) > 1 {
		c.st.BinaryPackets++
	}

	// ---- oracle 1: the frames are the ones the protocol prescribes
	c.oracleFormat(p, ref, frames, add)

	// ---- oracle 3: Encode did not change what it was given
	if !reflect.DeepEqual(v, snap) {
		ch := map[string]bool{}
		diffVals(reflect.ValueOf(snap), reflect.ValueOf(v), "top-level argument", true, ch)
		if len(ch) == 0 {
			ch["other@?"] = true
		}
		keys := map[string]string{}
		for k := range ch {
			what, pos, _ := strings.Cut(k, "@")
			c.st.ChangedAt[what+" at "+pos]++
			switch {
			case what == "Binary" && pos == "top-level argument":
				keys["Encode replaces top-level Binary in the argument slice it was given"] = pos
			case what == "Binary":
				keys["Encode replaces nested Binary in the caller's value"] = pos
			case what == "struct->pointer":
				keys["Encode replaces a struct value by a pointer to a copy in the caller's value"] = pos
			default:
				keys["Encode changes its input (other)"] = pos
			}
		}
		for k, pos := range keys {
			add(k, "the value given to Encode differs from its deep snapshot afterwards (first at: %s); after Encode: %s", pos, showVal(v))
		}
	}

	// ---- oracle 2: a fresh parser fed the frames reproduces the packet
	c.oracleRoundTrip(p, ref, frames, add)

	// ---- oracle 4: encoding the same value again yields the same frames
	c.st.SecondEncodes++
	h2 := buildHeader(p)
	frames2, err2, pan2 := safeEncode(enc, h2, v)
	switch {
	case pan2 != nil:
		add("second Encode of the same value panics", "second Encode panicked: %v", pan2)
	case err2 != nil:
		add("second Encode of the same value returns an error", "first Encode gave %s, second Encode of the same value failed: %v", showFrames(frames), err2)
	default:
		w1, e1 := splitFrames(frames, jsonStartOf(frames[0]))
		w2, e2 := splitFrames(frames2, jsonStartOf(frames2[0]))
		differ := false
		if e1 != nil || e2 != nil { // not readable (oracle 1 reports that): compare the raw bytes
			differ = len(frames) != len(frames2)
			for i := 0; !differ && i < len(frames); i++ {
				differ = !bytes.Equal(frames[i], frames2[i])
			}
		} else {
			differ = w1.header != w2.header || w1.canon != w2.canon || w1.natt != w2.natt
		}
		if differ {
			add("second Encode of the same value yields different frames", "first Encode: %s ; second Encode of the same value: %s", showFrames(frames), showFrames(frames2))
		}
	}
	return
}

func (c *checker) oracleFormat(p *packet, ref *refFrames, frames [][]byte, add func(string, string, ...any)) {
	if len(frames) == len(ref.frames) {
		same := true
		for i := range frames {
			if !bytes.Equal(frames[i], ref.frames[i]) {
				same = false
				break
			}
		}
		if same {
			c.st.ByteIdentical++
			return
		}
	}
	want := showFrames(ref.frames)
	got := showFrames(frames)
	if len(frames) == 0 {
		add("Encode returns no frame", "want %s", want)
		return
	}
	start := jsonStartOf(frames[0])
	if string(frames[0][:start]) != string(ref.header) {
		add("frame header differs from <type>[<n>-][<nsp>,][<id>]", "header %q, the protocol prescribes %q; got %s want %s", frames[0][:start], ref.header, got, want)
		return
	}
	if len(frames) != len(ref.frames) {
		add("number of frames differs from 1 + attachments", "got %s want %s", got, want)
		return
	}
	w, err := splitFrames(frames, start)
	if err != nil {
		add("JSON part of the first frame is not what a v5 decoder can read", "%v; got %s want %s", err, got, want)
		return
	}
	seen := make([]bool, w.natt)
	bij := len(w.nums) == w.natt
	for _, n := range w.nums {
		if seen[n] {
			bij = false
		}
		seen[n] = true
	}
	if !bij {
		add("placeholders are not one-to-one with the attachment frames", "placeholder numbers %v for %d attachments; got %s want %s", w.nums, w.natt, got, want)
		return
	}
	if wc := canonString(ref.tree); w.canon != wc {
		if stripBin(w.canon) == stripBin(wc) {
			add("attachment bytes differ from the Binary at that place", "canonical got %s want %s; frames got %s want %s", w.canon, wc, got, want)
		} else {
			add("JSON payload differs from the reference encoding", "canonical got %s want %s; frames got %s want %s", w.canon, wc, got, want)
		}
		return
	}
	if !p.numberingFree() {
		for i, n := range w.nums {
			if n != i {
				add("placeholder numbering not in document order", "no map makes the order free, numbers in document order are %v; got %s want %s", w.nums, got, want)
				return
			}
		}
	}
	c.st.CanonIdentical++
}

var binRe = regexp.MustCompile(`<bin:[0-9a-f]*>`)

func stripBin(s string) string { return binRe.ReplaceAllString(s, "<bin>") }

func (c *checker) oracleRoundTrip(p *packet, ref *refFrames, frames [][]byte, add func(string, string, ...any)) {
	dec := c.creator()
	fr := copyFrames(frames)
	var (
		gotH    *parser.PacketHeader
		gotName string
		gotDec  parser.Decode
		calls   int
		early   bool
	)
	for i, f := range fr {
		last := i == len(fr)-1
		err, pan := safeAdd(dec, f, func(h *parser.PacketHeader, name string, d parser.Decode) {
			calls++
			if !last {
				early = true
			}
			gotH, gotName, gotDec = h, name, d
		})
		if pan != nil {
			add("Add panics on the encoder's own frames", "Add(frame %d) panicked: %v; frames %s", i, pan, showFrames(frames))
			return
		}
		if err != nil {
			if early {
				add("finish callback not called exactly once after the last frame", "finish ran before the last frame, and Add(frame %d) then failed: %v; frames %s", i, err, showFrames(frames))
			} else if p.isEvent() && strings.HasSuffix(p.Name, `\`) {
				add("event name ending in backslash not decodable", "Add(frame %d) of the encoder's own frames %s failed: %v", i, showFrames(frames), err)
			} else {
				add("Add rejects the encoder's own frames ("+typeName(ref.wire)+")", "Add(frame %d) of %s failed: %v", i, showFrames(frames), err)
			}
			return
		}
	}
	if calls != 1 || early {
		add("finish callback not called exactly once after the last frame", "finish ran %d times (before the last frame: %v); frames %s", calls, early, showFrames(frames))
		return
	}
	if gotH == nil || gotDec == nil {
		add("finish callback got a nil header or decode function", "frames %s", showFrames(frames))
		return
	}
	if gotH.Type != ref.wire {
		add("decoded packet type differs", "got %s want %s; frames %s", typeName(gotH.Type), typeName(ref.wire), showFrames(frames))
	}
	if gotH.Namespace != p.Nsp {
		add("decoded namespace differs", "got %q want %q; frames %s", gotH.Namespace, p.Nsp, showFrames(frames))
	}
	if (gotH.ID != nil) != p.HasID || (p.HasID && *gotH.ID != p.id()) {
		g := "none"
		if gotH.ID != nil {
			g = strconv.FormatUint(*gotH.ID, 10)
		}
		add("decoded ack id differs", "got %s; frames %s", g, showFrames(frames))
	}
	if gotH.Attachments != len(frames)-1 {
		add("decoded attachment count differs", "got %d want %d; frames %s", gotH.Attachments, len(frames)-1, showFrames(frames))
	}
	wantName := ""
	if p.isEvent() {
		wantName = p.Name
	}
	if gotName != wantName {
		add("decoded event name differs", "got %q want %q; frames %s", gotName, wantName, showFrames(frames))
	}

	var nodes []*node
	if p.hasArgs() {
		nodes = p.Args
	} else if cn := p.ctlNode(); cn != nil {
		nodes = []*node{cn} // a map payload is sent as *map[string]any and received as map[string]any
	}
	types := make([]reflect.Type, len(nodes))
	for i, n := range nodes {
		types[i] = staticType(n)
	}
	vals, err, pan := safeDecode(gotDec, types...)
	if pan != nil {
		add("decode panics on the encoder's own frames: "+stable(fmt.Sprint(pan)), "decode panicked: %v; frames %s", pan, showFrames(frames))
		return
	}
	if err != nil {
		add("decode returns an error ("+typeName(ref.wire)+")", "decode into the emitted types failed: %v; frames %s", err, showFrames(frames))
		return
	}
	if len(vals) != len(nodes) {
		add("decode returns a wrong number of values", "got %d want %d; frames %s", len(vals), len(nodes), showFrames(frames))
		return
	}
	m := &matcher{c: c}
	for i, n := range nodes {
		got := vals[i]
		if !got.IsValid() || got.Kind() != reflect.Ptr || got.IsNil() {
			m.fail("value", fmt.Sprintf("argument %d: decode returned %v", i, got))
			continue
		}
		if types[i].Kind() != reflect.Ptr {
			got = got.Elem()
		}
		m.match(n, got, fmt.Sprintf("arg %d", i))
	}
	for cls, first := range m.bad {
		switch cls {
		case "attachment":
			add("decoded attachment not byte-identical or not in its place", "%s; frames %s", first, showFrames(frames))
		default:
			add("decoded arguments differ from the emitted ones", "%s; frames %s", first, showFrames(frames))
		}
	}
	if len(m.bad) == 0 {
		c.st.DecodedOK++
	}
	// every handler of an event decodes the packet for itself (the sockets call the decode function once per
	// handler): a second decode of the same packet reproduces it just as well
	if len(m.bad) == 0 && len(nodes) > 0 {
		vals2, err2, pan2 := safeDecode(gotDec, types...)
		switch {
		case pan2 != nil:
			add("second decode of the same packet panics: "+stable(fmt.Sprint(pan2)), "decode (second call) panicked: %v; frames %s", pan2, showFrames(frames))
		case err2 != nil:
			add("second decode of the same packet returns an error ("+typeName(ref.wire)+")", "decode (second call) failed: %v; frames %s", err2, showFrames(frames))
		case len(vals2) != len(nodes):
			add("second decode of the same packet returns a wrong number of values", "got %d want %d; frames %s", len(vals2), len(nodes), showFrames(frames))
		default:
			m2 := &matcher{c: c}
			for i, n := range nodes {
				got := vals2[i]
				if !got.IsValid() || got.Kind() != reflect.Ptr || got.IsNil() {
					m2.fail("value", fmt.Sprintf("argument %d: decode returned %v", i, got))
					continue
				}
				if types[i].Kind() != reflect.Ptr {
					got = got.Elem()
				}
				m2.match(n, got, fmt.Sprintf("arg %d", i))
			}
			for _, first := range m2.bad {
				add("second decode of the same packet differs from the first (every handler of an event decodes for itself)", "%s; frames %s", first, showFrames(frames))
			}
		}
	}
}

// ---------------------------------------------------------------- comparing decoded values with the model

type matcher struct {
	c   *checker
	bad map[string]string // class -> first difference
}

func (m *matcher) fail(class, msg string) {
	if m.bad == nil {
		m.bad = map[string]string{}
	}
	if _, ok := m.bad[class]; !ok {
		m.bad[class] = msg
	}
}

var binaryType = reflect.TypeOf(sio.Binary(nil))

func (m *matcher) bin(n *node, got reflect.Value, path string) {
	if got.Type() != binaryType {
		m.fail("value", fmt.Sprintf("%s: type %s, want sio.Binary", path, got.Type()))
		return
	}
	m.c.st.Attachments++
	if !bytes.Equal(got.Bytes(), n.Bin) {
		m.fail("attachment", fmt.Sprintf("%s: attachment %q, emitted %q", path, got.Bytes(), n.Bin))
	}
}

func (m *matcher) s(n *node, got reflect.Value, path string) {
	if got.Kind() != reflect.Struct || got.NumField() != 2 {
		m.fail("value", fmt.Sprintf("%s: %v, want S", path, got.Type()))
		return
	}
	if got.Field(0).Int() != 1 {
		m.fail("value", fmt.Sprintf("%s.N: %d, want 1", path, got.Field(0).Int()))
	}
	m.bin(n.Kids[0], got.Field(1), path+".B")
}

func (m *matcher) sliceOf(n *node, got reflect.Value, path string, each func(*node, reflect.Value, string)) bool {
	if got.Kind() != reflect.Slice || got.Len() != len(n.Kids) {
		m.fail("value", fmt.Sprintf("%s: %s, want %s with %d elements", path, showRV(got), kindName[n.K], len(n.Kids)))
		return false
	}
	for i, k := range n.Kids {
		each(k, got.Index(i), fmt.Sprintf("%s[%d]", path, i))
	}
	return true
}

func (m *matcher) mapOf(n *node, got reflect.Value, path string, each func(*node, reflect.Value, string)) {
	if got.Kind() != reflect.Map || got.Len() != len(n.Kids) {
		m.fail("value", fmt.Sprintf("%s: %s, want %s with %d entries", path, showRV(got), kindName[n.K], len(n.Kids)))
		return
	}
	for i, k := range n.Kids {
		e := got.MapIndex(reflect.ValueOf(n.Keys[i]))
		if !e.IsValid() {
			m.fail("value", fmt.Sprintf("%s: key %q missing", path, n.Keys[i]))
			continue
		}
		each(k, e, fmt.Sprintf("%s[%q]", path, n.Keys[i]))
	}
}

func (m *matcher) ptrS(n *node, got reflect.Value, path string) {
	if got.Kind() != reflect.Ptr || got.IsNil() {
		m.fail("value", fmt.Sprintf("%s: %s, want non-nil *S", path, showRV(got)))
		return
	}
	m.s(n, got.Elem(), path)
}

// match compares a decoded value in a statically typed position with the model.
func (m *matcher) match(n *node, got reflect.Value, path string) {
	if got.Kind() == reflect.Interface { // an `any` slot: only the JSON data model can be asked for
		m.matchAny(refTree(n), got, path)
		return
	}
	want := staticType(n)
	if got.Type() != want {
		m.fail("value", fmt.Sprintf("%s: type %s, want %s", path, got.Type(), want))
		return
	}
	switch n.K {
	case kInt, kFloat, kBool, kStr, kPlain:
		if !reflect.DeepEqual(got.Interface(), build(n)) {
			m.fail("value", fmt.Sprintf("%s: %#v, want %#v", path, got.Interface(), build(n)))
		}
	case kPtrPlain:
		if got.IsNil() || !reflect.DeepEqual(got.Interface(), build(n)) {
			m.fail("value", fmt.Sprintf("%s: %s, want &Plain{...}", path, showRV(got)))
		}
	case kBin:
		m.bin(n, got, path)
	case kSliceAny:
		m.sliceOf(n, got, path, m.match)
	case kMapAny:
		m.mapOf(n, got, path, m.match)
	case kS:
		m.s(n, got, path)
	case kPtrS:
		m.ptrS(n, got, path)
	case kSliceBin:
		m.sliceOf(n, got, path, m.bin)
	case kMapBin:
		m.mapOf(n, got, path, m.bin)
	case kSliceS:
		m.sliceOf(n, got, path, m.s)
	case kSlicePtrS:
		m.sliceOf(n, got, path, m.ptrS)
	case kMapPtrS:
		m.mapOf(n, got, path, m.ptrS)
	case kSliceSliceBin:
		m.sliceOf(n, got, path, func(k *node, g reflect.Value, p string) { m.sliceOf(k, g, p, m.bin) })
	case kMapMapAny, kMapSliceAny:
		m.mapOf(n, got, path, m.match)
	case kSliceMapAny:
		m.sliceOf(n, got, path, m.match)
	case kT, kPtrT:
		if n.K == kPtrT {
			if got.IsNil() {
				m.fail("value", path+": nil, want *T")
				return
			}
			got = got.Elem()
		}
		m.s(n.Kids[0], got.Field(0), path+".S")
		if n.Kids[1].K == kPtrS {
			m.ptrS(n.Kids[1], got.Field(1), path+".P")
		} else if !got.Field(1).IsNil() {
			m.fail("value", path+".P: non-nil, want nil")
		}
		m.sliceOf(n.Kids[2], got.Field(2), path+".L", m.bin)
		m.mapOf(n.Kids[3], got.Field(3), path+".M", m.bin)
	default:
		panic("harness: match: unknown kind")
	}
}

// matchAny compares what arrived in an `any` slot with the JSON document that was sent. For a
// Binary in such a slot reconstruction is not demanded (the decoder cannot know the type); if bytes
// were restored they must be the right ones.
func (m *matcher) matchAny(j *jv, got reflect.Value, path string) {
	for got.IsValid() && got.Kind() == reflect.Interface {
		if got.IsNil() {
			if j.t != 'z' {
				m.fail("value", fmt.Sprintf("%s: nil, want %s", path, canonString(j)))
			}
			return
		}
		got = got.Elem()
	}
	switch j.t {
	case 'z':
		m.fail("value", fmt.Sprintf("%s: %s, want nil", path, showRV(got)))
	case 't', 'f':
		if got.Kind() != reflect.Bool || got.Bool() != (j.t == 't') {
			m.fail("value", fmt.Sprintf("%s: %s, want %s", path, showRV(got), canonString(j)))
		}
	case 'n':
		f, _ := strconv.ParseFloat(j.s, 64)
		if got.Kind() != reflect.Float64 || got.Float() != f {
			m.fail("value", fmt.Sprintf("%s: %s, want %s", path, showRV(got), j.s))
		}
	case 's':
		if got.Kind() != reflect.String || got.String() != j.s {
			m.fail("value", fmt.Sprintf("%s: %s, want %q", path, showRV(got), j.s))
		}
	case 'b':
		m.c.st.AnyBinSkipped++
		if got.Kind() == reflect.Slice && got.Type().Elem().Kind() == reflect.Uint8 {
			m.c.st.AnyBinRestored++
			if !bytes.Equal(got.Bytes(), []byte(j.s)) {
				m.fail("attachment", fmt.Sprintf("%s: attachment %q, emitted %q", path, got.Bytes(), j.s))
			}
		}
	case 'a':
		if got.Kind() != reflect.Slice || got.Type().Elem().Kind() != reflect.Interface || got.Len() != len(j.a) {
			m.fail("value", fmt.Sprintf("%s: %s, want %s", path, showRV(got), canonString(j)))
			return
		}
		for i, c := range j.a {
			m.matchAny(c, got.Index(i), fmt.Sprintf("%s[%d]", path, i))
		}
	case 'o':
		if got.Kind() != reflect.Map || got.Type().Key().Kind() != reflect.String || got.Len() != len(j.a) {
			m.fail("value", fmt.Sprintf("%s: %s, want %s", path, showRV(got), canonString(j)))
			return
		}
		for i, c := range j.a {
			e := got.MapIndex(reflect.ValueOf(j.k[i]))
			if !e.IsValid() {
				m.fail("value", fmt.Sprintf("%s: key %q missing", path, j.k[i]))
				continue
			}
			m.matchAny(c, e, fmt.Sprintf("%s[%q]", path, j.k[i]))
		}
	}
}

// ---------------------------------------------------------------- oracle 3: where did the input change

// diffVals walks the snapshot a and the value after Encode b together and records "<what>@<position class>".
func diffVals(a, b reflect.Value, pos string, top bool, out map[string]bool) {
	for a.IsValid() && a.Kind() == reflect.Interface {
		a = a.Elem()
	}
	for b.IsValid() && b.Kind() == reflect.Interface {
		b = b.Elem()
	}
	if !a.IsValid() || !b.IsValid() {
		if a.IsValid() != b.IsValid() {
			out["other@"+pos] = true
		}
		return
	}
	if a.Type() != b.Type() {
		switch {
		case a.Type() == binaryType:
			out["Binary@"+pos] = true
		case a.Kind() == reflect.Struct && b.Kind() == reflect.Ptr && !b.IsNil() && b.Type().Elem() == a.Type():
			out["struct->pointer@"+pos] = true
			diffVals(a, b.Elem(), pos, false, out)
		default:
			out["other@"+pos] = true
		}
		return
	}
	switch a.Kind() {
	case reflect.Ptr:
		if a.IsNil() || b.IsNil() {
			if a.IsNil() != b.IsNil() {
				out["other@"+pos] = true
			}
			return
		}
		diffVals(a.Elem(), b.Elem(), pos, top, out)
	case reflect.Slice:
		if a.Type() == binaryType {
			if !bytes.Equal(a.Bytes(), b.Bytes()) || a.IsNil() != b.IsNil() {
				out["Binary@"+pos] = true
			}
			return
		}
		if a.Len() != b.Len() || a.IsNil() != b.IsNil() {
			out["other@"+pos] = true
			return
		}
		ep := pos
		if !top {
			ep = "element of " + a.Type().String()
		}
		for i := 0; i < a.Len(); i++ {
			diffVals(a.Index(i), b.Index(i), ep, false, out)
		}
	case reflect.Map:
		if a.Len() != b.Len() {
			out["other@"+pos] = true
			return
		}
		for _, k := range a.MapKeys() {
			bv := b.MapIndex(k)
			if !bv.IsValid() {
				out["other@"+pos] = true
				continue
			}
			diffVals(a.MapIndex(k), bv, "value of "+a.Type().String(), false, out)
		}
	case reflect.Struct:
		for i := 0; i < a.NumField(); i++ {
			diffVals(a.Field(i), b.Field(i), "struct field", false, out)
		}
	default:
		if !reflect.DeepEqual(a.Interface(), b.Interface()) {
			out["other@"+pos] = true
		}
	}
}

// ---------------------------------------------------------------- printing Go values (messages only)

func showRV(v reflect.Value) string {
	if !v.IsValid() {
		return "<invalid>"
	}
	if v.CanInterface() {
		return showVal(v.Interface())
	}
	return v.Type().String()
}

func showVal(v any) string {
	var sb strings.Builder
	showInto(&sb, reflect.ValueOf(v), 0)
	return sb.String()
}

func showInto(sb *strings.Builder, v reflect.Value, depth int) {
	if !v.IsValid() {
		sb.WriteString("nil")
		return
	}
	if depth > 8 {
		sb.WriteString("...")
		return
	}
	switch v.Kind() {
	case reflect.Interface:
		if v.IsNil() {
			sb.WriteString("nil")
			return
		}
		showInto(sb, v.Elem(), depth)
	case reflect.Ptr:
		if v.IsNil() {
			sb.WriteString("(" + v.Type().String() + ")(nil)")
			return
		}
		sb.WriteByte('&')
		showInto(sb, v.Elem(), depth+1)
	case reflect.Slice:
		if v.Type().Elem().Kind() == reflect.Uint8 {
			fmt.Fprintf(sb, "%s(%q)", shortType(v.Type()), v.Bytes())
			return
		}
		sb.WriteString(shortType(v.Type()) + "{")
		for i := 0; i < v.Len(); i++ {
			if i > 0 {
				sb.WriteString(", ")
			}
			showInto(sb, v.Index(i), depth+1)
		}
		sb.WriteByte('}')
	case reflect.Map:
		sb.WriteString(shortType(v.Type()) + "{")
		keys := v.MapKeys()
		ks := make([]string, len(keys))
		for i, k := range keys {
			ks[i] = k.String()
		}
		sortStrings(ks)
		for i, k := range ks {
			if i > 0 {
				sb.WriteString(", ")
			}
			fmt.Fprintf(sb, "%q: ", k)
			showInto(sb, v.MapIndex(reflect.ValueOf(k)), depth+1)
		}
		sb.WriteByte('}')
	case reflect.Struct:
		sb.WriteString(shortType(v.Type()) + "{")
		for i := 0; i < v.NumField(); i++ {
			if i > 0 {
				sb.WriteString(", ")
			}
			sb.WriteString(v.Type().Field(i).Name + ": ")
			showInto(sb, v.Field(i), depth+1)
		}
		sb.WriteByte('}')
	case reflect.String:
		sb.WriteString(strconv.Quote(v.String()))
	default:
		fmt.Fprintf(sb, "%v", v.Interface())
	}
}

func shortType(t reflect.Type) string {
	s := t.String()
	s = strings.ReplaceAll(s, "interface {}", "any")
	s = strings.ReplaceAll(s, "main.", "")
	return s
}

func sortStrings(s []string) {
	for i := 1; i < len(s); i++ {
		for j := i; j > 0 && s[j] < s[j-1]; j-- {
			s[j], s[j-1] = s[j-1], s[j]
		}
	}
}
