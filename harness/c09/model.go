package main

// The packet model: an immutable description of one Socket.IO packet. Go values handed to the
// parser, the reference frames and the expected decode results are all derived from the model, never
// from each other.

import (
	"fmt"
	"reflect"
	"strconv"
	"strings"

	sio "github.com/karagenc/socket.io-go"
	"github.com/karagenc/socket.io-go/parser"
)

// ---------------------------------------------------------------- static Go types of the grammar

// S is "a struct with a Binary field".
type S struct {
	N int        `json:"n"`
	B sio.Binary `json:"b"`
}

// Plain is a struct without binary content (control packet payloads, plain struct argument).
type Plain struct {
	Name string `json:"name"`
	Age  int    `json:"age"`
}

// T nests the typed containers one level deeper (typed extras block).
type T struct {
	S S                     `json:"s"`
	P *S                    `json:"p"`
	L []sio.Binary          `json:"l"`
	M map[string]sio.Binary `json:"m"`
}

type kind uint8

const (
	kInt      kind = iota // int(1)
	kFloat                // float64(-1.5)
	kBool                 // true
	kNil                  // untyped nil
	kStr                  // string, value in Str
	kBin                  // sio.Binary, bytes in Bin (never nil)
	kSliceAny             // []any
	kMapAny               // map[string]any, keys in Keys
	kS                    // S{N:1, B: Kids[0]}
	kPtrS                 // &S{...}
	kSliceBin             // []sio.Binary
	kPlain                // Plain{Name: `x"y`, Age: 1}
	kPtrPlain             // &Plain{...}
	// typed extras
	kMapBin    // map[string]sio.Binary
	kSliceS    // []S
	kSlicePtrS // []*S
	kMapPtrS   // map[string]*S
	kT         // T{S: Kids[0], P: Kids[1] (kPtrS or kNil), L: Kids[2], M: Kids[3]}
	kPtrT      // &T{...}
	kSliceSliceBin
	kMapMapAny   // map[string]map[string]any (kids: kMapAny)
	kMapSliceAny // map[string][]any (kids: kSliceAny)
	kSliceMapAny // []map[string]any (kids: kMapAny)
	nKinds
)

var kindName = [...]string{"int", "float", "bool", "nil", "string", "Binary", "[]any", "map[string]any", "S", "*S", "[]Binary",
	"Plain", "*Plain", "map[string]Binary", "[]S", "[]*S", "map[string]*S", "T", "*T", "[][]Binary",
	"map[string]map[string]any", "map[string][]any", "[]map[string]any"}

type node struct {
	K    kind     `json:"k"`
	Str  string   `json:"s,omitempty"`
	Bin  []byte   `json:"b,omitempty"`
	Kids []*node  `json:"c,omitempty"`
	Keys []string `json:"keys,omitempty"`
}

type packet struct {
	Type  parser.PacketType `json:"type"` // 0..4 (binary variants arise from content)
	Nsp   string            `json:"nsp"`
	HasID bool              `json:"has_id"`
	ID    string            `json:"id,omitempty"` // decimal; a string so that 2^64-1 survives JSON
	Name  string            `json:"name"`         // EVENT only
	Args  []*node           `json:"args,omitempty"`
	Ctl   int               `json:"ctl,omitempty"` // payload variant of CONNECT / CONNECT_ERROR (see ctlNode)
}

func (p *packet) id() uint64 { n, _ := strconv.ParseUint(p.ID, 10, 64); return n }

func (p *packet) isEvent() bool { return p.Type == parser.PacketTypeEvent }
func (p *packet) hasArgs() bool {
	return p.Type == parser.PacketTypeEvent || p.Type == parser.PacketTypeAck
}

// ctlNode is the payload of a control packet (nil = none). All are passed by pointer, as the library does.
func (p *packet) ctlNode() *node {
	switch p.Ctl {
	case 1:
		return &node{K: kPtrPlain}
	case 2:
		return &node{K: kMapAny, Keys: []string{"sid"}, Kids: []*node{{K: kStr, Str: `x"y`}}}
	case 3:
		return &node{K: kMapAny, Keys: []string{"data", "message"}, Kids: []*node{{K: kMapAny, Keys: []string{"code"}, Kids: []*node{{K: kInt}}}, {K: kStr, Str: "ü not allowed"}}}
	}
	return nil
}

var typeNames = [...]string{"CONNECT", "DISCONNECT", "EVENT", "ACK", "CONNECT_ERROR", "BINARY_EVENT", "BINARY_ACK"}

func typeName(t parser.PacketType) string {
	if int(t) < len(typeNames) {
		return typeNames[t]
	}
	return fmt.Sprintf("type(%d)", t)
}

// ---------------------------------------------------------------- rendering (messages, dedup keys)

func (n *node) render(sb *strings.Builder) {
	switch n.K {
	case kInt:
		sb.WriteString("1")
	case kFloat:
		sb.WriteString("-1.5")
	case kBool:
		sb.WriteString("true")
	case kNil:
		sb.WriteString("nil")
	case kStr:
		sb.WriteString(strconv.Quote(n.Str))
	case kBin:
		sb.WriteString("Binary(")
		sb.WriteString(strconv.Quote(string(n.Bin)))
		sb.WriteString(")")
	case kS, kPtrS:
		if n.K == kPtrS {
			sb.WriteByte('&')
		}
		sb.WriteString("S{N:1,B:")
		n.Kids[0].render(sb)
		sb.WriteByte('}')
	case kPlain:
		sb.WriteString("Plain{}")
	case kPtrPlain:
		sb.WriteString("&Plain{}")
	case kT, kPtrT:
		if n.K == kPtrT {
			sb.WriteByte('&')
		}
		sb.WriteString("T{")
		for i, f := range []string{"S:", "P:", "L:", "M:"} {
			if i > 0 {
				sb.WriteByte(',')
			}
			sb.WriteString(f)
			n.Kids[i].render(sb)
		}
		sb.WriteByte('}')
	case kMapAny, kMapBin, kMapPtrS, kMapMapAny, kMapSliceAny:
		sb.WriteString(kindName[n.K])
		sb.WriteByte('{')
		for i, k := range n.Keys {
			if i > 0 {
				sb.WriteByte(',')
			}
			sb.WriteString(strconv.Quote(k))
			sb.WriteByte(':')
			n.Kids[i].render(sb)
		}
		sb.WriteByte('}')
	default: // slices
		sb.WriteString(kindName[n.K])
		sb.WriteByte('{')
		for i, c := range n.Kids {
			if i > 0 {
				sb.WriteByte(',')
			}
			c.render(sb)
		}
		sb.WriteByte('}')
	}
}

func (p *packet) String() string {
	var sb strings.Builder
	sb.WriteString(typeName(p.Type))
	sb.WriteString(" nsp=")
	sb.WriteString(strconv.Quote(p.Nsp))
	sb.WriteString(" id=")
	if p.HasID {
		sb.WriteString(p.ID)
	} else {
		sb.WriteString("none")
	}
	if p.isEvent() {
		sb.WriteString(" name=")
		sb.WriteString(strconv.Quote(p.Name))
	}
	if p.hasArgs() {
		sb.WriteString(" args=[")
		for i, a := range p.Args {
			if i > 0 {
				sb.WriteString(", ")
			}
			a.render(&sb)
		}
		sb.WriteString("]")
	} else if c := p.ctlNode(); c != nil {
		sb.WriteString(" payload=")
		c.render(&sb)
	}
	return sb.String()
}

// ---------------------------------------------------------------- model -> fresh Go value

func buildBin(n *node) sio.Binary {
	b := make(sio.Binary, len(n.Bin))
	copy(b, n.Bin)
	return b
}

func buildS(n *node) S { return S{N: 1, B: buildBin(n.Kids[0])} }

func buildSliceBin(n *node) []sio.Binary {
	l := make([]sio.Binary, len(n.Kids))
	for i, c := range n.Kids {
		l[i] = buildBin(c)
	}
	return l
}

func buildMapBin(n *node) map[string]sio.Binary {
	m := make(map[string]sio.Binary, len(n.Kids))
	for i, c := range n.Kids {
		m[n.Keys[i]] = buildBin(c)
	}
	return m
}

func buildT(n *node) T {
	t := T{S: buildS(n.Kids[0]), L: buildSliceBin(n.Kids[2]), M: buildMapBin(n.Kids[3])}
	if n.Kids[1].K == kPtrS {
		s := buildS(n.Kids[1])
		t.P = &s
	}
	return t
}

// build returns a fresh Go value (sharing nothing with any earlier build) of the node's static type.
func build(n *node) any {
	switch n.K {
	case kInt:
		return int(1)
	case kFloat:
		return float64(-1.5)
	case kBool:
		return true
	case kNil:
		return nil
	case kStr:
		return n.Str
	case kBin:
		return buildBin(n)
	case kSliceAny:
		l := make([]any, len(n.Kids))
		for i, c := range n.Kids {
			l[i] = build(c)
		}
		return l
	case kMapAny:
		m := make(map[string]any, len(n.Kids))
		for i, c := range n.Kids {
			m[n.Keys[i]] = build(c)
		}
		return m
	case kS:
		return buildS(n)
	case kPtrS:
		s := buildS(n)
		return &s
	case kSliceBin:
		return buildSliceBin(n)
	case kPlain:
		return Plain{Name: `x"y`, Age: 1}
	case kPtrPlain:
		return &Plain{Name: `x"y`, Age: 1}
	case kMapBin:
		return buildMapBin(n)
	case kSliceS:
		l := make([]S, len(n.Kids))
		for i, c := range n.Kids {
			l[i] = buildS(c)
		}
		return l
	case kSlicePtrS:
		l := make([]*S, len(n.Kids))
		for i, c := range n.Kids {
			s := buildS(c)
			l[i] = &s
		}
		return l
	case kMapPtrS:
		m := make(map[string]*S, len(n.Kids))
		for i, c := range n.Kids {
			s := buildS(c)
			m[n.Keys[i]] = &s
		}
		return m
	case kT:
		return buildT(n)
	case kPtrT:
		t := buildT(n)
		return &t
	case kSliceSliceBin:
		l := make([][]sio.Binary, len(n.Kids))
		for i, c := range n.Kids {
			l[i] = buildSliceBin(c)
		}
		return l
	case kMapMapAny:
		m := make(map[string]map[string]any, len(n.Kids))
		for i, c := range n.Kids {
			m[n.Keys[i]] = build(c).(map[string]any)
		}
		return m
	case kMapSliceAny:
		m := make(map[string][]any, len(n.Kids))
		for i, c := range n.Kids {
			m[n.Keys[i]] = build(c).([]any)
		}
		return m
	case kSliceMapAny:
		l := make([]map[string]any, len(n.Kids))
		for i, c := range n.Kids {
			l[i] = build(c).(map[string]any)
		}
		return l
	}
	panic("build: unknown kind")
}

var anyType = reflect.TypeOf((*any)(nil)).Elem()

// staticType is the type a receiving handler would declare for this argument: the emitted type.
func staticType(n *node) reflect.Type {
	if n.K == kNil {
		return anyType
	}
	return reflect.TypeOf(build(n))
}

// buildPayload returns the value handed to Encode: &[]any{name, args...} for EVENT, &[]any{args...}
// for ACK (exactly what Emit / the ack sender do), a pointer to the payload for control packets, nil if none.
func buildPayload(p *packet) any {
	if p.hasArgs() {
		v := make([]any, 0, len(p.Args)+1)
		if p.isEvent() {
			v = append(v, p.Name)
		}
		for _, a := range p.Args {
			v = append(v, build(a))
		}
		return &v
	}
	c := p.ctlNode()
	if c == nil {
		return nil
	}
	x := build(c)
	if reflect.ValueOf(x).Kind() == reflect.Ptr {
		return x
	}
	m := x.(map[string]any)
	return &m
}

func buildHeader(p *packet) *parser.PacketHeader {
	h := &parser.PacketHeader{Type: p.Type, Namespace: p.Nsp}
	if p.HasID {
		id := p.id()
		h.ID = &id
	}
	return h
}

// hasMultiBinMap reports whether some map in the tree holds binaries under two or more keys, i.e.
// whether map iteration order makes the placeholder numbering free.
func (n *node) countBin() int {
	if n.K == kBin {
		return 1
	}
	c := 0
	for _, k := range n.Kids {
		c += k.countBin()
	}
	return c
}

func (n *node) hasMultiBinMap() bool {
	if n.K == kMapAny || n.K == kMapBin || n.K == kMapPtrS || n.K == kMapMapAny || n.K == kMapSliceAny {
		with := 0
		for _, k := range n.Kids {
			if k.countBin() > 0 {
				with++
			}
		}
		if with >= 2 {
			return true
		}
	}
	for _, k := range n.Kids {
		if k.hasMultiBinMap() {
			return true
		}
	}
	return false
}

func (p *packet) numBin() int {
	c := 0
	if p.hasArgs() {
		for _, a := range p.Args {
			c += a.countBin()
		}
	}
	return c
}

func (p *packet) numberingFree() bool {
	if p.hasArgs() {
		for _, a := range p.Args {
			if a.hasMultiBinMap() {
				return true
			}
		}
	}
	return false
}
