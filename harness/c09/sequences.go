package main

import (
	"fmt"
	"reflect"

	"github.com/karagenc/socket.io-go/parser"
)

// sequencePairs: a connection has ONE parser for all its packets, so decoding must not depend on what was
// decoded before. Every ordered pair of packets over look-alike namespaces (names that are prefixes of one
// another, the main namespace written and unwritten) x packet types (with and without ack id / attachments)
// is encoded by the real encoder and fed, first packet then second, to one parser; the second packet must
// decode exactly as it does on a fresh parser. Returns the findings and the number of pairs evaluated.
func sequencePairs(c parser.Creator) (fs []finding, pairs int) {
	nss := []string{"/", "/a", "/ab", "/abc", "/a/b", "/b", "/a?x"}
	type shape struct {
		t    parser.PacketType
		id   string
		args []*node
	}
	shapes := []shape{
		{parser.PacketTypeConnect, "", nil},
		{parser.PacketTypeDisconnect, "", nil},
		{parser.PacketTypeEvent, "", nil},
		{parser.PacketTypeEvent, "10", []*node{lStr}},
		{parser.PacketTypeEvent, "", []*node{bBytes}},
		{parser.PacketTypeAck, "7", []*node{lInt}},
		{parser.PacketTypeAck, "7", []*node{bBytes, bBytes}},
		{parser.PacketTypeConnectError, "", nil},
	}
	var all []*packet
	for _, ns := range nss {
		for _, s := range shapes {
			name := ""
			if s.t == parser.PacketTypeEvent {
				name = "ev"
			}
			all = append(all, pk(s.t, ns, s.id, name, s.args))
		}
	}
	type decoded struct {
		typ  parser.PacketType
		ns   string
		id   string
		name string
		att  int
		err  string
	}
	// render decodes a finished packet into the types it was emitted with and prints the values
	render := func(p *packet, d parser.Decode) string {
		if d == nil {
			return "<no decode function>"
		}
		var nodes []*node
		if p.hasArgs() {
			nodes = p.Args
		} else if cn := p.ctlNode(); cn != nil {
			nodes = []*node{cn}
		}
		types := make([]reflect.Type, len(nodes))
		for i, n := range nodes {
			types[i] = staticType(n)
		}
		vals, err, pan := safeDecode(d, types...)
		if err != nil || pan != nil {
			return fmt.Sprint("decode failed: ", err, pan)
		}
		out := ""
		for _, v := range vals {
			for v.IsValid() && v.Kind() == reflect.Ptr && !v.IsNil() {
				v = v.Elem()
			}
			out += fmt.Sprintf("%#v;", v)
		}
		return out
	}
	var lastDecode parser.Decode
	feed := func(dec parser.Parser, p *packet) decoded {
		frames, err, pan := safeEncode(c(), buildHeader(p), buildPayload(p))
		if err != nil || pan != nil {
			return decoded{err: fmt.Sprint("encode: ", err, pan)}
		}
		var out decoded
		calls := 0
		for _, f := range copyFrames(frames) {
			err, pan := safeAdd(dec, f, func(h *parser.PacketHeader, name string, d parser.Decode) {
				calls++
				lastDecode = d
				out = decoded{typ: h.Type, ns: h.Namespace, name: name, att: h.Attachments}
				if h.ID != nil {
					out.id = fmt.Sprint(*h.ID)
				}
			})
			if pan != nil {
				return decoded{err: fmt.Sprint("panic: ", pan)}
			}
			if err != nil {
				return decoded{err: "error: " + err.Error()}
			}
		}
		if calls != 1 {
			return decoded{err: fmt.Sprintf("finish called %d times", calls)}
		}
		return out
	}
	for _, p1 := range all {
		for _, p2 := range all {
			pairs++
			fresh := feed(c(), p2)
			dec := c()
			lastDecode = nil
			first := feed(dec, p1)
			d1 := lastDecode
			at1 := ""
			if first.err == "" {
				at1 = render(p1, d1)
			}
			second := feed(dec, p2)
			if first.err != "" {
				continue // judged by the single-packet oracles
			}
			// the application decodes a packet on its own goroutine, possibly after the connection's parser has
			// gone on to the next packet: a late decode gives what an immediate one gave
			if late := render(p1, d1); late != at1 {
				fs = append(fs, finding{"a packet decoded after the parser has taken the next packet differs from the same packet decoded at once",
					fmt.Sprintf("packet %s followed by %s: decoded at once %s, decoded after the second packet %s", p1, p2, at1, late)})
			}
			if second != fresh {
				fs = append(fs, finding{"decoding depends on the packet decoded before (one parser per connection)",
					fmt.Sprintf("after %s the packet %s decodes as %+v, on a fresh parser as %+v", p1, p2, second, fresh)})
			}
		}
	}
	return fs, pairs
}
