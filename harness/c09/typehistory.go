package main

import (
	"bytes"
	"fmt"
	"reflect"

	sio "github.com/karagenc/socket.io-go"
	"github.com/karagenc/socket.io-go/parser"
)

// typeHistories: whether a value carries attachments is a property of the VALUE, not of its type, and not of
// what the process encoded earlier. Every type below is used by this part only, so the first value of each
// history really is the first value of that type the process ever encodes (a per-type memo inside the encoder
// - seeds c01i, c09i - is filled by it). Each history is a list of values of ONE type family (the type itself,
// pointers to it, slices and maps of it) with and without Binary leaves, in an order chosen so that the memo
// would be filled by the "wrong" member first; every value is then judged by itself:
//
//	frames = 1 + number of Binary leaves; header announces that count (BINARY_EVENT) or is a plain EVENT;
//	attachment k is byte-identical to the k-th Binary leaf in traversal order;
//	feeding the frames to a fresh parser and decoding into the value's own type gives back an equal value
//	(typed positions only: a Binary below an `any` is not reconstructed by the decoder, and not demanded).
//
// Every history is run in both directions (as listed, and reversed on a twin type family), so that "with
// attachments first" and "without attachments first" are both the process's first sight of a type.

type optA struct {
	Text  string
	Files []sio.Binary
}
type optA2 struct {
	Text  string
	Files []sio.Binary
}
type optAny struct {
	Text string
	Any  any
}
type optAny2 struct {
	Text string
	Any  any
}
type optM struct {
	M map[string]any
}
type optM2 struct {
	M map[string]any
}
type optN struct { // nested: the optional part sits one struct further down
	Inner *optNI
	Tag   string
}
type optNI struct {
	Bins []sio.Binary
}
type optN2 struct {
	Inner *optNI2
	Tag   string
}
type optNI2 struct {
	Bins []sio.Binary
}

// self-referential types: the reference field comes before the field that carries the bytes
type recA struct {
	Children []*recA
	Data     sio.Binary
}
type recA2 struct {
	Children []*recA2
	Data     sio.Binary
}
type recM struct { // mutually recursive
	Next *recM2nd
	Name string
}
type recM2nd struct {
	Back *recM
	Data sio.Binary
}
type recMb struct {
	Next *recMb2nd
	Name string
}
type recMb2nd struct {
	Back *recMb
	Data sio.Binary
}

type thCase struct {
	name  string
	mk    func() any // builds the value afresh (Encode substitutes in place: a known finding of its own)
	bins  [][]byte   // the Binary leaves in traversal order
	typed bool       // every Binary sits in a typed position: the round trip is demanded
}

func bin(b ...byte) sio.Binary { return sio.Binary(b) }

func typeHistoryFamilies() map[string][]thCase {
	return map[string][]thCase{
		"struct-with-[]Binary": {
			{"no files (nil slice)", func() any { return optA{Text: "a"} }, nil, true},
			{"two files", func() any { return optA{Text: "b", Files: []sio.Binary{bin(1, 2), bin(3)}} }, [][]byte{{1, 2}, {3}}, true},
			{"empty slice", func() any { return optA{Text: "c", Files: []sio.Binary{}} }, nil, true},
			{"pointer, one file", func() any { return &optA{Text: "d", Files: []sio.Binary{bin(4)}} }, [][]byte{{4}}, true},
			{"slice of two, second with a file", func() any { return []optA{{Text: "e"}, {Text: "f", Files: []sio.Binary{bin(5, 6)}}} }, [][]byte{{5, 6}}, true},
		},
		"twin:struct-with-[]Binary": {
			{"two files", func() any { return optA2{Text: "b", Files: []sio.Binary{bin(1, 2), bin(3)}} }, [][]byte{{1, 2}, {3}}, true},
			{"no files (nil slice)", func() any { return optA2{Text: "a"} }, nil, true},
			{"map of, one file", func() any { return map[string]optA2{"k": {Text: "g", Files: []sio.Binary{bin(7)}}} }, [][]byte{{7}}, true},
			{"no files again", func() any { return &optA2{Text: "h"} }, nil, true},
		},
		"struct-with-any": {
			{"any holds a string", func() any { return optAny{Text: "a", Any: "plain"} }, nil, false},
			{"any holds a Binary", func() any { return optAny{Text: "b", Any: bin(11, 12)} }, [][]byte{{11, 12}}, false},
			{"any holds nil", func() any { return optAny{Text: "c"} }, nil, false},
			{"any holds a slice with a Binary", func() any { return optAny{Text: "d", Any: []any{1, bin(13)}} }, [][]byte{{13}}, false},
		},
		"twin:struct-with-any": {
			{"any holds a Binary", func() any { return optAny2{Text: "b", Any: bin(11, 12)} }, [][]byte{{11, 12}}, false},
			{"any holds a string", func() any { return optAny2{Text: "a", Any: "plain"} }, nil, false},
			{"any holds a Binary again", func() any { return &optAny2{Text: "e", Any: bin(14)} }, [][]byte{{14}}, false},
		},
		"struct-with-map[string]any": {
			{"map without Binary", func() any { return optM{M: map[string]any{"x": 1}} }, nil, false},
			{"map with a Binary", func() any { return optM{M: map[string]any{"x": bin(15)}} }, [][]byte{{15}}, false},
			{"nil map", func() any { return optM{} }, nil, false},
		},
		"twin:struct-with-map[string]any": {
			{"map with a Binary", func() any { return optM2{M: map[string]any{"x": bin(15)}} }, [][]byte{{15}}, false},
			{"map without Binary", func() any { return optM2{M: map[string]any{"x": 1}} }, nil, false},
			{"map with a Binary again", func() any { return optM2{M: map[string]any{"y": bin(16, 17)}} }, [][]byte{{16, 17}}, false},
		},
		"nested-optional": {
			{"inner nil", func() any { return optN{Tag: "a"} }, nil, true},
			{"inner with two", func() any { return optN{Inner: &optNI{Bins: []sio.Binary{bin(18), bin(19)}}, Tag: "b"} }, [][]byte{{18}, {19}}, true},
			{"inner empty", func() any { return optN{Inner: &optNI{}, Tag: "c"} }, nil, true},
		},
		"twin:nested-optional": {
			{"inner with two", func() any { return optN2{Inner: &optNI2{Bins: []sio.Binary{bin(18), bin(19)}}, Tag: "b"} }, [][]byte{{18}, {19}}, true},
			{"inner nil", func() any { return optN2{Tag: "a"} }, nil, true},
			{"inner with one", func() any { return &optN2{Inner: &optNI2{Bins: []sio.Binary{bin(20)}}, Tag: "d"} }, [][]byte{{20}}, true},
		},
		"self-referential": {
			{"tree (pointer to the struct) first", func() any {
				return &recA{Children: []*recA{{Data: bin(21)}}, Data: bin(22)}
			}, [][]byte{{21}, {22}}, true},
			{"then a slice of pointers", func() any { return []*recA{{Data: bin(23)}, {Data: bin(24)}} }, [][]byte{{23}, {24}}, true},
			{"then a map of pointers", func() any { return map[string]*recA{"k": {Data: bin(25)}} }, [][]byte{{25}}, true},
			{"then the struct by value", func() any { return recA{Data: bin(26)} }, [][]byte{{26}}, true},
		},
		"twin:self-referential": {
			{"slice of pointers first", func() any { return []*recA2{{Data: bin(23)}, {Data: bin(24)}} }, [][]byte{{23}, {24}}, true},
			{"then the tree", func() any {
				return &recA2{Children: []*recA2{{Data: bin(21)}}, Data: bin(22)}
			}, [][]byte{{21}, {22}}, true},
			{"then the struct by value", func() any { return recA2{Data: bin(26)} }, [][]byte{{26}}, true},
		},
		"mutually-recursive": {
			{"outer first", func() any { return &recM{Next: &recM2nd{Data: bin(27)}, Name: "a"} }, [][]byte{{27}}, true},
			{"then the inner type in a slice", func() any { return []*recM2nd{{Data: bin(28)}} }, [][]byte{{28}}, true},
			{"then the outer in a map", func() any { return map[string]*recM{"k": {Next: &recM2nd{Data: bin(29)}}} }, [][]byte{{29}}, true},
		},
		"twin:mutually-recursive": {
			{"inner type in a slice first", func() any { return []*recMb2nd{{Data: bin(28)}} }, [][]byte{{28}}, true},
			{"then the outer", func() any { return &recMb{Next: &recMb2nd{Data: bin(27)}, Name: "a"} }, [][]byte{{27}}, true},
		},
	}
}

func typeHistories(c parser.Creator) (fs []finding, evals int) {
	fams := typeHistoryFamilies()
	var names []string
	for n := range fams {
		names = append(names, n)
	}
	sortStrings(names)
	for _, fam := range names {
		for step, tc := range fams[fam] {
			evals++
			where := fmt.Sprintf("type family %q, value %d of its history (%s)", fam, step+1, tc.name)
			add := func(key, format string, a ...any) {
				fs = append(fs, finding{"type history: " + key, where + ": " + fmt.Sprintf(format, a...)})
			}
			h := &parser.PacketHeader{Type: parser.PacketTypeEvent, Namespace: "/"}
			payload := []any{"ev", tc.mk()}
			frames, err, pan := safeEncode(c(), h, &payload)
			if pan != nil {
				add("Encode panics on a value whose type was encoded before with other content", "%s", stable(fmt.Sprint(pan)))
				continue
			}
			if err != nil {
				add("Encode fails on a value whose type was encoded before with other content", "%s", stable(err.Error()))
				continue
			}
			if len(frames) != 1+len(tc.bins) {
				add("number of frames differs from 1 + number of Binary leaves", "%d frames, %d Binary leaves; header %q", len(frames), len(tc.bins), frames[0])
				continue
			}
			wantPrefix := "2["
			if len(tc.bins) > 0 {
				wantPrefix = fmt.Sprintf("5%d-[", len(tc.bins))
			}
			if !bytes.HasPrefix(frames[0], []byte(wantPrefix)) {
				add("header does not announce the value's attachments", "header %q, expected it to start with %q", frames[0], wantPrefix)
				continue
			}
			ok := true
			for k, b := range tc.bins {
				if !bytes.Equal(frames[1+k], b) {
					add("attachment differs from the Binary leaf at its position", "attachment %d is %x, the leaf is %x", k, frames[1+k], b)
					ok = false
				}
			}
			if !ok || !tc.typed {
				continue
			}
			// round trip into the value's own type
			want := tc.mk()
			var dec parser.Decode
			p := c()
			for _, fr := range frames {
				if err, pan := safeAdd(p, fr, func(_ *parser.PacketHeader, _ string, d parser.Decode) { dec = d }); err != nil || pan != nil {
					add("frames of a value with a type history are refused by the decoder", "%v %v", err, pan)
					ok = false
					break
				}
			}
			if !ok {
				continue
			}
			if dec == nil {
				add("frames of a value with a type history do not complete a packet", "header %q", frames[0])
				continue
			}
			vals, err, pan := safeDecode(dec, reflect.TypeOf(want))
			if err != nil || pan != nil || len(vals) != 1 {
				add("decoding a value with a type history fails", "%v %v (%d values)", err, pan, len(vals))
				continue
			}
			got := vals[0]
			for got.Kind() == reflect.Ptr && got.Type() != reflect.TypeOf(want) && !got.IsNil() {
				got = got.Elem()
			}
			if !equalModuloEmpty(got.Interface(), want) {
				add("round trip of a value with a type history changes it", "decoded %s, emitted %s", showVal(got.Interface()), showVal(want))
			}
		}
	}
	return
}

// equalModuloEmpty: DeepEqual, except that nil and empty slices / maps are the same thing (JSON has one form for
// each: null vs [] are both legitimate encodings only for nil; an emitted empty slice may come back nil or empty).
func equalModuloEmpty(a, b any) bool {
	return eqv(reflect.ValueOf(a), reflect.ValueOf(b))
}

func eqv(a, b reflect.Value) bool {
	if !a.IsValid() || !b.IsValid() {
		return a.IsValid() == b.IsValid()
	}
	if a.Type() != b.Type() {
		return false
	}
	switch a.Kind() {
	case reflect.Ptr, reflect.Interface:
		if a.IsNil() || b.IsNil() {
			return a.IsNil() == b.IsNil()
		}
		return eqv(a.Elem(), b.Elem())
	case reflect.Slice:
		if a.Len() != b.Len() {
			return false
		}
		for i := 0; i < a.Len(); i++ {
			if !eqv(a.Index(i), b.Index(i)) {
				return false
			}
		}
		return true
	case reflect.Map:
		if a.Len() != b.Len() {
			return false
		}
		for _, k := range a.MapKeys() {
			bv := b.MapIndex(k)
			if !bv.IsValid() || !eqv(a.MapIndex(k), bv) {
				return false
			}
		}
		return true
	case reflect.Struct:
		for i := 0; i < a.NumField(); i++ {
			if !eqv(a.Field(i), b.Field(i)) {
				return false
			}
		}
		return true
	}
	return reflect.DeepEqual(a.Interface(), b.Interface())
}
