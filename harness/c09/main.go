// C09: Socket.IO encoding round-trips, matches the v5 format, leaves its input intact.
//
// Pure bounded-exhaustive enumeration (Engine B, build mode "plain"): every packet of a bounded
// grammar is pushed through Parser.Encode and four oracles (see oracle.go): reference encoder,
// round trip through a fresh parser, input snapshot, second encode.
package main

import (
	"crypto/sha1"
	"encoding/json"
	"flag"
	"fmt"
	"os"
	"runtime"
	"sort"
	"strings"
	"sync"
	"sync/atomic"
	"time"

	vx "github.com/karagenc/socket.io-go/internal/vexplore"
	"github.com/karagenc/socket.io-go/parser"
	jsonparser "github.com/karagenc/socket.io-go/parser/json"
	"github.com/karagenc/socket.io-go/parser/json/serializer/stdjson"
)

const property = "C09"

func creator() parser.Creator { return jsonparser.NewCreator(0, stdjson.New()) }

type agg struct {
	count int
	msg   string
	input string
	p     *packet
}

func better(a *agg, in string) bool {
	if a.p == nil {
		return true
	}
	if len(in) != len(a.input) {
		return len(in) < len(a.input)
	}
	return in < a.input
}

type job struct {
	p     *packet
	block int
}

type workerState struct {
	cur   atomic.Pointer[packet]
	since atomic.Int64
}

// evaluate runs the oracles on one packet; packets whose placeholder numbering depends on map
// iteration order are evaluated 4 times on fresh values so that both orders are very likely seen.
func evaluate(c *checker, p *packet) map[string]string {
	out := map[string]string{}
	n := 1
	if p.numberingFree() {
		n = 4
		c.st.MapOrderRepeats += n - 1
	}
	for i := 0; i < n; i++ {
		for _, f := range c.check(p) {
			if _, ok := out[f.key]; !ok {
				out[f.key] = f.msg
			}
		}
	}
	return out
}

func main() {
	tier := flag.String("tier", envOr("VERIF_TIER", "quick"), "quick|thorough")
	replay := flag.String("replay", "", "replay file written by an earlier run")
	only := flag.String("only", "", "substring filter on block names")
	procs := flag.Int("procs", 0, "worker goroutines (default min(8, NumCPU))")
	flag.Parse()
	if *replay != "" {
		doReplay(*replay)
		return
	}
	if *tier != "quick" && *tier != "thorough" {
		fmt.Fprintln(os.Stderr, "unknown tier", *tier)
		os.Exit(2)
	}
	if *procs <= 0 {
		*procs = runtime.NumCPU()
		if *procs > 8 {
			*procs = 8
		}
	}

	r := vx.NewReport(property, *tier, "exploration")
	r.Rule = "Bounded grammar of Socket.IO packets: types {CONNECT, DISCONNECT, EVENT, ACK, CONNECT_ERROR} (binary variants arise from content), " +
		"namespaces {/, /a, /a-b_c, /ü, /a/b, /1} plus every one-character namespace over printable ASCII (except the comma that ends the field) and every two-character one over 14 hostile characters, ack ids {none, 0, 1, 9, 10, 2^32, 2^63, 2^64-1}, event names = every string of length <= 3 (quick: <= 2) over {a \" \\ ü space [ ] , 1}, " +
		"argument trees with <= 3 top-level values and depth <= 2 over leaves {1, -1.5, true, nil, \"x\\\"y\", Binary{}, Binary{0,255}, Binary(placeholder-looking JSON)} and containers " +
		"{[]any, map[string]any, S (struct with Binary field), *S, []Binary, Plain, *Plain} plus a block of statically typed nested containers. " +
		"The full cross product is out of reach, so each dimension is enumerated COMPLETELY against a small representative set of the other dimensions; the blocks and their sizes are listed under coverage.blocks. " +
		"Each packet: (1) frames vs an independent reference encoder written from the v5 protocol (header bytes exact; JSON compared as a document with placeholders dereferenced to their attachment, numbering must be document order unless a map makes it free), " +
		"(2) frames fed to a fresh parser: same type/namespace/id/name, decode into the emitted static types equals the model, every attachment byte-identical and in place (Binary below an `any` slot: not demanded), " +
		"(3) deep snapshot of the value given to Encode equals it afterwards, (4) a second Encode of the same value gives canonically equal frames. " +
		"(5) every ordered pair of packets over look-alike namespaces {/, /a, /ab, /abc, /a/b, /b, /a?x} x 8 shapes fed one after the other to ONE parser: the second must decode as on a fresh parser. " +
		"Packets are de-duplicated by their full written-out form before evaluation (the three-argument block is distinct by construction: every sequence over a set of pairwise different values, verified, and no other block emits three arguments), so evaluations counts distinct packets; a packet is non-trivial unless it is a bare packet (no payload, no id) in namespace / with a plain a-z name."
	r.Assumptions = []string{
		"JSON serializer = stdjson (encoding/json), maxAttachments = 0 (unlimited), as the library's defaults",
		"the value given to Encode is what the library gives it: &[]any{name, args...} for EVENT, &[]any{args...} for ACK, a pointer to the payload for control packets",
		"object member order and JSON string escaping are not part of the protocol: the JSON part is compared as a document",
		"nil sio.Binary, nil typed pointers as arguments, arrays and cyclic values are outside the grammar",
		"oracle 4 uses a fresh header for the second Encode (a new Emit of the same values); re-use of a header that Encode already switched to a BINARY type is not covered",
	}

	budget := 5 * time.Minute
	if *tier == "thorough" {
		budget = 20 * time.Minute
	}
	deadline := time.Now().Add(budget)

	bl := blocks(*tier)
	type blockStat struct {
		Name       string `json:"block"`
		What       string `json:"enumerates"`
		Generated  int    `json:"generated"`
		Duplicates int    `json:"duplicates_skipped"`
		Evaluated  int    `json:"evaluated"`
	}
	bstats := make([]*blockStat, len(bl))

	jobs := make(chan []job, 64)
	ws := make([]*workerState, *procs)
	checkers := make([]*checker, *procs)
	aggs := make([]map[string]*agg, *procs)
	var wg sync.WaitGroup
	for w := 0; w < *procs; w++ {
		ws[w] = &workerState{}
		checkers[w] = newChecker(creator())
		aggs[w] = map[string]*agg{}
		wg.Add(1)
		go func(w int) {
			defer wg.Done()
			c, st, ag := checkers[w], ws[w], aggs[w]
			for batch := range jobs {
				for _, j := range batch {
					st.since.Store(time.Now().UnixNano())
					st.cur.Store(j.p)
					res := evaluate(c, j.p)
					st.cur.Store(nil)
					if len(res) == 0 {
						continue
					}
					in := j.p.String()
					for key, msg := range res {
						a := ag[key]
						if a == nil {
							a = &agg{}
							ag[key] = a
						}
						a.count++
						if better(a, in) {
							a.msg, a.input, a.p = msg, in, j.p
						}
					}
				}
			}
		}(w)
	}

	// watchdog: a packet that does not come back is a verdict, not a hung check
	done := make(chan struct{})
	go func() {
		t := time.NewTicker(2 * time.Second)
		defer t.Stop()
		for {
			select {
			case <-done:
				return
			case <-t.C:
				for _, st := range ws {
					if p := st.cur.Load(); p != nil && time.Since(time.Unix(0, st.since.Load())) > 90*time.Second {
						r.Violate("evaluation of one packet does not terminate", "Encode/Add/decode did not return within 90 s | input: "+p.String(), map[string]any{"packet": p})
						r.CapsHit = append(r.CapsHit, "aborted: a packet hung the code under test")
						r.Finish()
					}
				}
			}
		}
	}()

	if err := checkDistinctSets(); err != "" {
		r.HarnessErrs = append(r.HarnessErrs, err)
	}
	seen := map[[sha1.Size]byte]struct{}{}
	capped, threeArgClash := false, false
	for bi, b := range bl {
		bs := &blockStat{Name: b.name, What: b.what}
		bstats[bi] = bs
		if *only != "" && !contains(b.name, *only) {
			continue
		}
		var batch []job
		first := true
		b.gen(func(p *packet) {
			bs.Generated++
			if capped {
				return
			}
			if bs.Generated%4096 == 0 && time.Now().After(deadline) {
				capped = true
				r.CapsHit = append(r.CapsHit, fmt.Sprintf("wall-clock budget %v reached in block %s", budget, b.name))
				return
			}
			if !b.distinctByConstruction {
				if len(p.Args) == 3 && !threeArgClash {
					threeArgClash = true
					r.HarnessErrs = append(r.HarnessErrs, "block "+b.name+" emits three arguments, which the distinct-by-construction block relies on being the only one to do")
				}
				h := sha1.Sum([]byte(p.String()))
				if _, dup := seen[h]; dup {
					bs.Duplicates++
					return
				}
				seen[h] = struct{}{}
			} else if len(p.Args) != 3 {
				r.HarnessErrs = append(r.HarnessErrs, "block "+b.name+" claims distinctness by construction but emitted a packet without exactly 3 arguments")
			}
			bs.Evaluated++
			r.Evaluations++
			if nontrivial(p) {
				r.DistinctNontriv++
			}
			if first || (bs.Evaluated == 1000 && len(r.Samples) < 6) {
				first = false
				r.Sample(map[string]any{"block": b.name, "input": p.String(), "reference_frames": showFrames(refEncode(p).frames)})
			}
			batch = append(batch, job{p, bi})
			if len(batch) == 256 {
				jobs <- batch
				batch = nil
			}
		})
		if len(batch) > 0 {
			jobs <- batch
		}
	}
	close(jobs)
	wg.Wait()
	close(done)

	total := stats{ChangedAt: map[string]int{}}
	merged := map[string]*agg{}
	for w := range aggs {
		total.add(&checkers[w].st)
		for key, a := range aggs[w] {
			m := merged[key]
			if m == nil {
				m = &agg{}
				merged[key] = m
			}
			m.count += a.count
			if better(m, a.input) {
				m.msg, m.input, m.p = a.msg, a.input, a.p
			}
		}
	}
	keys := make([]string, 0, len(merged))
	for k := range merged {
		keys = append(keys, k)
	}
	sort.Strings(keys)
	for _, k := range keys {
		a := merged[k]
		msg := fmt.Sprintf("%s (%d packets of this run fail this way; shortest shown)", a.msg, a.count)
		for i := 0; i < a.count; i++ {
			r.Violate(k, msg, map[string]any{"packet": a.p, "input": a.input, "tier": *tier})
		}
	}
	// packets in sequence on one parser (a connection's parser is shared by all its packets)
	seqFs, seqPairs := sequencePairs(creator())
	for _, f := range seqFs {
		r.Violate(f.key, f.msg, map[string]any{"part": "sequence-pairs", "tier": *tier})
	}
	r.Evaluations += seqPairs
	r.DistinctNontriv += seqPairs
	r.Extra["sequence_pairs_on_one_parser"] = seqPairs
	// values whose TYPE the process has encoded before with other content (with / without attachments)
	thFs, thN := typeHistories(creator())
	for _, f := range thFs {
		r.Violate(f.key, f.msg, map[string]any{"part": "type-histories", "tier": *tier})
	}
	r.Evaluations += thN
	r.DistinctNontriv += thN
	r.Extra["values_with_a_type_history"] = thN
	r.Extra["blocks"] = bstats
	r.Extra["note_on_counters"] = "the counters below are per oracle run: a packet whose numbering depends on map order is run 4 times (map_order_repeats)"
	r.Extra["frames_byte_identical_to_reference"] = total.ByteIdentical
	r.Extra["frames_equal_after_canonicalisation_only"] = total.CanonIdentical
	r.Extra["packets_with_attachments"] = total.BinaryPackets
	r.Extra["attachments_compared_after_decode"] = total.Attachments
	r.Extra["binary_in_any_slot_not_demanded"] = total.AnyBinSkipped
	r.Extra["binary_in_any_slot_restored_and_compared"] = total.AnyBinRestored
	r.Extra["round_trips_equal"] = total.DecodedOK
	r.Extra["encode_errors"] = total.EncodeErrors
	r.Extra["second_encodes"] = total.SecondEncodes
	r.Extra["map_order_repeats"] = total.MapOrderRepeats
	r.Extra["input_changed_by_encode_at"] = total.ChangedAt
	r.Extra["workers"] = *procs
	r.Finish()
}

func doReplay(path string) {
	b, err := os.ReadFile(path)
	if err != nil {
		fmt.Fprintln(os.Stderr, err)
		os.Exit(2)
	}
	var f struct {
		Key    string `json:"key"`
		Replay struct {
			Packet *packet `json:"packet"`
		} `json:"replay"`
	}
	if err := json.Unmarshal(b, &f); err != nil || f.Replay.Packet == nil {
		fmt.Fprintf(os.Stderr, "replay file %s: no packet (%v)\n", path, err)
		os.Exit(2)
	}
	p := f.Replay.Packet
	normalise(p)
	fmt.Println("input:", p.String())
	fmt.Println("reference frames:", showFrames(refEncode(p).frames))
	c := newChecker(creator())
	res := map[string]string{}
	for i := 0; i < 8; i++ { // several times: map iteration order
		for _, fd := range c.check(p) {
			res[fd.key] = fd.msg
		}
	}
	hit := false
	keys := make([]string, 0, len(res))
	for k := range res {
		keys = append(keys, k)
	}
	sort.Strings(keys)
	for _, k := range keys {
		fmt.Printf("violation key=%q: %s\n", k, res[k])
		if k == f.Key {
			hit = true
		}
	}
	if hit {
		fmt.Printf("VIOLATION property=%s replay=%s\n", property, path)
		fmt.Printf("  key: %s\n  %s\n", f.Key, res[f.Key])
		os.Exit(1)
	}
	fmt.Println("the recorded violation does not occur on this tree")
	os.Exit(0)
}

// checkDistinctSets verifies the premise of blocks that are distinct by construction: the base sets
// contain pairwise different values (different written-out forms).
func checkDistinctSets() string {
	for name, set := range map[string][]*node{"depth1": depth1(), "representatives": representatives()} {
		seen := map[string]bool{}
		for _, n := range set {
			var sb strings.Builder
			n.render(&sb)
			if seen[sb.String()] {
				return "value set " + name + " contains " + sb.String() + " twice"
			}
			seen[sb.String()] = true
		}
	}
	return ""
}

// normalise repairs what JSON cannot carry: an empty Binary comes back as nil bytes.
func normalise(p *packet) {
	var fix func(n *node)
	fix = func(n *node) {
		if n.K == kBin && n.Bin == nil {
			n.Bin = []byte{}
		}
		for _, k := range n.Kids {
			fix(k)
		}
	}
	for _, a := range p.Args {
		fix(a)
	}
}

func contains(s, sub string) bool {
	for i := 0; i+len(sub) <= len(s); i++ {
		if s[i:i+len(sub)] == sub {
			return true
		}
	}
	return false
}

func envOr(k, d string) string {
	if v := os.Getenv(k); v != "" {
		return v
	}
	return d
}
