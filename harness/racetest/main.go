// Self-test of the race-detector integration: under the cooperative scheduler, built with -race,
// an unsynchronised access pair must be reported and a properly locked one must not.
package main

import (
	"fmt"
	"os"
	"time"

	"github.com/karagenc/socket.io-go/internal/vsched"
)

var shared int

func body(locked bool) func(e *vsched.Exec) {
	return func(e *vsched.Exec) {
		var mu vsched.Mutex
		ch := make(chan struct{}, 1)
		for i := 0; i < 2; i++ {
			vsched.GoQuiet("w", func() {
				if locked {
					mu.Lock()
					shared++
					mu.Unlock()
				} else {
					vsched.Point()
					shared++
					vsched.Point()
				}
				vsched.Select(true, vsched.Send(ch))
			})
		}
		vsched.Sleep(time.Second)
	}
}

func main() {
	mode := os.Args[1]
	e := vsched.Run(vsched.Options{Horizon: time.Minute}, body(mode == "locked"))
	fmt.Println("done", mode, shared, e.Steps, vsched.RaceEnabled)
}
