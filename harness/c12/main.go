// C12: middlewares gate admission and events - nothing passes that a middleware rejected.
//
// Rig R1 (harness-implemented Engine.IO socket; the harness is the protocol-level client).
//  1. admission: every middleware chain of length <= 3 over a 6-symbol alphabet (+ longer chains with
//     one rejection at every position) on "/" and "/custom", each executed on the real server
//     (explicit enumeration, default schedule, virtual time);
//  2. concurrent connects: 2-3 clients with a middleware blocked on a gate, all schedules <= d;
//     several namespaces multiplexed over one connection whose CONNECT handling overlaps, per-packet auth;
//  3. per-socket event middleware: chains x handler signatures x accept/reject.
package main

import (
	"encoding/json"
	"errors"
	"fmt"
	"sort"
	"strings"
	"time"

	sio "github.com/karagenc/socket.io-go"
	"github.com/karagenc/socket.io-go/adapter"
	eioparser "github.com/karagenc/socket.io-go/engine.io/parser"
	vx "github.com/karagenc/socket.io-go/internal/vexplore"
	"github.com/karagenc/socket.io-go/internal/vrig"
	"github.com/karagenc/socket.io-go/internal/vsched"
)

// middleware symbols
const (
	mAccept     = 'a' // accept
	mAcceptJoin = 'j' // join a room, accept
	mRejErr     = 'e' // reject with an error
	mRejStr     = 's' // reject with a string
	mRejStruct  = 't' // reject with structured data
	mJoinRej    = 'x' // join a room, then reject with an error
)

type rejData struct {
	Code int    `json:"code"`
	Why  string `json:"why"`
}

func rejects(c byte) bool { return c == mRejErr || c == mRejStr || c == mRejStruct || c == mJoinRej }

func nsPrefix(ns string) string {
	if ns == "/" {
		return ""
	}
	return ns + ","
}

// admission runs one chain for one namespace and judges it.
// variant: "" (defaults), or a server with connection state recovery enabled (middlewares are skipped for a
// RECOVERED session only, by default) whose client presents no pid / a pid the server cannot restore: such a
// client is an ordinary new client and must pass the whole chain.
func admission(chain string, ns string, r *vx.Report, variant ...string) {
	vr := ""
	if len(variant) > 0 {
		vr = variant[0]
	}
	var fail []string
	failKey := ""
	violate := func(key, format string, a ...any) {
		if failKey == "" {
			failKey = key
		}
		m := fmt.Sprintf(format, a...)
		if vr != "" {
			m = "[" + vr + "] " + m
		}
		fail = append(fail, m)
	}
	e := vsched.Run(vsched.Options{Horizon: 30 * time.Second}, func(e *vsched.Exec) {
		scfg := &sio.ServerConfig{}
		scfg.ServerConnectionStateRecovery.Enabled = vr != ""
		srv := sio.NewServer(scfg)
		nsp := srv.Of(ns)
		var calls []int
		connHandlers := 0
		var sockID string
		for i := 0; i < len(chain); i++ {
			i, c := i, chain[i]
			nsp.Use(func(s sio.ServerSocket, h *sio.Handshake) any {
				calls = append(calls, i)
				switch c {
				case mAccept:
					return nil
				case mAcceptJoin:
					s.Join(sio.Room(fmt.Sprintf("room%d", i)))
					return nil
				case mRejErr:
					return fmt.Errorf("nope%d", i)
				case mRejStr:
					return fmt.Sprintf("no%d", i)
				case mRejStruct:
					return &rejData{Code: i, Why: "because"}
				case mJoinRej:
					s.Join(sio.Room(fmt.Sprintf("room%d", i)))
					return fmt.Errorf("nope%d", i)
				}
				return nil
			})
		}
		nsp.OnConnection(func(s sio.ServerSocket) { connHandlers++; sockID = string(s.ID()) })
		f := vrig.NewFakeEIO(srv, "c12")
		switch vr {
		case "recovery-on/unknown-pid":
			f.In("0" + nsPrefix(ns) + `{"pid":"never-issued","offset":"none"}`)
		case "recovery-on/pid-without-offset":
			f.In("0" + nsPrefix(ns) + `{"pid":"never-issued"}`)
		default:
			f.In("0" + nsPrefix(ns))
		}
		vrig.Settle(time.Second)

		first := -1
		for i := 0; i < len(chain); i++ {
			if rejects(chain[i]) {
				first = i
				break
			}
		}
		// invocation order: a prefix of registration order ending at the first rejection
		wantCalls := len(chain)
		if first >= 0 {
			wantCalls = first + 1
		}
		okOrder := len(calls) == wantCalls
		for i, c := range calls {
			if c != i {
				okOrder = false
			}
		}
		if !okOrder {
			violate("admission: middlewares not run in registration order up to the first rejection", "chain %q on %s: middlewares invoked %v, expected 0..%d", chain, ns, calls, wantCalls-1)
		}
		var connects, errs []string
		for _, t := range f.Texts() {
			if strings.HasPrefix(t, "0"+nsPrefix(ns)+"{") {
				connects = append(connects, t)
			}
			if strings.HasPrefix(t, "4"+nsPrefix(ns)+"{") {
				errs = append(errs, t)
			}
		}
		rooms, sids, _ := adapter.VerifDump(nsp.Adapter())
		if first >= 0 {
			if len(connects) != 0 {
				violate("admission: CONNECT reply sent although a middleware rejected", "chain %q on %s: frames %s", chain, ns, f)
			}
			if len(errs) != 1 {
				violate("admission: rejected client did not get exactly one CONNECT_ERROR", "chain %q on %s: frames %s", chain, ns, f)
			} else {
				var body struct {
					Message json.RawMessage `json:"message"`
				}
				json.Unmarshal([]byte(errs[0][1+len(nsPrefix(ns)):]), &body)
				want := ""
				switch chain[first] {
				case mRejErr, mJoinRej:
					want = fmt.Sprintf(`"nope%d"`, first)
				case mRejStr:
					want = fmt.Sprintf(`"no%d"`, first)
				case mRejStruct:
					want = fmt.Sprintf(`{"code":%d,"why":"because"}`, first)
				}
				if string(body.Message) != want {
					violate("admission: CONNECT_ERROR does not carry the rejection", "chain %q on %s: CONNECT_ERROR %s, the middleware rejected with %s", chain, ns, errs[0], want)
				}
			}
			if connHandlers != 0 {
				violate("admission: connection handler ran for a rejected socket", "chain %q on %s: %d handler runs", chain, ns, connHandlers)
			}
			if n := len(nsp.Sockets()); n != 0 {
				violate("admission: rejected socket is listed in the namespace", "chain %q on %s: %d sockets listed", chain, ns, n)
			}
			if len(rooms) != 0 || len(sids) != 0 {
				violate("admission: rejected socket left rooms behind in the adapter", "chain %q on %s: adapter rooms=%v sids=%v after the rejection", chain, ns, rooms, sids)
			}
			if ids := f.Conn.SocketIDs(); len(ids) != 0 {
				violate("admission: rejected socket still tracked by its connection", "chain %q on %s: %v", chain, ns, ids)
			}
		} else {
			if len(connects) != 1 || len(errs) != 0 {
				violate("admission: accepted client did not get exactly one CONNECT reply", "chain %q on %s: frames %s", chain, ns, f)
			}
			if connHandlers != 1 {
				violate("admission: connection handler did not run exactly once for an accepted socket", "chain %q on %s: %d runs", chain, ns, connHandlers)
			}
			if n := len(nsp.Sockets()); n != 1 {
				violate("admission: accepted socket not listed exactly once", "chain %q on %s: %d sockets listed", chain, ns, n)
			} else if own, ok := sids[sockID]; !ok || !contains(own, sockID) {
				violate("admission: accepted socket is not in its own room", "chain %q on %s: adapter sids=%v socket %s", chain, ns, sids, sockID)
			} else {
				for i := 0; i < len(chain); i++ {
					if chain[i] == mAcceptJoin && !contains(own, fmt.Sprintf("room%d", i)) {
						violate("admission: room joined in an accepting middleware was lost", "chain %q on %s: rooms %v", chain, ns, own)
					}
				}
			}
		}
	})
	if e.HarnessErr != "" {
		r.HarnessErrs = append(r.HarnessErrs, fmt.Sprintf("admission chain %q on %s: %s", chain, ns, e.HarnessErr))
	}
	if len(e.Panics) > 0 {
		violate("admission: panic", "chain %q on %s: %v", chain, ns, e.Panics)
	}
	if e.Deadlock != "" {
		violate("admission: deadlock", "chain %q on %s: %s", chain, ns, e.Deadlock)
	}
	r.Evaluations++
	r.TracesValidated++
	r.Transitions += e.Steps
	if failKey != "" {
		r.Violate(failKey, strings.Join(fail, "; "), map[string]any{"part": "admission", "chain": chain, "namespace": ns})
	}
}

func contains(l []string, s string) bool {
	for _, x := range l {
		if x == s {
			return true
		}
	}
	return false
}

func chains(tier string) []string {
	alpha := []byte{mAccept, mAcceptJoin, mRejErr, mRejStr, mRejStruct, mJoinRej}
	var out []string
	var rec func(p string, n int)
	rec = func(p string, n int) {
		out = append(out, p)
		if n == 0 {
			return
		}
		for _, c := range alpha {
			rec(p+string(c), n-1)
		}
	}
	rec("", 3)
	// structured chains of length 4-5: one rejection (each kind) at each position, accepts elsewhere
	for l := 4; l <= 5; l++ {
		for pos := 0; pos < l; pos++ {
			for _, rej := range []byte{mRejErr, mRejStr, mRejStruct, mJoinRej} {
				b := []byte(strings.Repeat("a", l))
				b[pos] = rej
				if pos > 0 {
					b[0] = mAcceptJoin
				}
				out = append(out, string(b))
			}
		}
		out = append(out, strings.Repeat("a", l))
	}
	return out
}

// ---------------------------------------------------------------- concurrent connects

// concurrentConnects: clients connect at once; middleware k of the chain blocks on a gate that a
// separate thread opens; client i is rejected iff reject[i].
func concurrentConnects(name string, nclients int, reject []bool, bound int) *vx.Scenario {
	sc := &vx.Scenario{Name: name, Bound: bound, Horizon: 30 * time.Second}
	sc.Body = func(e *vsched.Exec) func() vx.Result {
		srv := sio.NewServer(nil)
		nsp := srv.Of("/")
		gate := make(chan struct{})
		var v vsched.Var
		calls := map[string][]int{}
		connHandlers := map[string]int{}
		ident := func(h *sio.Handshake) string {
			var a struct {
				Who string `json:"who"`
			}
			json.Unmarshal(h.Auth, &a)
			return a.Who
		}
		sockOf := map[string]string{}
		nsp.Use(func(s sio.ServerSocket, h *sio.Handshake) any {
			w := ident(h)
			v.Do(func() { calls[w] = append(calls[w], 0); sockOf[string(s.ID())] = w })
			return nil
		})
		nsp.Use(func(s sio.ServerSocket, h *sio.Handshake) any {
			w := ident(h)
			v.Do(func() { calls[w] = append(calls[w], 1) })
			vsched.RecvStmt(gate) // slow middleware
			for i := 0; i < nclients; i++ {
				if w == fmt.Sprintf("c%d", i) && reject[i] {
					return errors.New("denied " + w)
				}
			}
			return nil
		})
		nsp.Use(func(s sio.ServerSocket, h *sio.Handshake) any {
			w := ident(h)
			v.Do(func() { calls[w] = append(calls[w], 2) })
			return nil
		})
		nsp.OnConnection(func(s sio.ServerSocket) {
			v.Do(func() { connHandlers[sockOf[string(s.ID())]]++ })
		})
		fs := make([]*vrig.FakeEIO, nclients)
		for i := range fs {
			fs[i] = vrig.NewFakeEIO(srv, fmt.Sprintf("conn%d", i))
		}
		for i := range fs {
			i := i
			vsched.GoQuiet(fmt.Sprintf("client%d", i), func() { fs[i].In(fmt.Sprintf(`0{"who":"c%d"}`, i)) })
		}
		vsched.GoQuiet("gate", func() { vsched.Close(gate) })
		return func() vx.Result {
			var r vx.Result
			var out []string
			listed := map[string]bool{}
			for _, s := range nsp.Sockets() {
				listed[sockOf[string(s.ID())]] = true
			}
			_, sids, _ := adapter.VerifDump(nsp.Adapter())
			for i := 0; i < nclients; i++ {
				w := fmt.Sprintf("c%d", i)
				f := fs[i]
				gotConnect, gotErr := 0, 0
				for _, t := range f.Texts() {
					if strings.HasPrefix(t, "0{") {
						gotConnect++
					}
					if strings.HasPrefix(t, "4{") {
						gotErr++
					}
				}
				out = append(out, fmt.Sprintf("%s:%v/%d/%d/%d", w, calls[w], gotConnect, gotErr, connHandlers[w]))
				if reject[i] {
					if fmt.Sprint(calls[w]) != "[0 1]" || gotConnect != 0 || gotErr != 1 || connHandlers[w] != 0 || listed[w] {
						r.Violate("concurrent admission: a rejected client passed or the chain continued", "%s: middlewares %v, CONNECT replies %d, CONNECT_ERRORs %d, connection handlers %d, listed %v", w, calls[w], gotConnect, gotErr, connHandlers[w], listed[w])
					}
				} else {
					if fmt.Sprint(calls[w]) != "[0 1 2]" || gotConnect != 1 || gotErr != 0 || connHandlers[w] != 1 || !listed[w] {
						r.Violate("concurrent admission: an accepted client was not admitted exactly once", "%s: middlewares %v, CONNECT replies %d, CONNECT_ERRORs %d, connection handlers %d, listed %v", w, calls[w], gotConnect, gotErr, connHandlers[w], listed[w])
					}
				}
			}
			for sid := range sids {
				if w := sockOf[sid]; w != "" {
					idx := int(w[1] - '0')
					if reject[idx] {
						r.Violate("concurrent admission: rejected socket left rooms behind in the adapter", "%s (%s): %v", w, sid, sids[sid])
					}
				}
			}
			sort.Strings(out)
			r.Outcome = strings.Join(out, " ")
			return r
		}
	}
	return sc
}

// multiplexedConnects: ONE connection (one Engine.IO session, as one Manager with several sockets makes it) sends
// CONNECT packets for several namespaces, each with its own auth payload; the server handles every CONNECT packet
// on its own goroutine, so the middleware chains of the namespaces run at the same time. Every namespace is guarded
// by the same chain: m0 looks at the payload, m1 is slow (waits for a gate, when gated), m2 judges the token of
// handshake.Auth AFTER the slow step, m3 accepts. right[i] tells whether the CONNECT packet for nss[i] carries the
// right token. Each namespace's verdict must be the one its own chain gave on its own CONNECT packet: a packet with
// a wrong token is rejected by m2 (CONNECT_ERROR carrying m2's rejection, m3 and the connection handlers never run,
// nothing listed, no rooms, the connection does not track it), one with the right token is admitted exactly once -
// whatever the other namespaces of the connection are doing.
// delivery: "frame-by-frame" (one OnPacket call per CONNECT packet, as WebSocket delivers them), "one-payload" (all
// of them in one OnPacket call, a polling payload), "two-threads" (each packet fed from its own thread).
func multiplexedConnects(name string, nss []string, right []bool, delivery string, gated bool, bound int) *vx.Scenario {
	sc := &vx.Scenario{Name: name, Bound: bound, Horizon: 30 * time.Second}
	sc.Body = func(e *vsched.Exec) func() vx.Result {
		srv := sio.NewServer(nil)
		gate := make(chan struct{})
		var v vsched.Var
		calls := map[string][]int{}
		seen := map[string][]string{} // the token each judging step found in handshake.Auth
		connHandlers := map[string]int{}
		token := func(h *sio.Handshake) string {
			var a struct {
				Token string `json:"token"`
			}
			json.Unmarshal(h.Auth, &a)
			return a.Token
		}
		nsps := map[string]*sio.Namespace{}
		frames := make([]string, len(nss))
		for i, ns := range nss {
			ns := ns
			nsp := srv.Of(ns)
			nsps[ns] = nsp
			tok := "wrong-" + fmt.Sprint(i)
			if right[i] {
				tok = "secret"
			}
			frames[i] = fmt.Sprintf(`0%s{"token":%q}`, nsPrefix(ns), tok)
			nsp.Use(func(s sio.ServerSocket, h *sio.Handshake) any {
				t := token(h)
				v.Do(func() { calls[ns] = append(calls[ns], 0); seen[ns] = append(seen[ns], t) })
				s.Join("members")
				return nil
			})
			nsp.Use(func(s sio.ServerSocket, h *sio.Handshake) any {
				v.Do(func() { calls[ns] = append(calls[ns], 1) })
				if gated {
					vsched.RecvStmt(gate) // slow middleware
				}
				return nil
			})
			nsp.Use(func(s sio.ServerSocket, h *sio.Handshake) any {
				t := token(h)
				v.Do(func() { calls[ns] = append(calls[ns], 2); seen[ns] = append(seen[ns], t) })
				if t != "secret" {
					return errors.New("unauthorized on " + ns)
				}
				return nil
			})
			nsp.Use(func(s sio.ServerSocket, h *sio.Handshake) any {
				v.Do(func() { calls[ns] = append(calls[ns], 3) })
				return nil
			})
			nsp.OnConnection(func(s sio.ServerSocket) { v.Do(func() { connHandlers[ns]++ }) })
		}
		f := vrig.NewFakeEIO(srv, "conn")
		switch delivery {
		case "frame-by-frame":
			vsched.GoQuiet("client", func() { f.In(frames...) })
		case "one-payload":
			vsched.GoQuiet("client", func() {
				var ps []*eioparser.Packet
				for _, fr := range frames {
					ps = append(ps, vrig.Msg(fr))
				}
				f.InPackets(ps...)
			})
		case "two-threads":
			for i := range frames {
				i := i
				vsched.GoQuiet(fmt.Sprintf("client%d", i), func() { f.In(frames[i]) })
			}
		}
		if gated {
			vsched.GoQuiet("gate", func() { vsched.Close(gate) })
		}
		return func() vx.Result {
			var r vx.Result
			var out []string
			_, tracked := f.Conn.Namespaces()
			for i, ns := range nss {
				nsp := nsps[ns]
				gotConnect, gotErr, errFrame := 0, 0, ""
				for _, t := range f.Texts() {
					if strings.HasPrefix(t, "0"+nsPrefix(ns)+"{") {
						gotConnect++
					}
					if strings.HasPrefix(t, "4"+nsPrefix(ns)+"{") {
						gotErr++
						errFrame = t
					}
				}
				listed := len(nsp.Sockets())
				_, sids, _ := adapter.VerifDump(nsp.Adapter())
				isTracked := contains(tracked, ns)
				out = append(out, fmt.Sprintf("%s:%v/%d/%d/%d/%d", ns, calls[ns], gotConnect, gotErr, connHandlers[ns], listed))
				ctx := fmt.Sprintf("%s, CONNECT packets %q over one connection (%s, gated=%v): chain of %s invoked %v and found the tokens %q in its handshake, CONNECT replies %d, CONNECT_ERRORs %d %s, connection handlers %d, sockets listed %d, adapter sids %v, namespaces of the connection %v; all frames to the client %q",
					ns, frames, delivery, gated, ns, calls[ns], seen[ns], gotConnect, gotErr, errFrame, connHandlers[ns], listed, sids, tracked, f.Texts())
				if right[i] {
					if fmt.Sprint(calls[ns]) != "[0 1 2 3]" || gotConnect != 1 || gotErr != 0 || connHandlers[ns] != 1 || listed != 1 {
						r.Violate("multiplexed admission: a CONNECT packet that every middleware of its namespace accepts was not admitted exactly once while another namespace of the same connection was connecting", "%s", ctx)
					}
				} else {
					if gotConnect != 0 || connHandlers[ns] != 0 || listed != 0 || isTracked || (len(calls[ns]) > 0 && calls[ns][len(calls[ns])-1] == 3) {
						r.Violate("multiplexed admission: a CONNECT packet whose auth its namespace's middleware rejects was admitted while another namespace of the same connection was connecting", "%s", ctx)
					} else if fmt.Sprint(calls[ns]) != "[0 1 2]" || gotErr != 1 || connectErrorMessage(errFrame, ns) != `"unauthorized on `+ns+`"` {
						r.Violate("multiplexed admission: the rejected namespace of a multiplexed connection did not get exactly one CONNECT_ERROR carrying its middleware's rejection", "%s", ctx)
					} else if len(sids) != 0 {
						r.Violate("multiplexed admission: rejected socket left rooms behind in the adapter", "%s", ctx)
					}
				}
			}
			r.Outcome = strings.Join(out, " ") + fmt.Sprintf(" closed=%d", f.Closed)
			return r
		}
	}
	return sc
}

// connectErrorMessage returns the raw "message" member of a CONNECT_ERROR frame for ns.
func connectErrorMessage(frame, ns string) string {
	var body struct {
		Message json.RawMessage `json:"message"`
	}
	if len(frame) < 1+len(nsPrefix(ns)) {
		return ""
	}
	json.Unmarshal([]byte(frame[1+len(nsPrefix(ns)):]), &body)
	return string(body.Message)
}

// closedDuringChain: the connection ends (transport close, or the server's own connect timeout because the
// middleware is slow) while an early middleware is still running, and a LATER middleware rejects (or every
// one accepts). A socket whose chain did not run to the end with every middleware accepting must never be
// admitted: no connection handler, not listed, no rooms - whatever happened to the connection meanwhile.
func closedDuringChain(name, how string, laterRejects bool, bound int) *vx.Scenario {
	sc := &vx.Scenario{Name: name, Bound: bound, Horizon: 3 * time.Minute}
	sc.Body = func(e *vsched.Exec) func() vx.Result {
		srv := sio.NewServer(nil)
		nsp := srv.Of("/")
		gate := make(chan struct{})
		var v vsched.Var
		var calls []int
		connHandlers := 0
		nsp.Use(func(s sio.ServerSocket, h *sio.Handshake) any {
			v.Do(func() { calls = append(calls, 0) })
			vsched.RecvStmt(gate) // slow middleware
			return nil
		})
		nsp.Use(func(s sio.ServerSocket, h *sio.Handshake) any {
			v.Do(func() { calls = append(calls, 1) })
			if laterRejects {
				return errors.New("denied")
			}
			return nil
		})
		nsp.OnConnection(func(s sio.ServerSocket) { v.Do(func() { connHandlers++ }) })
		f := vrig.NewFakeEIO(srv, "conn")
		vsched.GoQuiet("client", func() { f.In(`0{}`) })
		vsched.GoQuiet("closer", func() {
			vsched.Await(func() bool { return len(calls) >= 1 })
			switch how {
			case "transport-close":
				f.TransportClose("transport close")
				vsched.Close(gate)
			case "connect-timeout":
				// the server closes a connection that has not joined a namespace in time (45 s)
				vsched.Sleep(50 * time.Second)
				vsched.Close(gate)
			}
		})
		return func() vx.Result {
			var r vx.Result
			_, sids, _ := adapter.VerifDump(nsp.Adapter())
			r.Outcome = fmt.Sprintf("calls=%v handlers=%d listed=%d closed=%d", calls, connHandlers, len(nsp.Sockets()), f.Closed)
			ctx := fmt.Sprintf("%s, later middleware rejects=%v: middlewares called %v, connection handlers %d, sockets listed %d, adapter sids %v, frames %v", how, laterRejects, calls, connHandlers, len(nsp.Sockets()), sids, f.Texts())
			full := fmt.Sprint(calls) == "[0 1]"
			if laterRejects || !full {
				if connHandlers != 0 {
					r.Violate("admission while the connection ends: connection handler ran although the chain did not end with every middleware accepting", "%s", ctx)
				}
			}
			if len(nsp.Sockets()) != 0 || len(sids) != 0 {
				r.Violate("admission while the connection ends: socket or rooms left on the server", "%s", ctx)
			}
			return r
		}
	}
	return sc
}

// ---------------------------------------------------------------- a socket is nobody until every middleware has accepted it
//
// The first middleware joins the socket to a room (as authorisation code commonly does), the second one is slow
// and then rejects (or accepts). WHILE the chain runs, another member is connected, the namespace is listed,
// a broadcast goes to the room and one to the whole namespace. A socket that has not been admitted (yet) is not
// listed and receives nothing: no event frame may reach its connection before the reply to its CONNECT, and none
// at all if it is rejected.
func pendingSocketInvisible(name string, rejects bool, bound int) *vx.Scenario {
	sc := &vx.Scenario{Name: name, Bound: bound, Horizon: time.Minute}
	sc.Body = func(e *vsched.Exec) func() vx.Result {
		vsched.SetExploring(false)
		srv := sio.NewServer(nil)
		nsp := srv.Of("/chat")
		gate := make(chan struct{})
		var v vsched.Var
		connHandlers := 0
		nsp.Use(func(s sio.ServerSocket, h *sio.Handshake) any {
			if strings.Contains(string(h.Auth), "pending") {
				s.Join("members")
			}
			return nil
		})
		nsp.Use(func(s sio.ServerSocket, h *sio.Handshake) any {
			if !strings.Contains(string(h.Auth), "pending") {
				return nil
			}
			vsched.RecvStmt(gate) // slow (asks a database)
			if rejects {
				return errors.New("denied")
			}
			return nil
		})
		nsp.OnConnection(func(s sio.ServerSocket) {
			s.Join("members")
			v.Do(func() { connHandlers++ })
		})
		member := vrig.NewFakeEIO(srv, "member")
		member.In(`0/chat,{"who":"member"}`)
		vsched.Await(func() bool { return connHandlers == 1 })
		pending := vrig.NewFakeEIO(srv, "pending")
		pending.In(`0/chat,{"who":"pending"}`)
		vrig.Settle(time.Second)
		vsched.SetExploring(true)
		// while the chain of 'pending' is still running
		listed := len(nsp.Sockets())
		fetched := len(nsp.FetchSockets())
		inRoom := len(nsp.In("members").FetchSockets())
		nsp.To("members").Emit("news", "members only")
		nsp.Emit("all", "everybody")
		vrig.Settle(time.Second)
		during := append([]string{}, pending.Texts()...)
		vsched.Close(gate)
		vrig.Settle(time.Second)
		return func() vx.Result {
			var r vx.Result
			r.Outcome = fmt.Sprintf("listed=%d fetched=%d inRoom=%d during=%d end=%v", listed, fetched, inRoom, len(during), pending.Texts())
			ctx := fmt.Sprintf("while the second middleware of a connecting socket was still running (the first one had joined it to 'members'; the chain ends with rejects=%v): Namespace.Sockets() listed %d socket(s), FetchSockets() %d, In('members').FetchSockets() %d (one admitted member exists); frames to the connecting client at that time %q, at the end %q; frames to the member %q",
				rejects, listed, fetched, inRoom, during, pending.Texts(), member.Texts())
			if listed != 1 || fetched != 1 || inRoom != 1 {
				r.Violate("admission: a socket whose middlewares are still running is listed in its namespace or room", "%s", ctx)
			}
			evBeforeReply, evEver := false, false
			replied := false
			for _, t := range pending.Texts() {
				if strings.HasPrefix(t, "0/chat,") || strings.HasPrefix(t, "4/chat,") {
					replied = true
				}
				if strings.HasPrefix(t, "2/chat,") {
					evEver = true
					if !replied {
						evBeforeReply = true
					}
				}
			}
			if evBeforeReply || len(during) > 0 {
				r.Violate("admission: events delivered to a socket before its middlewares have accepted it", "%s", ctx)
			}
			if rejects && evEver {
				r.Violate("admission: events delivered to a socket that was rejected", "%s", ctx)
			}
			if !member.HasPrefix(`2/chat,["news"`) || !member.HasPrefix(`2/chat,["all"`) {
				r.Violate("admission: an admitted member missed a broadcast while another socket was being admitted", "%s", ctx)
			}
			return r
		}
	}
	return sc
}

// ---------------------------------------------------------------- concurrent set-up of one namespace
//
// Two goroutines of the application set a namespace up at the same time: one installs the middleware
// (srv.Of(ns).Use(mw)), the other the connection handler (srv.Of(ns).OnConnection(h)); a third variant lets a
// client's CONNECT create the namespace (AcceptAnyNamespace) while the middleware is being installed. Of(name)
// must hand every caller the same namespace: a middleware registered before a client connects gates it.
func concurrentNamespaceSetup(name string, how string, bound int) *vx.Scenario {
	sc := &vx.Scenario{Name: name, PreemptOnly: true, Bound: bound, Horizon: 30 * time.Second}
	if bound < 0 {
		sc.Unbounded = true
	}
	sc.Body = func(e *vsched.Exec) func() vx.Result {
		cfg := &sio.ServerConfig{}
		if how == "client-creates" {
			cfg.AcceptAnyNamespace = true
		}
		srv := sio.NewServer(cfg)
		var v vsched.Var
		mwRuns, connRuns := 0, 0
		var nspA, nspB *sio.Namespace
		doneA, doneB := false, false
		var early *vrig.FakeEIO
		vsched.GoQuiet("installs-middleware", func() {
			n := srv.Of("/admin")
			n.Use(func(s sio.ServerSocket, h *sio.Handshake) any {
				v.Do(func() { mwRuns++ })
				return errors.New("nobody gets in")
			})
			v.Do(func() { nspA, doneA = n, true })
		})
		switch how {
		case "two-goroutines":
			vsched.GoQuiet("installs-connection-handler", func() {
				n := srv.Of("/admin")
				n.OnConnection(func(s sio.ServerSocket) { v.Do(func() { connRuns++ }) })
				v.Do(func() { nspB, doneB = n, true })
			})
		case "client-creates":
			// a client that connects while the namespace is being set up may or may not meet the middleware (it
			// raced the installation); it only makes the server create the namespace from another goroutine
			vsched.GoQuiet("early-client", func() {
				early = vrig.NewFakeEIO(srv, "early")
				early.In("0/admin,")
				v.Do(func() { doneB = true })
			})
		}
		vsched.Await(func() bool { return doneA && doneB })
		vsched.SetExploring(false) // the race is over; what follows runs on the default schedule
		vrig.Settle(time.Second)
		runsBefore := 0
		v.Do(func() { runsBefore = mwRuns })
		// the set-up is over: from here on everybody must meet the middleware
		late := vrig.NewFakeEIO(srv, "late")
		late.In("0/admin,")
		vrig.Settle(time.Second)
		return func() vx.Result {
			var r vx.Result
			now := srv.Of("/admin")
			listed := len(now.Sockets())
			admitted, rejected := late.HasPrefix("0/admin,{"), late.HasPrefix("4/admin,")
			r.Outcome = fmt.Sprintf("same=%v/%v mw=%d conn=%d listed=%d admitted=%v rejected=%v", nspA == now, nspB == nil || nspB == now, mwRuns-runsBefore, connRuns, listed, admitted, rejected)
			ctx := fmt.Sprintf("%s: Of(\"/admin\") gave %p to the goroutine that installed the middleware, %p to the other one and %p afterwards; for the client that connected after the set-up the middleware ran %d time(s); frames to it %v; %d socket(s) listed, connection handler ran %d time(s)",
				how, nspA, nspB, now, mwRuns-runsBefore, late.Texts(), listed, connRuns)
			if nspA != now || (nspB != nil && nspB != now) {
				r.Violate("concurrent set-up: Of(name) handed out two different namespaces for one name (handlers or middlewares installed on one of them are lost)", "%s", ctx)
			}
			if admitted || !rejected || mwRuns-runsBefore != 1 {
				r.Violate("concurrent set-up: a client that connected after the middleware was installed did not have to pass it", "%s", ctx)
			}
			return r
		}
	}
	return sc
}

// ---------------------------------------------------------------- event middleware

type evCase struct {
	name    string
	frame   string // what the protocol-level client sends
	handler func(log *[]string, v *vsched.Var) any
	want    string // what the handler must record when the event is accepted
	args    string // what the middleware must see after the event name
}

func evCases() []evCase {
	recf := func(log *[]string, v *vsched.Var, s string) { v.Do(func() { *log = append(*log, s) }) }
	return []evCase{
		{"no-args", `2["ev"]`, func(log *[]string, v *vsched.Var) any { return func() { recf(log, v, "h()") } }, "h()", "[]"},
		{"string", `2["ev","x"]`, func(log *[]string, v *vsched.Var) any { return func(a string) { recf(log, v, "h("+a+")") } }, "h(x)", "[x]"},
		{"int", `2["ev",7]`, func(log *[]string, v *vsched.Var) any { return func(a int) { recf(log, v, fmt.Sprintf("h(%d)", a)) } }, "h(7)", "[7]"},
		{"string-int", `2["ev","x",7]`, func(log *[]string, v *vsched.Var) any {
			return func(a string, b int) { recf(log, v, fmt.Sprintf("h(%s,%d)", a, b)) }
		}, "h(x,7)", "[x 7]"},
		{"string-ack", `21["ev","x"]`, func(log *[]string, v *vsched.Var) any {
			return func(a string, ack func(string)) { recf(log, v, "h("+a+",ack)"); ack("done") }
		}, "h(x,ack)", "[x"},
		{"int-ack", `21["ev",7]`, func(log *[]string, v *vsched.Var) any {
			return func(a int, ack func(string)) { recf(log, v, fmt.Sprintf("h(%d,ack)", a)); ack("done") }
		}, "h(7,ack)", "[7"},
	}
}

// eventMiddleware runs one (case, chain) combination; chain symbols: 'a' accept, 'r' reject.
func eventMiddleware(c evCase, chain string, r *vx.Report) {
	var fail []string
	failKey := ""
	violate := func(key, format string, a ...any) {
		if failKey == "" {
			failKey = key
		}
		fail = append(fail, fmt.Sprintf(format, a...))
	}
	e := vsched.Run(vsched.Options{Horizon: 30 * time.Second}, func(e *vsched.Exec) {
		srv := sio.NewServer(nil)
		var v vsched.Var
		var log []string
		var errs []string
		ready := false
		srv.OnConnection(func(s sio.ServerSocket) {
			for i := 0; i < len(chain); i++ {
				i, sym := i, chain[i]
				s.Use(func(eventName string, args ...any) error {
					v.Do(func() { log = append(log, fmt.Sprintf("m%d(%s,%v)", i, eventName, args)) })
					if sym == 'r' {
						return fmt.Errorf("rejected by m%d", i)
					}
					if sym == 'p' {
						// rejects by panicking (a failed type assertion on an argument does the same): the library
						// recovers a panicking middleware and treats it as a rejection
						panic(fmt.Errorf("rejected by m%d", i))
					}
					return nil
				})
			}
			s.OnError(func(err error) { v.Do(func() { errs = append(errs, err.Error()) }) })
			s.OnEvent("ev", c.handler(&log, &v))
			v.Do(func() { ready = true })
		})
		f := vrig.NewFakeEIO(srv, "c12ev")
		f.ConnectNS("/")
		vsched.Await(func() bool { return ready })
		f.In(c.frame)
		vrig.Settle(time.Second)

		first := strings.IndexAny(chain, "rp")
		nm := len(chain)
		if first >= 0 {
			nm = first + 1
		}
		// middlewares: the first nm entries of the log, in order, each seeing the event name and args
		for i := 0; i < nm; i++ {
			if i >= len(log) || !strings.HasPrefix(log[i], fmt.Sprintf("m%d(ev,%s", i, c.args)) {
				violate("event middleware: did not see the event's name and arguments before the handler",
					"handler %s, chain %q, frame %s: log %v, errors %v (middleware %d should have recorded m%d(ev,%s...)", c.name, chain, c.frame, log, errs, i, i, c.args)
				return
			}
		}
		rest := log
		if len(rest) >= nm {
			rest = rest[nm:]
		}
		if first >= 0 {
			if len(rest) != 0 {
				violate("event middleware: a rejected event reached the handler", "handler %s, chain %q: log %v", c.name, chain, log)
			}
			found := false
			for _, er := range errs {
				if strings.Contains(er, fmt.Sprintf("rejected by m%d", first)) {
					found = true
				}
			}
			if !found {
				violate("event middleware: the rejection did not reach the error handlers", "handler %s, chain %q: errors %v", c.name, chain, errs)
			}
			if strings.Contains(c.frame, "21[") && f.HasPrefix("31") {
				violate("event middleware: a rejected event was acknowledged", "frames %s", f)
			}
		} else {
			if len(rest) != 1 || rest[0] != c.want {
				violate("event middleware: an accepted event did not reach its handler exactly once", "handler %s, chain %q: log %v, errors %v", c.name, chain, log, errs)
			}
		}
	})
	if e.HarnessErr != "" {
		r.HarnessErrs = append(r.HarnessErrs, "event middleware case: "+e.HarnessErr)
	}
	if len(e.Panics) > 0 {
		violate("event middleware: panic", "%v", e.Panics)
	}
	r.Evaluations++
	r.TracesValidated++
	r.Transitions += e.Steps
	if failKey != "" {
		r.Violate(failKey, strings.Join(fail, "; "), map[string]any{"part": "event-middleware", "handler": c.name, "chain": chain})
	}
}

// eventMiddlewareMulti: several handlers on the same event (On and Once in every combination of two),
// an unrelated event with its own handler, and a sequence of events of which some are rejected by an
// argument-dependent middleware. Chain symbols: 'a' accept, 'r' reject, 'b' reject iff the first argument is "bad".
// Whatever the number of handlers, a rejected event reaches none of them and an accepted one reaches each
// registered handler exactly once (a Once handler only for the first accepted occurrence), after the whole
// chain has seen it.
func eventMiddlewareMulti(handlers []string, chain string, frames []string, r *vx.Report) {
	var fail []string
	failKey := ""
	violate := func(key, format string, a ...any) {
		if failKey == "" {
			failKey = key
		}
		fail = append(fail, fmt.Sprintf(format, a...))
	}
	e := vsched.Run(vsched.Options{Horizon: 30 * time.Second}, func(e *vsched.Exec) {
		srv := sio.NewServer(nil)
		var v vsched.Var
		var log []string
		var errs []string
		ready := false
		srv.OnConnection(func(s sio.ServerSocket) {
			for i := 0; i < len(chain); i++ {
				i, sym := i, chain[i]
				s.Use(func(eventName string, args ...any) error {
					v.Do(func() { log = append(log, fmt.Sprintf("m%d(%s,%v)", i, eventName, args)) })
					if sym == 'r' || sym == 'b' && len(args) > 0 && fmt.Sprint(args[0]) == "bad" {
						return fmt.Errorf("rejected by m%d", i)
					}
					return nil
				})
			}
			s.OnError(func(err error) { v.Do(func() { errs = append(errs, err.Error()) }) })
			for j, kind := range handlers {
				j := j
				h := func(a string) { v.Do(func() { log = append(log, fmt.Sprintf("h%d(%s)", j, a)) }) }
				if kind == "once" {
					s.OnceEvent("ev", h)
				} else {
					s.OnEvent("ev", h)
				}
			}
			s.OnEvent("other", func(a string) { v.Do(func() { log = append(log, "other("+a+")") }) })
			v.Do(func() { ready = true })
		})
		f := vrig.NewFakeEIO(srv, "c12evm")
		f.ConnectNS("/")
		vsched.Await(func() bool { return ready })
		onceLeft := map[int]bool{}
		for j, kind := range handlers {
			onceLeft[j] = kind == "once"
		}
		for _, frame := range frames {
			before := len(log)
			nerr := len(errs)
			f.In(frame)
			vrig.Settle(time.Second)
			seg := append([]string{}, log[before:]...)
			ev, arg := "ev", ""
			if strings.Contains(frame, `"other"`) {
				ev = "other"
			}
			if i := strings.Index(frame, `",`); i >= 0 {
				arg = strings.Trim(frame[i+2:len(frame)-1], `"`)
			}
			rejected := strings.Contains(chain, "r") || strings.Contains(chain, "b") && arg == "bad"
			var want []string // handler entries this occurrence must produce
			if !rejected {
				if ev == "other" {
					want = append(want, "other("+arg+")")
				} else {
					for j, kind := range handlers {
						if kind == "once" && !onceLeft[j] {
							continue
						}
						want = append(want, fmt.Sprintf("h%d(%s)", j, arg))
					}
				}
			}
			if ev == "ev" {
				// a Once handler is consumed by the occurrence that was dispatched to it, accepted or not
				// (the store takes it before the chain runs); only "never runs for a rejected event" and
				// "at most once" are judged
				for j := range onceLeft {
					if !rejected {
						onceLeft[j] = false
					}
				}
			}
			var got []string
			chainDone := false
			pos := 0
			for _, l := range seg {
				if strings.HasPrefix(l, "m") {
					if strings.HasPrefix(l, fmt.Sprintf("m%d(%s,[%s", pos, ev, arg)) {
						pos++
						if pos == len(chain) {
							chainDone, pos = true, 0
						}
					} else if strings.HasPrefix(l, fmt.Sprintf("m0(%s,[%s", ev, arg)) {
						pos = 1
					}
					continue
				}
				if !chainDone && len(chain) > 0 {
					violate("event middleware: a handler ran before the whole chain had seen the event", "handlers %v, chain %q, frame %s: log of this occurrence %v", handlers, chain, frame, seg)
				}
				got = append(got, l)
			}
			ctx := fmt.Sprintf("handlers %v, chain %q, frames %v, this frame %s: log of this occurrence %v, errors %v", handlers, chain, frames, frame, seg, errs[nerr:])
			if rejected {
				if len(got) != 0 {
					violate("event middleware: a rejected event reached a handler", "%s", ctx)
				}
				continue
			}
			a, b := append([]string{}, got...), append([]string{}, want...)
			sort.Strings(a)
			sort.Strings(b)
			onceRejectedEarlier := false
			if fmt.Sprint(a) != fmt.Sprint(b) {
				// tolerated: a Once handler that was consumed by an earlier REJECTED occurrence does not run now
				var b2 []string
				for _, w := range b {
					keep := true
					for j, kind := range handlers {
						if kind == "once" && strings.HasPrefix(w, fmt.Sprintf("h%d(", j)) {
							keep = false
						}
					}
					if keep {
						b2 = append(b2, w)
					}
				}
				if fmt.Sprint(a) == fmt.Sprint(b2) || (len(a) == 0 && len(b2) == 0) {
					onceRejectedEarlier = true
				}
			}
			if fmt.Sprint(a) != fmt.Sprint(b) && !onceRejectedEarlier {
				violate("event middleware: an accepted event did not reach each of its handlers exactly once", "%s; wanted %v", ctx, want)
			}
			if len(errs) != nerr {
				violate("event middleware: an accepted event produced an error", "%s", ctx)
			}
		}
	})
	if e.HarnessErr != "" {
		r.HarnessErrs = append(r.HarnessErrs, "event middleware case: "+e.HarnessErr)
	}
	if len(e.Panics) > 0 {
		violate("event middleware: panic", "%v", e.Panics)
	}
	r.Evaluations++
	r.TracesValidated++
	r.Transitions += e.Steps
	if failKey != "" {
		r.Violate(failKey, strings.Join(fail, "; "), map[string]any{"part": "event-middleware-multi", "handlers": handlers, "chain": chain, "frames": frames})
	}
}

func scenarios(tier string) []*vx.Scenario {
	b := 3
	if tier == "thorough" {
		b = 4
	}
	s := []*vx.Scenario{
		concurrentConnects("concurrent/2-clients-one-rejected", 2, []bool{false, true}, b),
		concurrentConnects("concurrent/2-clients-both-accepted", 2, []bool{false, false}, b),
		concurrentConnects("concurrent/3-clients-middle-rejected", 3, []bool{false, true, false}, b-1),
	}
	for _, how := range []string{"transport-close", "connect-timeout"} {
		for _, rej := range []bool{true, false} {
			s = append(s, closedDuringChain(fmt.Sprintf("closed-during-chain/%s/later-rejects=%v", how, rej), how, rej, b-1))
		}
	}
	// several namespaces multiplexed over one connection, their CONNECT handling overlapping
	type mux struct {
		nss   []string
		right []bool
	}
	for _, m := range []mux{
		{[]string{"/a", "/b"}, []bool{false, true}},
		{[]string{"/a", "/b"}, []bool{true, false}},
		{[]string{"/", "/b"}, []bool{false, true}},
		{[]string{"/a", "/b"}, []bool{false, false}},
	} {
		for _, delivery := range []string{"frame-by-frame", "one-payload", "two-threads"} {
			for _, gated := range []bool{true, false} {
				g := "slow-middleware"
				if !gated {
					g = "no-slow-middleware"
				}
				var rs []string
				for i, ns := range m.nss {
					rs = append(rs, fmt.Sprintf("%s=%v", ns, map[bool]string{true: "right", false: "wrong"}[m.right[i]]))
				}
				s = append(s, multiplexedConnects(fmt.Sprintf("multiplexed-connects/%s/%s/%s", strings.Join(rs, ","), delivery, g), m.nss, m.right, delivery, gated, b-1))
			}
		}
	}
	s = append(s, multiplexedConnects("multiplexed-connects/3-namespaces/middle-right/one-payload/slow-middleware", []string{"/", "/a", "/b"}, []bool{false, true, false}, "one-payload", true, b-2))
	for _, x := range s {
		x.Shards = 4
	}
	s = append(s,
		pendingSocketInvisible("pending-socket-is-invisible/chain-ends-with-rejection", true, 1),
		pendingSocketInvisible("pending-socket-is-invisible/chain-ends-with-acceptance", false, 1),
		concurrentNamespaceSetup("concurrent-namespace-setup/two-goroutines", "two-goroutines", b),
		concurrentNamespaceSetup("concurrent-namespace-setup/client-creates-the-namespace", "client-creates", b))
	return s
}

func main() {
	vx.Main(vx.Config{
		Property: "C12",
		Level:    "model_checking",
		Rule: "admission: every chain of <= 3 middlewares over {accept, join+accept, reject(error), reject(string), reject(struct), join+reject} plus chains of 4-5 with one rejection at each position, on '/' and '/custom' (chains <= 3 also on a server with connection state recovery whose client presents no pid, an unknown pid, a pid without offset), each run on the real server under the scheduler (default schedule, virtual time) and judged against the statement; " +
			"concurrent connects of 2-3 clients with a blocking middleware explored to the deviation bound; 2-3 namespaces multiplexed over ONE connection, each CONNECT packet with its own auth (right / wrong token) judged by a middleware that reads handshake.Auth after a slow step (or with no slow step), packets delivered frame by frame / in one payload / from two threads, schedules to the deviation bound: every namespace gets the verdict of its own chain on its own CONNECT packet; the connection ending (transport close / connect timeout) while an early middleware still runs and a later one rejects or accepts; a socket whose chain is still running (joined to a room by its first middleware) is not listed and gets no broadcast before the verdict; two goroutines (or a goroutine and a client's CONNECT under AcceptAnyNamespace) setting one namespace up at once: Of(name) is one namespace and its middleware gates the next client; event middleware: chains of <= 2 x 6 handler signatures, and chains of <= 2 over {accept, reject, reject-iff-first-argument-is-bad} x 7 sets of 1-3 On/Once handlers on the same event x 7 sequences of 1-3 accepted/rejected occurrences (also of an unrelated event). distinct_nontrivial = chains containing >= 1 middleware (admission) + event cases with a non-empty chain + deviating schedules",
		Scenarios: scenarios,
		Budget: func(tier string) time.Duration {
			if tier == "thorough" {
				return 10 * time.Minute
			}
			return 90 * time.Second
		},
		Extra: func(tier string, r *vx.Report) {
			cs := chains(tier)
			for _, ns := range []string{"/", "/custom"} {
				for _, c := range cs {
					admission(c, ns, r)
					if len(c) > 0 && len(c) <= 3 {
						for _, vr := range []string{"recovery-on/no-pid", "recovery-on/unknown-pid", "recovery-on/pid-without-offset"} {
							admission(c, ns, r, vr)
							r.DistinctNontriv++
						}
					}
					if len(c) > 0 {
						r.DistinctNontriv++
					}
				}
			}
			r.Sample(map[string]any{"part": "admission", "chains": cs[len(cs)/2 : len(cs)/2+5]})
			r.Extra["admission_chains"] = len(cs)
			n := 0
			for _, c := range evCases() {
				for _, chain := range []string{"", "a", "r", "aa", "ar", "ra", "p", "ap", "pa"} {
					eventMiddleware(c, chain, r)
					n++
					if chain != "" {
						r.DistinctNontriv++
					}
				}
			}
			handlerSets := [][]string{{"on"}, {"once"}, {"on", "on"}, {"on", "once"}, {"once", "on"}, {"once", "once"}, {"on", "on", "on"}}
			frameSeqs := [][]string{
				{`2["ev","x"]`},
				{`2["ev","bad"]`},
				{`2["ev","bad"]`, `2["ev","x"]`},
				{`2["ev","x"]`, `2["ev","bad"]`},
				{`2["ev","x"]`, `2["ev","bad"]`, `2["ev","y"]`},
				{`2["other","bad"]`, `2["ev","x"]`},
				{`2["ev","bad"]`, `2["other","x"]`, `2["ev","bad"]`},
			}
			for _, hs := range handlerSets {
				for _, chain := range []string{"", "a", "r", "b", "ab", "ba", "bb", "ar"} {
					for _, fs := range frameSeqs {
						eventMiddlewareMulti(hs, chain, fs, r)
						n++
						if chain != "" {
							r.DistinctNontriv++
						}
					}
				}
			}
			r.Extra["event_middleware_cases"] = n
			r.States += len(cs)*2 + n
		},
		Assumptions: []string{
			"rig R1: the harness implements eio.ServerSocket and speaks Socket.IO frames by hand",
			"vsched semantics; sequential parts run on the default schedule",
		},
	})
}
