// Companion of the C01 check (plain build, real goroutines, real loopback I/O): the matrix
// argument shape x boundary size x transport x direction x recovery (x 3 clients for broadcasts).
// One event at a time, followed by a barrier event on the same connection. Prints one line
// "RESULT <json>" that harness/c01 merges into its report.
package main

import (
	"bytes"
	"crypto/sha1"
	"encoding/json"
	"flag"
	"fmt"
	"net/http/httptest"
	"os"
	"sync"
	"time"

	sio "github.com/karagenc/socket.io-go"
)

const deadline = 60 * time.Second

// deadlineHits: waits that ran into the deadline (each is a cap, never a verdict). After three of them the
// remaining waits of the run are cut to 3 s: a tree that silently drops what the cells wait for must not make
// the check run for an hour.
var deadlineHits int

func curDeadline() time.Duration {
	if deadlineHits >= 3 {
		return 3 * time.Second
	}
	return deadline
}
const grace = 15 * time.Second

type violation struct {
	Key    string `json:"key"`
	Msg    string `json:"msg"`
	Replay any    `json:"replay"`
}

type result struct {
	Evaluations int            `json:"evaluations"`
	Nontrivial  int            `json:"distinct_nontrivial"`
	Caps        []string       `json:"caps"`
	Violations  []violation    `json:"violations"`
	Extra       map[string]any `json:"extra"`
	Samples     []any          `json:"samples"`
}

var res = result{Extra: map[string]any{}}
var seenKeys = map[string]bool{}
var deadlineClasses = map[string]bool{} // classes of cells in which a cell waited the full deadline in vain

func violate(key, msg string, replay any) {
	if seenKeys[key] {
		return
	}
	seenKeys[key] = true
	res.Violations = append(res.Violations, violation{key, msg, replay})
}

// ---- shapes: each builds arguments of (about) a given payload size and a digest of what must arrive

type inner struct {
	L []sio.Binary `json:"l"`
	S string       `json:"s"`
}
type optFiles struct {
	Text  string       `json:"text"`
	Files []sio.Binary `json:"files"`
}
type withBin struct {
	N int        `json:"n"`
	B sio.Binary `json:"b"`
	P *inner     `json:"p"`
}

func fill(n int, seed byte) []byte {
	b := make([]byte, n)
	for i := range b {
		b[i] = byte(i*7) + seed
	}
	return b
}

func text(n int, seed byte) string {
	const al = "abcdefghijklmnopqrstuvwxyzABCDEFGHIJKLMNOPQRSTUVWXYZ0123456789 -_"
	b := make([]byte, n)
	for i := range b {
		b[i] = al[(i*11+int(seed))%len(al)]
	}
	return string(b)
}

func digest(parts ...[]byte) string {
	h := sha1.New()
	for _, p := range parts {
		fmt.Fprintf(h, "%d:", len(p))
		h.Write(p)
	}
	return fmt.Sprintf("%x", h.Sum(nil))[:16]
}

type shape struct {
	name   string
	binary bool // the size goes into binary attachments (base64 on polling)
	args   func(n int) ([]any, string)
	// handler returns the function to register; it must call rec(digest)
	handler func(rec func(string)) any
}

var shapes = []shape{
	{"string", false, func(n int) ([]any, string) { s := text(n, 1); return []any{s}, digest([]byte(s)) },
		func(rec func(string)) any { return func(s string) { rec(digest([]byte(s))) } }},
	{"unicode-string", false, func(n int) ([]any, string) {
		s := text(n/2, 2) + "✓é" + text(n-n/2, 3)
		return []any{s, 7}, digest([]byte(s), []byte("7"))
	}, func(rec func(string)) any {
		return func(s string, k int) { rec(digest([]byte(s), []byte(fmt.Sprint(k)))) }
	}},
	{"binary", true, func(n int) ([]any, string) { b := fill(n, 4); return []any{sio.Binary(b)}, digest(b) },
		func(rec func(string)) any { return func(b sio.Binary) { rec(digest(b)) } }},
	{"two-binaries", true, func(n int) ([]any, string) {
		a, b := fill(n/2, 5), fill(n-n/2, 6)
		return []any{sio.Binary(a), sio.Binary(b)}, digest(a, b)
	}, func(rec func(string)) any { return func(a, b sio.Binary) { rec(digest(a, b)) } }},
	{"struct-with-binary", true, func(n int) ([]any, string) {
		b := fill(n, 7)
		return []any{withBin{N: n, B: sio.Binary(b)}}, digest([]byte(fmt.Sprint(n)), b)
	}, func(rec func(string)) any {
		return func(w withBin) { rec(digest([]byte(fmt.Sprint(w.N)), w.B)) }
	}},
	{"map-with-binary", true, func(n int) ([]any, string) {
		b := fill(n, 8)
		return []any{map[string]any{"bin": sio.Binary(b), "k": "v"}, 3}, digest(b, []byte("v3"))
	}, func(rec func(string)) any {
		return func(m map[string]any, k int) {
			var b []byte
			switch x := m["bin"].(type) {
			case sio.Binary:
				b = x
			case []byte:
				b = x
			}
			rec(digest(b, []byte(fmt.Sprint(m["k"], k))))
		}
	}},
	{"pointer-nested-4-attachments", true, func(n int) ([]any, string) {
		q := n / 4
		parts := [][]byte{fill(q, 9), fill(q, 10), fill(q, 11), fill(n-3*q, 12)}
		w := &withBin{N: 1, B: sio.Binary(parts[0]), P: &inner{L: []sio.Binary{parts[1], parts[2], parts[3]}, S: "s"}}
		return []any{w}, digest(parts...)
	}, func(rec func(string)) any {
		return func(w *withBin) {
			if w == nil || w.P == nil || len(w.P.L) != 3 {
				rec("malformed")
				return
			}
			rec(digest(w.B, w.P.L[0], w.P.L[1], w.P.L[2]))
		}
	}},
	// optional attachments: the size-0 value (the first value of this type the process ever emits: sizes ascend)
	// has none, every later one has two (seed c01i: the encoder remembered per TYPE whether a struct carries binary)
	{"struct-with-optional-attachments", true, func(n int) ([]any, string) {
		if n == 0 {
			return []any{optFiles{Text: "none"}}, digest([]byte("none"))
		}
		a, b := fill(n/2, 15), fill(n-n/2, 16)
		return []any{optFiles{Text: "two", Files: []sio.Binary{a, b}}}, digest([]byte("two"), a, b)
	}, func(rec func(string)) any {
		return func(o optFiles) {
			parts := [][]byte{[]byte(o.Text)}
			for _, f := range o.Files {
				parts = append(parts, f)
			}
			rec(digest(parts...))
		}
	}},
	{"slice-of-strings", false, func(n int) ([]any, string) {
		a, b := text(n/2, 13), text(n-n/2, 14)
		return []any{[]string{a, b}, true}, digest([]byte(a), []byte(b))
	}, func(rec func(string)) any {
		return func(l []string, ok bool) {
			if len(l) != 2 || !ok {
				rec("malformed")
				return
			}
			rec(digest([]byte(l[0]), []byte(l[1])))
		}
	}},
	{"no-arguments", false, func(n int) ([]any, string) { return nil, "none" },
		func(rec func(string)) any { return func() { rec("none") } }},
	{"number", false, func(n int) ([]any, string) { return []any{float64(n) + 0.5}, fmt.Sprint(float64(n) + 0.5) },
		func(rec func(string)) any { return func(f float64) { rec(fmt.Sprint(f)) } }},
}

// ---- one connected pair

type recorder struct {
	mu   sync.Mutex
	got  map[string][]string // event name -> digests
	bars int
	cond *sync.Cond
}

func newRecorder() *recorder {
	r := &recorder{got: map[string][]string{}}
	r.cond = sync.NewCond(&r.mu)
	return r
}

func (r *recorder) rec(ev string) func(string) {
	return func(d string) {
		r.mu.Lock()
		r.got[ev] = append(r.got[ev], d)
		r.mu.Unlock()
		r.cond.Broadcast()
	}
}

// wait until cond() or the deadline; returns false on timeout
func (r *recorder) wait(d time.Duration, cond func() bool) bool {
	end := time.Now().Add(d)
	r.mu.Lock()
	defer r.mu.Unlock()
	for !cond() {
		if time.Now().After(end) {
			return false
		}
		r.mu.Unlock()
		time.Sleep(2 * time.Millisecond)
		r.mu.Lock()
	}
	return true
}

type registrar interface {
	OnEvent(string, any)
}

func registerAll(s registrar, r *recorder) {
	for _, sh := range shapes {
		s.OnEvent("m-"+sh.name, sh.handler(r.rec("m-"+sh.name)))
	}
	s.OnEvent("bar", func() {
		r.mu.Lock()
		r.bars++
		r.mu.Unlock()
		r.cond.Broadcast()
	})
}

type pair struct {
	ts      *httptest.Server
	srv     *sio.Server
	mgrs    []*sio.Manager
	socks   []sio.ClientSocket
	ssocks  []sio.ServerSocket
	srvRec  *recorder
	cliRecs []*recorder
	dead    bool
	downs   int
	mu      sync.Mutex
}

func (p *pair) close() {
	for _, m := range p.mgrs {
		m.Close()
	}
	p.srv.Close()
	p.ts.Close()
}

func newPair(transport string, recovery bool, nclients int) (*pair, error) {
	scfg := &sio.ServerConfig{}
	scfg.ServerConnectionStateRecovery.Enabled = recovery
	p := &pair{srv: sio.NewServer(scfg), srvRec: newRecorder()}
	p.srv.Use(func(s sio.ServerSocket, h *sio.Handshake) any {
		registerAll(s, p.srvRec)
		p.mu.Lock()
		p.ssocks = append(p.ssocks, s)
		p.mu.Unlock()
		s.OnDisconnect(func(sio.Reason) { p.mu.Lock(); p.downs++; p.mu.Unlock() })
		return nil
	})
	p.srv.OnConnection(func(s sio.ServerSocket) {})
	go p.srv.Run()
	p.ts = httptest.NewServer(p.srv)
	for c := 0; c < nclients; c++ {
		mcfg := &sio.ManagerConfig{NoReconnection: true}
		upgraded := make(chan struct{}, 1)
		switch transport {
		case "polling":
			mcfg.EIO.Transports = []string{"polling"}
		case "websocket":
			mcfg.EIO.Transports = []string{"websocket"}
		case "upgrade":
			mcfg.EIO.Transports = []string{"polling", "websocket"}
			mcfg.EIO.UpgradeDone = func(name string) {
				select {
				case upgraded <- struct{}{}:
				default:
				}
			}
		}
		m := sio.NewManager(p.ts.URL, mcfg)
		rec := newRecorder()
		s := m.Socket("/", nil)
		registerAll(s, rec)
		up := make(chan struct{}, 1)
		s.OnConnect(func() {
			select {
			case up <- struct{}{}:
			default:
			}
		})
		s.OnDisconnect(func(sio.Reason) { p.mu.Lock(); p.downs++; p.mu.Unlock() })
		s.Connect()
		select {
		case <-up:
		case <-time.After(deadline):
			return p, fmt.Errorf("client %d did not connect over %s within %v", c, transport, deadline)
		}
		if transport == "upgrade" {
			select {
			case <-upgraded:
			case <-time.After(deadline):
				return p, fmt.Errorf("client %d: upgrade to websocket not done within %v", c, deadline)
			}
		}
		p.mgrs = append(p.mgrs, m)
		p.socks = append(p.socks, s)
		p.cliRecs = append(p.cliRecs, rec)
	}
	// all server sockets known?
	end := time.Now().Add(deadline)
	for {
		p.mu.Lock()
		n := len(p.ssocks)
		p.mu.Unlock()
		if n == nclients {
			break
		}
		if time.Now().After(end) {
			return p, fmt.Errorf("server saw %d of %d sockets", n, nclients)
		}
		time.Sleep(time.Millisecond)
	}
	return p, nil
}

// payload size from a target size of the largest Engine.IO packet on the wire
func payloadFor(target int, sh shape, transport string) int {
	n := target
	if sh.binary && transport == "polling" {
		n = (target - 1) / 4 * 3 // base64 + 'b' prefix
	}
	if !sh.binary {
		n = target - 64 // JSON overhead of the text frame
	}
	if n < 0 {
		n = 0
	}
	return n
}

type cell struct {
	Transport string `json:"transport"`
	Recovery  bool   `json:"recovery"`
	Dir       string `json:"direction"`
	Shape     string `json:"shape"`
	Size      int    `json:"target_size"`
	Clients   int    `json:"clients"`
}

func runCell(p *pair, c cell, sh shape) {
	n := payloadFor(c.Size, sh, c.Transport)
	ev := "m-" + sh.name
	res.Evaluations++
	res.Nontrivial++
	type target struct {
		rec *recorder
	}
	var targets []*recorder
	var emit func(name string, v ...any)
	switch c.Dir {
	case "client->server":
		targets = []*recorder{p.srvRec}
		emit = p.socks[0].Emit
	case "server->client":
		targets = []*recorder{p.cliRecs[0]}
		emit = p.ssocks[0].Emit
	case "broadcast":
		targets = p.cliRecs
		emit = p.srv.Of("/").Emit
	}
	before := make([]int, len(targets))
	barsBefore := make([]int, len(targets))
	for i, t := range targets {
		t.mu.Lock()
		before[i] = len(t.got[ev])
		barsBefore[i] = t.bars
		t.mu.Unlock()
	}
	args, want := sh.args(n)
	// (the server's Emit panics when its arguments cannot be encoded: a verdict about this cell, not the end of the matrix)
	emitPanic := ""
	func() {
		defer func() {
			if r := recover(); r != nil {
				emitPanic = fmt.Sprint(r)
			}
		}()
		emit(ev, args...)
	}()
	emit("bar")
	where := fmt.Sprintf("%s, %s, recovery=%v, shape %s, size %d (payload %d bytes), %d client(s)", c.Transport, c.Dir, c.Recovery, sh.name, c.Size, n, c.Clients)
	key := func(what string) string {
		sz := "small"
		switch {
		case c.Size > 65536:
			sz = "> 64 KiB"
		case c.Size > 32768:
			sz = "> 32 KiB"
		}
		rec := ""
		if c.Recovery {
			rec = ", recovery on"
		}
		return fmt.Sprintf("matrix: %s (%s, %s, %s%s)", what, c.Transport, c.Dir, sz, rec)
	}
	if emitPanic != "" {
		if len(emitPanic) > 160 {
			emitPanic = emitPanic[:160]
		}
		violate(key("Emit panics on arguments the API accepts"), where+": "+emitPanic, c)
		return
	}
	if seenKeys[key("connection died instead of delivering an event within the announced limit")] {
		return // this class of cells already has its verdict; do not kill one connection after the other
	}
	if deadlineClasses[key("deadline")] {
		// a cell of this class (transport, direction, size class, recovery) already waited the full deadline in
		// vain: on a tree that silently drops such events every further cell would wait another minute
		res.Caps = append(res.Caps, "not run (an earlier cell of its class hit the deadline): "+where)
		return
	}
	for i, t := range targets {
		isDown := func() bool {
			p.mu.Lock()
			defer p.mu.Unlock()
			return p.downs > 0
		}
		okBar := t.wait(curDeadline(), func() bool { return t.bars > barsBefore[i] || len(t.got[ev]) > before[i] || isDown() })
		downs := 0
		if isDown() {
			downs = 1
			// the connection is gone; whatever was in flight has arrived by now or never will
			t.wait(2*time.Second, func() bool { return t.bars > barsBefore[i] })
			t.mu.Lock()
			okBar = t.bars > barsBefore[i]
			t.mu.Unlock()
		}
		if !okBar {
			if downs > 0 {
				p.dead = true
				violate(key("connection died instead of delivering an event within the announced limit"), where, c)
				return
			}
			res.Caps = append(res.Caps, "deadline waiting for delivery: "+where)
			deadlineHits++
			deadlineClasses[key("deadline")] = true
			p.dead = true
			return
		}
		// the barrier (or the event itself) is there; per-packet dispatch may run the barrier's
		// handler first, so allow the event's own handler a grace period
		if !t.wait(grace, func() bool { return len(t.got[ev]) > before[i] }) {
			violate(key("event lost"), where+fmt.Sprintf(": barrier event arrived, the event itself not within %v", grace), c)
			continue
		}
		t.wait(grace, func() bool { return t.bars > barsBefore[i] })
		t.mu.Lock()
		got := t.got[ev][before[i]:]
		t.mu.Unlock()
		if len(got) != 1 {
			violate(key("event duplicated"), where+fmt.Sprintf(": delivered %d times", len(got)), c)
		} else if got[0] != want {
			violate(key("event arguments altered"), where+fmt.Sprintf(": digest %s, emitted %s", got[0], want), c)
		}
	}
}

func main() {
	tier := flag.String("tier", "quick", "")
	flag.Parse()
	t0 := time.Now()
	sizes := []int{0, 1, 125, 126, 32767, 32768, 32769, 65535, 65536, 65537, 1000000 - 64, 1000000}
	if *tier == "quick" {
		sizes = []int{0, 126, 32768, 32769, 65536, 65537, 1000000}
	}
	transports := []string{"polling", "websocket", "upgrade"}
	cells := 0
	for _, tr := range transports {
		for _, rec := range []bool{false, true} {
			for _, ncli := range []int{1, 3} {
				dirs := []string{"client->server", "server->client"}
				shs := shapes
				if ncli == 3 {
					dirs = []string{"broadcast"}
					if *tier == "quick" {
						shs = shapes[:4]
					}
				}
				fmt.Fprintf(os.Stderr, "[%.1fs] %s recovery=%v clients=%d\n", time.Since(t0).Seconds(), tr, rec, ncli)
				p, err := newPair(tr, rec, ncli)
				if err != nil {
					res.Caps = append(res.Caps, fmt.Sprintf("set-up failed (%s recovery=%v clients=%d): %v", tr, rec, ncli, err))
					p.close()
					continue
				}
				for _, dir := range dirs {
					for _, sh := range shs {
						for _, sz := range sizes {
							if (sh.name == "no-arguments" || sh.name == "number") && sz != sizes[0] {
								continue
							}
							if p.dead {
								go p.close()
								p, err = newPair(tr, rec, ncli)
								if err != nil {
									res.Caps = append(res.Caps, fmt.Sprintf("re-connect failed: %v", err))
									break
								}
							}
							c := cell{tr, rec, dir, sh.name, sz, ncli}
							runCell(p, c, sh)
							cells++
							if cells%97 == 1 {
								res.Samples = append(res.Samples, c)
							}
						}
					}
				}
				p.close()
			}
		}
	}
	res.Extra["cells"] = cells
	res.Extra["wall_s"] = time.Since(t0).Seconds()
	res.Extra["sizes"] = sizes
	if len(res.Samples) > 4 {
		res.Samples = res.Samples[:4]
	}
	var buf bytes.Buffer
	json.NewEncoder(&buf).Encode(res)
	fmt.Fprintf(os.Stdout, "\nRESULT %s", buf.String())
}
