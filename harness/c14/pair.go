package main

import (
	"fmt"
	"net/http"
	"strings"
	"time"

	eio "github.com/karagenc/socket.io-go/engine.io"
	"github.com/karagenc/socket.io-go/engine.io/parser"
	"github.com/karagenc/socket.io-go/internal/vrig"
	"github.com/karagenc/socket.io-go/internal/vsched"
)

// itCfg is one heartbeat configuration (pingInterval, pingTimeout).
type itCfg struct{ I, T time.Duration }

func (c itCfg) String() string { return fmt.Sprintf("I=%v,T=%v", c.I, c.T) }

func configs(tier string) []itCfg {
	s := time.Second
	if tier == "thorough" {
		var all []itCfg
		for _, i := range []time.Duration{1, 2, 3} {
			for _, t := range []time.Duration{1, 2, 3} {
				all = append(all, itCfg{i * s, t * s})
			}
		}
		return all
	}
	return []itCfg{{1 * s, 1 * s}, {2 * s, 3 * s}, {3 * s, 1 * s}}
}

// closeEv is one OnClose call as the application sees it.
type closeEv struct {
	At     time.Duration
	Reason string
}

func (c closeEv) String() string { return fmt.Sprintf("%s@%v", c.Reason, c.At) }

// pair is a real eio.Server and a real eio client socket (eio.Dial) joined by rig R3's in-process
// polling link. Everything the oracle uses is observed through the public callbacks of the two
// sockets, stamped with the virtual clock.
type pair struct {
	e    *vsched.Exec
	v    vsched.Var
	I, T time.Duration

	srv   *eio.Server
	link  *flink
	ssock eio.ServerSocket
	csock eio.ClientSocket

	srvClose, cliClose []closeEv
	srvPongAt          []time.Duration // pongs that reached the server socket
	cliPingAt          []time.Duration // pings that reached the client socket
	srvCloseMsgAt      []time.Duration // CLOSE packets from the client that reached the server
	srvMsgs, cliMsgs   []string        // application messages received
	srvErrs, cliErrs   []string

	flipped bool
	tbh     time.Duration // virtual time at which the link was black-holed
	// slowServerApp > 0: the server application takes this long to handle every message of the client (the POST that
	// carried it stays in flight meanwhile; the heartbeat's PONG travels in a POST of its own)
	slowServerApp time.Duration
}

// flink wraps rig R3's link so that a fault script runs BEFORE the rig looks at its knobs for
// request n (the rig's own OnRequest hook runs after it has read them), and adds an optional
// per-leg latency (live-peer scenarios only).
type flink struct {
	in     *vrig.Inproc
	p      *pair
	n      int
	lat    time.Duration
	before func(n int, r *http.Request)
}

func (l *flink) RoundTrip(r *http.Request) (*http.Response, error) {
	var n int
	l.p.v.Do(func() { l.n++; n = l.n })
	if l.lat > 0 {
		vsched.Sleep(l.lat)
	}
	if l.before != nil {
		l.before(n, r)
	}
	res, err := l.in.RoundTrip(r)
	if l.lat > 0 {
		vsched.Sleep(l.lat)
	}
	return res, err
}

const (
	dirBoth      = "both directions black-holed"
	dirResponses = "responses black-holed"
)

// flip turns the link into a black hole and records when.
func (p *pair) flip(dir string) {
	in := p.link.in
	in.V.Do(func() {
		if dir == dirBoth {
			in.BlackHole = true
		} else {
			in.BlackHoleResponses = true
		}
	})
	p.v.Do(func() {
		if !p.flipped {
			p.flipped = true
			p.tbh = p.e.Clock()
		}
	})
}

// newPair builds the pair; arm (may be nil) installs fault scripts on the link before the client dials.
func newPair(e *vsched.Exec, c itCfg, latency time.Duration, arm func(p *pair)) (*pair, error) {
	return newPairWith(e, c, latency, arm, nil)
}

// newPairWith is newPair with a say in the client's configuration: tweak (may be nil) edits the ClientConfig
// (transports, WebSocket dial options) before eio.Dial.
func newPairWith(e *vsched.Exec, c itCfg, latency time.Duration, arm func(p *pair), tweak func(p *pair, cfg *eio.ClientConfig)) (*pair, error) {
	p := &pair{e: e, I: c.I, T: c.T}
	p.srv = eio.NewServer(func(s eio.ServerSocket) *eio.Callbacks {
		p.v.Do(func() { p.ssock = s })
		return &eio.Callbacks{
			OnPacket: func(ps ...*parser.Packet) {
				if p.slowServerApp > 0 {
					for _, pk := range ps {
						if pk.Type == parser.PacketTypeMessage {
							vsched.Sleep(p.slowServerApp)
						}
					}
				}
				p.v.Do(func() {
					for _, pk := range ps {
						switch pk.Type {
						case parser.PacketTypePong:
							p.srvPongAt = append(p.srvPongAt, e.Clock())
						case parser.PacketTypeClose:
							p.srvCloseMsgAt = append(p.srvCloseMsgAt, e.Clock())
						case parser.PacketTypeMessage:
							p.srvMsgs = append(p.srvMsgs, string(pk.Data))
						}
					}
				})
			},
			OnError: func(err error) { p.v.Do(func() { p.srvErrs = append(p.srvErrs, err.Error()) }) },
			OnClose: func(r eio.Reason, err error) {
				p.v.Do(func() { p.srvClose = append(p.srvClose, closeEv{e.Clock(), string(r)}) })
			},
		}
	}, &eio.ServerConfig{PingInterval: c.I, PingTimeout: c.T})
	if err := p.srv.Run(); err != nil {
		return nil, err
	}
	p.link = &flink{in: &vrig.Inproc{H: p.srv}, p: p, lat: latency}
	if arm != nil {
		arm(p)
	}
	ccfg := &eio.ClientConfig{Transports: []string{"polling"}, HTTPTransport: p.link}
	if tweak != nil {
		tweak(p, ccfg)
	}
	cs, err := eio.Dial("http://inproc/engine.io/", &eio.Callbacks{
		OnPacket: func(ps ...*parser.Packet) {
			p.v.Do(func() {
				for _, pk := range ps {
					switch pk.Type {
					case parser.PacketTypePing:
						p.cliPingAt = append(p.cliPingAt, e.Clock())
					case parser.PacketTypeMessage:
						p.cliMsgs = append(p.cliMsgs, string(pk.Data))
					}
				}
			})
		},
		OnError: func(err error) { p.v.Do(func() { p.cliErrs = append(p.cliErrs, err.Error()) }) },
		OnClose: func(r eio.Reason, err error) {
			p.v.Do(func() { p.cliClose = append(p.cliClose, closeEv{e.Clock(), string(r)}) })
		},
	}, ccfg)
	if err != nil {
		return nil, fmt.Errorf("dial: %w", err)
	}
	p.csock = cs
	if p.ssock == nil {
		return nil, fmt.Errorf("handshake done but the server reported no socket")
	}
	if cs.PingInterval() != c.I || cs.PingTimeout() != c.T {
		return nil, fmt.Errorf("client learnt pingInterval=%v pingTimeout=%v from the handshake, configured %v", cs.PingInterval(), cs.PingTimeout(), c)
	}
	return p, nil
}

func msg(s string) *parser.Packet {
	p, err := parser.NewPacket(parser.PacketTypeMessage, false, []byte(s))
	if err != nil {
		panic(err)
	}
	return p
}

func last(ts []time.Duration) time.Duration {
	if len(ts) == 0 {
		return 0
	}
	return ts[len(ts)-1]
}

func closes(cs []closeEv) string {
	var s []string
	for _, c := range cs {
		s = append(s, c.String())
	}
	return "[" + strings.Join(s, " ") + "]"
}

// firstClose returns the earliest OnClose seen on either side.
func (p *pair) firstClose() (who string, ev closeEv, any bool) {
	ev.At = 1 << 62
	// at the same virtual instant the side that reports a ping timeout is the cause, the other side's
	// transport close its consequence
	better := func(c closeEv) bool {
		return c.At < ev.At || (c.At == ev.At && c.Reason == "ping timeout" && ev.Reason != "ping timeout")
	}
	for _, c := range p.srvClose {
		if better(c) {
			who, ev, any = "server", c, true
		}
	}
	for _, c := range p.cliClose {
		if better(c) {
			who, ev, any = "client", c, true
		}
	}
	return
}

// liveKillKey is the violation key for "a connection whose link works was closed".
func liveKillKey(what string, p *pair) string {
	who, ev, _ := p.firstClose()
	return fmt.Sprintf("%s (first: %s reports %s)", what, who, ev.Reason)
}

const (
	killIdle    = "live idle peer disconnected by the heartbeat"
	killTraffic = "live peer with application traffic disconnected by the heartbeat"
	killLatency = "live peer answering every ping within pingTimeout/4 disconnected by the heartbeat"
)
