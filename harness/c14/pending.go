package main

import (
	"errors"
	"fmt"
	"net/http"
	"time"

	_websocket "nhooyr.io/websocket"

	eio "github.com/karagenc/socket.io-go/engine.io"
	vx "github.com/karagenc/socket.io-go/internal/vexplore"
	"github.com/karagenc/socket.io-go/internal/vsched"
)

// ---------------------------------------------------------------- part 5: the peer goes silent while the client's OWN upgrade attempt is pending
//
// Parts 1-4 dial with Transports = [polling], so the upgrade machinery that eio.Dial itself starts
// (connect -> maybeUpgrade) has nothing to do, and part 4 drives an upgrade from the harness. Here the
// client is dialed with Transports = [polling, websocket], as an application would: right after the
// polling handshake the client's own maybeUpgrade opens a WebSocket connection (the real
// websocket.ClientTransport and its real nhooyr Dial, over an http.RoundTripper of the harness). That
// upgrade request is in flight - the WebSocket endpoint is slow to answer - when the polling link
// silently becomes a black hole:
//
//	death instant   at the very moment the upgrade request is put on the wire (j=0), or j*I/4 later for
//	                j=1..8 (before, at and after pings 1 and 2), or never (live peer: the second half of
//	                the property, with an upgrade request that is never answered / fails)
//	upgrade request "hangs": it is never answered (black-holed like everything else; Dial has no deadline)
//	                "fails": it fails locally I/2 after the link died (connect timeout of the operating
//	                system), the upgrade attempt is over and the client stays on polling
//	direction       both directions of the polling link die / only the responses
//
// Nothing is ever closed, and the upgrade request never reaches the server. Whatever the client is doing
// about its upgrade, both sides must report the dead peer with "ping timeout" within I+T of the death
// (same oracle as part 1), and a live peer must not be disconnected.

type pendCase struct {
	C    itCfg  `json:"-"`
	Cfg  string `json:"config"`
	Fate string `json:"upgrade_request"`       // "hangs" | "fails"
	Dir  string `json:"black_holed,omitempty"` // "both" | "responses"; "" with J < 0
	// J: the link dies J*I/4 after the upgrade request was sent (0: at that very moment); J < 0: never
	J int `json:"death_quarter_intervals_after_upgrade_request"`
}

const pendSituation = " while the client's own upgrade request is pending"

func (c pendCase) dir() string {
	if c.Dir == "responses" {
		return dirResponses
	}
	return dirBoth
}

func (c pendCase) where() string {
	switch {
	case c.J < 0:
		return "link-never-dies"
	case c.J == 0:
		return c.Dir + "@upgrade-request-sent"
	}
	return fmt.Sprintf("%s@t=%v", c.Dir, time.Duration(c.J)*c.C.I/4)
}

func (c pendCase) name() string {
	return fmt.Sprintf("dead-upgrade-pending/%v/upgrade-request-%s/%s", c.C, c.Fate, c.where())
}

// runLen: the latest death is at 2I, a "fails" request fails I/2 later; a correct implementation has closed both
// sides by 2I+(I+T). One more I+T (and an I) shows how late a late detection is.
func (c pendCase) runLen() time.Duration { return 2*c.C.I + 2*(c.C.I+c.C.T) + c.C.I }

// wsGate is the network as the client's WebSocket dial sees it: the upgrade request is put on the wire and
// is then never answered, or fails at the virtual instant failAt.
type wsGate struct {
	p      *pair
	onSend func()
	hangs  bool
	failAt time.Duration
	sentAt []time.Duration // (guarded by p.v)
	failed []time.Duration
}

var errConnectTimeout = errors.New("dial tcp: connect: connection timed out (harness: the WebSocket endpoint never answered)")

func (g *wsGate) RoundTrip(r *http.Request) (*http.Response, error) {
	g.p.v.Do(func() { g.sentAt = append(g.sentAt, g.p.e.Clock()) })
	if g.onSend != nil {
		g.onSend()
	}
	if g.hangs {
		vsched.RecvStmt(make(chan struct{})) // for ever
	}
	if d := g.failAt - g.p.e.Clock(); d > 0 {
		vsched.Sleep(d)
	}
	g.p.v.Do(func() { g.failed = append(g.failed, g.p.e.Clock()) })
	return nil, errConnectTimeout
}

func pendScenario(c pendCase, bound int) *vx.Scenario {
	c.Cfg = c.C.String()
	D := c.runLen()
	sc := &vx.Scenario{Name: c.name(), Bound: bound, Horizon: D + time.Second}
	sc.Body = func(e *vsched.Exec) func() vx.Result {
		vsched.SetExploring(false)
		gate := &wsGate{hangs: c.Fate == "hangs"}
		switch {
		case c.J < 0:
			gate.failAt = c.C.I / 2
		default:
			gate.failAt = time.Duration(c.J)*c.C.I/4 + c.C.I/2
		}
		p, err := newPairWith(e, c.C, 0, nil, func(p *pair, cfg *eio.ClientConfig) {
			gate.p = p
			if c.J == 0 {
				gate.onSend = func() {
					vsched.SetExploring(true)
					p.flip(c.dir())
				}
			}
			cfg.Transports = []string{"polling", "websocket"}
			cfg.WebSocketDialOptions = &_websocket.DialOptions{HTTPClient: &http.Client{Transport: gate}}
		})
		if err != nil {
			e.HarnessErr = "set-up failed: " + err.Error()
			return nil
		}
		switch {
		case c.J > 0:
			vsched.GoQuiet("black-hole-at-t", func() {
				at, lead := time.Duration(c.J)*c.C.I/4, c.C.I/8
				vsched.Sleep(at - lead - e.Clock())
				vsched.SetExploring(true) // ties at t (ping timer, flip) are explored in both orders
				vsched.Sleep(lead)
				p.flip(c.dir())
			})
		case c.J < 0:
			vsched.SetExploring(true)
		}
		vsched.Sleep(D - e.Clock())
		if len(gate.sentAt) != 1 {
			// the ingredient is missing (the server did not offer the upgrade, or the client did not try): not a verdict
			e.HarnessErr = fmt.Sprintf("%s: expected exactly one WebSocket upgrade request of the client, saw %d (server offers %v)", c.name(), len(gate.sentAt), p.csock.Upgrades())
			return nil
		}
		upg := fmt.Sprintf("the client's own upgrade request (polling -> websocket, started by Dial) went out at %v", gate.sentAt)
		if c.Fate == "hangs" {
			upg += " and was never answered"
		} else {
			upg += fmt.Sprintf(" and failed with a connect timeout at %v", gate.failed)
		}
		killed := func() vx.Result {
			var r vx.Result
			r.Outcome = fmt.Sprintf("link alive: srv=%s cli=%s pings=%d pongs=%d transport=%s", closes(p.srvClose), closes(p.cliClose), len(p.cliPingAt), len(p.srvPongAt), p.csock.TransportName())
			if len(p.srvClose)+len(p.cliClose) > 0 {
				r.Violate(liveKillKey(killIdle+pendSituation+" or has failed", p), "%s: the connection was closed while the link still worked: %s; observed for %v: server OnClose %s, client OnClose %s; %d pings reached the client (last at %v), %d pongs reached the server (last at %v); errors server=%v client=%v",
					c.name(), upg, D, closes(p.srvClose), closes(p.cliClose), len(p.cliPingAt), last(p.cliPingAt), len(p.srvPongAt), last(p.srvPongAt), p.srvErrs, p.cliErrs)
			}
			return r
		}
		if c.J < 0 {
			return killed
		}
		if !p.flipped {
			if _, _, closed := p.firstClose(); closed {
				return killed // died while the link was still healthy: the other half of the property
			}
			e.HarnessErr = c.name() + ": the fault was never injected although the connection stayed open"
			return nil
		}
		return func() vx.Result {
			return judgeDeadWith(c.C, c.dir(), c.where()+"; "+upg, pendSituation, D, p)
		}
	}
	return sc
}

// pendCases enumerates every death instant for one configuration.
func pendCases(c itCfg) []pendCase {
	var out []pendCase
	for _, fate := range []string{"hangs", "fails"} {
		out = append(out, pendCase{C: c, Fate: fate, J: -1})
		for _, dir := range []string{"both", "responses"} {
			for j := 0; j <= 8; j++ {
				out = append(out, pendCase{C: c, Fate: fate, Dir: dir, J: j})
			}
		}
	}
	return out
}

// exploredPendCases is the subset that is also explored with thread-choice deviations: the death at the moment
// the upgrade request leaves (a tie with the client's first poll), before the first ping and at the tie t = I.
func exploredPendCases(c itCfg) []pendCase {
	var out []pendCase
	for _, fate := range []string{"hangs", "fails"} {
		for _, j := range []int{0, 2, 4} {
			out = append(out, pendCase{C: c, Fate: fate, Dir: "both", J: j})
		}
	}
	out = append(out, pendCase{C: c, Fate: "hangs", Dir: "responses", J: 0})
	return out
}
