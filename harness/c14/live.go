package main

import (
	"fmt"
	"sort"
	"strings"
	"time"

	vx "github.com/karagenc/socket.io-go/internal/vexplore"
	"github.com/karagenc/socket.io-go/internal/vsched"
)

// ---------------------------------------------------------------- part 2: live peer
//
// Both ends are alive and the link works for 5*(I+T) of virtual time: idle, or with an application
// sender on one side that sends one message per heartbeat period at phase offset phi after the ping
// instants k*I (phi = 0: at the very instant of the ping, the order is then a scheduling choice and is
// explored). Thread-choice deviations are explored over the whole run; early-timer deviations stay off
// so that the clock is exact. A variant gives every request and every response a latency of T/8 (a peer
// that answers each ping within T/4): the heartbeat must tolerate that as well.

type liveCase struct {
	C       itCfg         `json:"-"`
	Cfg     string        `json:"config"`
	Sender  string        `json:"sender"` // "" (idle) | "client" | "server"
	Phi     time.Duration `json:"phi_ns"`
	PhiName string        `json:"phi"`
	Lat     time.Duration `json:"latency_per_leg_ns"`
	LatName string        `json:"latency_per_leg,omitempty"`
	// Window > 0: deviations are only explored during [From, From+Window) (used for the deeper bound)
	From, Window time.Duration
	// SlowApp: the server application needs I + T/2 for every client message: a POST of the session is in flight for
	// longer than a whole heartbeat period while pings are answered
	SlowApp bool
}

func (c liveCase) dur() time.Duration { return 5 * (c.C.I + c.C.T) }

func (c liveCase) name() string {
	s := "live/" + c.C.String() + "/"
	if c.Sender == "" {
		s += "idle"
	} else {
		s += c.Sender + "-sends/phi=" + c.PhiName
	}
	if c.Lat > 0 {
		s += "/latency=" + c.LatName
	}
	if c.Window > 0 {
		s += fmt.Sprintf("/window=%v+%v", c.From, c.Window)
	}
	if c.SlowApp {
		s += "/server-application-takes-I+T/2-per-message"
	}
	return s
}

func liveScenario(c liveCase, bound int) *vx.Scenario {
	c.Cfg = c.C.String()
	D := c.dur()
	sc := &vx.Scenario{Name: c.name(), Bound: bound, Horizon: D + time.Millisecond}
	sc.Body = func(e *vsched.Exec) func() vx.Result {
		vsched.SetExploring(false)
		p, err := newPair(e, c.C, c.Lat, nil)
		if err != nil {
			e.HarnessErr = "set-up failed: " + err.Error()
			return nil
		}
		if c.SlowApp {
			p.slowServerApp = c.C.I + c.C.T/2
		}
		var sent []string
		if c.Window == 0 {
			vsched.SetExploring(true)
		} else {
			vsched.GoQuiet("exploration-window", func() {
				vsched.Sleep(c.From)
				vsched.SetExploring(true)
				vsched.Sleep(c.Window)
				vsched.SetExploring(false)
			})
		}
		if c.Sender != "" {
			vsched.GoQuiet("app-sender-"+c.Sender, func() {
				for j := 0; ; j++ {
					at := c.Phi + time.Duration(j)*c.C.I
					if at == 0 {
						continue
					}
					if at > D-c.C.I/2-8*c.Lat {
						return // the last message must have time to arrive before the observation ends
					}
					if c.SlowApp && (j > 2 || at > D-2*(c.C.I+c.C.T)) {
						return // two slow messages are enough (each keeps a POST in flight for I + T/2)
					}
					if d := at - e.Clock(); d > 0 {
						vsched.Sleep(d)
					}
					m := fmt.Sprintf("m%d", j)
					p.v.Do(func() { sent = append(sent, m) })
					if c.Sender == "client" {
						p.csock.Send(msg(m))
					} else {
						p.ssock.Send(msg(m))
					}
				}
			})
		}
		vsched.Sleep(D - e.Clock())
		return func() vx.Result {
			var r vx.Result
			got := p.srvMsgs
			if c.Sender == "server" {
				got = p.cliMsgs
			}
			r.Outcome = fmt.Sprintf("srv=%s cli=%s pings=%d pongs=%d delivered=%d/%d", closes(p.srvClose), closes(p.cliClose), len(p.cliPingAt), len(p.srvPongAt), len(got), len(sent))
			ctx := fmt.Sprintf("%s, observed for %v of virtual time: server OnClose %s, client OnClose %s; %d pings reached the client (last at %v), %d pongs reached the server (last at %v); errors server=%v client=%v",
				c.name(), D, closes(p.srvClose), closes(p.cliClose), len(p.cliPingAt), last(p.cliPingAt), len(p.srvPongAt), last(p.srvPongAt), p.srvErrs, p.cliErrs)
			if len(p.srvClose)+len(p.cliClose) > 0 {
				what := killIdle
				if c.Sender != "" {
					what = killTraffic
				}
				if c.Lat > 0 {
					what = killLatency
				}
				r.Violate(liveKillKey(what, p), "%s", ctx)
			}
			a, b := append([]string{}, sent...), append([]string{}, got...)
			sort.Strings(a)
			sort.Strings(b)
			if strings.Join(a, ",") != strings.Join(b, ",") {
				r.Violate("live peer: application message lost or duplicated ("+c.Sender+" sends)", "sent %v, the other side received %v. %s", sent, got, ctx)
			}
			return r
		}
	}
	return sc
}

func phis(I time.Duration) []liveCase {
	return []liveCase{{Phi: 0, PhiName: "0"}, {Phi: I / 4, PhiName: "I/4"}, {Phi: I / 2, PhiName: "I/2"}, {Phi: 3 * I / 4, PhiName: "3I/4"}}
}

func liveCases(c itCfg) []liveCase {
	out := []liveCase{{C: c}}
	for _, s := range []string{"client", "server"} {
		for _, ph := range phis(c.I) {
			ph.C, ph.Sender = c, s
			out = append(out, ph)
		}
	}
	// with latency: idle, and a sender on either side at the ping instant
	out = append(out, liveCase{C: c, Lat: c.T / 8, LatName: "T/8"})
	out = append(out, liveCase{C: c, Lat: c.T / 8, LatName: "T/8", Sender: "client", PhiName: "0"})
	out = append(out, liveCase{C: c, Lat: c.T / 8, LatName: "T/8", Sender: "server", PhiName: "0"})
	out = append(out, liveCase{C: c, Sender: "client", Phi: c.I / 2, PhiName: "I/2", SlowApp: true})
	return out
}

// liveScenarios: quick explores every case over the whole run at bound 1. Thorough explores every case
// over the whole run at bound 2, except the senders that fire at the very instant of each ping (a
// tie at every one of the 15-20 periods makes the pairs of deviations explode): those get the whole run
// at bound 1 plus bound 2 inside a window of three heartbeat periods that starts before the first ping.
func liveScenarios(c itCfg, tier string) []*vx.Scenario {
	var out []*vx.Scenario
	for _, lc := range liveCases(c) {
		if tier != "thorough" {
			out = append(out, liveScenario(lc, 1))
			continue
		}
		if lc.Sender != "" && lc.Phi == 0 && lc.Lat == 0 {
			out = append(out, liveScenario(lc, 1))
			lc.From, lc.Window = 3*c.I/8, 3*c.I
		}
		out = append(out, liveScenario(lc, 2))
	}
	return out
}

// slowLinkCases: observation only. Larger latencies whose round trip (2 legs) still stays below
// pingTimeout. The Go client sends the pong from inside its poll loop, so the next poll leaves one
// round trip later and a ping may wait in the server's queue for it.
func slowLinkCases(c itCfg) []liveCase {
	return []liveCase{
		{C: c, Lat: c.T / 4, LatName: "T/4"},
		{C: c, Lat: 3 * c.T / 8, LatName: "3T/8"},
		{C: c, Lat: c.T/2 - time.Millisecond, LatName: "T/2-1ms"},
	}
}
