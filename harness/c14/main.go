// C14: heartbeats detect a dead peer within pingInterval + pingTimeout and never kill a live one.
//
// Engine A (vsched: the real engine.io client and server under a controlled scheduler, VIRTUAL time,
// early-timer deviations off, so every measured latency is exact) plus fault enumeration:
//
//  1. dead.go   real client <-> real server over rig R3; the link silently becomes a black hole at every
//     request index / at every quarter-interval instant of a 3-period run, in both directions or for
//     the responses only; one execution per case at the default schedule (enumerated in Extra) and a
//     subset explored with thread-choice deviations.
//  2. live.go   the same pair with a working link, idle for 5*(I+T) and with an application sender on
//     either side at every phase offset, explored with thread-choice deviations.
//  3. narrow.go the real server socket against a hand-played client that withholds pong k.
//  4. upgrade.go the live pair upgrades to the duplex pipe of rig R4 with a ping due at every phase of the upgrade.
//  5. pending.go the client is dialed with Transports=[polling, websocket]: the upgrade attempt eio.Dial itself
//     starts is pending (never answered / failing later) when the link becomes a black hole, at every instant.
package main

import (
	"fmt"
	"os"
	"strings"
	"time"

	vx "github.com/karagenc/socket.io-go/internal/vexplore"
	"github.com/karagenc/socket.io-go/internal/vsched"
)

func hasArg(name string) bool {
	for _, a := range os.Args[1:] {
		if a == "-"+name || a == "--"+name || strings.HasPrefix(a, "-"+name+"=") || strings.HasPrefix(a, "--"+name+"=") {
			return true
		}
	}
	return false
}

// exploredConfigs: configurations whose dead-peer subset is explored with deviations.
func exploredConfigs(tier string) []itCfg {
	s := time.Second
	if tier == "thorough" {
		return []itCfg{{1 * s, 1 * s}, {1 * s, 3 * s}, {2 * s, 3 * s}, {3 * s, 1 * s}}
	}
	return []itCfg{{1 * s, 1 * s}, {2 * s, 3 * s}}
}

// enumConfigs: the enumerated parts cost about a second, so both tiers run all nine configurations.
func enumConfigs() []itCfg { return configs("thorough") }

func scenarios(tier string) []*vx.Scenario {
	bound := 2
	if tier == "thorough" {
		bound = 3
	}
	var s []*vx.Scenario
	for _, c := range configs(tier) {
		s = append(s, liveScenarios(c, tier)...)
	}
	for _, c := range exploredConfigs(tier) {
		for _, dc := range exploredDeadCases(c) {
			s = append(s, deadScenario(dc, bound+1)) // short executions: one more deviation is affordable
		}
	}
	// part 4: the heartbeat falls inside a transport upgrade (explored from the start of the upgrade on)
	for _, c := range exploredConfigs(tier) {
		for _, uc := range upgradeCases(c, tier) {
			s = append(s, upgradeScenario(uc, bound))
		}
	}
	// part 5: the peer goes silent while the upgrade attempt that eio.Dial itself started is pending
	for _, c := range exploredConfigs(tier) {
		for _, pc := range exploredPendCases(c) {
			s = append(s, pendScenario(pc, bound))
		}
	}
	if hasArg("replay") {
		// every scenario of either tier and every enumerated case is addressable by name, so that
		// `-replay <file>` can re-execute it alone
		seen := map[string]bool{}
		for _, sc := range s {
			seen[sc.Name] = true
		}
		var more []*vx.Scenario
		for _, c := range enumConfigs() {
			more = append(more, liveScenarios(c, "quick")...)
			more = append(more, liveScenarios(c, "thorough")...)
			for _, lc := range slowLinkCases(c) {
				more = append(more, liveScenario(lc, 0))
			}
			for _, dc := range deadCases(c, 12) {
				more = append(more, deadScenario(dc, 0))
			}
			for _, nc := range append(narrowCases(c), dupCases(c)...) {
				sc, _ := narrowScenario(nc)
				more = append(more, sc)
			}
			for _, uc := range upgradeCases(c, "thorough") {
				more = append(more, upgradeScenario(uc, 0))
			}
			for _, pc := range pendCases(c) {
				more = append(more, pendScenario(pc, 0))
			}
		}
		for _, sc := range more {
			if !seen[sc.Name] {
				seen[sc.Name] = true
				s = append(s, sc)
			}
		}
	}
	return s
}

// runCase executes one enumerated case once at the default schedule and files what it found.
func runCase(sc *vx.Scenario, tier string, detail any, r *vx.Report, observeOnly bool) (res vx.Result, ok bool) {
	var final func() vx.Result
	e := vsched.Run(vsched.Options{Horizon: sc.Horizon}, func(e *vsched.Exec) { final = sc.Body(e) })
	r.Evaluations++
	r.TracesValidated++
	r.Transitions += e.Steps
	if e.HarnessErr != "" {
		r.HarnessErrs = append(r.HarnessErrs, sc.Name+": "+e.HarnessErr)
		return res, false
	}
	if final == nil {
		r.HarnessErrs = append(r.HarnessErrs, sc.Name+": scenario body did not run to its end")
		return res, false
	}
	res = final()
	if os.Getenv("VERIF_C14_DEBUG") != "" {
		fmt.Fprintf(os.Stderr, "%-60s steps=%-5d %s\n", sc.Name, e.Steps, res.Outcome)
	}
	if len(e.Panics) > 0 {
		res.Violate("panic on a modelled thread while heartbeating over a faulty link", "%v", e.Panics)
	}
	if e.Deadlock != "" {
		res.Violate("deadlock while heartbeating over a faulty link", "%s", e.Deadlock)
	}
	if observeOnly {
		return res, true // whatever happens with a misbehaving peer is written to the evidence, never judged
	}
	for _, v := range res.Violations {
		r.Violate(v.Key, "["+sc.Name+"] "+v.Msg, map[string]any{"scenario": sc.Name, "picks": []int{}, "tier": tier, "case": detail, "schedule": "default schedule (no deviation), one execution"})
	}
	return res, true
}

func enumerated(tier string, r *vx.Report) {
	outcomes := map[string]bool{}
	var samples []any
	// ---- part 1: dead peer, every fault position
	nDead, perCfg := 0, map[string]any{}
	for _, c := range enumConfigs() {
		nreq, killed, err := requestsIn3Periods(c)
		r.Evaluations++
		r.TracesValidated++
		if killed[0] != "" {
			// a healthy connection did not survive 3.5 periods: a verdict, not a rig problem
			r.Violate(killed[0], "[dead/"+c.String()+"/fault-free-probe] "+killed[1], map[string]any{"scenario": liveCase{C: c}.name(), "picks": []int{}, "tier": "thorough"})
		} else if err != nil || nreq < 4 {
			r.HarnessErrs = append(r.HarnessErrs, fmt.Sprintf("dead/%v: fault-free probe run: %d requests, %v", c, nreq, err))
			continue
		}
		if nreq < 8 {
			nreq = 8 // (only after a kill) positions that are never reached are judged as such
		}
		cases := deadCases(c, nreq)
		detected := 0
		for _, dc := range cases {
			sc := deadScenario(dc, 0)
			dc.Cfg = c.String()
			res, ok := runCase(sc, tier, dc, r, false)
			if !ok {
				continue
			}
			nDead++
			outcomes[sc.Name+"|"+res.Outcome] = true
			if len(res.Violations) == 0 {
				detected++
			}
			if dc.Flavour == "responses@req" && dc.N == 4 && len(samples) < 1 || dc.Flavour == "both@t" && dc.Traffic == "client" && len(samples) < 2 {
				samples = append(samples, map[string]any{"part": "dead-peer (one execution, default schedule)", "case": sc.Name, "observed": res.Outcome})
			}
		}
		perCfg[c.String()] = map[string]any{"requests_in_3_periods": nreq, "fault_positions": len(cases), "detected_in_bound_on_both_sides": detected}
	}
	r.Extra["dead_peer_fault_positions"] = nDead
	r.Extra["dead_peer_per_config"] = perCfg

	// ---- part 3: narrow companion
	nNarrow := 0
	for _, c := range enumConfigs() {
		for _, nc := range narrowCases(c) {
			sc, _ := narrowScenario(nc)
			nc.Cfg = c.String()
			res, ok := runCase(sc, tier, nc, r, false)
			if !ok {
				continue
			}
			nNarrow++
			outcomes[sc.Name+"|"+res.Outcome] = true
			if nc.K == 2 && nc.DName == "T-1ms" && nc.After == "keeps-talking" && len(samples) < 3 {
				samples = append(samples, map[string]any{"part": "narrow (one execution, default schedule)", "case": sc.Name, "observed": res.Outcome})
			}
		}
	}
	r.Extra["narrow_withheld_pong_cases"] = nNarrow

	// ---- part 4: heartbeat inside an upgrade, every alignment, all nine configurations, default schedule
	nUp := 0
	for _, c := range enumConfigs() {
		for _, uc := range upgradeCases(c, "thorough") {
			sc := upgradeScenario(uc, 0)
			uc.Cfg = c.String()
			res, ok := runCase(sc, tier, uc, r, false)
			if !ok {
				continue
			}
			nUp++
			outcomes[sc.Name+"|"+res.Outcome] = true
		}
	}
	r.Extra["heartbeat_inside_upgrade_alignments"] = nUp

	// ---- part 5: the link dies (or not) while the client's own upgrade request is pending, every death instant
	nPend, nPendOK := 0, 0
	for _, c := range enumConfigs() {
		for _, pc := range pendCases(c) {
			sc := pendScenario(pc, 0)
			pc.Cfg = c.String()
			res, ok := runCase(sc, tier, pc, r, false)
			if !ok {
				continue
			}
			nPend++
			outcomes[sc.Name+"|"+res.Outcome] = true
			if len(res.Violations) == 0 {
				nPendOK++
			}
			if pc.Fate == "hangs" && pc.Dir == "both" && pc.J == 0 && len(samples) < 4 {
				samples = append(samples, map[string]any{"part": "dead peer while the client's own upgrade request is pending (one execution, default schedule)", "case": sc.Name, "observed": res.Outcome})
			}
		}
	}
	r.Extra["upgrade_request_pending_cases"] = map[string]any{"cases": nPend, "as_required": nPendOK}

	// ---- duplicated pong: observation only
	var worst time.Duration
	worstCase, nDup, nLate := "", 0, 0
	dupObs := map[string]any{}
	anomalies := []string{}
	for _, c := range enumConfigs() {
		var w time.Duration
		for _, nc := range dupCases(c) {
			sc, obs := narrowScenario(nc)
			res, ok := runCase(sc, tier, nc, r, true)
			if !ok {
				continue
			}
			nDup++
			for _, v := range res.Violations {
				anomalies = append(anomalies, sc.Name+": "+v.Key)
			}
			if len(obs.closes) == 0 {
				dupObs[sc.Name] = "never detected within the run"
				nLate++
				continue
			}
			lat := obs.closes[0].At - obs.lastPong
			if lat > c.I+c.T {
				nLate++
			}
			if lat > w {
				w = lat
			}
			if x := lat - (c.I + c.T); x > worst {
				worst, worstCase = x, sc.Name
			}
		}
		dupObs[c.String()] = map[string]any{"worst_detection_latency_after_last_pong_s": w.Seconds(), "pingInterval_plus_pingTimeout_s": (c.I + c.T).Seconds()}
	}
	r.Extra["duplicated_pong_observation"] = map[string]any{
		"note":                         "observation, never a verdict: a peer that duplicates pongs leaves a stale token in the 1-slot pongChan, so its death is noticed one pingInterval late (2*I+T after its last pong); the property only ranges over well-behaved peers",
		"cases":                        nDup,
		"cases_later_than_I_plus_T":    nLate,
		"worst_excess_over_I_plus_T_s": worst.Seconds(),
		"worst_case":                   worstCase,
		"per_config":                   dupObs,
		"anomalies":                    anomalies,
	}

	// ---- slow link: observation only
	slow := map[string]any{}
	nSlow, nSlowKilled := 0, 0
	for _, c := range enumConfigs() {
		per := map[string]any{}
		for _, lc := range slowLinkCases(c) {
			sc := liveScenario(lc, 0)
			res, ok := runCase(sc, tier, lc, r, true)
			if !ok {
				continue
			}
			nSlow++
			if len(res.Violations) > 0 {
				nSlowKilled++
				per["latency_per_leg="+lc.LatName] = "disconnected: " + res.Outcome
			} else {
				per["latency_per_leg="+lc.LatName] = "survived"
			}
		}
		slow[c.String()] = per
	}
	r.Extra["slow_link_observation"] = map[string]any{
		"note":  "observation, never a verdict (the property does not range over network latency): idle live peer for 5*(I+T) over a link with the given latency per leg; the round trip stays below pingTimeout in every case. The Go client POSTs its pong from inside the poll loop, so its next poll leaves one round trip late; when 2*latency >= pingInterval the ping waits in the server's queue and the server's pong wait becomes 4*latency - pingInterval, which can exceed pingTimeout although the peer answers at once (only possible when pingInterval < pingTimeout)",
		"cases": nSlow, "disconnected": nSlowKilled, "per_config": slow,
	}

	if len(r.Samples) > 2 {
		r.Samples = r.Samples[:2] // keep room for written-out enumerated cases
	}
	for _, s := range samples {
		r.Sample(s)
	}
	r.Sample(map[string]any{"part": "duplicated pong (observation only)", "case": worstCase, "observed": fmt.Sprintf("death noticed %v later than pingInterval+pingTimeout after the last pong", worst)})
	r.DistinctNontriv += nDead + nNarrow + nDup + nSlow + nUp + nPend
	r.States += nDead + nNarrow + nDup + nSlow + nUp + nPend
	r.DistinctOutcomes += len(outcomes)
}

func main() {
	if !hasArg("procs") {
		os.Args = append(os.Args, "-procs=8") // other checks run on the same machine
	}
	vx.Main(vx.Config{
		Property: "C14",
		Level:    "model_checking",
		Rule: "real eio client <-> real eio server over the in-process polling link, virtual time (exact latencies, early-timer deviations off). " +
			"Dead peer: for every (pingInterval, pingTimeout) the link is black-holed before every request index of a 3-heartbeat run (both directions / responses only / after the request was served) and at every quarter-interval instant (both / responses only; also with an application sender on either side whose requests are in flight at the instant), one execution each at the default schedule, all nine configurations in both tiers, " +
			"plus a subset (first pong POST, the poll after it, the tie t=I, a parked long poll) explored with thread-choice deviations from the fault on. " +
			"Live peer: idle for 5*(I+T), a sender on either side at phase 0, I/4, I/2, 3I/4 of the ping schedule, and the same with a latency of T/8 per leg, explored with thread-choice deviations over the whole run (quick: bound 1; thorough: bound 2, except that a sender firing at the very instant of every ping gets bound 1 over the whole run plus bound 2 inside a window of three heartbeat periods; the dead-peer subset is explored to bound 3 / 4, the heartbeat-inside-an-upgrade alignments to bound 2 / 3). " +
			"Upgrade: the live pair upgrades to a duplex pipe (rig R4, the real upgrade state machines) with latency L=T/10 per leg on the pipe and 0 or L on the polling link, started so that ping 1 (and 2) comes due k*L/2 after the start of the upgrade for k=-2..9 (before, inside every phase of, on every boundary of and after the upgrade), one execution each for all nine configurations plus thread-choice deviations from the start of the upgrade on for the explored configurations. " +
			"Upgrade request pending: the client is dialed with Transports=[polling, websocket], so the upgrade attempt that eio.Dial itself starts (connect -> maybeUpgrade, the real websocket.ClientTransport dialing through a RoundTripper of the harness) is in flight - never answered, or failing with a connect timeout I/2 after the death - when the polling link is black-holed (both directions / responses only) at the moment the upgrade request leaves and j*I/4 later for j=1..8, or never (live peer); one execution each for all nine configurations plus thread-choice deviations from the death on for a subset (death at the request, at I/2, at the tie t=I) in the explored configurations; same dead-peer oracle as part 1. " +
			"Narrow: the server socket against a hand-played polling client that withholds pong k=1..3 after answering the earlier ones with delay 0, T/2, T-1ms. " +
			"distinct_nontrivial = deviating schedules + enumerated fault positions in which the fault was injected + narrow cases",
		Scenarios: scenarios,
		Budget: func(tier string) time.Duration {
			if tier == "thorough" {
				return 11 * time.Minute
			}
			return 75 * time.Second
		},
		Extra: enumerated,
		Assumptions: []string{
			"vsched semantics of Go primitives; virtual time advances only at quiescence, so 'scheduling slack' is zero and the bound checked is the exact pingInterval+pingTimeout after the instant the link died",
			"rig R3: an in-process RoundTripper stands in for TCP; a dead link = requests that hang forever (no RST, no client-side HTTP deadline), so the client has no transport-level signal and must report 'ping timeout'",
			"a client dialed with Transports=[polling, websocket] whose WebSocket upgrade request is held by the network: the request never reaches the server, hangs for ever or fails locally (connect timeout); a WebSocket that is established and then stalls is not modelled (nhooyr's byte transport is not under the scheduler)",
			"polling transport, and the duplex pipe of rig R4 (a reliable ordered message pipe with latency) as the transport upgraded to; the nhooyr WebSocket / QUIC byte transports themselves are not under the scheduler",
			"with only the responses black-holed the client's CLOSE packet may reach the server at the very instant the server's own pong timer fires; 'transport close' is then accepted on the server if and only if that packet demonstrably arrived first; the time bound applies regardless",
			"duplicated pongs (misbehaving peer) are observed, not judged",
		},
	})
}
