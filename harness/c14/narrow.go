package main

import (
	"fmt"
	"net/http"
	"net/http/httptest"
	"regexp"
	"strings"
	"time"

	eio "github.com/karagenc/socket.io-go/engine.io"
	"github.com/karagenc/socket.io-go/engine.io/parser"
	vx "github.com/karagenc/socket.io-go/internal/vexplore"
	"github.com/karagenc/socket.io-go/internal/vsched"
)

// ---------------------------------------------------------------- part 3: narrow companion
//
// The real eio server (serverSocket.pingPong, onPong, the polling server transport) against a client
// the harness plays by hand over ServeHTTP: it answers heartbeats 1..k-1 after a delay d (0, T/2, or
// T-1ms: slow but in time) and withholds the pong of heartbeat k, either going silent or carrying on
// polling and sending application messages (only a pong answers a ping). From the code: ping j leaves
// pingInterval after pong j-1 arrived, i.e. at j*I + (j-1)*d, and an unanswered ping k closes the socket
// exactly pingTimeout later: k*I + (k-1)*d + T, reason "ping timeout". Judged: not before
// (unanswered ping + T) - a peer may use all of T -, not after (last pong + I + T) - the property's
// bound -, and the reason.
//
// Observation only (never a verdict): a misbehaving peer that DUPLICATES its pongs leaves a stale token
// in the 1-slot pongChan which answers the next ping by itself; its death is then noticed one period
// late. The worst latency seen is written to the evidence.

type narrowCase struct {
	C     itCfg         `json:"-"`
	Cfg   string        `json:"config"`
	K     int           `json:"withheld_heartbeat"`
	D     time.Duration `json:"pong_delay_ns"`
	DName string        `json:"pong_delay"`
	After string        `json:"after"` // "silent" | "keeps-talking"
	Dup   string        `json:"duplicated_pong,omitempty"`
}

func (c narrowCase) name() string {
	s := fmt.Sprintf("narrow/%v/withhold-pong-%d/delay=%s/%s", c.C, c.K, c.DName, c.After)
	if c.Dup != "" {
		s += "/duplicated-pong:" + c.Dup
	}
	return s
}

type narrowObs struct {
	pings    []time.Duration
	lastPong time.Duration
	closes   []closeEv
	msgs     []string
	broke    string
}

var sidRe = regexp.MustCompile(`"sid":"([^"]+)"`)

// narrowScenario returns the scenario and a pointer to what its last execution observed.
func narrowScenario(c narrowCase) (*vx.Scenario, *narrowObs) {
	c.Cfg = c.C.String()
	I, T := c.C.I, c.C.T
	obs := &narrowObs{}
	end := time.Duration(c.K)*(I+c.D) + 3*(I+T)
	sc := &vx.Scenario{Name: c.name(), Bound: 0, Horizon: end + time.Second}
	sc.Body = func(e *vsched.Exec) func() vx.Result {
		*obs = narrowObs{}
		var v vsched.Var
		srv := eio.NewServer(func(s eio.ServerSocket) *eio.Callbacks {
			return &eio.Callbacks{
				OnPacket: func(ps ...*parser.Packet) {
					v.Do(func() {
						for _, pk := range ps {
							if pk.Type == parser.PacketTypeMessage {
								obs.msgs = append(obs.msgs, string(pk.Data))
							}
						}
					})
				},
				OnClose: func(r eio.Reason, err error) {
					v.Do(func() { obs.closes = append(obs.closes, closeEv{e.Clock(), string(r)}) })
				},
			}
		}, &eio.ServerConfig{PingInterval: I, PingTimeout: T})
		sid := ""
		do := func(method, body string) (int, string) {
			url := "http://x/engine.io/?EIO=4&transport=polling"
			if sid != "" {
				url += "&sid=" + sid
			}
			var req *http.Request
			if method == "POST" {
				req, _ = http.NewRequest(method, url, strings.NewReader(body))
				req.Header.Set("Content-Type", "text/plain; charset=UTF-8")
			} else {
				req, _ = http.NewRequest(method, url, nil)
			}
			rec := httptest.NewRecorder()
			srv.ServeHTTP(rec, req)
			return rec.Code, rec.Body.String()
		}
		code, body := do("GET", "")
		m := sidRe.FindStringSubmatch(body)
		if code != 200 || m == nil {
			e.HarnessErr = fmt.Sprintf("hand-made handshake answered %d %q", code, body)
			return nil
		}
		sid = m[1]
		for j := 1; j <= c.K; j++ {
			code, body := do("GET", "")
			if code != 200 || body != "2" {
				// not a ping: the server has given up on us early (judged below) or the rig is broken
				obs.broke = fmt.Sprintf("poll %d answered %d %q at %v", j, code, body, e.Clock())
				break
			}
			v.Do(func() { obs.pings = append(obs.pings, e.Clock()) })
			if j == c.K {
				break
			}
			if c.D > 0 {
				vsched.Sleep(c.D)
			}
			v.Do(func() { obs.lastPong = e.Clock() })
			switch c.Dup {
			case "":
				code, body = do("POST", "3")
			case "two-posts":
				do("POST", "3")
				code, body = do("POST", "3")
			case "one-post":
				code, body = do("POST", "3\x1e3")
			}
			if code != 200 || body != "ok" {
				obs.broke = fmt.Sprintf("pong %d answered %d %q at %v", j, code, body, e.Clock())
				break
			}
		}
		if obs.broke == "" && c.After == "keeps-talking" {
			vsched.GoQuiet("client-poll", func() { do("GET", "") })
			vsched.Sleep(T / 2)
			do("POST", "4still-here")
		}
		if d := end - e.Clock(); d > 0 {
			vsched.Sleep(d)
		}
		if obs.broke != "" && len(obs.closes) == 0 {
			e.HarnessErr = "hand-made client out of step although the server never closed: " + obs.broke
			return nil
		}
		return func() vx.Result {
			var r vx.Result
			r.Outcome = fmt.Sprintf("pings=%v close=%s", obs.pings, closes(obs.closes))
			if c.Dup != "" {
				return r // observation only
			}
			ctx := fmt.Sprintf("%s: pings reached the client at %v, last pong sent at %v, server OnClose %s, messages received %v; %s", c.name(), obs.pings, obs.lastPong, closes(obs.closes), obs.msgs, obs.broke)
			if len(obs.closes) == 0 {
				r.Violate("server pingPong: withheld pong never detected", "%s", ctx)
				return r
			}
			first := obs.closes[0]
			if len(obs.pings) < c.K || first.At < obs.pings[c.K-1]+T {
				r.Violate("server pingPong: socket closed before pingTimeout had passed since the unanswered ping", "OnClose(%s) at %v; from the code the close is due at k*I+(k-1)*d+T = %v. %s", first.Reason, first.At, time.Duration(c.K)*I+time.Duration(c.K-1)*c.D+T, ctx)
			}
			if first.At > obs.lastPong+I+T {
				r.Violate("server pingPong: withheld pong not detected within pingInterval+pingTimeout of the last pong", "OnClose(%s) at %v, bound %v. %s", first.Reason, first.At, obs.lastPong+I+T, ctx)
			}
			if first.Reason != "ping timeout" {
				r.Violate("server pingPong: withheld pong reported with a reason other than ping timeout", "OnClose(%s). %s", first.Reason, ctx)
			}
			return r
		}
	}
	return sc, obs
}

func narrowCases(c itCfg) []narrowCase {
	var out []narrowCase
	delays := []narrowCase{{D: 0, DName: "0"}, {D: c.T / 2, DName: "T/2"}, {D: c.T - time.Millisecond, DName: "T-1ms"}}
	for k := 1; k <= 3; k++ {
		for _, d := range delays {
			if k == 1 && d.D != 0 {
				continue // no pong is ever sent: the delay plays no part
			}
			for _, after := range []string{"silent", "keeps-talking"} {
				d.C, d.K, d.After = c, k, after
				out = append(out, d)
			}
		}
	}
	return out
}

func dupCases(c itCfg) []narrowCase {
	var out []narrowCase
	for k := 2; k <= 3; k++ {
		for _, dup := range []string{"two-posts", "one-post"} {
			for _, d := range []narrowCase{{D: 0, DName: "0"}, {D: c.T / 2, DName: "T/2"}} {
				d.C, d.K, d.After, d.Dup = c, k, "silent", dup
				out = append(out, d)
			}
		}
	}
	return out
}
