package main

import (
	"fmt"
	"net/http"
	"time"

	vx "github.com/karagenc/socket.io-go/internal/vexplore"
	"github.com/karagenc/socket.io-go/internal/vsched"
)

// ---------------------------------------------------------------- part 1: dead peer
//
// A real client and a real server heartbeat over rig R3; at one point the link silently becomes a
// black hole and stays one. Flavours:
//
//	both@req      before request n is handed to the server the link dies in both directions: request n
//	              and everything after it never reach the server, nothing comes back
//	responses@req from request n on the server still receives and handles the client's requests, but no
//	              answer ever reaches the client (one direction only: server -> client is dead)
//	cut-mid-req   request n is the last thing the server hears; its answer and everything later are lost
//	both@t / responses@t
//	              the same two failures, but at a virtual instant t (a thread sleeps until t and flips
//	              the knob), which also hits long polls that are parked inside the server
//
// What each side can notice (from the code, polling transport, custom RoundTripper without deadlines):
// the client's requests simply hang, so the client has no transport-level signal at all and must
// report "ping timeout". The server's polling transport does not watch for absent polls, so with both
// directions dead it, too, can only report "ping timeout". With only the responses dead, the client's
// own give-up (at last ping + I + T) sends a CLOSE packet that still reaches the server; if that
// packet arrives before the server's own pong timer fires (both are due at the same virtual instant
// in most cases) the server legitimately reports "transport close": the peer DID close the transport.
// That is accepted only if a CLOSE packet demonstrably reached the server socket no later than its
// OnClose; the time bound applies regardless of the reason.

type deadCase struct {
	C       itCfg         `json:"-"`
	Cfg     string        `json:"config"`
	Flavour string        `json:"flavour"`
	N       int           `json:"request_index,omitempty"` // 1 = handshake
	At      time.Duration `json:"at_ns,omitempty"`
	// Traffic: "" or the side ("client" / "server") whose application sends a message every I/2, so that
	// the link dies with application requests in flight (instant flavours only)
	Traffic string `json:"traffic,omitempty"`
}

func (c deadCase) dir() string {
	switch c.Flavour {
	case "responses@req", "responses@t":
		return dirResponses
	}
	return dirBoth
}

func (c deadCase) where() string {
	if c.N > 0 {
		return fmt.Sprintf("n=%d", c.N)
	}
	return fmt.Sprintf("t=%v", c.At)
}

func (c deadCase) name() string {
	s := fmt.Sprintf("dead/%v/%s/%s", c.C, c.Flavour, c.where())
	if c.Traffic != "" {
		s += "/traffic=" + c.Traffic
	}
	return s
}

// runLen: the latest fault is at 3I; a correct implementation has closed both sides by 3I+(I+T). One
// more I+T (and an I for good measure) shows how late a late detection is.
func (c deadCase) runLen() time.Duration { return 3*c.C.I + 2*(c.C.I+c.C.T) + c.C.I }

func deadScenario(c deadCase, bound int) *vx.Scenario {
	c.Cfg = c.C.String()
	sc := &vx.Scenario{Name: c.name(), Bound: bound, Horizon: c.runLen() + time.Second}
	sc.Body = func(e *vsched.Exec) func() vx.Result {
		// the connection set-up and the heartbeats before the fault run on the default schedule; the
		// deviation budget is spent from the fault on
		vsched.SetExploring(false)
		p, err := newPair(e, c.C, 0, func(p *pair) {
			switch c.Flavour {
			case "both@req", "responses@req":
				p.link.before = func(n int, r *http.Request) {
					if n == c.N {
						vsched.SetExploring(true)
						p.flip(c.dir())
					}
				}
			case "cut-mid-req":
				// the rig has already decided to serve request n when it calls this hook, and looks at
				// its knobs again before it returns the answer
				p.link.in.OnRequest = func(n int, r *http.Request) bool {
					if n == c.N {
						vsched.SetExploring(true)
						p.flip(dirBoth)
					}
					return false
				}
			}
		})
		if err != nil {
			e.HarnessErr = "set-up failed: " + err.Error()
			return nil
		}
		if c.N == 0 {
			vsched.GoQuiet("black-hole-at-t", func() {
				lead := c.C.I / 8
				vsched.Sleep(c.At - lead)
				vsched.SetExploring(true) // ties at t (ping timer, flip) are explored in both orders
				vsched.Sleep(lead)
				p.flip(c.dir())
			})
		}
		if c.Traffic != "" {
			vsched.GoQuiet("app-sender-"+c.Traffic, func() {
				for j := 1; ; j++ {
					vsched.Sleep(c.C.I / 2)
					closed := false
					p.v.Do(func() { _, _, closed = p.firstClose() })
					if closed {
						return
					}
					if c.Traffic == "client" {
						p.csock.Send(msg(fmt.Sprintf("m%d", j))) // hangs for good once the link is dead
					} else {
						p.ssock.Send(msg(fmt.Sprintf("m%d", j)))
					}
				}
			})
		}
		vsched.Sleep(c.runLen())
		if !p.flipped {
			if _, _, closed := p.firstClose(); closed {
				// the connection died while the link was still healthy: the fault position was never
				// reached. That is the other half of the property, not a rig problem.
				return func() vx.Result {
					var r vx.Result
					r.Outcome = fmt.Sprintf("closed before the fault: srv=%s cli=%s", closes(p.srvClose), closes(p.cliClose))
					r.Violate(liveKillKey(killIdle, p), "%v: the connection was closed while the link still worked, before the fault (%s at %s) could be injected: server OnClose %s, client OnClose %s; %d pings reached the client (last at %v), %d pongs reached the server (last at %v)",
						c.C, c.Flavour, c.where(), closes(p.srvClose), closes(p.cliClose), len(p.cliPingAt), last(p.cliPingAt), len(p.srvPongAt), last(p.srvPongAt))
					return r
				}
			}
			e.HarnessErr = fmt.Sprintf("the fault was never injected (%d requests seen) although the connection stayed open", p.link.n)
			return nil
		}
		return func() vx.Result { return judgeDead(c, p) }
	}
	return sc
}

func judgeDead(c deadCase, p *pair) vx.Result {
	return judgeDeadWith(c.C, c.dir(), c.Flavour+" at "+c.where(), "", c.runLen(), p)
}

// judgeDeadWith is the dead-peer oracle: cfg the heartbeat configuration, dir which directions died, where a
// description of the fault position (message only), situation a suffix of every violation key that names the
// situation the connection was in when the link died ("" = an established polling connection).
func judgeDeadWith(cfg itCfg, dir, where, situation string, runLen time.Duration, p *pair) vx.Result {
	var r vx.Result
	I, T := cfg.I, cfg.T
	bound := p.tbh + I + T
	lastPong, lastPing := last(p.srvPongAt), last(p.cliPingAt)
	r.Outcome = fmt.Sprintf("t_bh=%v srv=%s cli=%s", p.tbh, closes(p.srvClose), closes(p.cliClose))
	ctx := fmt.Sprintf("%v, %s: link black-holed at t_bh=%v (%s); %d pongs reached the server (last at %v), %d pings reached the client (last at %v), CLOSE packets reached the server at %v; server OnClose %s, client OnClose %s; bound t_bh+I+T=%v; run observed until %v; errors server=%v client=%v",
		cfg, where, p.tbh, dir, len(p.srvPongAt), lastPong, len(p.cliPingAt), lastPing, p.srvCloseMsgAt, closes(p.srvClose), closes(p.cliClose), bound, runLen, p.srvErrs, p.cliErrs)
	key := func(side, what string) string { return side + ": " + what + " (" + dir + ")" + situation }

	side := func(name string, cl []closeEv, lastHB time.Duration, reasonOK func(closeEv) bool) {
		if len(cl) == 0 {
			r.Violate(key(name, "dead peer not detected within pingInterval+pingTimeout"), "no OnClose at all. %s", ctx)
			return
		}
		first := cl[0]
		if first.At > bound {
			r.Violate(key(name, "dead peer not detected within pingInterval+pingTimeout"), "OnClose(%s) at %v, %v after the bound. %s", first.Reason, first.At, first.At-bound, ctx)
		}
		if !reasonOK(first) {
			r.Violate(key(name, "dead peer reported with a reason other than ping timeout"), "OnClose(%s) at %v. %s", first.Reason, first.At, ctx)
		}
		if first.At < lastHB+T {
			r.Violate(key(name, "connection closed earlier than the last answered heartbeat + pingTimeout"), "OnClose(%s) at %v, last heartbeat seen by this side at %v. %s", first.Reason, first.At, lastHB, ctx)
		}
	}
	side("server", p.srvClose, lastPong, func(ev closeEv) bool {
		if ev.Reason == "ping timeout" {
			return true
		}
		if ev.Reason == "transport close" && dir == dirResponses {
			for _, t := range p.srvCloseMsgAt {
				if t <= ev.At {
					return true // the client gave up first and its CLOSE packet got through
				}
			}
		}
		return false
	})
	side("client", p.cliClose, lastPing, func(ev closeEv) bool { return ev.Reason == "ping timeout" })
	return r
}

// requestsIn3Periods runs the pair without any fault for three heartbeat periods and a half and
// returns how many requests the client issued (handshake, polls, pong POSTs). If the connection does
// not survive that, killed holds the violation (key, message): a healthy connection was closed.
func requestsIn3Periods(c itCfg) (n int, killed [2]string, err error) {
	e := vsched.Run(vsched.Options{Horizon: time.Minute}, func(e *vsched.Exec) {
		p, perr := newPair(e, c, 0, nil)
		if perr != nil {
			err = perr
			return
		}
		vsched.Sleep(3*c.I + c.I/2)
		n = p.link.n
		if _, _, closed := p.firstClose(); closed {
			killed = [2]string{liveKillKey(killIdle, p), fmt.Sprintf("%v: fault-free run of 3.5 heartbeat periods: server OnClose %s, client OnClose %s; %d pings reached the client (last at %v), %d pongs reached the server (last at %v)",
				c, closes(p.srvClose), closes(p.cliClose), len(p.cliPingAt), last(p.cliPingAt), len(p.srvPongAt), last(p.srvPongAt))}
		}
	})
	if err == nil && e.HarnessErr != "" {
		err = fmt.Errorf("%s", e.HarnessErr)
	}
	return
}

// deadCases enumerates every fault position for one configuration.
func deadCases(c itCfg, nreq int) []deadCase {
	var out []deadCase
	for _, fl := range []string{"both@req", "responses@req", "cut-mid-req"} {
		for n := 2; n <= nreq; n++ { // request 1 is the handshake: without it there is no connection
			out = append(out, deadCase{C: c, Flavour: fl, N: n})
		}
	}
	for _, fl := range []string{"both@t", "responses@t"} {
		for j := 1; j <= 12; j++ {
			out = append(out, deadCase{C: c, Flavour: fl, At: time.Duration(j) * c.I / 4})
		}
		// with application requests in flight at the instant the link dies (every send instant is a
		// fault instant)
		for _, tr := range []string{"client", "server"} {
			for j := 1; j <= 6; j++ {
				out = append(out, deadCase{C: c, Flavour: fl, At: time.Duration(j) * c.I / 2, Traffic: tr})
			}
		}
	}
	return out
}

// exploredDeadCases is the subset that is also explored with thread-choice deviations: the first
// pong POST (3) and the poll after it (4) in every request flavour, the tie t = I (flip vs ping
// timer) and a flip while a long poll is parked in the server (t = 5I/4).
func exploredDeadCases(c itCfg) []deadCase {
	var out []deadCase
	for _, fl := range []string{"both@req", "responses@req", "cut-mid-req"} {
		for _, n := range []int{3, 4} {
			out = append(out, deadCase{C: c, Flavour: fl, N: n})
		}
	}
	for _, fl := range []string{"both@t", "responses@t"} {
		for _, t := range []time.Duration{c.I, 5 * c.I / 4} {
			out = append(out, deadCase{C: c, Flavour: fl, At: t})
		}
	}
	return out
}
