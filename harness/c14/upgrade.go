package main

import (
	"fmt"
	"net/http"
	"net/http/httptest"
	"time"

	eio "github.com/karagenc/socket.io-go/engine.io"
	"github.com/karagenc/socket.io-go/engine.io/transport"
	vx "github.com/karagenc/socket.io-go/internal/vexplore"
	"github.com/karagenc/socket.io-go/internal/vrig"
	"github.com/karagenc/socket.io-go/internal/vsched"
)

// ---------------------------------------------------------------- part 4: a heartbeat that falls inside an upgrade
//
// The live pair of part 2, but at one point the client upgrades to the duplex pipe of rig R4 (the real
// tryUpgradeTo / maybeUpgrade / upgradeTo / finishUpgradeTo state machines). Both the polling link and
// the pipe have a latency L per leg, so the upgrade takes about 3L of virtual time and has phases
// (probe in flight, pong in flight, poll flushed by the NOOP, UPGRADE in flight, packets carried over).
// The upgrade is started so that the server's ping comes due k*L/2 after it, for every k from -2 to 9:
// the ping lands before, inside every phase of, exactly on every boundary of, and after the upgrade.
// A live peer must never be disconnected; the ping must reach the client and its pong the server.

type upCase struct {
	C       itCfg         `json:"-"`
	Cfg     string        `json:"config"`
	Lat     time.Duration `json:"latency_per_leg_ns"`
	PollLat time.Duration `json:"polling_latency_per_leg_ns"`
	K       int           `json:"ping_due_k_half_latencies_after_upgrade_start"`
	Ping    int           `json:"ping_number"` // which ping (1 = first) the upgrade is aligned to
}

func (c upCase) name() string {
	return fmt.Sprintf("upgrade/%v/L=%v,pollL=%v/ping%d-due-%d*L/2-after-start", c.C, c.Lat, c.PollLat, c.Ping, c.K)
}

func (c upCase) dur() time.Duration { return time.Duration(c.Ping+2)*(c.C.I+c.C.T) + c.C.I }

func upgradeScenario(c upCase, bound int) *vx.Scenario {
	c.Cfg = c.C.String()
	D := c.dur()
	sc := &vx.Scenario{Name: c.name(), Bound: bound, Horizon: D + time.Millisecond}
	sc.Body = func(e *vsched.Exec) func() vx.Result {
		vsched.SetExploring(false)
		p, err := newPair(e, c.C, c.PollLat, nil)
		if err != nil {
			e.HarnessErr = "set-up failed: " + err.Error()
			return nil
		}
		// ping n leaves the server at about n*I (+ the round trips of the earlier ones); the first is exact
		start := time.Duration(c.Ping)*c.C.I - time.Duration(c.K)*c.Lat/2
		if c.Ping > 1 {
			start += time.Duration(c.Ping-1) * 4 * c.PollLat
		}
		tryOK, over := false, false
		var overAt time.Duration
		vsched.GoQuiet("client-upgrader", func() {
			if d := start - e.Clock(); d > 0 {
				vsched.Sleep(d)
			}
			vsched.SetExploring(true)
			ccb, scb := transport.NewCallbacks(), transport.NewCallbacks()
			d := vrig.NewDuplex(ccb, scb)
			d.Latency = c.Lat
			d.OnClientHandshake = func() {
				vsched.GoQuiet("server-maybeUpgrade", func() {
					req, _ := http.NewRequest("GET", "http://inproc/engine.io/?EIO=4&transport=webtransport", nil)
					p.srv.VerifMaybeUpgrade(httptest.NewRecorder(), req, p.ssock, d.Server(), scb)
				})
			}
			ok := eio.VerifTryUpgradeTo(p.csock, d.C, ccb)
			p.v.Do(func() { tryOK, over, overAt = ok, true, e.Clock() })
		})
		vsched.Sleep(D - e.Clock())
		return func() vx.Result {
			var r vx.Result
			sname := eio.VerifServerTransportName(p.ssock)
			r.Outcome = fmt.Sprintf("srv=%s cli=%s pings=%d pongs=%d upgraded=%v/%s", closes(p.srvClose), closes(p.cliClose), len(p.cliPingAt), len(p.srvPongAt), tryOK, sname)
			ctx := fmt.Sprintf("%s: upgrade started at %v, over=%v at %v ok=%v, server transport %s, client transport %s; observed for %v: server OnClose %s, client OnClose %s; pings reached the client at %v, pongs reached the server at %v; errors server=%v client=%v",
				c.name(), start, over, overAt, tryOK, sname, p.csock.TransportName(), D, closes(p.srvClose), closes(p.cliClose), p.cliPingAt, p.srvPongAt, p.srvErrs, p.cliErrs)
			if len(p.srvClose)+len(p.cliClose) > 0 {
				r.Violate(liveKillKey("while a heartbeat falls inside a transport upgrade", p), "%s", ctx)
				return r
			}
			if !over || !tryOK || sname != "webtransport" {
				r.Violate("live peer: fault-free upgrade during a heartbeat did not complete", "%s", ctx)
			}
			// every ping the server sent long enough ago has reached the client, and its pong the server
			if len(p.cliPingAt) < c.Ping+1 || len(p.srvPongAt) < c.Ping+1 {
				r.Violate("live peer: a heartbeat around a transport upgrade never arrived", "%s", ctx)
			}
			return r
		}
	}
	return sc
}

func upgradeCases(c itCfg, tier string) []upCase {
	L := c.T / 10
	var out []upCase
	pings := []int{1}
	if tier == "thorough" {
		pings = []int{1, 2}
	}
	for _, pl := range []time.Duration{0, L} {
		for _, ping := range pings {
			for k := -2; k <= 9; k++ {
				out = append(out, upCase{C: c, Lat: L, PollLat: pl, K: k, Ping: ping})
			}
		}
	}
	return out
}
