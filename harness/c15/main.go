// C15: clients reconnect with bounded back-off and deliver what was emitted offline.
//
//  1. back-off calculator: full grid (min, max, jitter, attempt incl. overflowing ones, random draw);
//  2. reconnect machine: real sio.Manager <-> sio.Server over the in-process polling link in virtual
//     time; outage of j dial attempts x attempt limit N x {refused at once, dial times out};
//  3. offline traffic: every order of a 4-emit mix {plain, volatile, ack, ack+timeout} emitted while
//     disconnected, plus placements before/during/after the outage; explored to a deviation bound.
package main

import (
	"fmt"
	"math"
	"net/http"
	"sort"
	"strings"
	"time"

	sio "github.com/karagenc/socket.io-go"
	vx "github.com/karagenc/socket.io-go/internal/vexplore"
	"github.com/karagenc/socket.io-go/internal/vrig"
	"github.com/karagenc/socket.io-go/internal/vsched"
)

// ---------------------------------------------------------------- 1. back-off grid

func backoffGrid(tier string, r *vx.Report) {
	mins := []time.Duration{time.Millisecond, 100 * time.Millisecond, time.Second, 1500 * time.Millisecond, time.Hour}
	maxs := []time.Duration{time.Millisecond, 5 * time.Second, time.Hour, 100 * time.Hour}
	jitters := []float32{0, 0.5, 1, -1, 2, 0.25}
	var attempts []uint32
	for a := uint32(0); a <= 70; a++ {
		attempts = append(attempts, a)
	}
	attempts = append(attempts, 100, 1023, 1024, math.MaxUint32-1, math.MaxUint32)
	var draws []float64
	for i := 0; i < 20; i++ {
		draws = append(draws, float64(i)*0.05)
	}
	draws = append(draws, math.Nextafter(1, 0))
	n, nontriv := 0, 0
	defer func() { vsched.EnvFloat64Script = nil }()
	for _, mn := range mins {
		for _, mx := range maxs {
			for _, j := range jitters {
				for _, a := range attempts {
					for _, d := range draws {
						draw := d
						vsched.EnvFloat64Script = func() float64 { return draw }
						var got time.Duration
						panicked := any(nil)
						func() {
							defer func() { panicked = recover() }()
							b := sio.VerifNewBackoff(mn, mx, j)
							b.SetAttempts(a)
							got = b.Duration()
						}()
						n++
						if a > 0 && j > 0 && j <= 1 {
							nontriv++
						}
						what := fmt.Sprintf("min=%v max=%v jitter=%v attempt=%d draw=%.2f", mn, mx, j, a, d)
						rep := map[string]any{"part": "backoff", "min": mn.String(), "max": mx.String(), "jitter": j, "attempt": a, "draw": d}
						if panicked != nil {
							r.Violate("back-off: panic", fmt.Sprintf("%s: %v", what, panicked), rep)
							continue
						}
						if got <= 0 || got > mx {
							r.Violate("back-off: delay outside (0, ReconnectionDelayMax]", fmt.Sprintf("%s: delay %v", what, got), rep)
						}
						if a == 0 {
							jj := float64(j)
							if j <= 0 || j > 1 {
								jj = 0
							}
							lo := time.Duration(float64(mn) * (1 - jj))
							hi := time.Duration(float64(mn)*(1+jj)) + 1
							if lo > mx {
								lo = mx
							}
							if hi > mx {
								hi = mx
							}
							if lo <= 0 {
								lo = 1 // a delay of exactly 0 is replaced by max by the implementation: (0, ...]
							}
							if (got < lo || got > hi) && !(float64(mn)*(1-jj) <= 0 && got == mx) {
								r.Violate("back-off: first delay does not start from ReconnectionDelay", fmt.Sprintf("%s: delay %v, expected within [%v, %v]", what, got, lo, hi), rep)
							}
						}
					}
				}
			}
		}
	}
	r.Evaluations += n
	r.DistinctNontriv += nontriv
	r.Extra["backoff_grid_points"] = n
	r.Sample(map[string]any{"part": "backoff", "min": "1s", "max": "5s", "jitter": 0.5, "attempt": 63, "draw": 0.95})
}

// backoffViaManager: the same two clauses judged on the back-off object that NewManager builds from a
// ManagerConfig (unset fields take the documented defaults 1 s / 5 s / 0.5), including configurations whose
// delay exceeds their maximum: the maximum is what the user asked never to exceed.
func backoffViaManager(r *vx.Report) {
	d := func(x time.Duration) *time.Duration { return &x }
	type cfgT struct {
		delay, max *time.Duration
		name       string
	}
	cfgs := []cfgT{
		{nil, nil, "defaults"},
		{d(100 * time.Millisecond), d(100 * time.Millisecond), "delay=max"},
		{d(3 * time.Second), d(20 * time.Millisecond), "delay 3s above max 20ms"},
		{nil, d(200 * time.Millisecond), "only max set, below the default delay"},
		{d(30 * time.Second), nil, "only delay set, above the default max"},
		{d(time.Millisecond), d(time.Hour), "wide"},
	}
	jits := []*float32{nil}
	for _, j := range []float32{0, 0.5, 1} {
		j := j
		jits = append(jits, &j)
	}
	n := 0
	defer func() { vsched.EnvFloat64Script = nil }()
	for _, c := range cfgs {
		for _, j := range jits {
			effDelay, effMax, effJ := time.Second, 5*time.Second, 0.5
			if c.delay != nil {
				effDelay = *c.delay
			}
			if c.max != nil {
				effMax = *c.max
			}
			if j != nil {
				effJ = float64(*j)
			}
			for _, a := range []uint32{0, 1, 2, 5, 10, 40, 70, 1024} {
				for _, draw := range []float64{0, 0.3, 0.5, 0.7, math.Nextafter(1, 0)} {
					draw := draw
					vsched.EnvFloat64Script = func() float64 { return draw }
					mgr := sio.NewManager("http://inproc/socket.io/", &sio.ManagerConfig{ReconnectionDelay: c.delay, ReconnectionDelayMax: c.max, RandomizationFactor: j})
					b := mgr.VerifBackoff()
					b.SetAttempts(a)
					got := b.Duration()
					n++
					what := fmt.Sprintf("ManagerConfig %s (effective delay %v, max %v, jitter %v), attempt %d, draw %.2f", c.name, effDelay, effMax, effJ, a, draw)
					rep := map[string]any{"part": "backoff-via-manager", "config": c.name, "attempt": a, "draw": draw}
					if got <= 0 || got > effMax {
						r.Violate("back-off built by NewManager: delay outside (0, ReconnectionDelayMax]", fmt.Sprintf("%s: delay %v", what, got), rep)
					}
					if a == 0 && effDelay <= effMax {
						lo := time.Duration(float64(effDelay) * (1 - effJ))
						hi := time.Duration(float64(effDelay)*(1+effJ)) + 1
						if hi > effMax {
							hi = effMax
						}
						if lo <= 0 {
							lo = 1
						}
						if (got < lo || got > hi) && !(float64(effDelay)*(1-effJ) <= 0 && got == effMax) {
							r.Violate("back-off built by NewManager: first delay does not start from ReconnectionDelay", fmt.Sprintf("%s: delay %v, expected within [%v, %v]", what, got, lo, hi), rep)
						}
					}
				}
			}
		}
	}
	r.Evaluations += n
	r.DistinctNontriv += n
	r.Extra["backoff_via_manager_points"] = n
}

// ---------------------------------------------------------------- 2. reconnect machine

type evLog struct {
	v   vsched.Var
	e   *vsched.Exec
	log []string // "<event>@<virtual time>"
	// set by a body that could not place an action where the case wants it (a harness error, not a verdict)
	misaligned string
	explored   bool
}

func (l *evLog) add(ev string) {
	l.v.Do(func() { l.log = append(l.log, fmt.Sprintf("%s@%v", ev, l.e.Clock())) })
}

func (l *evLog) count(prefix string) int {
	n := 0
	for _, x := range l.log {
		if strings.HasPrefix(x, prefix+"@") || strings.HasPrefix(x, prefix+":") {
			n++
		}
	}
	return n
}

func (l *evLog) times(prefix string) []time.Duration {
	var out []time.Duration
	for _, x := range l.log {
		if strings.HasPrefix(x, prefix+"@") {
			d, _ := time.ParseDuration(x[len(prefix)+1:])
			out = append(out, d)
		}
	}
	return out
}

const (
	rcMin = 1 * time.Second
	rcMax = 5 * time.Second
)

// outage: after the first connection is up the server cuts it; the next j dials fail (refused at once,
// or after dialTime when the dial "times out"); attempt limit N (0 = unlimited).
type outage struct {
	j        int
	limit    uint32
	dialTime time.Duration
	// offAll: once connected the application drops all its manager handlers (Manager.OffAll) and installs them
	// anew: the library's own subscriptions (the sockets listening to their manager) are not the application's
	offAll bool
	// reopen: before the outage the application closes the manager and opens it again - "socket": Disconnect() of its
	// only socket (which closes the manager) then Connect(); "manager": Manager.Close() then Connect(). A manager
	// that was closed once backs off like a fresh one
	reopen string
	// connectAt > 0: while the manager sleeps in the back-off before reconnection attempt number connectAt (1 = the
	// first one; aligned in virtual time: 100 ms into a back-off of at least ReconnectionDelay/2) the application
	// calls Connect() - connectWho "same": on the socket that lost its connection (a "retry now" button), "other": on
	// the socket of another namespace of the same manager (opened for the first time), "both": one after the other.
	// The attempts and their limit belong to the manager: asking for the connection while it is already being
	// re-established neither adds attempts nor a second reconnect_failed
	connectAt  int
	connectWho string
	// connectInDial (needs dialTime > 0): the same call, but 100 ms into the DIAL of attempt number connectAt (the
	// attempt has been announced, its failure has not) instead of the back-off before it
	connectInDial bool
}

func (o outage) String() string {
	s := fmt.Sprintf("outage of %d dials, limit %d, dial time %v", o.j, o.limit, o.dialTime)
	if o.connectAt > 0 {
		where := "the back-off before"
		if o.connectInDial {
			where = "the dial of"
		}
		s += fmt.Sprintf(", Connect() on %s socket(s) during %s attempt %d", o.connectWho, where, o.connectAt)
	}
	return s
}

// attemptsExpected: reconnection attempts the outage leads to (the back-offs Connect() can be placed in)
func (o outage) attemptsExpected() int {
	if o.limit > 0 && o.j >= int(o.limit) {
		return int(o.limit)
	}
	return o.j + 1
}

func reconnectBody(o outage, lg *evLog, after func(sock sio.ClientSocket, srvGot *[]string, v *vsched.Var)) func(e *vsched.Exec) func() vx.Result {
	return func(e *vsched.Exec) func() vx.Result {
		vsched.SetExploring(false)
		lg.e = e
		mn, mx := rcMin, rcMax
		jit := float32(0.5)
		mcfg := &sio.ManagerConfig{ReconnectionAttempts: o.limit, ReconnectionDelay: &mn, ReconnectionDelayMax: &mx, RandomizationFactor: &jit}
		scfg := &sio.ServerConfig{}
		scfg.EIO.PingInterval = 10 * time.Minute // heartbeats out of the way
		scfg.EIO.PingTimeout = 10 * time.Minute
		srv, mgr, link := vrig.NewSioPair(scfg, mcfg)
		var v vsched.Var
		var srvGot []string
		var ssocks []sio.ServerSocket
		srv.OnConnection(func(s sio.ServerSocket) {
			s.OnEvent("m", func(tag string) { v.Do(func() { srvGot = append(srvGot, tag) }) })
			v.Do(func() { ssocks = append(ssocks, s) })
		})
		if o.connectAt > 0 {
			srv.Of("/b").OnConnection(func(s sio.ServerSocket) {})
		}
		failedDials := 0
		down := false
		link.OnRequest = func(n int, r *http.Request) bool {
			if r.URL.Query().Get("sid") != "" {
				return false
			}
			// a handshake = a dial
			refuse := false
			link.V.Do(func() {
				if down && failedDials < o.j {
					failedDials++
					refuse = true
				} else if down {
					down = false // reachable again
				}
			})
			if refuse && o.dialTime > 0 {
				vsched.Sleep(o.dialTime)
			}
			return refuse
		}
		install := func() {
			mgr.OnReconnectAttempt(func(n uint32) { lg.add(fmt.Sprintf("attempt:%d", n)); lg.add("attempt") })
			mgr.OnReconnectError(func(err error) { lg.add("error") })
			mgr.OnReconnectFailed(func() { lg.add("failed") })
			mgr.OnReconnect(func(n uint32) { lg.add("reconnect") })
		}
		install()
		sock := mgr.Socket("/", nil)
		sock.OnConnect(func() { lg.add("connect") })
		sock.OnDisconnect(func(r sio.Reason) { lg.add("disconnect") })
		sock.Connect()
		vsched.Await(func() bool { return lg.count("connect") == 1 && len(ssocks) == 1 })
		vrig.Settle(time.Second)
		if o.reopen != "" {
			if o.reopen == "manager" {
				mgr.Close()
			} else {
				sock.Disconnect()
			}
			vrig.Settle(time.Second)
			sock.Connect()
			vsched.Await(func() bool { return lg.count("connect") == 2 && len(ssocks) == 2 })
			vrig.Settle(time.Second)
			// what happened so far is set-up: the outage is judged from a clean log (one connection, up)
			lg.v.Do(func() { lg.log = []string{fmt.Sprintf("connect@%v", e.Clock())} })
			ssocks = ssocks[1:]
		}
		if o.offAll {
			mgr.OffAll()
			install()
		}
		vsched.SetExploring(true)
		// the outage begins: the server side drops the connection, dials fail from now on
		link.V.Do(func() { down = true })
		lg.add("cut")
		sio.VerifAbruptClose(ssocks[0])
		if o.connectAt > 0 {
			// the manager is asleep in the back-off before attempt number connectAt: the connection loss (or the
			// failure of the previous attempt) has been announced, the next attempt has not
			wantAnnounced := o.connectAt - 1
			if o.connectInDial {
				wantAnnounced = o.connectAt
				vsched.Await(func() bool { return lg.count("attempt")/2 == o.connectAt })
			} else if o.connectAt == 1 {
				vsched.Await(func() bool { return lg.count("disconnect") == 1 })
			} else {
				vsched.Await(func() bool { return lg.count("error") == o.connectAt-1 })
			}
			vsched.Sleep(100 * time.Millisecond)
			if n, ne := lg.count("attempt")/2, lg.count("error"); n != wantAnnounced || ne != o.connectAt-1 {
				// the alignment is the harness's business: never a verdict
				lg.misaligned = fmt.Sprintf("Connect() misplaced (%v): %d attempts and %d failures were announced already", o, n, ne)
				if lg.explored {
					vsched.Await(func() bool { return false }) // reported as HARNESS-ERROR by the explorer
				}
				return func() vx.Result { return vx.Result{Outcome: "harness: " + lg.misaligned} }
			}
			lg.add("Connect()")
			if o.connectWho == "same" || o.connectWho == "both" {
				sock.Connect()
			}
			if o.connectWho == "other" || o.connectWho == "both" {
				other := mgr.Socket("/b", nil)
				other.OnConnect(func() { lg.add("connect/b") })
				other.Connect()
			}
		}
		if after != nil {
			after(sock, &srvGot, &v)
		}
		return func() vx.Result {
			var r vx.Result
			r.Outcome = strings.Join(lg.log, " ")
			key := func(s string) string { return "reconnect: " + s }
			what := fmt.Sprintf("%v: %v", o, lg.log)
			if o.offAll {
				what = "after Manager.OffAll() and a fresh set of handlers, " + what
			}
			if o.reopen != "" {
				what = "manager closed (through its " + o.reopen + ") and opened again before the outage, " + what
			}
			gaveUp := o.limit > 0 && o.j >= int(o.limit)
			wantAttempts := o.j + 1
			if gaveUp {
				wantAttempts = int(o.limit)
			}
			wantErrors := o.j
			if gaveUp {
				wantErrors = int(o.limit)
			}
			if n := lg.count("attempt"); n != wantAttempts*2 { // each attempt is logged twice (with and without number)
				r.Violate(key("wrong number of reconnect_attempt events"), "%d attempts, expected %d; %s", n/2, wantAttempts, what)
			}
			if n := lg.count("error"); n != wantErrors {
				r.Violate(key("wrong number of reconnect_error events"), "%d errors, expected %d; %s", n, wantErrors, what)
			}
			if gaveUp {
				if n := lg.count("failed"); n != 1 {
					r.Violate(key("reconnect_failed not announced exactly once after ReconnectionAttempts failures"), "%d times; %s", n, what)
				}
				if n := lg.count("reconnect"); n != 0 {
					r.Violate(key("reconnected although the attempts were used up"), "%s", what)
				}
			} else {
				if n := lg.count("failed"); n != 0 {
					r.Violate(key("reconnect_failed announced although the server came back in time"), "%s", what)
				}
				if n := lg.count("reconnect"); n != 1 {
					r.Violate(key("did not reconnect exactly once after the server was reachable again"), "%d reconnect events; %s", n, what)
				}
				if n := lg.count("connect"); n != 2 {
					r.Violate(key("active socket not connected again after the reconnection"), "%d connect events; %s", n, what)
				}
			}
			if n := lg.count("disconnect"); n != 1 {
				r.Violate(key("connection loss not reported exactly once to the socket"), "%d disconnect events; %s", n, what)
			}
			// delays: from the cut / the previous failure to each attempt
			att := lg.times("attempt")
			errs := lg.times("error")
			cut := lg.times("cut")
			prev := time.Duration(0)
			if len(cut) > 0 {
				prev = cut[0]
			}
			for i, t := range att {
				gap := t - prev
				if gap <= 0 || gap > rcMax {
					r.Violate(key("delay before an attempt outside (0, ReconnectionDelayMax]"), "attempt %d after %v; %s", i+1, gap, what)
				}
				if i == 0 && (gap < rcMin/2 || gap > rcMin*3/2) {
					r.Violate(key("first delay does not start from ReconnectionDelay"), "first attempt after %v (ReconnectionDelay %v, jitter 0.5); %s", gap, rcMin, what)
				}
				if i < len(errs) {
					prev = errs[i]
				}
			}
			return r
		}
	}
}

func runOutage(o outage, r *vx.Report) {
	lg := &evLog{}
	var res vx.Result
	e := vsched.Run(vsched.Options{Horizon: 5 * time.Minute}, func(e *vsched.Exec) {
		final := reconnectBody(o, lg, nil)(e)
		vrig.Settle(3 * time.Minute)
		res = final()
	})
	r.Evaluations++
	r.TracesValidated++
	r.Transitions += e.Steps
	r.DistinctNontriv++
	if e.HarnessErr != "" {
		r.HarnessErrs = append(r.HarnessErrs, fmt.Sprintf("reconnect outage j=%d limit=%d: %s", o.j, o.limit, e.HarnessErr))
	}
	for _, p := range e.Panics {
		res.Violate("reconnect: panic", "%s", p)
	}
	if e.Deadlock != "" {
		res.Violate("reconnect: deadlock", "%s", e.Deadlock)
	}
	for _, v := range res.Violations {
		r.Violate(v.Key, v.Msg, map[string]any{"part": "reconnect", "j": o.j, "limit": o.limit, "dial_time": o.dialTime.String()})
	}
}

// runFlap: two outages in a row (up, cut, down j1, up, cut, down j2, up): the second one must start
// again from ReconnectionDelay with attempt number 1.
func runFlap(j1, j2 int, r *vx.Report) {
	lg := &evLog{}
	var res vx.Result
	e := vsched.Run(vsched.Options{Horizon: 10 * time.Minute}, func(e *vsched.Exec) {
		lg.e = e
		mn, mx := rcMin, rcMax
		jit := float32(0.5)
		mcfg := &sio.ManagerConfig{ReconnectionDelay: &mn, ReconnectionDelayMax: &mx, RandomizationFactor: &jit}
		scfg := &sio.ServerConfig{}
		scfg.EIO.PingInterval = 30 * time.Minute
		scfg.EIO.PingTimeout = 30 * time.Minute
		srv, mgr, link := vrig.NewSioPair(scfg, mcfg)
		var v vsched.Var
		var ssocks []sio.ServerSocket
		srv.OnConnection(func(s sio.ServerSocket) { v.Do(func() { ssocks = append(ssocks, s) }) })
		left := 0
		link.OnRequest = func(n int, rq *http.Request) bool {
			if rq.URL.Query().Get("sid") != "" {
				return false
			}
			refuse := false
			link.V.Do(func() {
				if left > 0 {
					left--
					refuse = true
				}
			})
			return refuse
		}
		mgr.OnReconnectAttempt(func(n uint32) { lg.add(fmt.Sprintf("attempt%d", n)) })
		mgr.OnReconnect(func(n uint32) { lg.add("reconnect") })
		sock := mgr.Socket("/", nil)
		sock.OnConnect(func() { lg.add("connect") })
		sock.Connect()
		for round, j := range []int{j1, j2} {
			vsched.Await(func() bool { return lg.count("connect") == round+1 && len(ssocks) == round+1 })
			vrig.Settle(time.Second)
			link.V.Do(func() { left = j })
			lg.add(fmt.Sprintf("cut%d", round+1))
			sio.VerifAbruptClose(ssocks[round])
		}
		vrig.Settle(4 * time.Minute)
		what := fmt.Sprintf("outages of %d and %d dials: %v", j1, j2, lg.log)
		if lg.count("connect") != 3 || lg.count("reconnect") != 2 {
			res.Violate("reconnect: flapping link not reconnected after each outage", "%s", what)
			return
		}
		// second outage: find cut2 and the attempt that follows it
		var cut2, next time.Duration
		nextName := ""
		seenCut := false
		for _, x := range lg.log {
			at := x[strings.IndexByte(x, '@')+1:]
			d, _ := time.ParseDuration(at)
			if strings.HasPrefix(x, "cut2@") {
				cut2, seenCut = d, true
				continue
			}
			if seenCut && strings.HasPrefix(x, "attempt") && nextName == "" {
				next, nextName = d, x[:strings.IndexByte(x, '@')]
			}
		}
		if nextName != "attempt1" {
			res.Violate("reconnect: attempt numbering not restarted after a successful reconnection", "first attempt of the second outage is %q; %s", nextName, what)
		}
		if gap := next - cut2; gap < rcMin/2 || gap > rcMin*3/2 {
			res.Violate("reconnect: back-off not restarted from ReconnectionDelay after a successful reconnection", "first attempt of the second outage after %v (ReconnectionDelay %v, jitter 0.5); %s", gap, rcMin, what)
		}
	})
	r.Evaluations++
	r.TracesValidated++
	r.Transitions += e.Steps
	r.DistinctNontriv++
	if e.HarnessErr != "" {
		r.HarnessErrs = append(r.HarnessErrs, fmt.Sprintf("flapping j1=%d j2=%d: %s", j1, j2, e.HarnessErr))
	}
	for _, p := range e.Panics {
		res.Violate("reconnect: panic", "%s", p)
	}
	for _, v := range res.Violations {
		r.Violate(v.Key, v.Msg, map[string]any{"part": "flapping", "j1": j1, "j2": j2})
	}
}

func reconnectScenario(name string, o outage, bound int) *vx.Scenario {
	sc := &vx.Scenario{Name: name, Bound: bound, Horizon: 3 * time.Minute, EarlyTimers: false}
	sc.Body = func(e *vsched.Exec) func() vx.Result { return reconnectBody(o, &evLog{explored: true}, nil)(e) }
	return sc
}

// ---------------------------------------------------------------- 3. offline traffic

type emitKind byte

const (
	kPlain    emitKind = 'p'
	kVolatile emitKind = 'v'
	kAck      emitKind = 'a'
	kAckTO    emitKind = 't'
	// volatile AND with a timeout, the flags chained in either order: still volatile (dropped while
	// disconnected; its callback then gets the timeout error)
	kVolThenTO emitKind = 'V'
	kTOThenVol emitKind = 'W'
	// an emit whose ack timeout (100 ms) fires DURING the outage: it is withdrawn from the offline buffer, its
	// callback gets the timeout error - and nothing else leaves the buffer with it
	kShortTO emitKind = 'x'
)

// offline: the connection is lost; while the socket is disconnected the application emits `during`
// (in that order); `before` is emitted while still connected, `after` once connected again.
func offlineScenario2(name, before, during, after string, bound int, hello ...bool) *vx.Scenario {
	sc := &vx.Scenario{Name: name, Bound: bound, Horizon: 5 * time.Minute}
	sc.Body = func(e *vsched.Exec) func() vx.Result {
		vsched.SetExploring(false)
		lg := &evLog{e: e}
		mn, mx := rcMin, rcMax
		jit := float32(0.5)
		mcfg := &sio.ManagerConfig{ReconnectionDelay: &mn, ReconnectionDelayMax: &mx, RandomizationFactor: &jit}
		scfg := &sio.ServerConfig{}
		scfg.EIO.PingInterval = 10 * time.Minute
		scfg.EIO.PingTimeout = 10 * time.Minute
		srv, mgr, link := vrig.NewSioPair(scfg, mcfg)
		var v vsched.Var
		var srvGot []string // "<session>:<tag>"
		var ssocks []sio.ServerSocket
		// Handlers are registered in a namespace middleware, i.e. before the CONNECT reply: the server
		// runs connection handlers asynchronously after the reply, and the client flushes its offline
		// buffer as soon as it sees the reply (that race is C01's subject, with its own finding).
		srv.OnConnection(func(s sio.ServerSocket) {})
		srv.Use(func(s sio.ServerSocket, h *sio.Handshake) any {
			var sess int
			v.Do(func() { ssocks = append(ssocks, s); sess = len(ssocks) })
			s.OnEvent("m", func(tag string) { v.Do(func() { srvGot = append(srvGot, fmt.Sprintf("%d:%s", sess, tag)) }) })
			s.OnEvent("ma", func(tag string, ack func(string)) {
				v.Do(func() { srvGot = append(srvGot, fmt.Sprintf("%d:%s", sess, tag)) })
				ack("ack:" + tag)
			})
			lg.add("srv-ready")
			return nil
		})
		if len(hello) > 0 && hello[0] {
			// the server greets every new socket with an event that asks for an acknowledgement
			srv.OnConnection(func(s sio.ServerSocket) {
				s.Emit("hello", func(reply string) { v.Do(func() { srvGot = append(srvGot, "0:hello-acked") }) })
			})
		}
		failed := 0
		down := false
		link.OnRequest = func(n int, r *http.Request) bool {
			if r.URL.Query().Get("sid") != "" {
				return false
			}
			refuse := false
			link.V.Do(func() {
				if down && failed < 1 {
					failed++
					refuse = true
				} else {
					down = false
				}
			})
			return refuse
		}
		sock := mgr.Socket("/", nil)
		sock.OnConnect(func() { lg.add("connect") })
		sock.OnDisconnect(func(r sio.Reason) { lg.add("disconnect") })
		sock.OnEvent("hello", func(ack func(string)) { ack("hi") })
		var acks []string
		var want []string
		var volatileOffline []string
		emit := func(k byte, tag string) {
			switch emitKind(k) {
			case kPlain:
				sock.Emit("m", tag)
			case kVolatile:
				sock.Volatile().Emit("m", tag)
			case kAck:
				sock.Emit("ma", tag, func(reply string) { v.Do(func() { acks = append(acks, reply) }) })
			case kVolThenTO, kTOThenVol:
				em := sock.Volatile().Timeout(4 * time.Minute)
				if emitKind(k) == kTOThenVol {
					em = sock.Timeout(4 * time.Minute).Volatile()
				}
				em.Emit("ma", tag, func(err error, reply string) {
					v.Do(func() {
						if err != nil {
							acks = append(acks, "ERR:"+tag)
						} else {
							acks = append(acks, reply)
						}
					})
				})
			case kShortTO:
				sock.Timeout(100*time.Millisecond).Emit("ma", tag, func(err error, reply string) {
					v.Do(func() {
						if err != nil {
							acks = append(acks, "ERR:"+tag)
						} else {
							acks = append(acks, reply)
						}
					})
				})
			case kAckTO:
				sock.Timeout(4*time.Minute).Emit("ma", tag, func(err error, reply string) {
					v.Do(func() {
						if err != nil {
							acks = append(acks, "ERR:"+tag)
						} else {
							acks = append(acks, reply)
						}
					})
				})
			}
		}
		sock.Connect()
		vsched.Await(func() bool { return lg.count("connect") == 1 && lg.count("srv-ready") == 1 })
		vrig.Settle(time.Second)
		for i := 0; i < len(before); i++ {
			tag := fmt.Sprintf("b%d%c", i, before[i])
			emit(before[i], tag)
			want = append(want, tag) // connected: volatile ones are sent too
		}
		vrig.Settle(time.Second)
		vsched.SetExploring(true)
		link.V.Do(func() { down = true })
		sio.VerifAbruptClose(ssocks[0])
		// "while disconnected" is judged by the lifecycle callbacks the application sees
		vsched.Await(func() bool { return lg.count("disconnect") == 1 })
		for i := 0; i < len(during); i++ {
			tag := fmt.Sprintf("d%d%c", i, during[i])
			emit(during[i], tag)
			if k := emitKind(during[i]); k == kVolatile || k == kVolThenTO || k == kTOThenVol || k == kShortTO {
				// (kShortTO: not volatile, but timed out and withdrawn before the connection is back: judged alike)
				volatileOffline = append(volatileOffline, tag)
			} else {
				want = append(want, tag)
			}
		}
		if len(hello) > 1 && hello[1] {
			// another goroutine emits at the very moment the reconnection is completing: from the instant the
			// server has admitted the new socket (its CONNECT reply is on its way) the emit races the client's
			// handling of that reply (state change + flush of the offline buffer)
			want = append(want, "r0p", "r1p")
			vsched.GoQuiet("racing-emitter", func() {
				vsched.Await(func() bool { return lg.count("srv-ready") == 2 })
				emit('p', "r0p")
				emit('p', "r1p")
			})
		}
		vsched.Await(func() bool { return lg.count("connect") == 2 && lg.count("srv-ready") == 2 })
		for i := 0; i < len(after); i++ {
			tag := fmt.Sprintf("a%d%c", i, after[i])
			emit(after[i], tag)
			want = append(want, tag)
		}
		return func() vx.Result {
			var r vx.Result
			r.Outcome = fmt.Sprint(srvGot, acks)
			what := fmt.Sprintf("before=%q during=%q after=%q: server handlers saw %v, acks %v, client events %v", before, during, after, srvGot, acks, lg.log)
			var got []string
			count := map[string]int{}
			for _, x := range srvGot {
				tag := x[strings.IndexByte(x, ':')+1:]
				if tag == "hello-acked" {
					continue
				}
				got = append(got, tag)
				count[tag]++
				if strings.HasPrefix(tag, "d") && strings.HasPrefix(x, "1:") {
					r.Violate("offline: event emitted while disconnected arrived on the old session", "%s", what)
				}
			}
			for _, tag := range volatileOffline {
				if count[tag] > 0 {
					r.Violate("offline: volatile (or already timed-out) event emitted while disconnected was delivered", "%s: %s", tag, what)
				}
			}
			for _, tag := range want {
				if count[tag] != 1 {
					r.Violate("offline: non-volatile event not delivered exactly once after the reconnection", "%s delivered %d times; %s", tag, count[tag], what)
					return r
				}
			}
			// order: the non-volatile ones in emission order
			var gotNV []string
			for _, tag := range got {
				isVolOff := false
				for _, vt := range volatileOffline {
					if vt == tag {
						isVolOff = true
					}
				}
				if !isVolOff {
					gotNV = append(gotNV, tag)
				}
			}
			// events of one goroutine may be re-ordered at handler entry by the per-packet dispatch
			// goroutines (C02 known finding); the order is therefore judged as a multiset here and on
			// the wire by C02. Ack callbacks: exactly once each.
			sort.Strings(gotNV)
			ws := append([]string{}, want...)
			sort.Strings(ws)
			if fmt.Sprint(gotNV) != fmt.Sprint(ws) {
				r.Violate("offline: delivered events differ from the emitted non-volatile ones", "%s", what)
			}
			nAck := 0
			for _, part := range []string{before, during, after} {
				nAck += strings.Count(part, "a") + strings.Count(part, "t")
			}
			seen := map[string]int{}
			for _, a := range acks {
				seen[a]++
				droppedVolatile := false
				for _, vt := range volatileOffline {
					if a == "ERR:"+vt {
						droppedVolatile = true // dropped while disconnected: the timeout is its answer
					}
				}
				if seen[a] > 1 || (strings.HasPrefix(a, "ERR:") && !droppedVolatile) {
					r.Violate("offline: ack callback of a buffered emit invoked twice or with an error", "%s", what)
				}
			}
			for _, part := range []string{before, during, after} {
				nAck += strings.Count(part, "V") + strings.Count(part, "W") + strings.Count(part, "x")
			}
			if len(acks) != nAck {
				r.Violate("offline: ack callback of a buffered emit not invoked", "%d of %d acks; %s", len(acks), nAck, what)
			}
			return r
		}
	}
	return sc
}

// offlineTwoSockets: one Manager, two sockets ("/" and "/b") on the same connection. The connection is lost,
// both applications emit while disconnected (plain and volatile), the manager reconnects: every non-volatile
// event arrives exactly once in ITS namespace on the new session, volatile ones nowhere.
func offlineTwoSockets(name string, bound int) *vx.Scenario {
	sc := &vx.Scenario{Name: name, Bound: bound, Horizon: 5 * time.Minute}
	sc.Body = func(e *vsched.Exec) func() vx.Result {
		vsched.SetExploring(false)
		lg := &evLog{e: e}
		mn, mx := rcMin, rcMax
		jit := float32(0.5)
		mcfg := &sio.ManagerConfig{ReconnectionDelay: &mn, ReconnectionDelayMax: &mx, RandomizationFactor: &jit}
		scfg := &sio.ServerConfig{}
		scfg.EIO.PingInterval = 10 * time.Minute
		scfg.EIO.PingTimeout = 10 * time.Minute
		srv, mgr, link := vrig.NewSioPair(scfg, mcfg)
		var v vsched.Var
		got := map[string][]string{} // namespace -> "<session>:<tag>"
		var first sio.ServerSocket
		sessions := map[string]int{}
		for _, ns := range []string{"/", "/b"} {
			ns := ns
			srv.Of(ns).OnConnection(func(s sio.ServerSocket) {})
			srv.Of(ns).Use(func(s sio.ServerSocket, h *sio.Handshake) any {
				var sess int
				v.Do(func() {
					sessions[ns]++
					sess = sessions[ns]
					if first == nil {
						first = s
					}
				})
				s.OnEvent("m", func(tag string) { v.Do(func() { got[ns] = append(got[ns], fmt.Sprintf("%d:%s", sess, tag)) }) })
				lg.add("srv-ready" + ns)
				return nil
			})
		}
		failed, down := 0, false
		link.OnRequest = func(n int, r *http.Request) bool {
			if r.URL.Query().Get("sid") != "" {
				return false
			}
			refuse := false
			link.V.Do(func() {
				if down && failed < 1 {
					failed++
					refuse = true
				} else {
					down = false
				}
			})
			return refuse
		}
		sa, sb := mgr.Socket("/", nil), mgr.Socket("/b", nil)
		sa.OnConnect(func() { lg.add("connect/") })
		sb.OnConnect(func() { lg.add("connect/b") })
		sa.OnDisconnect(func(r sio.Reason) { lg.add("disconnect/") })
		sb.OnDisconnect(func(r sio.Reason) { lg.add("disconnect/b") })
		sa.Connect()
		sb.Connect()
		vsched.Await(func() bool {
			return lg.count("connect/") >= 1 && lg.count("connect/b") == 1 && lg.count("srv-ready/") >= 1 && lg.count("srv-ready/b") == 1
		})
		vrig.Settle(time.Second)
		vsched.SetExploring(true)
		link.V.Do(func() { down = true })
		sio.VerifAbruptClose(first)
		vsched.Await(func() bool { return lg.count("disconnect/") >= 1 && lg.count("disconnect/b") == 1 })
		sa.Emit("m", "a0")
		sb.Emit("m", "b0")
		sa.Volatile().Emit("m", "a-volatile")
		sb.Emit("m", "b1")
		sa.Emit("m", "a1")
		return func() vx.Result {
			var r vx.Result
			r.Outcome = fmt.Sprint(got)
			what := fmt.Sprintf("server handlers saw %v; client events %v", got, lg.log)
			want := map[string][]string{"/": {"2:a0", "2:a1"}, "/b": {"2:b0", "2:b1"}}
			for ns, w := range want {
				g := append([]string{}, got[ns]...)
				sort.Strings(g)
				if fmt.Sprint(g) != fmt.Sprint(w) {
					r.Violate("offline, two sockets on one manager: events emitted while disconnected are not delivered exactly once, in their namespace, on the new session", "namespace %s got %v, expected %v; %s", ns, got[ns], w, what)
				}
			}
			return r
		}
	}
	return sc
}

// manualReopen: the application disconnects the socket and connects it again by hand, at once. The socket
// must end up connected exactly once more, on both sides, and an event emitted afterwards is delivered once.
// (Manager.Close() directly followed by Connect() is NOT judged: Connect() is a no-op while the socket
// still counts as connected, and the manager's asynchronous 'close' notification then disconnects it for
// good - observed at the pinned commit too, but no listed property speaks about it.)
func manualReopen(name string, what string, bound int) *vx.Scenario {
	sc := &vx.Scenario{Name: name, Bound: bound, Horizon: 2 * time.Minute}
	sc.Body = func(e *vsched.Exec) func() vx.Result {
		vsched.SetExploring(false)
		lg := &evLog{e: e}
		scfg := &sio.ServerConfig{}
		scfg.EIO.PingInterval = 10 * time.Minute
		scfg.EIO.PingTimeout = 10 * time.Minute
		srv, mgr, _ := vrig.NewSioPair(scfg, nil)
		var v vsched.Var
		var srvGot []string
		srv.OnConnection(func(s sio.ServerSocket) {})
		srv.Use(func(s sio.ServerSocket, h *sio.Handshake) any {
			s.OnEvent("m", func(tag string) { v.Do(func() { srvGot = append(srvGot, tag) }) })
			lg.add("srv-ready")
			return nil
		})
		sock := mgr.Socket("/", nil)
		sock.OnConnect(func() { lg.add("connect") })
		sock.OnDisconnect(func(r sio.Reason) { lg.add("disconnect") })
		sock.Connect()
		vsched.Await(func() bool { return lg.count("connect") == 1 && lg.count("srv-ready") == 1 })
		vrig.Settle(time.Second)
		vsched.SetExploring(true)
		switch what {
		case "Manager.Close":
			mgr.Close()
		case "Socket.Disconnect":
			sock.Disconnect()
		}
		sock.Connect()
		vrig.Settle(30 * time.Second)
		sock.Emit("m", "after-reopen")
		vrig.Settle(10 * time.Second)
		return func() vx.Result {
			var r vx.Result
			r.Outcome = fmt.Sprint(lg.log, srvGot, sock.Connected())
			ctx := fmt.Sprintf("%s then Connect(): client events %v, client socket connected=%v, server sockets %d, server handlers saw %v", what, lg.log, sock.Connected(), len(srv.Of("/").Sockets()), srvGot)
			if !sock.Connected() || lg.count("connect") != 2 {
				r.Violate("manual reopen: socket not connected (exactly once more) after Connect() following "+what, "%s", ctx)
			}
			if n := len(srv.Of("/").Sockets()); n != 1 {
				r.Violate("manual reopen: server does not hold exactly one socket after the reopen", "%s", ctx)
			}
			if len(srvGot) != 1 {
				r.Violate("manual reopen: event emitted after the reopen not delivered exactly once", "%s", ctx)
			}
			return r
		}
	}
	return sc
}

// TODO (not registered: violates on the unchanged tree, with one deviation): a second Connect() on a socket that is not
// connected subscribes the socket to its manager a second time (clientSocket.registerSubEvents does not look at what it
// has registered already). When the reconnection SUCCEEDS the manager runs both 'open' subscriptions one after the other;
// if the CONNECT packet of the first one is sent and answered before the second one runs (schedule: the goroutine started
// by sendConnectPacket runs ahead of the forEach goroutine of Manager.openHandlers), the second one finds the socket
// connected instead of connect-pending and sends CONNECT for the namespace again; the server then drops the whole
// connection, and a second disconnect / reconnection cycle follows (2 disconnect, 2 reconnect, 3 reconnect_attempt events
// for one outage). The default schedule (and every schedule of the cases where the reconnection does not succeed) is in
// the registered list. Repaired in /repo (known_findings.json, second "fixed: property=C15" of the ninth round): the
// scenario is registered, mutant c15-second-connect-subscribes-twice reverts the repair.
const todoSecondConnectCallThenReconnectionSucceeds = true

// The same Connect() call placed in the DIAL of a reconnection attempt (a dial that takes 20 s until it times out) instead
// of the back-off before it. At the pinned tree this started a second reconnection cycle after reconnect_failed (the state
// is 'connecting' during the dial, Connect() only looked for 'reconnecting'); repaired in /repo (known_findings.json,
// "fixed: property=C15"), the scenarios are registered, mutant c15-connect-during-attempt-dial reverts the repair.
const todoConnectCallDuringTheDialOfAnAttempt = true

func permutations(s string) []string {
	if len(s) <= 1 {
		return []string{s}
	}
	var out []string
	for i := range s {
		for _, p := range permutations(s[:i] + s[i+1:]) {
			out = append(out, string(s[i])+p)
		}
	}
	return out
}

func scenarios(tier string) []*vx.Scenario {
	b := 1
	if tier == "thorough" {
		b = 2
	}
	var s []*vx.Scenario
	// every order of the 4-emit mix, all emitted during the outage
	for _, p := range permutations("pvat") {
		bb := 0
		if tier == "thorough" {
			bb = 1
		}
		s = append(s, offlineScenario2("offline/during="+p, "", p, "", bb))
	}
	s = append(s,
		offlineScenario2("offline/before=pv-during=at-after=pv", "pv", "at", "pv", b),
		offlineScenario2("offline/before=a-during=pvp-after=t", "a", "pvp", "t", b),
		offlineScenario2("offline/during=pp", "", "pp", "", b+1),
		offlineScenario2("offline/during=pxp-ack-timeout-fires-during-the-outage", "", "pxp", "", b),
		offlineScenario2("offline/during=xpa-first-ack-id-times-out-during-the-outage", "", "xpa", "p", b),
		offlineScenario2("offline/before=a-during=pxpt-after=p", "a", "pxpt", "p", b),
		offlineScenario2("offline/during=pVpW-volatile-with-timeout", "", "pVpW", "", b),
		offlineScenario2("offline/before=V-during=Wp-after=V", "V", "Wp", "V", b),
		offlineScenario2("offline/during=pa-server-greets-with-ack-request", "", "pa", "", b+1, true),
		offlineScenario2("offline/during=p-emitter-races-the-reconnection", "", "p", "", b+1, false, true),
		offlineScenario2("offline/during=none-emitter-races-the-reconnection", "", "", "", b+1, false, true),
		manualReopen("manual-reopen/Socket.Disconnect-then-Connect", "Socket.Disconnect", b),
		offlineTwoSockets("offline/two-sockets-on-one-manager", b),
		reconnectScenario("reconnect/outage2-unlimited", outage{j: 2}, b),
		reconnectScenario("reconnect/outage2-limit2", outage{j: 2, limit: 2}, b),
		reconnectScenario("reconnect/outage1-limit3-dial-timeout", outage{j: 1, limit: 3, dialTime: 20 * time.Second}, b),
		// the application asks for the connection (Connect()) while the manager is in a back-off of its reconnection
		reconnectScenario("reconnect/outage4-limit2-Connect-same-socket-during-back-off-2", outage{j: 4, limit: 2, connectAt: 2, connectWho: "same"}, b),
		reconnectScenario("reconnect/outage3-limit2-Connect-both-sockets-during-back-off-1", outage{j: 3, limit: 2, connectAt: 1, connectWho: "both"}, b),
		reconnectScenario("reconnect/outage1-limit2-Connect-other-namespace-during-back-off-2", outage{j: 1, limit: 2, connectAt: 2, connectWho: "other"}, b),
	)
	if todoSecondConnectCallThenReconnectionSucceeds {
		s = append(s, reconnectScenario("reconnect/outage1-limit2-Connect-both-sockets-during-back-off-2", outage{j: 1, limit: 2, connectAt: 2, connectWho: "both"}, b))
	}
	if todoConnectCallDuringTheDialOfAnAttempt {
		s = append(s, reconnectScenario("reconnect/outage4-limit2-dial-timeout-Connect-same-socket-during-dial-2", outage{j: 4, limit: 2, dialTime: 20 * time.Second, connectAt: 2, connectWho: "same", connectInDial: true}, b))
		s = append(s, reconnectScenario("reconnect/outage4-limit2-dial-timeout-Connect-other-namespace-during-dial-1", outage{j: 4, limit: 2, dialTime: 20 * time.Second, connectAt: 1, connectWho: "other", connectInDial: true}, b))
		s = append(s, reconnectScenario("reconnect/outage1-limit2-dial-timeout-Connect-other-namespace-during-dial-1", outage{j: 1, limit: 2, dialTime: 20 * time.Second, connectAt: 1, connectWho: "other", connectInDial: true}, b))
	}
	for _, x := range s {
		if x.Bound >= 2 {
			x.Shards = 8
		}
	}
	return s
}

func main() {
	vx.Main(vx.Config{
		Property: "C15",
		Level:    "model_checking",
		Rule: "back-off: full grid of (ReconnectionDelay, ReconnectionDelayMax, jitter, attempt number incl. overflowing ones, random draw) with the random draw scripted, and the back-off objects NewManager builds from 6 configurations x 4 jitters (unset fields = defaults; delay above max); reconnect machine: outage of j = 0..5 failed dials x attempt limit 0..5 x {refused at once, dial times out after 20 s}, each executed on the real Manager/Server pair in virtual time and judged on the timestamped reconnect_* events; the same grid with the application calling Connect() while the manager sleeps in a back-off of its reconnection (every back-off the outage has x {the socket that lost its connection, the socket of another namespace of the manager, both}), three of them also explored to the deviation bound; " +
			"offline traffic: all 24 orders of {plain, volatile, ack, ack+timeout} (plus volatile chained with a timeout in either order) emitted while disconnected plus before/during/after placements, an emitter on another goroutine racing the completion of the reconnection, Disconnect() directly followed by Connect(), and two sockets of one Manager emitting while disconnected, explored to the deviation bound. distinct_nontrivial = grid points with attempt > 0 and jitter in (0,1] + outage cases + deviating schedules",
		Scenarios: scenarios,
		Budget: func(tier string) time.Duration {
			if tier == "thorough" {
				return 12 * time.Minute
			}
			return 150 * time.Second
		},
		Extra: func(tier string, r *vx.Report) {
			backoffGrid(tier, r)
			backoffViaManager(r)
			n, nConnect := 0, 0
			for j := 0; j <= 5; j++ {
				for limit := uint32(0); limit <= 5; limit++ {
					for _, dt := range []time.Duration{0, 20 * time.Second} {
						runOutage(outage{j: j, limit: limit, dialTime: dt}, r)
						if dt == 0 && j <= 2 {
							runOutage(outage{j: j, limit: limit, offAll: true}, r)
							runOutage(outage{j: j, limit: limit, reopen: "socket"}, r)
							runOutage(outage{j: j, limit: limit, reopen: "manager"}, r)
						}
						// Connect() during every back-off the outage has, on the same socket / another namespace's / both
						// (with a dial that times out: the first and the last back-off, both sockets)
						base := outage{j: j, limit: limit, dialTime: dt}
						for at := 1; at <= base.attemptsExpected(); at++ {
							for _, who := range []string{"same", "other", "both"} {
								if dt > 0 && (who != "both" || (at != 1 && at != base.attemptsExpected())) {
									continue
								}
								o := base
								o.connectAt, o.connectWho = at, who
								runOutage(o, r)
								nConnect++
							}
						}
						n++
					}
				}
			}
			for j1 := 0; j1 <= 3; j1++ {
				for j2 := 0; j2 <= 3; j2++ {
					runFlap(j1, j2, r)
					n++
				}
			}
			r.Extra["outage_cases"] = n
			r.Extra["outage_cases_with_Connect_during_a_back_off"] = nConnect
			r.States += n + nConnect
		},
		Assumptions: []string{
			"virtual time; the in-process link refuses dials (at once or after a dial timeout) - a black-holed dial without any timeout would block eio.Dial for ever and is not a case the library can do anything about",
			"'while disconnected' is judged by the lifecycle callbacks (disconnect seen, connect not yet seen again)",
			"handler-entry order of consecutive events is not judged here (C02 known finding); delivery is compared as a multiset",
		},
	})
}
