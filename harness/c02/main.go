// C02: per-emitter order is preserved and binary frames are never interleaved.
//
// (a) wire level: 2-3 concurrent emitters on one connection, both directions; the frames the
// connection hands to Engine.IO are parsed by a reference decoder written here from the v5 protocol:
// every packet must be a header immediately followed by exactly its attachments, and each emitter's
// events must appear in program order.
// (b) application level: handler-entry order of events one goroutine emitted one after another.
package main

import (
	"encoding/base64"
	"encoding/json"
	"fmt"
	"net/http"
	"os"
	"strconv"
	"strings"
	"time"

	sio "github.com/karagenc/socket.io-go"
	eioparser "github.com/karagenc/socket.io-go/engine.io/parser"
	vx "github.com/karagenc/socket.io-go/internal/vexplore"
	"github.com/karagenc/socket.io-go/internal/vrig"
	"github.com/karagenc/socket.io-go/internal/vsched"
)

// wireFrame is one Engine.IO message as seen on the wire.
type wireFrame struct {
	binary bool
	data   []byte
}

type evt struct{ emitter, seq, attachments int }

// refDecode parses a frame sequence into events; any protocol violation is returned as an error.
func refDecode(frames []wireFrame) ([]evt, error) {
	var out []evt
	i := 0
	for i < len(frames) {
		f := frames[i]
		if f.binary {
			return out, fmt.Errorf("frame %d: binary frame where a packet header was expected (attachment torn from its header)", i)
		}
		s := string(f.data)
		if s == "" {
			return out, fmt.Errorf("frame %d: empty", i)
		}
		typ := s[0]
		rest := s[1:]
		natt := 0
		switch typ {
		case '2':
		case '5':
			j := strings.IndexByte(rest, '-')
			if j <= 0 {
				return out, fmt.Errorf("frame %d: binary event without attachment count: %q", i, s)
			}
			n, err := strconv.Atoi(rest[:j])
			if err != nil {
				return out, fmt.Errorf("frame %d: bad attachment count: %q", i, s)
			}
			natt = n
			rest = rest[j+1:]
		default:
			// not an event (CONNECT reply, ACK, DISCONNECT ...): skip, but it must not carry attachments here
			i++
			continue
		}
		if strings.HasPrefix(rest, "/") {
			j := strings.IndexByte(rest, ',')
			if j < 0 {
				return out, fmt.Errorf("frame %d: namespace without comma: %q", i, s)
			}
			rest = rest[j+1:]
		}
		k := 0
		for k < len(rest) && rest[k] >= '0' && rest[k] <= '9' {
			k++
		}
		rest = rest[k:]
		var arr []any
		if err := json.Unmarshal([]byte(rest), &arr); err != nil {
			return out, fmt.Errorf("frame %d: bad JSON %q: %v", i, rest, err)
		}
		if len(arr) < 3 {
			i++
			continue // not one of ours
		}
		em, ok1 := arr[1].(float64)
		sq, ok2 := arr[2].(float64)
		if !ok1 || !ok2 {
			i++
			continue
		}
		// placeholders must be numbered 0..n-1 in order
		np := 0
		for _, a := range arr[3:] {
			m, ok := a.(map[string]any)
			if !ok || m["_placeholder"] != true {
				continue
			}
			if int(m["num"].(float64)) != np {
				return out, fmt.Errorf("frame %d: placeholder numbering %v", i, arr)
			}
			np++
		}
		if np != natt {
			return out, fmt.Errorf("frame %d: header announces %d attachments, JSON has %d placeholders", i, natt, np)
		}
		for a := 0; a < natt; a++ {
			i++
			if i >= len(frames) {
				return out, fmt.Errorf("packet (emitter %d seq %d): stream ends after %d of %d attachments", int(em), int(sq), a, natt)
			}
			if !frames[i].binary {
				return out, fmt.Errorf("packet (emitter %d seq %d): frame %d is text %q where attachment %d of %d was expected (frames of two packets interleaved)", int(em), int(sq), i, frames[i].data, a, natt)
			}
			want := []byte{byte(em), byte(sq), byte(a)}
			if string(frames[i].data) != string(want) {
				return out, fmt.Errorf("packet (emitter %d seq %d): attachment %d is %x, emitted %x (attachment of another packet)", int(em), int(sq), a, frames[i].data, want)
			}
		}
		out = append(out, evt{int(em), int(sq), natt})
		i++
	}
	return out, nil
}

func judgeWire(r *vx.Result, side string, frames []wireFrame, plan [][]int) {
	evs, err := refDecode(frames)
	if err != nil {
		r.Violate(side+" wire: frames of one packet not contiguous / stream not decodable", "%v", err)
		return
	}
	next := make([]int, len(plan))
	for _, ev := range evs {
		if ev.emitter < 0 || ev.emitter >= len(plan) {
			continue
		}
		if ev.seq != next[ev.emitter] {
			r.Violate(side+" wire: events of one emitter out of order, lost or duplicated", "emitter %d: saw seq %d where %d was expected; decoded %v", ev.emitter, ev.seq, next[ev.emitter], evs)
			return
		}
		if ev.attachments != plan[ev.emitter][ev.seq] {
			r.Violate(side+" wire: wrong attachment count", "emitter %d seq %d: %d attachments, emitted %d", ev.emitter, ev.seq, ev.attachments, plan[ev.emitter][ev.seq])
		}
		next[ev.emitter]++
	}
	for e, n := range next {
		if n != len(plan[e]) {
			r.Violate(side+" wire: events of one emitter out of order, lost or duplicated", "emitter %d: %d of %d events on the wire; decoded %v", e, n, len(plan[e]), evs)
		}
	}
	r.Outcome = fmt.Sprint(evs)
}

func emitArgs(em, seq, natt int) []any {
	args := []any{em, seq}
	for a := 0; a < natt; a++ {
		args = append(args, sio.Binary{byte(em), byte(seq), byte(a)})
	}
	return args
}

// plan[e][k] = number of attachments of emitter e's k-th event.
func serverWire(name string, plan [][]int, bound int) *vx.Scenario {
	sc := &vx.Scenario{Name: name, Bound: bound, Horizon: 10 * time.Second}
	sc.Body = func(e *vsched.Exec) func() vx.Result {
		vsched.SetExploring(false) // set-up (connection handshake) runs on the default schedule
		srv := sio.NewServer(nil)
		var sock sio.ServerSocket
		var v vsched.Var
		srv.OnConnection(func(s sio.ServerSocket) { v.Do(func() { sock = s }) })
		f := vrig.NewFakeEIO(srv, "c02")
		f.SlowSend = true
		f.ConnectNS("/")
		vsched.Await(func() bool { return sock != nil })
		vsched.SetExploring(true)
		for em := range plan {
			em := em
			vsched.GoQuiet(fmt.Sprintf("emitter%d", em), func() {
				for seq, natt := range plan[em] {
					sock.Emit("e", emitArgs(em, seq, natt)...)
				}
			})
		}
		return func() vx.Result {
			var r vx.Result
			var frames []wireFrame
			for _, fr := range f.Frames {
				frames = append(frames, wireFrame{fr.Binary, []byte(fr.Data)})
			}
			judgeWire(&r, "server", frames, plan)
			return r
		}
	}
	return sc
}

// serverWirePolling: the server -> client direction over the REAL Engine.IO polling transport (the
// server's packet queue, the eio socket, the polling transport's poll queue and its payload encoder),
// read by the real Go client over the in-process link. The link delays every long poll by pollDelay, so
// batches are parked inside the transport between two polls while further flushes happen; emitters
// pause `gap` between their events so that each event is flushed on its own (gap > 0) or the flushes
// fall wherever the schedule puts them (gap == 0). The wire (bodies answered to the GET requests) is
// parsed by the reference decoder.
func serverWirePolling(name string, plan [][]int, gap, pollDelay time.Duration, bound int) *vx.Scenario {
	sc := &vx.Scenario{Name: name, Bound: bound, Horizon: 30 * time.Second}
	sc.Body = func(e *vsched.Exec) func() vx.Result {
		vsched.SetExploring(false)
		srv, mgr, link := vrig.NewSioPair(nil, nil)
		var v vsched.Var
		var ssock sio.ServerSocket
		srv.OnConnection(func(s sio.ServerSocket) { v.Do(func() { ssock = s }) })
		sock := mgr.Socket("/", nil)
		connected := false
		var appGot []string
		sock.OnConnect(func() { v.Do(func() { connected = true }) })
		sock.OnEvent("e", func(em, seq int) { v.Do(func() { appGot = append(appGot, fmt.Sprintf("%d.%d", em, seq)) }) })
		sock.Connect()
		vsched.Await(func() bool { return connected && ssock != nil })
		vrig.Settle(time.Second)
		slow := false
		link.OnRequest = func(n int, r *http.Request) bool {
			if r.Method == "GET" && slow && pollDelay > 0 {
				vsched.Sleep(pollDelay) // a slow poller: the next long poll reaches the server late
			}
			return false
		}
		v.Do(func() { slow = true })
		nGetBefore := 0
		link.V.Do(func() { nGetBefore = len(link.GetBodies) })
		vsched.SetExploring(true)
		for em := range plan {
			em := em
			vsched.GoQuiet(fmt.Sprintf("emitter%d", em), func() {
				for seq, natt := range plan[em] {
					if seq > 0 && gap > 0 {
						vsched.Sleep(gap)
					}
					ssock.Emit("e", emitArgs(em, seq, natt)...)
				}
			})
		}
		return func() vx.Result {
			var r vx.Result
			frames, err := postsToFrames(link.GetBodies[nGetBefore:])
			if err != nil {
				r.Violate("server wire (polling transport): GET body not decodable", "%v", err)
				return r
			}
			// control packets of the Engine.IO layer (ping, noop) are not message frames and were skipped
			judgeWire(&r, "server (polling transport)", frames, plan)
			total := 0
			for _, p := range plan {
				total += len(p)
			}
			if len(r.Violations) == 0 && len(appGot) != total {
				r.Violate("server (polling transport): events on the wire did not all reach the client's handlers", "handlers saw %v (%d of %d)", appGot, len(appGot), total)
			}
			return r
		}
	}
	return sc
}

// postsToFrames decodes recorded polling POST bodies (Engine.IO v4 payloads) into message frames.
func postsToFrames(posts []string) ([]wireFrame, error) {
	var out []wireFrame
	for _, body := range posts {
		for _, part := range strings.Split(body, "\x1e") {
			if part == "" {
				continue
			}
			switch part[0] {
			case '4':
				out = append(out, wireFrame{false, []byte(part[1:])})
			case 'b':
				b, err := base64.StdEncoding.DecodeString(part[1:])
				if err != nil {
					return nil, fmt.Errorf("bad base64 in POST body: %q", part)
				}
				out = append(out, wireFrame{true, b})
			}
		}
	}
	return out, nil
}

func clientWire(name string, plan [][]int, bound int) *vx.Scenario {
	sc := &vx.Scenario{Name: name, Bound: bound, Horizon: 10 * time.Second}
	sc.Body = func(e *vsched.Exec) func() vx.Result {
		vsched.SetExploring(false) // set-up (connection handshake) runs on the default schedule
		srv, mgr, link := vrig.NewSioPair(nil, nil)
		srv.OnConnection(func(s sio.ServerSocket) {})
		sock := mgr.Socket("/", nil)
		var v vsched.Var
		connected := false
		sock.OnConnect(func() { v.Do(func() { connected = true }) })
		sock.Connect()
		vsched.Await(func() bool { return connected })
		vrig.Settle(time.Second) // let the connection handshake finish completely
		vsched.SetExploring(true)
		for em := range plan {
			em := em
			vsched.GoQuiet(fmt.Sprintf("emitter%d", em), func() {
				for seq, natt := range plan[em] {
					sock.Emit("e", emitArgs(em, seq, natt)...)
				}
			})
		}
		return func() vx.Result {
			var r vx.Result
			frames, err := postsToFrames(link.Posts)
			if err != nil {
				r.Violate("client wire: POST body not decodable", "%v", err)
				return r
			}
			judgeWire(&r, "client", frames, plan)
			return r
		}
	}
	return sc
}

// clientWireConnecting: one goroutine emits its events in a row while the socket is still connecting (the
// first ones are buffered, the CONNECT reply arrives in between, the later ones are sent directly). The
// wire must still show them in program order.
func clientWireConnecting(name string, plan [][]int, bound int) *vx.Scenario {
	sc := &vx.Scenario{Name: name, Bound: bound, Horizon: 10 * time.Second}
	sc.Body = func(e *vsched.Exec) func() vx.Result {
		srv, mgr, link := vrig.NewSioPair(nil, nil)
		srv.OnConnection(func(s sio.ServerSocket) {})
		sock := mgr.Socket("/", nil)
		sock.Connect()
		for em := range plan {
			em := em
			vsched.GoQuiet(fmt.Sprintf("emitter%d", em), func() {
				for seq, natt := range plan[em] {
					sock.Emit("e", emitArgs(em, seq, natt)...)
				}
			})
		}
		return func() vx.Result {
			var r vx.Result
			frames, err := postsToFrames(link.Posts)
			if err != nil {
				r.Violate("client wire: POST body not decodable", "%v", err)
				return r
			}
			// the CONNECT packet ("0", no event) is skipped by the reference decoder's caller
			var ev []wireFrame
			for _, f := range frames {
				if !f.binary && len(f.data) > 0 && f.data[0] == '0' {
					continue
				}
				ev = append(ev, f)
			}
			judgeWire(&r, "client (emitting while it connects)", ev, plan)
			return r
		}
	}
	return sc
}

// serverWireThenDisconnect: one goroutine emits an event with attachments and then calls Disconnect(true) on the
// socket, over the real polling transport with a slow poller (the connection's sender is still busy with the
// event's frames when the close comes). What reaches the wire is a prefix of [header, attachments..., DISCONNECT]:
// the close may cut the stream short, but nothing overtakes and nothing lands between the frames of the packet.
func serverWireThenDisconnect(name string, natt int, pollDelay time.Duration, bound int) *vx.Scenario {
	sc := &vx.Scenario{Name: name, Bound: bound, Horizon: 30 * time.Second}
	sc.Body = func(e *vsched.Exec) func() vx.Result {
		vsched.SetExploring(false)
		srv, mgr, link := vrig.NewSioPair(nil, nil)
		var v vsched.Var
		var ssock sio.ServerSocket
		srv.OnConnection(func(s sio.ServerSocket) { v.Do(func() { ssock = s }) })
		sock := mgr.Socket("/", nil)
		connected := false
		sock.OnConnect(func() { v.Do(func() { connected = true }) })
		sock.Connect()
		vsched.Await(func() bool { return connected && ssock != nil })
		vrig.Settle(time.Second)
		slow := false
		link.OnRequest = func(n int, r *http.Request) bool {
			if r.Method == "GET" && slow && pollDelay > 0 {
				vsched.Sleep(pollDelay)
			}
			return false
		}
		v.Do(func() { slow = true })
		nGetBefore := 0
		link.V.Do(func() { nGetBefore = len(link.GetBodies) })
		vsched.SetExploring(true)
		vsched.GoQuiet("emitter-then-closer", func() {
			ssock.Emit("e", emitArgs(0, 0, natt)...)
			ssock.Disconnect(true)
		})
		return func() vx.Result {
			var r vx.Result
			frames, err := postsToFrames(link.GetBodies[nGetBefore:])
			if err != nil {
				r.Violate("server wire (polling transport): GET body not decodable", "%v", err)
				return r
			}
			var seq []string
			for _, f := range frames {
				switch {
				case f.binary:
					seq = append(seq, "attachment")
				case len(f.data) > 0 && (f.data[0] == '5' || f.data[0] == '2'):
					seq = append(seq, "header")
				case string(f.data) == "1":
					seq = append(seq, "DISCONNECT")
				default:
					seq = append(seq, "other:"+string(f.data))
				}
			}
			want := []string{"header"}
			for i := 0; i < natt; i++ {
				want = append(want, "attachment")
			}
			want = append(want, "DISCONNECT")
			r.Outcome = fmt.Sprint(seq)
			ok := len(seq) <= len(want)
			for i := 0; ok && i < len(seq); i++ {
				ok = seq[i] == want[i]
			}
			if !ok {
				r.Violate("server (polling transport) wire: the DISCONNECT of Disconnect(true) overtakes or cuts into the frames of a packet emitted before it",
					"frames on the wire %v; expected a prefix of %v", seq, want)
			}
			return r
		}
	}
	return sc
}

// serverWireFramesThenDisconnect: the same over a transport that writes packet by packet (rig R1 in frame-by-frame
// mode, as WebSocket does): whoever else writes to the connection while its sender is inside a batch lands
// between the frames of a packet.
//
// The bound has to be 4 here, not 3: Disconnect(true) blocks once on the way (onClose waits for the disconnecting
// handlers through a helper goroutine), and every hand-over around a blocked thread that does not go to the
// default thread costs a deviation as well - sender taken out of turn (1), back to the closer between two frames
// (2), the helper instead of the sender while the closer waits (3), the closer instead of the sender afterwards
// (4). VERIF_DUMP_TRACES showed the three-deviation search ending exactly one hand-over short of it.
func serverWireFramesThenDisconnect(name string, natt int, bound int) *vx.Scenario {
	sc := &vx.Scenario{Name: name, Bound: bound, Horizon: 10 * time.Second}
	sc.Body = func(e *vsched.Exec) func() vx.Result {
		vsched.SetExploring(false)
		srv := sio.NewServer(nil)
		var sock sio.ServerSocket
		var v vsched.Var
		srv.OnConnection(func(s sio.ServerSocket) { v.Do(func() { sock = s }) })
		f := vrig.NewFakeEIO(srv, "c02")
		f.ConnectNS("/")
		vsched.Await(func() bool { return sock != nil })
		vrig.Settle(time.Second)
		f.FrameByFrame = true
		before := len(f.Frames)
		vsched.SetExploring(true)
		vsched.GoQuiet("emitter-then-closer", func() {
			sock.Emit("e", emitArgs(0, 0, natt)...)
			sock.Disconnect(true)
		})
		return func() vx.Result {
			var r vx.Result
			var seq []string
			for _, fr := range f.Frames[before:] {
				switch {
				case fr.Binary:
					seq = append(seq, "attachment")
				case len(fr.Data) > 0 && (fr.Data[0] == '5' || fr.Data[0] == '2'):
					seq = append(seq, "header")
				case fr.Data == "1":
					seq = append(seq, "DISCONNECT")
				default:
					seq = append(seq, "other:"+fr.Data)
				}
			}
			want := []string{"header"}
			for i := 0; i < natt; i++ {
				want = append(want, "attachment")
			}
			want = append(want, "DISCONNECT")
			r.Outcome = fmt.Sprint(seq)
			ok := len(seq) <= len(want)
			for i := 0; ok && i < len(seq); i++ {
				ok = seq[i] == want[i]
			}
			if !ok {
				r.Violate("server wire: the DISCONNECT of Disconnect(true) overtakes or cuts into the frames of a packet emitted before it",
					"frames written %v; expected a prefix of %v", seq, want)
			}
			return r
		}
	}
	return sc
}

// clientWireFlushRace: the same, aimed at the moment the client handles the CONNECT reply (state change, flush
// of what was buffered while connecting). The first event of the emitter is buffered while the socket connects;
// the reply travels for L of virtual time; the emitter goes on with its other events exactly when the reply
// arrives, and only from that instant on the schedules are explored - the race between the flush and the
// emitter costs one or two deviations here instead of three from the start of the connection.
func clientWireFlushRace(name string, plan [][]int, bound int) *vx.Scenario {
	const L = 100 * time.Millisecond
	sc := &vx.Scenario{Name: name, Bound: bound, Horizon: 10 * time.Second}
	sc.Body = func(e *vsched.Exec) func() vx.Result {
		vsched.SetExploring(false)
		srv, mgr, link := vrig.NewSioPair(nil, nil)
		var v vsched.Var
		admitted := false
		srv.Use(func(s sio.ServerSocket, h *sio.Handshake) any {
			v.Do(func() { admitted = true })
			return nil
		})
		srv.OnConnection(func(s sio.ServerSocket) {})
		link.V.Do(func() { link.RespLatency = L })
		sock := mgr.Socket("/", nil)
		sock.Connect()
		started := 0
		for em := range plan {
			em := em
			vsched.GoQuiet(fmt.Sprintf("emitter%d", em), func() {
				for seq, natt := range plan[em] {
					if seq == 1 {
						// the server has admitted the socket: its reply is in flight and arrives L later
						vsched.Await(func() bool { return admitted })
						vsched.Sleep(L)
						v.Do(func() { started++ })
						vsched.SetExploring(true)
					}
					sock.Emit("e", emitArgs(em, seq, natt)...)
				}
			})
		}
		return func() vx.Result {
			var r vx.Result
			frames, err := postsToFrames(link.Posts)
			if err != nil {
				r.Violate("client wire: POST body not decodable", "%v", err)
				return r
			}
			var ev []wireFrame
			for _, f := range frames {
				if !f.binary && len(f.data) > 0 && f.data[0] == '0' {
					continue
				}
				ev = append(ev, f)
			}
			judgeWire(&r, "client (emitting while it connects)", ev, plan)
			return r
		}
	}
	return sc
}

// spreadSlice: the arguments are handed over as a spread slice that has spare capacity (built with append, as
// argument lists usually are), and the same slice is emitted twice: emitting does not change what it was given,
// so the slice is intact afterwards and both emissions put the same frames on the wire. Client (real polling POST
// bodies) and server (frames to the protocol-level client).
func spreadSlice(name string, server bool) *vx.Scenario {
	sc := &vx.Scenario{Name: name, Bound: 0, Horizon: 10 * time.Second}
	sc.Body = func(e *vsched.Exec) func() vx.Result {
		args := make([]any, 0, 8)
		args = append(args, 1, "x", map[string]any{"k": 2})
		before := fmt.Sprintf("%#v", args)
		var frames func() []string
		if server {
			srv := sio.NewServer(nil)
			var sock sio.ServerSocket
			var v vsched.Var
			srv.OnConnection(func(s sio.ServerSocket) { v.Do(func() { sock = s }) })
			f := vrig.NewFakeEIO(srv, "c02")
			f.ConnectNS("/")
			vsched.Await(func() bool { return sock != nil })
			sock.Emit("e", args...)
			sock.Emit("e", args...)
			sock.Timeout(time.Minute).Emit("e", append(args[:len(args):len(args)], func(error) {})...)
			vrig.Settle(time.Second)
			frames = func() []string {
				var out []string
				for _, t := range f.Texts() {
					if strings.HasPrefix(t, "2") {
						out = append(out, t)
					}
				}
				return out
			}
		} else {
			srv, mgr, link := vrig.NewSioPair(nil, nil)
			srv.OnConnection(func(s sio.ServerSocket) {})
			sock := mgr.Socket("/", nil)
			up := false
			var v vsched.Var
			sock.OnConnect(func() { v.Do(func() { up = true }) })
			sock.Connect()
			vsched.Await(func() bool { return up })
			sock.Emit("e", args...)
			sock.Emit("e", args...)
			sock.Volatile().Emit("e", args...)
			vrig.Settle(time.Second)
			frames = func() []string {
				fr, _ := postsToFrames(link.Posts)
				var out []string
				for _, f := range fr {
					if !f.binary && len(f.data) > 0 && f.data[0] == '2' {
						out = append(out, string(f.data))
					}
				}
				return out
			}
		}
		return func() vx.Result {
			var r vx.Result
			fr := frames()
			after := fmt.Sprintf("%#v", args)
			r.Outcome = fmt.Sprint(fr)
			side := "client"
			if server {
				side = "server"
			}
			if after != before {
				r.Violate(side+" emit: the argument slice handed to Emit(name, args...) was changed", "before %s, after %s; frames %q", before, after, fr)
			}
			want := `2["e",1,"x",{"k":2}]`
			for i, f := range fr {
				// (the third emission carries an ack id on the server side: compare from the payload on)
				if j := strings.IndexByte(f, '['); j < 0 || f[j:] != want[1:] {
					r.Violate(side+" emit: emitting the same argument slice again puts different frames on the wire", "emission %d: frame %q, expected payload %s; all frames %q", i+1, f, want[1:], fr)
				}
			}
			if len(fr) != 3 {
				r.Violate(side+" emit: emitting the same argument slice again puts different frames on the wire", "%d event frames for 3 emissions: %q", len(fr), fr)
			}
			return r
		}
	}
	return sc
}

// serverWireRecovery: per-emitter order ACROSS A CONNECTION STATE RECOVERY (ServerConnectionStateRecovery enabled).
// One goroutine emits its events one after another on the server socket it was given: event 0 reaches the peer
// (its offset is what the peer presents later), then the peer's connection goes away (transport close, a
// recoverable reason), events 1..missed are emitted while nobody is connected (they go to the session log), and
// the remaining events are emitted WHILE the peer comes back on a new connection with its pid and offset: the
// server restores the session, replays what was missed and connects the recovered socket, and the emitter's
// live events race with exactly that. Only this last phase is explored. What the peer sees on its two connections,
// one after the other, is parsed by the reference decoder (every packet contiguous, replayed ones included) and
// the events of the emitter must not go backwards: an event never arrives after a later one of the same emitter.
//
// The oracle asks for the ORDER only. Whether an event emitted during the hand-over is delivered exactly once
// (neither replayed and sent live, nor missed by both) is a statement about the recovery itself, not about C02;
// duplicates and gaps are visible in the outcome string and are not judged here.
func serverWireRecovery(name string, atts []int, missed int, bound int) *vx.Scenario {
	sc := &vx.Scenario{Name: name, Bound: bound, Horizon: 10 * time.Second}
	sc.Body = func(e *vsched.Exec) func() vx.Result {
		vsched.SetExploring(false) // first session, disconnection and the missed events run on the default schedule
		scfg := &sio.ServerConfig{}
		scfg.ServerConnectionStateRecovery.Enabled = true
		srv := sio.NewServer(scfg)
		var v vsched.Var
		var sock sio.ServerSocket
		srv.OnConnection(func(s sio.ServerSocket) {
			v.Do(func() {
				if sock == nil {
					sock = s // the emitter keeps the socket of the first session
				}
			})
		})
		f1 := vrig.NewFakeEIO(srv, "c02-first")
		f1.ConnectNS("/")
		vsched.Await(func() bool { return sock != nil })
		phase, done := 0, 0
		pid, offset := "", ""
		var f2 *vrig.FakeEIO
		// The peer's second connection is made by a thread of its own that exists BEFORE the emitter: the server handles
		// a CONNECT packet on a goroutine it spawns, a descendant of this thread, and the scheduler's default order is
		// the order of creation, ancestors first. So the default schedule lets the server restore and connect the session
		// and the emitter's live events come after it; every instruction of the restoration is then ONE preemption away
		// from the emitter (and "the emitter first" is one deviation away too), instead of two with the CONNECT fed by
		// the main thread (the emitter would run first by default, VERIF_DUMP_TRACES: hand-over to the CONNECT goroutine,
		// then back to the emitter).
		vsched.GoQuiet("returning-peer", func() {
			vsched.Await(func() bool { return phase >= 2 })
			auth, _ := json.Marshal(map[string]string{"pid": pid, "offset": offset})
			f2.In("0" + string(auth))
		})
		vsched.GoQuiet("emitter0", func() {
			for seq, natt := range atts {
				if seq >= 1 {
					vsched.Await(func() bool { return phase >= 1 }) // the peer is away
				}
				if seq >= 1+missed {
					vsched.Await(func() bool { return phase >= 2 }) // the peer is coming back
				}
				sock.Emit("e", emitArgs(0, seq, natt)...)
				v.Do(func() { done = seq + 1 })
			}
		})
		vsched.Await(func() bool { return done >= 1 })
		vrig.Settle(time.Second) // event 0 is on the wire
		pid, offset = recoveryCredentials(f1)
		if pid == "" || offset == "" {
			// no private session id / no offset on the wire: nothing to recover with (reported as a harness error)
			vsched.Await(func() bool { return false })
		}
		f1.TransportClose("transport close")
		vrig.Settle(time.Second)
		v.Do(func() { phase = 1 })
		vsched.Await(func() bool { return done >= 1+missed })
		vrig.Settle(time.Second)
		f2 = vrig.NewFakeEIO(srv, "c02-second")
		f2.SlowSend = true
		vsched.SetExploring(true)
		v.Do(func() { phase = 2 }) // the peer comes back and the emitter goes on, at once
		return func() vx.Result {
			var r vx.Result
			var frames []wireFrame
			for _, fr := range f1.Frames {
				frames = append(frames, wireFrame{fr.Binary, []byte(fr.Data)})
			}
			recovered := false
			for _, fr := range f2.Frames {
				frames = append(frames, wireFrame{fr.Binary, []byte(fr.Data)})
				if !fr.Binary && strings.HasPrefix(fr.Data, "0{") && strings.Contains(fr.Data, `"pid":"`+pid+`"`) {
					recovered = true
				}
			}
			evs, err := refDecode(frames)
			if err != nil {
				r.Violate("server wire (connection state recovery): frames of one packet not contiguous / stream not decodable", "%v", err)
				return r
			}
			var seqs []int
			for _, ev := range evs {
				if ev.emitter != 0 || ev.seq < 0 || ev.seq >= len(atts) {
					continue
				}
				if ev.attachments != atts[ev.seq] {
					r.Violate("server wire (connection state recovery): wrong attachment count", "seq %d: %d attachments, emitted %d", ev.seq, ev.attachments, atts[ev.seq])
				}
				seqs = append(seqs, ev.seq)
			}
			r.Outcome = fmt.Sprintf("recovered=%v seqs=%v", recovered, seqs)
			for i := 1; i < len(seqs); i++ {
				if seqs[i] < seqs[i-1] {
					r.Violate("server wire (connection state recovery): events of one emitter out of order (an event reaches the peer after a later one of the same emitter)",
						"the emitter emitted 0..%d one after another (0 before the disconnection, %d while the peer was away, the rest while it came back); the peer saw %v: %d after %d",
						len(atts)-1, missed, seqs, seqs[i], seqs[i-1])
					break
				}
			}
			return r
		}
	}
	return sc
}

// recoveryCredentials reads what a client needs to ask for its session again off the wire of its first connection: the
// private session id of the CONNECT reply and the offset (the extra last argument) of the last event it got.
func recoveryCredentials(f *vrig.FakeEIO) (pid, offset string) {
	for _, t := range f.Texts() {
		switch {
		case strings.HasPrefix(t, "0{"):
			var info struct {
				PID string `json:"pid"`
			}
			if json.Unmarshal([]byte(t[1:]), &info) == nil {
				pid = info.PID
			}
		case strings.HasPrefix(t, "2") || strings.HasPrefix(t, "5"):
			j := strings.IndexByte(t, '[')
			if j < 0 {
				continue
			}
			var arr []any
			if json.Unmarshal([]byte(t[j:]), &arr) != nil || len(arr) == 0 {
				continue
			}
			if s, ok := arr[len(arr)-1].(string); ok {
				offset = s
			}
		}
	}
	return pid, offset
}

// ---- (b) application level: handler-entry order

func orderKey(side string, sites []string) string {
	return fmt.Sprintf("%s app: handler-entry order differs from emission order (events dispatched on per-packet goroutines spawned at %s)", side, strings.Join(uniq(sites), "+"))
}

func uniq(s []string) []string {
	seen := map[string]bool{}
	var out []string
	for _, x := range s {
		if !seen[x] {
			seen[x] = true
			out = append(out, x)
		}
	}
	return out
}

// serverApp: the protocol-level client sends n events (one OnPacket call each, or all in one payload);
// the server-side handler records entry order.
func serverApp(name string, n int, onePayload bool, bound int) *vx.Scenario {
	sc := &vx.Scenario{Name: name, Bound: bound, Horizon: 10 * time.Second}
	sc.Body = func(e *vsched.Exec) func() vx.Result {
		vsched.SetExploring(false) // set-up (connection handshake) runs on the default schedule
		srv := sio.NewServer(nil)
		var v vsched.Var
		var order []int
		var sites []string
		ready := false
		srv.OnConnection(func(s sio.ServerSocket) {
			s.OnEvent("e", func(k int) {
				site := vsched.Self().Site
				v.Do(func() { order = append(order, k); sites = append(sites, site) })
			})
			v.Do(func() { ready = true })
		})
		f := vrig.NewFakeEIO(srv, "c02")
		f.ConnectNS("/")
		vsched.Await(func() bool { return ready })
		vsched.SetExploring(true)
		if onePayload {
			var ps []string
			for k := 0; k < n; k++ {
				ps = append(ps, fmt.Sprintf(`2["e",%d]`, k))
			}
			pkts := vrigMsgs(ps)
			f.InPackets(pkts...)
		} else {
			for k := 0; k < n; k++ {
				f.In(fmt.Sprintf(`2["e",%d]`, k))
			}
		}
		return func() vx.Result {
			var r vx.Result
			r.Outcome = fmt.Sprint(order)
			judgeOrder(&r, "server", order, sites, n)
			return r
		}
	}
	return sc
}

func judgeOrder(r *vx.Result, side string, order []int, sites []string, n int) {
	if len(order) != n {
		r.Violate(side+" app: events lost or duplicated", "handler ran for %v, %d events were sent", order, n)
		return
	}
	seen := map[int]bool{}
	for _, k := range order {
		if seen[k] {
			r.Violate(side+" app: events lost or duplicated", "handler ran for %v", order)
			return
		}
		seen[k] = true
	}
	for i, k := range order {
		if k != i {
			r.Violate(orderKey(side, sites), "handler entry order %v for events emitted 0..%d by one goroutine", order, n-1)
			return
		}
	}
}

// clientApp: a real server emits n events in a row to a Go client (rig R3); the client handler records
// entry order.
func clientApp(name string, n int, bound int) *vx.Scenario {
	sc := &vx.Scenario{Name: name, Bound: bound, Horizon: 10 * time.Second}
	sc.Body = func(e *vsched.Exec) func() vx.Result {
		vsched.SetExploring(false) // set-up (connection handshake) runs on the default schedule
		srv, mgr, _ := vrig.NewSioPair(nil, nil)
		var v vsched.Var
		var order []int
		var sites []string
		go1 := false
		srv.OnConnection(func(s sio.ServerSocket) {
			s.OnEvent("go", func() {
				for k := 0; k < n; k++ {
					s.Emit("e", k)
				}
			})
			v.Do(func() { go1 = true })
		})
		sock := mgr.Socket("/", nil)
		connected := false
		sock.OnConnect(func() { v.Do(func() { connected = true }) })
		sock.OnEvent("e", func(k int) {
			site := vsched.Self().Site
			v.Do(func() { order = append(order, k); sites = append(sites, site) })
		})
		sock.Connect()
		vsched.Await(func() bool { return connected && go1 })
		vrig.Settle(time.Second)
		vsched.SetExploring(true)
		sock.Emit("go")
		return func() vx.Result {
			var r vx.Result
			r.Outcome = fmt.Sprint(order)
			judgeOrder(&r, "client", order, sites, n)
			return r
		}
	}
	return sc
}

func scenarios(tier string) []*vx.Scenario {
	bw, ba := 4, 2
	if tier == "thorough" {
		bw, ba = 6, 3
	}
	if b := os.Getenv("C02_BOUND"); b != "" {
		bw, _ = strconv.Atoi(b)
	}
	s := []*vx.Scenario{
		serverWire("server-wire/2x1-binary", [][]int{{1}, {2}}, bw),
		serverWire("server-wire/2x2-mixed", [][]int{{0, 2}, {1, 0}}, bw),
		serverWire("server-wire/3x1", [][]int{{2}, {1}, {0}}, bw),
		serverWirePolling("server-wire-polling/1x4-attachments-4-1-0-2-each-flushed-alone-slow-poller", [][]int{{4, 1, 0, 2}}, time.Millisecond, time.Second, 1),
		serverWirePolling("server-wire-polling/2x3-mixed-slow-poller", [][]int{{4, 0, 1}, {0, 2, 0}}, time.Millisecond, time.Second, 1),
		serverWirePolling("server-wire-polling/2x2-mixed-no-gaps", [][]int{{2, 0}, {0, 1}}, 0, 0, bw-2),
		serverWireThenDisconnect("server-wire-polling/emit-2-attachments-then-Disconnect(true)-slow-poller", 2, time.Second, 1),
		serverWireThenDisconnect("server-wire-polling/emit-2-attachments-then-Disconnect(true)", 2, 0, bw-2),
		serverWireFramesThenDisconnect("server-wire/frame-by-frame/emit-2-attachments-then-Disconnect(true)", 2, bw),
		clientWire("client-wire/2x1-binary", [][]int{{1}, {2}}, bw-2),
		clientWire("client-wire/2x2-mixed", [][]int{{0, 2}, {1, 0}}, bw-2),
		clientWireConnecting("client-wire-connecting/1x3", [][]int{{0, 1, 0}}, bw-2),
		clientWireConnecting("client-wire-connecting/2x2", [][]int{{0, 1}, {1, 0}}, bw-2),
		clientWireFlushRace("client-wire-connecting/emitter-meets-the-CONNECT-reply/1x3", [][]int{{0, 1, 0}}, bw-1),
		clientWireFlushRace("client-wire-connecting/emitter-meets-the-CONNECT-reply/2x2", [][]int{{0, 1}, {1, 0}}, bw-2),
		serverWireRecovery("server-wire-recovery/1-delivered-2-missed-1-live-while-the-peer-recovers", []int{0, 0, 0, 0}, 2, bw-2),
		serverWireRecovery("server-wire-recovery/1-delivered-1-missed-binary-2-live-mixed-while-the-peer-recovers", []int{0, 2, 1, 0}, 1, bw-2),
		spreadSlice("spread-argument-slice-emitted-twice/client", false),
		spreadSlice("spread-argument-slice-emitted-twice/server", true),
		serverApp("server-app/2-separate-frames", 2, false, ba),
		serverApp("server-app/3-one-payload", 3, true, ba),
		clientApp("client-app/2", 2, ba),
	}
	if tier == "thorough" {
		s = append(s,
			serverWire("server-wire/3x2", [][]int{{2, 0}, {1, 1}, {0, 2}}, 4),
			clientWire("client-wire/3x1", [][]int{{2}, {1}, {0}}, 4),
			clientApp("client-app/3", 3, ba),
		)
	}
	for _, x := range s {
		x.Shards = 4
		if os.Getenv("C02_NOCACHE") == "1" {
			x.NoCache = true
		}
	}
	return s
}

func main() {
	vx.Main(vx.Config{
		Property: "C02",
		Level:    "model_checking",
		Rule: "deviation-bounded exploration of 2-3 concurrent emitters (1-2 events each, 0-2 attachments) on one connection: server side over a harness-implemented eio socket (slow Send), client side over the in-process polling link " +
			"(POST bodies decoded as Engine.IO payloads), and the server side again over the real Engine.IO polling transport with a slow poller (batches parked in the transport between polls while further flushes happen; GET bodies decoded; up to 4 attachments per event); the wire is parsed by a reference decoder written from the v5 protocol. Plus one emitter across a connection state recovery (server with ServerConnectionStateRecovery over the harness-implemented eio socket: 1 event delivered, 1-2 missed while the peer is away, 1-2 emitted while the peer comes back with its pid and offset; text and binary; only the order is judged, the events never go backwards on the peer's two connections). Plus handler-entry order of 2-3 events emitted in a row. Non-trivial = executions with >= 1 deviation",
		Scenarios: scenarios,
		Budget: func(tier string) time.Duration {
			if tier == "thorough" {
				return 15 * time.Minute
			}
			return 100 * time.Second
		},
		Assumptions: []string{
			"vsched semantics of Go primitives; the in-process RoundTripper stands in for TCP (a settled polling transport)",
			"the reference decoder only understands the packets this harness emits (events with two integer tags and Binary arguments)",
		},
	})
}

func vrigMsgs(ss []string) []*eioparser.Packet {
	var out []*eioparser.Packet
	for _, s := range ss {
		out = append(out, vrig.Msg(s))
	}
	return out
}
