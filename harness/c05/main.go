// C05: namespaces multiplexed on one connection are isolated from each other.
//
//  1. server: explicit-state BFS over protocol-level operation histories on 2 connections x look-alike
//     namespaces {"/", "/a", "/ab", "/a/b"} (+ one that does not exist), each history replayed on the
//     real sio.Server over rig R1 and compared with a reference routing model;
//  2. server: concurrent traffic of two connections in look-alike namespaces, explored to a bound;
//  3. Go client: a raw Engine.IO endpoint (the repo's eio.Server driven by the harness) answers the
//     CONNECTs of a 3-socket Manager in every order with events placed before/after each reply;
//  4. Go client <-> server: a second namespace is connected (and used at once) on an open connection;
//  5. 6. 7. leaving / rejoining a namespace around its admission, emits on a namespace that is not joined;
//  8. server: broadcasts in a namespace while a CONNECT for it is held undecided by a slow middleware.
package main

import (
	"encoding/json"
	"fmt"
	"sort"
	"strings"
	"time"

	sio "github.com/karagenc/socket.io-go"
	eio "github.com/karagenc/socket.io-go/engine.io"
	eioparser "github.com/karagenc/socket.io-go/engine.io/parser"
	vx "github.com/karagenc/socket.io-go/internal/vexplore"
	"github.com/karagenc/socket.io-go/internal/vrig"
	"github.com/karagenc/socket.io-go/internal/vsched"
)

var nss = []string{"/", "/a", "/ab", "/a/b"}

const ghostNS = "/zz" // never created on the server

func pfx(ns string) string {
	if ns == "/" {
		return ""
	}
	return ns + ","
}

// ---------------------------------------------------------------- 1. server BFS

type op struct {
	kind string // C E EA D NE SE XA
	conn int
	ns   string
	ns2  string
}

func (o op) String() string {
	switch o.kind {
	case "NE":
		return fmt.Sprintf("nsp(%s).Emit", o.ns)
	case "XA":
		return fmt.Sprintf("c%d:ack-race(%s,%s)", o.conn, o.ns, o.ns2)
	}
	return fmt.Sprintf("c%d:%s(%s)", o.conn, o.kind, o.ns)
}

const nconn = 2

// model: what must be observable.
type model struct {
	alive  [nconn]bool
	joined [nconn]map[string]bool
	frames [nconn][]string     // expected frames (normalised), in order per connection is not required: compared as multisets
	handl  map[string][]string // "c<conn><ns>" -> events the handlers of that socket saw
	disc   map[string][]string // disconnect reasons per socket
	conns  map[string]int      // connection handler runs per socket
	left   map[string]string   // socket key -> how it last left its namespace ("D" client, "SD" server kick, "CK" kicked by its connection handler)
}

func newModel() *model {
	m := &model{handl: map[string][]string{}, disc: map[string][]string{}, conns: map[string]int{}, left: map[string]string{}}
	for i := range m.alive {
		m.alive[i] = true
		m.joined[i] = map[string]bool{}
	}
	return m
}

func sk(c int, ns string) string { return fmt.Sprintf("c%d%s", c, ns) }

func (m *model) kill(c int, reason string) {
	if !m.alive[c] {
		return
	}
	m.alive[c] = false
	for ns := range m.joined[c] {
		m.disc[sk(c, ns)] = append(m.disc[sk(c, ns)], reason)
	}
	m.joined[c] = map[string]bool{}
}

func (m *model) key() string {
	var parts []string
	for c := 0; c < nconn; c++ {
		var j []string
		for ns := range m.joined[c] {
			j = append(j, ns)
		}
		sort.Strings(j)
		parts = append(parts, fmt.Sprintf("%v%v", m.alive[c], j))
	}
	// how a socket left is part of the state: the implementation's routing tables may differ afterwards
	// although the model's do not (a rejoin after each way of leaving is explored)
	var l []string
	for k, how := range m.left {
		l = append(l, k+"="+how)
	}
	sort.Strings(l)
	parts = append(parts, strings.Join(l, ","))
	return strings.Join(parts, "|")
}

func (m *model) apply(o op) {
	c := o.conn
	switch o.kind {
	case "C":
		if !m.alive[c] {
			return
		}
		if o.ns == ghostNS {
			m.frames[c] = append(m.frames[c], "4"+pfx(o.ns)+"{error}")
			return
		}
		if m.joined[c][o.ns] {
			m.kill(c, "forced") // several CONNECT packets for one namespace
			return
		}
		m.joined[c][o.ns] = true
		delete(m.left, sk(c, o.ns))
		m.frames[c] = append(m.frames[c], "0"+pfx(o.ns)+"{sid}")
		m.conns[sk(c, o.ns)]++
	case "CK":
		// CONNECT whose connection handler at once kicks the socket out of the namespace
		if !m.alive[c] {
			return
		}
		if m.joined[c][o.ns] {
			m.kill(c, "forced")
			return
		}
		m.frames[c] = append(m.frames[c], "0"+pfx(o.ns)+"{sid}", "1"+pfx(o.ns))
		m.conns[sk(c, o.ns)]++
		m.disc[sk(c, o.ns)] = append(m.disc[sk(c, o.ns)], "server namespace disconnect")
		m.left[sk(c, o.ns)] = "CK"
	case "SD":
		// the server application kicks the socket out of the namespace (ServerSocket.Disconnect(false))
		if m.alive[c] && m.joined[c][o.ns] {
			delete(m.joined[c], o.ns)
			m.frames[c] = append(m.frames[c], "1"+pfx(o.ns))
			m.disc[sk(c, o.ns)] = append(m.disc[sk(c, o.ns)], "server namespace disconnect")
			m.left[sk(c, o.ns)] = "SD"
		}
	case "E", "EA":
		if !m.alive[c] {
			return
		}
		if !m.joined[c][o.ns] {
			m.kill(c, "forced")
			return
		}
		if o.kind == "E" {
			m.handl[sk(c, o.ns)] = append(m.handl[sk(c, o.ns)], "ev")
		} else {
			m.handl[sk(c, o.ns)] = append(m.handl[sk(c, o.ns)], "eva")
			m.frames[c] = append(m.frames[c], "3"+pfx(o.ns)+`7["ok:`+o.ns+`"]`)
		}
	case "D":
		if !m.alive[c] {
			return
		}
		if !m.joined[c][o.ns] {
			m.kill(c, "forced")
			return
		}
		delete(m.joined[c], o.ns)
		m.disc[sk(c, o.ns)] = append(m.disc[sk(c, o.ns)], "client namespace disconnect")
		m.left[sk(c, o.ns)] = "D"
	case "NE":
		for i := 0; i < nconn; i++ {
			if m.alive[i] && m.joined[i][o.ns] {
				m.frames[i] = append(m.frames[i], "2"+pfx(o.ns)+`["bcast"]`)
			}
		}
	case "SE":
		if m.alive[c] && m.joined[c][o.ns] {
			m.frames[c] = append(m.frames[c], "2"+pfx(o.ns)+`["direct"]`)
		}
	case "XA":
		// the server asks for an ack on both namespaces; the client answers only on ns2
		if !m.alive[c] || !m.joined[c][o.ns] || !m.joined[c][o.ns2] {
			return
		}
		m.frames[c] = append(m.frames[c], "2"+pfx(o.ns)+`#["q"]`, "2"+pfx(o.ns2)+`#["q"]`)
		m.handl[sk(c, o.ns2)] = append(m.handl[sk(c, o.ns2)], "ackcb:"+o.ns2)
	}
}

func alphabet() []op {
	var ops []op
	for c := 0; c < nconn; c++ {
		for _, ns := range append(append([]string{}, nss...), ghostNS) {
			ops = append(ops, op{kind: "C", conn: c, ns: ns})
		}
		for _, ns := range nss {
			ops = append(ops, op{kind: "E", conn: c, ns: ns}, op{kind: "EA", conn: c, ns: ns}, op{kind: "D", conn: c, ns: ns}, op{kind: "SE", conn: c, ns: ns})
			if ns == "/a" || ns == "/ab" || ns == "/" {
				ops = append(ops, op{kind: "CK", conn: c, ns: ns}, op{kind: "SD", conn: c, ns: ns})
			}
		}
		ops = append(ops, op{kind: "XA", conn: c, ns: "/a", ns2: "/ab"}, op{kind: "XA", conn: c, ns: "/ab", ns2: "/a"}, op{kind: "XA", conn: c, ns: "/", ns2: "/a/b"})
	}
	for _, ns := range nss {
		ops = append(ops, op{kind: "NE", ns: ns})
	}
	return ops
}

// normalise a frame the server sent: strip sids, ack ids of server-originated requests, error texts.
func normalise(t string) string {
	typ := t[:1]
	rest := t[1:]
	ns := "/"
	if strings.HasPrefix(rest, "/") {
		i := strings.IndexByte(rest, ',')
		ns = rest[:i]
		rest = rest[i+1:]
	}
	switch typ {
	case "0":
		return "0" + pfx(ns) + "{sid}"
	case "4":
		return "4" + pfx(ns) + "{error}"
	case "2":
		j := 0
		for j < len(rest) && rest[j] >= '0' && rest[j] <= '9' {
			j++
		}
		if j > 0 {
			return "2" + pfx(ns) + "#" + rest[j:]
		}
	}
	return typ + pfx(ns) + rest
}

type real struct {
	v      vsched.Var
	srv    *sio.Server
	fs     [nconn]*vrig.FakeEIO
	handl  map[string][]string
	disc   map[string][]string
	conns  map[string]int
	socks  map[string]sio.ServerSocket
	connOf map[string]int // socket id -> connection index
	kick   map[sio.ServerSocket]bool
}

// replay runs a history on a fresh server and returns the first discrepancy with the model.
func replay(hist []op) (fail, kind string, steps int) {
	e := vsched.Run(vsched.Options{Horizon: 40 * time.Second}, func(e *vsched.Exec) {
		w := &real{srv: sio.NewServer(nil), handl: map[string][]string{}, disc: map[string][]string{}, conns: map[string]int{}, socks: map[string]sio.ServerSocket{}}
		// which connection does a new socket belong to? The harness tags each CONNECT with auth {"c":n}.
		for _, ns := range nss {
			ns := ns
			nsp := w.srv.Of(ns)
			nsp.Use(func(s sio.ServerSocket, h *sio.Handshake) any {
				c := 0
				if strings.Contains(string(h.Auth), `"c":1`) {
					c = 1
				}
				w.v.Do(func() {
					w.socks[sk(c, ns)] = s
					if strings.Contains(string(h.Auth), `"kick":true`) {
						if w.kick == nil {
							w.kick = map[sio.ServerSocket]bool{}
						}
						w.kick[s] = true
					}
				})
				return nil
			})
			nsp.OnConnection(func(s sio.ServerSocket) {
				var k string
				w.v.Do(func() {
					for kk, ss := range w.socks {
						if ss == s {
							k = kk
						}
					}
					w.conns[k]++
				})
				s.OnEvent("ev", func() { w.v.Do(func() { w.handl[k] = append(w.handl[k], "ev") }) })
				s.OnEvent("eva", func(ack func(string)) {
					w.v.Do(func() { w.handl[k] = append(w.handl[k], "eva") })
					ack("ok:" + ns)
				})
				s.OnDisconnect(func(r sio.Reason) { w.v.Do(func() { w.disc[k] = append(w.disc[k], string(r)) }) })
				kick := false
				w.v.Do(func() { kick = w.kick[s] })
				if kick {
					s.Disconnect(false)
				}
			})
		}
		for c := 0; c < nconn; c++ {
			w.fs[c] = vrig.NewFakeEIO(w.srv, fmt.Sprintf("conn%d", c))
		}
		m := newModel()
		for step, o := range hist {
			m.apply(o)
			f := w.fs[o.conn]
			kind0 := o.kind
			if f.Closed > 0 && (kind0 == "C" || kind0 == "CK" || kind0 == "E" || kind0 == "EA" || kind0 == "D") {
				kind0 = "-" // a closed connection delivers nothing any more
			}
			switch kind0 {
			case "C":
				f.In("0" + pfx(o.ns) + fmt.Sprintf(`{"c":%d}`, o.conn))
			case "CK":
				f.In("0" + pfx(o.ns) + fmt.Sprintf(`{"c":%d,"kick":true}`, o.conn))
			case "SD":
				var s sio.ServerSocket
				w.v.Do(func() { s = w.socks[sk(o.conn, o.ns)] })
				if s != nil && s.Connected() {
					s.Disconnect(false)
				}
			case "E":
				f.In("2" + pfx(o.ns) + `["ev"]`)
			case "EA":
				f.In("2" + pfx(o.ns) + `7["eva"]`)
			case "D":
				f.In("1" + pfx(o.ns))
			case "NE":
				w.srv.Of(o.ns).Emit("bcast")
			case "SE":
				var s sio.ServerSocket
				w.v.Do(func() { s = w.socks[sk(o.conn, o.ns)] })
				if s != nil && s.Connected() {
					s.Emit("direct")
				}
			case "XA":
				var s1, s2 sio.ServerSocket
				w.v.Do(func() { s1, s2 = w.socks[sk(o.conn, o.ns)], w.socks[sk(o.conn, o.ns2)] })
				if s1 != nil && s2 != nil && s1.Connected() && s2.Connected() {
					before := len(f.Frames)
					k1, k2 := sk(o.conn, o.ns), sk(o.conn, o.ns2)
					s1.Emit("q", func(r string) { w.v.Do(func() { w.handl[k1] = append(w.handl[k1], "ackcb:"+r) }) })
					s2.Emit("q", func(r string) { w.v.Do(func() { w.handl[k2] = append(w.handl[k2], "ackcb:"+r) }) })
					vrig.Settle(100 * time.Millisecond)
					// the client answers the request it got on ns2 only
					for _, fr := range f.Frames[before:] {
						t := fr.Data
						if strings.HasPrefix(t, "2"+pfx(o.ns2)) && !fr.Binary {
							rest := t[1+len(pfx(o.ns2)):]
							j := 0
							for j < len(rest) && rest[j] >= '0' && rest[j] <= '9' {
								j++
							}
							if j > 0 && strings.HasSuffix(rest, `["q"]`) {
								f.In("3" + pfx(o.ns2) + rest[:j] + `["` + o.ns2 + `"]`)
							}
						}
					}
				}
			}
			vrig.Settle(200 * time.Millisecond)
			// compare after every step
			for c := 0; c < nconn; c++ {
				var got []string
				for _, t := range w.fs[c].Texts() {
					got = append(got, normalise(t))
				}
				want := append([]string{}, m.frames[c]...)
				sort.Strings(got)
				sort.Strings(want)
				if fmt.Sprint(got) != fmt.Sprint(want) {
					fail = fmt.Sprintf("after step %d (%v): connection %d received %v, the routing model expects %v", step, o, c, got, want)
					kind = "frames delivered to a connection differ from the routing model"
					return
				}
				if (w.fs[c].Closed > 0) != !m.alive[c] {
					fail = fmt.Sprintf("after step %d (%v): connection %d closed=%v, model alive=%v", step, o, c, w.fs[c].Closed > 0, m.alive[c])
					kind = "connection closed / kept open against the routing model"
					return
				}
			}
			for _, tbl := range []struct {
				name      string
				got, want map[string][]string
			}{{"handler invocations", w.handl, m.handl}, {"disconnect reports", w.disc, m.disc}} {
				for _, k := range unionKeys(tbl.got, tbl.want) {
					g, wnt := tbl.got[k], tbl.want[k]
					if tbl.name == "disconnect reports" {
						// reasons for a killed connection: any forced/transport reason is fine, count matters
						if len(g) != len(wnt) {
							fail = fmt.Sprintf("after step %d (%v): socket %s disconnect reports %v, model %v", step, o, k, g, wnt)
							kind = "disconnect reported for the wrong namespace / wrong number of times"
							return
						}
						for i := range g {
							if wnt[i] != "forced" && g[i] != wnt[i] {
								fail = fmt.Sprintf("after step %d (%v): socket %s disconnect reports %v, model %v", step, o, k, g, wnt)
								kind = "disconnect reported with the wrong reason"
								return
							}
						}
						continue
					}
					if fmt.Sprint(g) != fmt.Sprint(wnt) {
						fail = fmt.Sprintf("after step %d (%v): socket %s %s %v, model %v", step, o, k, tbl.name, g, wnt)
						kind = "event or ack delivered to a handler of another namespace / lost"
						return
					}
				}
			}
			for _, ns := range nss {
				n := 0
				for c := 0; c < nconn; c++ {
					if m.joined[c][ns] {
						n++
					}
				}
				if got := len(w.srv.Of(ns).Sockets()); got != n {
					fail = fmt.Sprintf("after step %d (%v): namespace %s lists %d sockets, model %d", step, o, ns, got, n)
					kind = "namespace socket list differs from the model"
					return
				}
			}
		}
	})
	steps = e.Steps
	if e.HarnessErr != "" {
		replayHarnessErrs = append(replayHarnessErrs, fmt.Sprintf("history %v: %s", hist, e.HarnessErr))
	}
	if fail == "" && len(e.Panics) > 0 {
		fail, kind = e.Panics[0], "panic"
	}
	if fail == "" && e.Deadlock != "" {
		fail, kind = e.Deadlock, "deadlock"
	}
	return
}

// replayHarnessErrs: replays whose body did not run to its end (reported as harness errors by bfs).
var replayHarnessErrs []string

func unionKeys(a, b map[string][]string) []string {
	m := map[string]bool{}
	for k := range a {
		m[k] = true
	}
	for k := range b {
		m[k] = true
	}
	var out []string
	for k := range m {
		out = append(out, k)
	}
	sort.Strings(out)
	return out
}

func bfs(depth int, r *vx.Report, deadline time.Time) {
	ops := alphabet()
	type node struct{ hist []op }
	m0 := newModel()
	seen := map[string]bool{m0.key(): true}
	frontier := []node{{nil}}
	states, trans := 1, 0
	for d := 0; d < depth && len(frontier) > 0; d++ {
		var next []node
		for _, n := range frontier {
			for _, o := range ops {
				if time.Now().After(deadline) {
					r.CapsHit = append(r.CapsHit, fmt.Sprintf("server BFS: deadline at depth %d", d))
					goto done
				}
				hist := append(append([]op{}, n.hist...), o)
				fail, kind, steps := replay(hist)
				trans++
				r.Evaluations++
				r.Transitions += steps
				if len(hist) >= 2 {
					r.DistinctNontriv++
				}
				if fail != "" {
					r.Violate("server: "+kind+" ("+o.kind+")", fmt.Sprintf("history %v: %s", hist, fail), map[string]any{"part": "server-bfs", "history": fmt.Sprint(hist)})
					continue
				}
				m := newModel()
				for _, x := range hist {
					m.apply(x)
				}
				if k := m.key(); !seen[k] {
					seen[k] = true
					states++
					next = append(next, node{hist})
				}
			}
		}
		frontier = next
	}
done:
	r.HarnessErrs = append(r.HarnessErrs, replayHarnessErrs...)
	r.States += states
	r.TracesValidated += trans
	r.Extra["server_bfs"] = map[string]any{"canonical_states": states, "histories_replayed": trans, "depth": depth, "alphabet": len(ops)}
	r.Sample(map[string]any{"part": "server-bfs", "history": "c0:C(/a) c0:C(/ab) c0:ack-race(/a,/ab) nsp(/a).Emit"})
}

// ---------------------------------------------------------------- 2. server, concurrent

func serverConcurrent(name string, bound int) *vx.Scenario {
	sc := &vx.Scenario{Name: name, Bound: bound, Horizon: 20 * time.Second}
	sc.Body = func(e *vsched.Exec) func() vx.Result {
		srv := sio.NewServer(nil)
		var v vsched.Var
		got := map[string][]string{} // ns -> events seen by handlers of ns
		for _, ns := range []string{"/a", "/ab"} {
			ns := ns
			srv.Of(ns).OnConnection(func(s sio.ServerSocket) {
				s.OnEvent("ev", func(tag string) { v.Do(func() { got[ns] = append(got[ns], tag) }) })
			})
			// handlers are registered asynchronously after the CONNECT reply; register before traffic
		}
		f0, f1 := vrig.NewFakeEIO(srv, "k0"), vrig.NewFakeEIO(srv, "k1")
		vsched.GoQuiet("conn0", func() {
			f0.ConnectNS("/a")
			vrig.Settle(100 * time.Millisecond)
			f0.In(`2/a,["ev","0a"]`)
			srv.Of("/a").Emit("b", "to-a")
		})
		vsched.GoQuiet("conn1", func() {
			f1.ConnectNS("/ab")
			vrig.Settle(100 * time.Millisecond)
			f1.In(`2/ab,["ev","1ab"]`)
			srv.Of("/ab").Emit("b", "to-ab")
		})
		return func() vx.Result {
			var r vx.Result
			r.Outcome = fmt.Sprint(got, f0.Closed, f1.Closed)
			for ns, evs := range got {
				for _, tag := range evs {
					if (ns == "/a") != (tag == "0a") {
						r.Violate("server concurrent: event dispatched to a handler of another namespace", "handlers of %s saw %v", ns, evs)
					}
				}
			}
			for i, f := range []*vrig.FakeEIO{f0, f1} {
				other := "/ab,"
				if i == 1 {
					other = "/a,"
				}
				for _, t := range f.Texts() {
					if len(t) > 1 && strings.HasPrefix(t[1:], other) {
						r.Violate("server concurrent: frame of another namespace delivered to a connection that never joined it", "connection %d got %q", i, t)
					}
				}
			}
			if len(got["/a"]) != 1 || len(got["/ab"]) != 1 {
				r.Violate("server concurrent: event lost or duplicated", "%v", got)
			}
			return r
		}
	}
	return sc
}

// sharedConnectionBinary: two namespaces on ONE connection, the server sends binary events in both at the same
// time (socket emits and a namespace broadcast). On the shared wire every packet must keep its own
// attachments: a frame of one namespace never lands inside a packet of the other.
func sharedConnectionBinary(name string, bound int) *vx.Scenario {
	sc := &vx.Scenario{Name: name, Bound: bound, Horizon: 20 * time.Second}
	sc.Body = func(e *vsched.Exec) func() vx.Result {
		vsched.SetExploring(false)
		srv := sio.NewServer(nil)
		var v vsched.Var
		socks := map[string]sio.ServerSocket{}
		for _, ns := range []string{"/a", "/ab"} {
			ns := ns
			srv.Of(ns).OnConnection(func(s sio.ServerSocket) { v.Do(func() { socks[ns] = s }) })
		}
		f := vrig.NewFakeEIO(srv, "shared")
		f.SlowSend = true
		f.ConnectNS("/a")
		f.ConnectNS("/ab")
		vsched.Await(func() bool { return len(socks) == 2 })
		vrig.Settle(100 * time.Millisecond)
		before := len(f.Frames)
		vsched.SetExploring(true)
		vsched.GoQuiet("emit-a", func() { socks["/a"].Emit("e", sio.Binary("A1"), sio.Binary("A2")) })
		vsched.GoQuiet("emit-ab", func() { socks["/ab"].Emit("e", sio.Binary("B1")) })
		vsched.GoQuiet("broadcast-ab", func() { srv.Of("/ab").Emit("b", "text-only") })
		return func() vx.Result {
			var r vx.Result
			frames := f.Frames[before:]
			var show []string
			for _, fr := range frames {
				if fr.Binary {
					show = append(show, "<"+fr.Data+">")
				} else {
					show = append(show, fr.Data)
				}
			}
			r.Outcome = strings.Join(show, " ")
			packets := 0
			for i := 0; i < len(frames); i++ {
				fr := frames[i]
				if fr.Binary {
					r.Violate("shared connection: attachment torn from its packet", "frame %d is a binary frame where a header was expected; wire: %v", i, show)
					return r
				}
				packets++
				if !strings.HasPrefix(fr.Data, "5") {
					continue
				}
				n, tag := 0, byte('A')
				fmt.Sscanf(fr.Data[1:], "%d-", &n)
				if strings.Contains(fr.Data, "-/ab,") {
					tag = 'B'
				}
				for k := 1; k <= n; k++ {
					if i+k >= len(frames) || !frames[i+k].Binary || frames[i+k].Data[0] != tag {
						r.Violate("shared connection: a frame of another namespace inside a binary packet", "packet %q is followed by %v; wire: %v", fr.Data, show[i+1:minI(i+1+n, len(show))], show)
						return r
					}
				}
				i += n
			}
			if packets != 3 {
				r.Violate("shared connection: packet lost or duplicated", "%d packets on the wire, 3 emitted; wire: %v", packets, show)
			}
			return r
		}
	}
	return sc
}

func minI(a, b int) int {
	if a < b {
		return a
	}
	return b
}

// ---------------------------------------------------------------- 3. Go client against a raw Engine.IO endpoint (rig R2)

var perms = [][]int{{0, 1, 2}, {0, 2, 1}, {1, 0, 2}, {1, 2, 0}, {2, 0, 1}, {2, 1, 0}}

func clientOrders(name string, perm []int, early uint, bound int) *vx.Scenario {
	cns := []string{"/", "/a", "/ab"}
	sc := &vx.Scenario{Name: name, Bound: bound, Horizon: 20 * time.Second}
	sc.Body = func(e *vsched.Exec) func() vx.Result {
		var v vsched.Var
		var ssock eio.ServerSocket
		connects := map[string]bool{}
		es := eio.NewServer(func(s eio.ServerSocket) *eio.Callbacks {
			v.Do(func() { ssock = s })
			return &eio.Callbacks{OnPacket: func(ps ...*eioparser.Packet) {
				for _, p := range ps {
					if p.Type != eioparser.PacketTypeMessage {
						continue
					}
					t := string(p.Data)
					v.Do(func() {
						for _, ns := range cns {
							if strings.HasPrefix(t, "0"+pfx(ns)) && (ns != "/" || !strings.HasPrefix(t, "0/")) {
								connects[ns] = true
							}
						}
					})
				}
			}}
		}, &eio.ServerConfig{})
		link := &vrig.Inproc{H: es}
		mcfg := &sio.ManagerConfig{NoReconnection: true}
		mcfg.EIO.Transports = []string{"polling"}
		mcfg.EIO.HTTPTransport = link
		mgr := sio.NewManager("http://inproc/socket.io/", mcfg)
		got := map[string][]string{}
		connected := map[string]int{}
		for _, ns := range cns {
			ns := ns
			s := mgr.Socket(ns, nil)
			s.OnEvent("ev", func(tag string) { v.Do(func() { got[ns] = append(got[ns], tag) }) })
			s.OnConnect(func() { v.Do(func() { connected[ns]++ }) })
			s.Connect()
		}
		vsched.GoQuiet("raw-server", func() {
			vsched.Await(func() bool { return len(connects) == len(cns) && ssock != nil })
			for i, pi := range perm {
				ns := cns[pi]
				if early&(1<<uint(pi)) != 0 {
					ssock.Send(vrig.Msg("2" + pfx(ns) + `["ev","early` + ns + `"]`))
				}
				ssock.Send(vrig.Msg("0" + pfx(ns) + fmt.Sprintf(`{"sid":"sid%d"}`, i)))
				ssock.Send(vrig.Msg("2" + pfx(ns) + `["ev","late` + ns + `"]`))
			}
		})
		return func() vx.Result {
			var r vx.Result
			r.Outcome = fmt.Sprint(got, connected)
			for _, ns := range cns {
				nLate, nEarly := 0, 0
				for _, tag := range got[ns] {
					switch tag {
					case "late" + ns:
						nLate++
					case "early" + ns:
						nEarly++
					default:
						r.Violate("client: event of another namespace delivered to a socket's handler", "handlers of %s saw %v", ns, got[ns])
					}
				}
				if connected[ns] != 1 {
					r.Violate("client: socket not connected exactly once after its CONNECT was accepted", "%s: %d connects (%v)", ns, connected[ns], connected)
				}
				if nLate != 1 {
					r.Violate("client: event sent after the CONNECT reply lost or duplicated", "%s: %v", ns, got[ns])
				}
				if nEarly > 1 {
					r.Violate("client: event that arrived before the CONNECT reply delivered more than once", "%s: %v", ns, got[ns])
				}
			}
			return r
		}
	}
	return sc
}

// ---------------------------------------------------------------- 4. second namespace on an open connection

func secondNamespace(name string, emitAtOnce bool, bound int) *vx.Scenario {
	sc := &vx.Scenario{Name: name, Bound: bound, Horizon: 20 * time.Second}
	sc.Body = func(e *vsched.Exec) func() vx.Result {
		vsched.SetExploring(false)
		srv, mgr, _ := vrig.NewSioPair(nil, nil)
		var v vsched.Var
		srvGot := map[string][]string{}
		ready := map[string]bool{}
		for _, ns := range []string{"/", "/a"} {
			ns := ns
			srv.Of(ns).OnConnection(func(s sio.ServerSocket) {
				s.OnEvent("x", func(tag string) { v.Do(func() { srvGot[ns] = append(srvGot[ns], tag) }) })
				v.Do(func() { ready[ns] = true })
			})
		}
		root := mgr.Socket("/", nil)
		var rootLog []string
		rootUp := false
		root.OnConnect(func() { v.Do(func() { rootUp = true }) })
		root.OnDisconnect(func(r sio.Reason) { v.Do(func() { rootLog = append(rootLog, "disconnect:"+string(r)) }) })
		root.Connect()
		vsched.Await(func() bool { return rootUp && ready["/"] })
		vrig.Settle(time.Second)
		vsched.SetExploring(true)
		a := mgr.Socket("/a", nil)
		aUp := 0
		a.OnConnect(func() { v.Do(func() { aUp++ }) })
		a.Connect()
		if emitAtOnce {
			a.Emit("x", "first")
		}
		vsched.GoQuiet("later", func() {
			vsched.Await(func() bool { return aUp > 0 && ready["/a"] })
			a.Emit("x", "second")
			root.Emit("x", "root")
		})
		return func() vx.Result {
			var r vx.Result
			r.Outcome = fmt.Sprint(srvGot, rootLog, aUp)
			if len(rootLog) != 0 {
				r.Violate("client: connecting (and using) a second namespace disconnected the first one", "socket '/' saw %v; server handlers saw %v", rootLog, srvGot)
			}
			if aUp != 1 {
				r.Violate("client: second namespace did not connect on the open connection", "connect events: %d; '/' saw %v", aUp, rootLog)
			}
			for ns, evs := range srvGot {
				for _, tag := range evs {
					if (ns == "/") != (tag == "root") {
						r.Violate("client<->server: event dispatched in another namespace", "%v", srvGot)
					}
				}
			}
			return r
		}
	}
	return sc
}

// ---------------------------------------------------------------- 5. leaving a namespace around its connection handler, then rejoining
//
// A socket may leave its namespace while the server is still busy admitting it: the connection handler
// kicks it (ServerSocket.Disconnect(false)), another goroutine kicks every socket of the namespace, or the
// client sends DISCONNECT while a slow connection handler runs. Afterwards the connection must route
// exactly as if the namespace had never been joined: the other namespace keeps working, a new CONNECT
// for the namespace is admitted as a new socket, and the connection stays open.
func leaveAroundHandler(name, how string, bound int) *vx.Scenario {
	sc := &vx.Scenario{Name: name, Bound: bound, Horizon: 30 * time.Second}
	sc.Body = func(e *vsched.Exec) func() vx.Result {
		srv := sio.NewServer(nil)
		var v vsched.Var
		got := map[string][]string{}
		nconnK := 0
		disc := []string{}
		for _, ns := range []string{"/a", "/k"} {
			ns := ns
			// event handlers are registered in the middleware: the asynchronous connection handler is not
			// what this scenario is about
			srv.Of(ns).Use(func(s sio.ServerSocket, h *sio.Handshake) any {
				id := string(s.ID())
				s.OnEvent("ev", func(tag string) { v.Do(func() { got[ns] = append(got[ns], tag+"@"+id) }) })
				s.OnDisconnect(func(r sio.Reason) { v.Do(func() { disc = append(disc, ns+":"+string(r)) }) })
				return nil
			})
		}
		srv.Of("/a").OnConnection(func(s sio.ServerSocket) {})
		srv.Of("/k").OnConnection(func(s sio.ServerSocket) {
			n := 0
			v.Do(func() { nconnK++; n = nconnK })
			if n != 1 {
				return
			}
			switch how {
			case "handler-kicks":
				s.Disconnect(false)
			case "slow-handler-client-leaves":
				vsched.Sleep(2 * time.Second)
			}
		})
		f := vrig.NewFakeEIO(srv, "k0")
		f.In("0/a,")
		vrig.Settle(100 * time.Millisecond)
		f.In("0/k,")
		switch how {
		case "broadcast-kick-races-admission":
			// no settling: DisconnectSockets races the tail of the CONNECT processing
			srv.Of("/k").DisconnectSockets(false)
		case "slow-handler-client-leaves":
			vrig.Settle(time.Second)
			f.In("1/k,")
		}
		vrig.Settle(5 * time.Second)
		first := len(srv.Of("/k").Sockets())
		f.In("0/k,")
		vrig.Settle(time.Second)
		f.In(`2/k,["ev","k"]`)
		f.In(`2/a,["ev","a"]`)
		vrig.Settle(time.Second)
		return func() vx.Result {
			var r vx.Result
			replies := 0
			var sids []string
			for _, t := range f.Texts() {
				if strings.HasPrefix(t, "0/k,") {
					replies++
					sids = append(sids, t)
				}
			}
			kicked := first == 0
			r.Outcome = fmt.Sprintf("closed=%d replies=%d kicked=%v got=%v k-sockets=%d", f.Closed, replies, kicked, got, len(srv.Of("/k").Sockets()))
			ctx := fmt.Sprintf("%s: frames to the client %v; handlers saw %v; disconnects %v; /k lists %d sockets after the first round and %d at the end; connection closed %d times", how, f.Texts(), got, disc, first, len(srv.Of("/k").Sockets()), f.Closed)
			if !kicked {
				// (only possible for the racing broadcast kick: it ran before the socket was listed) the second
				// CONNECT is then a duplicate and closes the connection, as the routing model demands
				if how != "broadcast-kick-races-admission" {
					r.Violate("leave around the connection handler: the socket is still listed after it left", "%s", ctx)
				}
				return r
			}
			if f.Closed > 0 {
				r.Violate("leave around the connection handler: rejoining the namespace closed the connection", "%s", ctx)
				return r
			}
			if replies != 2 || (len(sids) == 2 && sids[0] == sids[1]) {
				r.Violate("leave around the connection handler: the new CONNECT was not admitted as a new socket", "%s", ctx)
			}
			if len(got["/a"]) != 1 {
				r.Violate("leave around the connection handler: the other namespace stopped working", "%s", ctx)
			}
			if len(got["/k"]) != 1 {
				r.Violate("leave around the connection handler: event for the rejoined namespace lost or dispatched to the socket that left", "%s", ctx)
			} else if len(sids) == 2 && !strings.Contains(sids[1], strings.SplitN(got["/k"][0], "@", 2)[1]) {
				r.Violate("leave around the connection handler: event for the rejoined namespace lost or dispatched to the socket that left", "%s", ctx)
			}
			if n := len(srv.Of("/k").Sockets()); n != 1 {
				r.Violate("leave around the connection handler: namespace socket list wrong after the rejoin", "%s", ctx)
			}
			return r
		}
	}
	return sc
}

// ---------------------------------------------------------------- 6. the client leaves a namespace while its CONNECT reply is in flight, then rejoins
//
// Two namespaces on one Manager. /b is connected and idle. /a is connected at t0; the server admits it at
// once and its CONNECT reply travels for L of virtual time; the client calls Disconnect() on /a at
// t0 + k*L/4 (reply in flight for k = 1..3, reply already processed for k = 5) and Connect() again later.
// Leaving and rejoining one namespace must leave the other one connected, and at the end /a works again:
// one socket on the server, one event delivered to it.
func leaveWhileReplyInFlight(name string, k int, bound int) *vx.Scenario {
	const L = time.Second
	sc := &vx.Scenario{Name: name, Bound: bound, Horizon: 60 * time.Second}
	sc.Body = func(e *vsched.Exec) func() vx.Result {
		vsched.SetExploring(false)
		srv, mgr, link := vrig.NewSioPair(nil, nil)
		var v vsched.Var
		got := map[string][]string{}
		var sdisc, cdisc []string
		for _, ns := range []string{"/a", "/b"} {
			ns := ns
			srv.Of(ns).Use(func(s sio.ServerSocket, h *sio.Handshake) any {
				id := string(s.ID())
				s.OnEvent("ev", func(tag string) { v.Do(func() { got[ns] = append(got[ns], tag+"@"+id) }) })
				s.OnDisconnect(func(r sio.Reason) { v.Do(func() { sdisc = append(sdisc, ns+":"+string(r)) }) })
				return nil
			})
			srv.Of(ns).OnConnection(func(s sio.ServerSocket) {})
		}
		up := map[string]int{}
		sock := map[string]sio.ClientSocket{}
		for _, ns := range []string{"/a", "/b"} {
			ns := ns
			s := mgr.Socket(ns, nil)
			s.OnConnect(func() { v.Do(func() { up[ns]++ }) })
			s.OnDisconnect(func(r sio.Reason) { v.Do(func() { cdisc = append(cdisc, ns+":"+string(r)) }) })
			sock[ns] = s
		}
		sock["/b"].Connect()
		vsched.Await(func() bool { return up["/b"] == 1 })
		vrig.Settle(time.Second)
		link.V.Do(func() { link.RespLatency = L })
		vsched.SetExploring(true)
		sock["/a"].Connect()
		vsched.Sleep(time.Duration(k) * L / 4)
		upAtLeave := 0
		v.Do(func() { upAtLeave = up["/a"] })
		sock["/a"].Disconnect()
		vsched.Sleep(4 * L)
		listedBetween := len(srv.Of("/a").Sockets())
		sock["/a"].Connect()
		vsched.Sleep(4 * L)
		sock["/a"].Emit("ev", "a")
		sock["/b"].Emit("ev", "b")
		vsched.Sleep(4 * L)
		return func() vx.Result {
			var r vx.Result
			na, nb := len(srv.Of("/a").Sockets()), len(srv.Of("/b").Sockets())
			r.Outcome = fmt.Sprintf("up=%v cdisc=%v sdisc=%v got=%v a=%d b=%d", up, cdisc, sdisc, len(got["/a"])*10+len(got["/b"]), na, nb)
			ctx := fmt.Sprintf("%s: '/a' Disconnect() %v after its Connect() (CONNECT reply takes %v; connected at that moment: %v), Connect() again 4 s later; client connect events %v, client disconnects %v, server disconnects %v; the server listed %d socket(s) in /a between the two connects and %d at the end (/b: %d); server handlers saw %v",
				name, time.Duration(k)*L/4, L, upAtLeave > 0, up, cdisc, sdisc, listedBetween, na, nb, got)
			for _, d := range cdisc {
				if strings.HasPrefix(d, "/b:") {
					r.Violate("client leaves and rejoins a namespace around its CONNECT reply: the other namespace was disconnected", "%s", ctx)
					return r
				}
			}
			if nb != 1 || len(got["/b"]) != 1 {
				r.Violate("client leaves and rejoins a namespace around its CONNECT reply: the other namespace stopped working", "%s", ctx)
			}
			if na != 1 || len(got["/a"]) != 1 {
				r.Violate("client leaves and rejoins a namespace around its CONNECT reply: the rejoined namespace does not work (one socket, one event expected)", "%s", ctx)
			}
			return r
		}
	}
	return sc
}

// ---------------------------------------------------------------- 7. emits on a namespace that is not joined, next to one that is
//
// Two namespaces on one Manager; /b is connected. /a is not joined - never connected, left with Disconnect(), or
// its CONNECT is still held by a slow middleware - and the application emits on it all the same: a plain event
// (kept until /a is connected), a volatile one (dropped), one with an ack. Nothing addressed to /a may reach the
// server before /a is joined (it would close the shared connection): /b stays connected and goes on working.
func emitOnUnjoinedNamespace(name, state string, bound int) *vx.Scenario {
	sc := &vx.Scenario{Name: name, Bound: bound, Horizon: 60 * time.Second}
	sc.Body = func(e *vsched.Exec) func() vx.Result {
		vsched.SetExploring(false)
		srv, mgr, _ := vrig.NewSioPair(nil, nil)
		var v vsched.Var
		got := map[string][]string{}
		var cdisc []string
		gate := make(chan struct{})
		for _, ns := range []string{"/a", "/b"} {
			ns := ns
			srv.Of(ns).Use(func(s sio.ServerSocket, h *sio.Handshake) any {
				if ns == "/a" && state == "connect-pending" {
					vsched.RecvStmt(gate) // slow middleware: the client's CONNECT stays pending
				}
				if ns == "/a" && state == "connect-rejected" {
					return fmt.Errorf("not for you") // CONNECT_ERROR: the namespace is not joined
				}
				s.OnEvent("ev", func(tag string) { v.Do(func() { got[ns] = append(got[ns], tag) }) })
				s.OnEvent("eva", func(tag string, ack func(string)) { v.Do(func() { got[ns] = append(got[ns], tag) }); ack("ok") })
				return nil
			})
			srv.Of(ns).OnConnection(func(s sio.ServerSocket) {})
		}
		up := map[string]int{}
		sock := map[string]sio.ClientSocket{}
		for _, ns := range []string{"/a", "/b"} {
			ns := ns
			s := mgr.Socket(ns, nil)
			s.OnConnect(func() { v.Do(func() { up[ns]++ }) })
			s.OnDisconnect(func(r sio.Reason) { v.Do(func() { cdisc = append(cdisc, ns+":"+string(r)) }) })
			sock[ns] = s
		}
		sock["/b"].Connect()
		vsched.Await(func() bool { return up["/b"] == 1 })
		switch state {
		case "left":
			sock["/a"].Connect()
			vsched.Await(func() bool { return up["/a"] == 1 })
			vrig.Settle(time.Second)
			sock["/a"].Disconnect()
		case "connect-pending", "connect-rejected":
			sock["/a"].Connect()
		}
		vrig.Settle(time.Second)
		vsched.SetExploring(true)
		a := sock["/a"]
		if state == "connect-rejected" {
			// the application tidies up the socket whose connection was refused
			a.Disconnect()
			vrig.Settle(time.Second)
		}
		a.Volatile().Emit("ev", "volatile")
		a.Emit("ev", "plain")
		a.Volatile().Emit("eva", "volatile-ack", func(string) {})
		vrig.Settle(2 * time.Second)
		sock["/b"].Emit("ev", "b1")
		if state == "connect-pending" {
			vsched.Close(gate)
		}
		vrig.Settle(2 * time.Second)
		sock["/b"].Emit("ev", "b2")
		vrig.Settle(2 * time.Second)
		return func() vx.Result {
			var r vx.Result
			r.Outcome = fmt.Sprintf("cdisc=%v got=%v up=%v", cdisc, got, up)
			ctx := fmt.Sprintf("%s: '/a' was %s when the application emitted a volatile event, a plain event and a volatile one with an ack on it; client disconnects %v; server handlers saw %v; connect events %v; the server lists %d socket(s) in /b", name, state, cdisc, got, up, len(srv.Of("/b").Sockets()))
			for _, d := range cdisc {
				if strings.HasPrefix(d, "/b:") {
					r.Violate("emit on a namespace that is not joined: the other namespace of the connection was disconnected", "%s", ctx)
					return r
				}
			}
			if fmt.Sprint(got["/b"]) != "[b1 b2]" {
				r.Violate("emit on a namespace that is not joined: the other namespace stopped working", "%s", ctx)
			}
			for _, tag := range got["/a"] {
				if strings.HasPrefix(tag, "volatile") && state != "connect-pending" {
					r.Violate("emit on a namespace that is not joined: a volatile event emitted while the namespace was not joined was delivered", "%s", ctx)
				}
			}
			return r
		}
	}
	return sc
}

// ---------------------------------------------------------------- 8. broadcasts in a namespace while a CONNECT for it is still undecided
//
// One connection is a member of /b and asks for /a; a middleware of /a takes its time (it blocks until the
// harness lets it decide) and then accepts or refuses. While it is undecided the application broadcasts in /a
// through every selector (nsp.Emit, nsp.To(room).Emit, a member's Broadcast().Emit and To(room).Emit) and in /b.
// The undecided socket may already have room memberships in /a: none, a room the middleware itself joined it to,
// or the rooms of a recovered session (connection state recovery with UseMiddlewares: rooms are restored before
// the middlewares run). Until the server has accepted the CONNECT the connection is not attached to /a: no event
// of /a may be written to it before the CONNECT reply, and none at all when the CONNECT is refused. /b goes on
// working, and a member of /a on another connection gets nothing of /b.
func broadcastWhileConnectUndecided(name, membership string, accept bool, bound int) *vx.Scenario {
	sc := &vx.Scenario{Name: name, Bound: bound, Horizon: 60 * time.Second}
	sc.Body = func(e *vsched.Exec) func() vx.Result {
		vsched.SetExploring(false)
		scfg := &sio.ServerConfig{}
		if membership == "recovered-session-rooms" {
			scfg.ServerConnectionStateRecovery.Enabled = true
			scfg.ServerConnectionStateRecovery.UseMiddlewares = true
		}
		srv := sio.NewServer(scfg)
		var v vsched.Var
		gate := make(chan struct{})
		entered, recovered := false, false
		var fastSocks []sio.ServerSocket
		a, b := srv.Of("/a"), srv.Of("/b")
		a.Use(func(s sio.ServerSocket, h *sio.Handshake) any {
			if strings.Contains(string(h.Auth), `"fast":true`) {
				v.Do(func() { fastSocks = append(fastSocks, s) })
				return nil
			}
			if membership == "middleware-joins-room" {
				s.Join("staff")
			}
			rec := s.Recovered()
			v.Do(func() { entered, recovered = true, rec })
			vsched.RecvStmt(gate) // slow middleware: the CONNECT stays undecided
			if !accept {
				return fmt.Errorf("not for you")
			}
			return nil
		})
		a.OnConnection(func(s sio.ServerSocket) {})
		var bSock sio.ServerSocket
		b.Use(func(s sio.ServerSocket, h *sio.Handshake) any { v.Do(func() { bSock = s }); return nil })
		b.OnConnection(func(s sio.ServerSocket) {})

		// a member of /a (and of its room "staff") on another connection
		peer := vrig.NewFakeEIO(srv, "peer")
		peer.In(`0/a,{"fast":true}`)
		peer.AwaitFrame("0/a,{")
		vsched.Await(func() bool { return len(fastSocks) == 1 })
		peerSock := fastSocks[0]
		peerSock.Join("staff")

		auth := ""
		if membership == "recovered-session-rooms" {
			// first life of the session: admitted, joined to "staff", sent one logged broadcast, then the transport is cut
			f0 := vrig.NewFakeEIO(srv, "k0-first-life")
			f0.In(`0/a,{"fast":true}`)
			f0.AwaitFrame("0/a,{")
			vsched.Await(func() bool { return len(fastSocks) == 2 })
			fastSocks[1].Join("staff")
			vrig.Settle(100 * time.Millisecond)
			a.Emit("ev", "logged")
			vrig.Settle(100 * time.Millisecond)
			var ids struct {
				PID string `json:"pid"`
			}
			var logged []string
			for _, t := range f0.Texts() {
				if strings.HasPrefix(t, "0/a,") {
					json.Unmarshal([]byte(t[len("0/a,"):]), &ids)
				}
				if strings.HasPrefix(t, "2/a,") && strings.Contains(t, `"logged"`) {
					json.Unmarshal([]byte(t[len("2/a,"):]), &logged)
				}
			}
			if ids.PID == "" || len(logged) != 3 {
				// no pid / offset from the first life of the session: not what this scenario judges (a Body that
				// does not return is reported as a harness error)
				vsched.Await(func() bool { return false })
			}
			f0.TransportClose(eio.ReasonTransportClose)
			vrig.Settle(time.Second)
			auth = fmt.Sprintf(`{"pid":%q,"offset":%q}`, ids.PID, logged[2])
		}

		f := vrig.NewFakeEIO(srv, "k0")
		f.ConnectNS("/b")
		vsched.Await(func() bool { return bSock != nil })
		bSock.Join("staff") // a room of the same name in the other namespace
		vrig.Settle(100 * time.Millisecond)
		vsched.SetExploring(true)

		vsched.GoQuiet("connect-a", func() { f.In("0/a," + auth) }) // returns when the middlewares have decided
		vsched.Await(func() bool { return entered })
		listedUndecided := len(a.Sockets())
		a.Emit("ev", "undecided:nsp.Emit")
		a.To("staff").Emit("ev", "undecided:nsp.To(room).Emit")
		peerSock.Broadcast().Emit("ev", "undecided:member.Broadcast().Emit")
		peerSock.To("staff").Emit("ev", "undecided:member.To(room).Emit")
		b.To("staff").Emit("ev", "b1")
		// the middleware cannot have decided yet: it is released only now
		vsched.Close(gate)
		vrig.Settle(2 * time.Second)
		listedDecided := len(a.Sockets())
		a.Emit("ev", "decided:nsp.Emit")
		b.To("staff").Emit("ev", "b2")
		vrig.Settle(2 * time.Second)

		return func() vx.Result {
			var r vx.Result
			// what the connection was sent, in wire order: CONNECT replies / errors by type, events by their tag
			var wire []string
			reply := -1
			var early, bGot []string
			decidedEv, aEvents := 0, 0
			for _, t := range f.Texts() {
				switch {
				case strings.HasPrefix(t, "0/a,"):
					reply = len(wire)
					wire = append(wire, "CONNECT(/a)")
				case strings.HasPrefix(t, "4/a,"):
					wire = append(wire, "CONNECT_ERROR(/a)")
				case strings.HasPrefix(t, "0/b,"):
					wire = append(wire, "CONNECT(/b)")
				case strings.HasPrefix(t, "2/a,") || strings.HasPrefix(t, "2/b,"):
					var args []string
					json.Unmarshal([]byte(t[len("2/a,"):]), &args)
					tag := "?"
					if len(args) >= 2 {
						tag = args[1]
					}
					wire = append(wire, t[1:3]+":"+tag)
					if strings.HasPrefix(t, "2/b,") {
						bGot = append(bGot, tag)
						continue
					}
					aEvents++
					if strings.HasPrefix(tag, "undecided:") && reply < 0 {
						early = append(early, strings.TrimPrefix(tag, "undecided:"))
					}
					if tag == "decided:nsp.Emit" {
						decidedEv++
					}
				default:
					wire = append(wire, t)
				}
			}
			r.Outcome = fmt.Sprintf("wire=%v closed=%d listed=%d/%d recovered=%v", wire, f.Closed, listedUndecided, listedDecided, recovered)
			verdict := "refuses"
			if accept {
				verdict = "accepts"
			}
			ctx := fmt.Sprintf("%s: the connection is a member of /b; its CONNECT for /a (room memberships of the socket in /a: %s; session recovered: %v) is held by a middleware that later %s; while it is undecided the application broadcasts in /a (nsp.Emit, nsp.To(room).Emit, a member's Broadcast().Emit and To(room).Emit) and in /b, and once more in both after the decision; the connection was sent %v (closed %d times); /a listed %d socket(s) while the CONNECT was undecided (1 member on another connection) and %d after the decision; the member of /a on the other connection was sent %v",
				name, membership, recovered, verdict, wire, f.Closed, listedUndecided, listedDecided, peer.Texts())
			if len(early) > 0 {
				r.Violate("broadcast while a CONNECT is undecided: an event of the namespace was written to the connection before the server accepted its CONNECT", "%s; selectors that reached it: %v", ctx, early)
			}
			if !accept && aEvents > 0 {
				r.Violate("broadcast while a CONNECT is undecided: an event of the namespace was written to a connection whose CONNECT was refused", "%s", ctx)
			}
			if listedUndecided != 1 || (!accept && listedDecided != 1) {
				r.Violate("broadcast while a CONNECT is undecided: the namespace lists a socket whose CONNECT it has not accepted", "%s", ctx)
			}
			if f.Closed > 0 || fmt.Sprint(bGot) != "[b1 b2]" {
				r.Violate("broadcast while a CONNECT is undecided: the other namespace of the connection stopped working", "%s", ctx)
			}
			if accept && (reply < 0 || decidedEv != 1 || listedDecided != 2) {
				r.Violate("broadcast while a CONNECT is undecided: the namespace does not work after the CONNECT was accepted (CONNECT reply, one event, two sockets listed expected)", "%s", ctx)
			}
			for _, t := range peer.Texts() {
				if len(t) > 1 && strings.HasPrefix(t[1:], "/b,") {
					r.Violate("broadcast while a CONNECT is undecided: frame of another namespace delivered to a connection that never joined it", "%s", ctx)
				}
			}
			return r
		}
	}
	return sc
}

func scenarios(tier string) []*vx.Scenario {
	b := 1
	if tier == "thorough" {
		b = 2
	}
	s := []*vx.Scenario{serverConcurrent("server-concurrent/two-connections-lookalike-namespaces", b+1), sharedConnectionBinary("server-concurrent/one-connection-two-namespaces-binary", b+2)}
	for i, p := range perms {
		earlies := []uint{0, 7}
		if tier == "thorough" {
			earlies = []uint{0, 1, 2, 3, 4, 5, 6, 7}
		}
		for _, early := range earlies {
			s = append(s, clientOrders(fmt.Sprintf("client-connect-replies/order%d-early%03b", i, early), p, early, b))
		}
	}
	s = append(s, secondNamespace("second-namespace/connect-then-use-later", false, b+1), secondNamespace("second-namespace/connect-and-emit-at-once", true, b+1))
	for _, how := range []string{"handler-kicks", "broadcast-kick-races-admission", "slow-handler-client-leaves"} {
		sc := leaveAroundHandler("leave-around-connection-handler/"+how, how, b+2)
		sc.Shards = 8
		s = append(s, sc)
	}
	for _, st := range []string{"never-connected", "left", "connect-pending", "connect-rejected"} {
		s = append(s, emitOnUnjoinedNamespace("emit-on-a-namespace-that-is-not-joined/"+st, st, b))
	}
	for _, k := range []int{1, 2, 3, 5} {
		s = append(s, leaveWhileReplyInFlight(fmt.Sprintf("client-leaves-while-connect-reply-in-flight/disconnect-at-%d-quarters-of-the-latency", k), k, b))
	}
	for _, mem := range []string{"no-room", "middleware-joins-room", "recovered-session-rooms"} {
		for _, accept := range []bool{true, false} {
			verdict := "refused"
			if accept {
				verdict = "accepted"
			}
			s = append(s, broadcastWhileConnectUndecided("broadcast-while-connect-undecided/"+mem+"-then-"+verdict, mem, accept, b))
		}
	}
	return s
}

func main() {
	vx.Main(vx.Config{
		Property: "C05",
		Level:    "model_checking",
		Rule: "server: explicit-state BFS (canonical state = joined namespaces per connection + how each socket that left did so, so that a rejoin after every way of leaving is explored) over histories of CONNECT / CONNECT-whose-connection-handler-kicks / EVENT / EVENT+ack / DISCONNECT / server-side kick / nsp.Emit / socket.Emit / cross-namespace ack race on 2 connections x {'/', '/a', '/ab', '/a/b', a non-existent one}, every history replayed on the real server and compared with a routing model after every step; " +
			"concurrent connections in look-alike namespaces, and concurrent binary emits in two namespaces sharing one connection (frames of one packet stay together on the shared wire), explored to the bound; Go client: all 6 orders of CONNECT replies x early/late event placements against a raw Engine.IO endpoint; second namespace on an open connection; a socket leaving its namespace around its connection handler (kicked by the handler, kicked by a racing DisconnectSockets, client DISCONNECT during a slow handler) followed by a rejoin, explored to the bound; the Go client leaving a namespace while its CONNECT reply is in flight (latency L on poll answers, Disconnect() at k*L/4) and rejoining it, next to an idle second namespace on the same Manager; broadcasts in a namespace (nsp.Emit, nsp.To(room).Emit, a member's Broadcast().Emit / To(room).Emit) while a CONNECT for it is held undecided by a slow middleware that then accepts / refuses, on a connection that is a member of another namespace, with the undecided socket in no room / in a room its middleware joined / in the rooms of a recovered session (UseMiddlewares): nothing of the namespace on the wire before the CONNECT reply, nothing at all after a refusal. distinct_nontrivial = histories of length >= 2 + deviating schedules",
		Scenarios: scenarios,
		Budget: func(tier string) time.Duration {
			if tier == "thorough" {
				return 12 * time.Minute
			}
			return 90 * time.Second
		},
		Extra: func(tier string, r *vx.Report) {
			depth, budget := 3, 80*time.Second
			if tier == "thorough" {
				depth, budget = 4, 11*time.Minute
			}
			bfs(depth, r, time.Now().Add(budget))
		},
		Assumptions: []string{
			"rigs R1 (harness-implemented eio socket) and R2 (the repo's eio.Server driven by the harness as a raw Socket.IO endpoint)",
			"routing model: a packet for (connection, namespace) is dispatched iff the namespace was joined by an accepted CONNECT; otherwise the connection is closed",
		},
	})
}
