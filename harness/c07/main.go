// C07: a transport upgrade loses, duplicates and breaks nothing.
//
// Real eio client and server over the in-process polling link (rig R3); the upgrade candidate is the
// duplex pipe of rig R4 handed to the REAL upgrade state machines (clientSocket.tryUpgradeTo,
// Server.maybeUpgrade, upgradeTo / finishUpgradeTo, polling Discard / NOOP / QueuedPackets re-send).
// Numbered text and binary messages flow both ways while the upgrade happens; every failure step of
// the candidate transport is enumerated.
package main

import (
	"fmt"
	"net/http"
	"net/http/httptest"
	"sort"
	"strings"
	"time"

	eio "github.com/karagenc/socket.io-go/engine.io"
	eioparser "github.com/karagenc/socket.io-go/engine.io/parser"
	"github.com/karagenc/socket.io-go/engine.io/transport"
	vx "github.com/karagenc/socket.io-go/internal/vexplore"
	"github.com/karagenc/socket.io-go/internal/vrig"
	"github.com/karagenc/socket.io-go/internal/vsched"
)

type fault struct {
	name   string
	set    func(d *vrig.Duplex)
	expect string // "upgraded" | "stays-polling" | "may-close"
}

var faults = []fault{
	{"none", func(d *vrig.Duplex) {}, "upgraded"},
	{"handshake-refused", func(d *vrig.Duplex) { d.RefuseHandshake = true }, "stays-polling"},
	{"probe-ping-lost", func(d *vrig.Duplex) { d.DropC2S[0] = true }, "stays-polling"},
	{"probe-pong-lost", func(d *vrig.Duplex) { d.DropS2C[0] = true }, "stays-polling"},
	{"cut-before-probe-ping", func(d *vrig.Duplex) { d.CutBeforeC2S = 0 }, "stays-polling"},
	{"cut-before-probe-pong", func(d *vrig.Duplex) { d.CutBeforeS2C = 0 }, "stays-polling"},
	// the client has swapped transports once it sends UPGRADE: a loss from here on may end the connection
	{"cut-before-UPGRADE-packet", func(d *vrig.Duplex) { d.CutBeforeC2S = 1 }, "may-close"},
	{"UPGRADE-packet-lost", func(d *vrig.Duplex) { d.DropC2S[1] = true }, "may-close"},
}

func msg(s string, binary bool) *eioparser.Packet {
	p, _ := eioparser.NewPacket(eioparser.PacketTypeMessage, binary, []byte(s))
	return p
}

type side struct {
	v     vsched.Var
	got   []string
	close []string
	errs  []string
}

func (s *side) onPacket(ps ...*eioparser.Packet) {
	for _, p := range ps {
		if p.Type == eioparser.PacketTypeMessage {
			d := string(p.Data)
			s.v.Do(func() { s.got = append(s.got, d) })
		}
	}
}

// scenario: nmsg messages each way; the senders run concurrently with the upgrade; `late` messages are
// sent after the upgrade attempt is over.
func scenario(f fault, nmsg int, bound int, quietSetup bool) *vx.Scenario {
	sc := &vx.Scenario{Name: fmt.Sprintf("%s/%d+%d-messages", f.name, nmsg, nmsg), Bound: bound, Horizon: 2 * time.Minute}
	sc.Body = func(e *vsched.Exec) func() vx.Result {
		vsched.SetExploring(false)
		var srvSide, cliSide side
		var ssock eio.ServerSocket
		var sv vsched.Var
		srv := eio.NewServer(func(s eio.ServerSocket) *eio.Callbacks {
			sv.Do(func() { ssock = s })
			return &eio.Callbacks{
				OnPacket: srvSide.onPacket,
				OnError:  func(err error) { srvSide.v.Do(func() { srvSide.errs = append(srvSide.errs, err.Error()) }) },
				OnClose: func(r eio.Reason, err error) {
					srvSide.v.Do(func() { srvSide.close = append(srvSide.close, string(r)) })
				},
			}
		}, &eio.ServerConfig{PingInterval: 10 * time.Minute, PingTimeout: 10 * time.Minute, UpgradeTimeout: 5 * time.Second})
		link := &vrig.Inproc{H: srv}
		upgradeDone := 0
		cs, err := eio.Dial("http://inproc/engine.io/", &eio.Callbacks{
			OnPacket: cliSide.onPacket,
			OnError:  func(err error) { cliSide.v.Do(func() { cliSide.errs = append(cliSide.errs, err.Error()) }) },
			OnClose: func(r eio.Reason, err error) {
				cliSide.v.Do(func() { cliSide.close = append(cliSide.close, string(r)) })
			},
		}, &eio.ClientConfig{Transports: []string{"polling"}, HTTPTransport: link, UpgradeTimeout: 5 * time.Second,
			UpgradeDone: func(name string) { cliSide.v.Do(func() { upgradeDone++ }) }})
		if err != nil {
			e.Fail("dial: %v", err)
			return nil
		}
		vsched.Await(func() bool { return ssock != nil })
		vrig.Settle(time.Second)
		if !quietSetup {
			vsched.SetExploring(true)
		}
		ccb, scb := transport.NewCallbacks(), transport.NewCallbacks()
		d := vrig.NewDuplex(ccb, scb)
		f.set(d)
		d.OnClientHandshake = func() {
			// the server accepts the candidate connection: the server half of the upgrade starts
			vsched.GoQuiet("server-maybeUpgrade", func() {
				req, _ := http.NewRequest("GET", "http://inproc/engine.io/?EIO=4&transport=webtransport", nil)
				srv.VerifMaybeUpgrade(httptest.NewRecorder(), req, ssock, d.Server(), scb)
			})
		}
		attemptOver := false
		var tryOK bool
		vsched.SetExploring(true)
		vsched.GoQuiet("client-upgrader", func() {
			ok := eio.VerifTryUpgradeTo(cs, d.C, ccb)
			cliSide.v.Do(func() { tryOK = ok; attemptOver = true })
		})
		var wantSrv, wantCli []string
		for i := 0; i < nmsg; i++ {
			wantSrv = append(wantSrv, fmt.Sprintf("c%d", i))
			wantCli = append(wantCli, fmt.Sprintf("s%d", i))
		}
		vsched.GoQuiet("client-sender", func() {
			for i := 0; i < nmsg; i++ {
				cs.Send(msg(fmt.Sprintf("c%d", i), i%2 == 1))
			}
		})
		vsched.GoQuiet("server-sender", func() {
			for i := 0; i < nmsg; i++ {
				ssock.Send(msg(fmt.Sprintf("s%d", i), i%2 == 1))
			}
		})
		// after the attempt is over (and, for a stalled one, the upgrade timeout has passed): more traffic
		vsched.GoQuiet("late-traffic", func() {
			vsched.Await(func() bool { return attemptOver })
			vsched.Sleep(10 * time.Second)
			cs.Send(msg("c-late", false))
			ssock.Send(msg("s-late", true))
		})
		wantSrv = append(wantSrv, "c-late")
		wantCli = append(wantCli, "s-late")
		return func() vx.Result {
			var r vx.Result
			key := func(w string) string { return fmt.Sprintf("upgrade (%s): %s", f.name, w) }
			closed := len(srvSide.close) > 0 || len(cliSide.close) > 0
			cmp := func(who string, got, want []string) {
				g := append([]string{}, got...)
				w := append([]string{}, want...)
				sort.Strings(g)
				sort.Strings(w)
				if fmt.Sprint(g) == fmt.Sprint(w) {
					return
				}
				cnt := map[string]int{}
				for _, x := range g {
					cnt[x]++
				}
				kind := "message lost"
				for _, n := range cnt {
					if n > 1 {
						kind = "message duplicated"
					}
				}
				if closed && f.expect == "may-close" && kind == "message lost" {
					return // the connection ended after the client had swapped: reported, not silent (C06's subject)
				}
				r.Violate(key(kind+" on its way to the "+who), "%s received %v, sent %v; closes: server %v client %v; errors: server %v client %v", who, g, w, srvSide.close, cliSide.close, srvSide.errs, cliSide.errs)
			}
			cmp("server", srvSide.got, wantSrv)
			cmp("client", cliSide.got, wantCli)
			sname := eio.VerifServerTransportName(ssock)
			cname := cs.TransportName()
			switch f.expect {
			case "upgraded":
				if closed {
					r.Violate(key("connection closed by a fault-free upgrade"), "server %v client %v", srvSide.close, cliSide.close)
				}
				if !tryOK || upgradeDone != 1 || sname != "webtransport" || cname != "webtransport" {
					r.Violate(key("fault-free upgrade did not complete on both sides"), "tryUpgradeTo=%v UpgradeDone=%d server transport %s client transport %s; errors: server %v client %v", tryOK, upgradeDone, sname, cname, srvSide.errs, cliSide.errs)
				}
			case "stays-polling":
				if closed {
					r.Violate(key("failed upgrade attempt closed the connection"), "server %v client %v; errors: server %v client %v", srvSide.close, cliSide.close, srvSide.errs, cliSide.errs)
				}
				if tryOK || upgradeDone != 0 || sname != "polling" || cname != "polling" {
					r.Violate(key("connection not on its original transport after a failed attempt"), "tryUpgradeTo=%v UpgradeDone=%d server transport %s client transport %s", tryOK, upgradeDone, sname, cname)
				}
			case "may-close":
				if !closed && (sname != cname) {
					r.Violate(key("the two sides disagree about the transport and nobody noticed"), "server transport %s client transport %s, no close reported; server got %v client got %v", sname, cname, srvSide.got, cliSide.got)
				}
			}
			r.Outcome = fmt.Sprintf("srv=%v cli=%v close=%v/%v t=%s/%s", len(srvSide.got), len(cliSide.got), srvSide.close, cliSide.close, sname, cname)
			if strings.Contains(r.Outcome, "panic") {
				r.Violate(key("panic"), "%s", r.Outcome)
			}
			return r
		}
	}
	return sc
}

func scenarios(tier string) []*vx.Scenario {
	b, n := 2, 2
	if tier == "thorough" {
		b, n = 3, 3
	}
	var s []*vx.Scenario
	for _, f := range faults {
		bb := b
		if f.name != "none" {
			bb = b - 1
		}
		sc := scenario(f, n, bb, true)
		sc.Shards = 6
		s = append(s, sc)
	}
	if tier == "thorough" {
		// the fault-free upgrade with one message each way exactly around the swap, one level deeper
		deep := scenario(faults[0], 1, b+1, true)
		deep.Name = "none/1+1-messages-deeper"
		deep.Shards = 12
		s = append(s, deep)
	}
	return s
}

func main() {
	vx.Main(vx.Config{
		Property:  "C07",
		Level:     "model_checking",
		Rule:      "real Engine.IO client and server over the in-process polling link; a client sender and a server sender (numbered text/binary messages) run concurrently with the real upgrade state machines driven over a reliable duplex pipe as candidate transport; all schedules to the deviation bound (thread choices and select choices), for the fault-free upgrade and for every failure step of the candidate (handshake refused, probe ping/pong lost = stall until the upgrade timeout, cut before ping / pong / UPGRADE, UPGRADE lost). distinct_nontrivial = deviating schedules",
		Scenarios: scenarios,
		Budget: func(tier string) time.Duration {
			if tier == "thorough" {
				return 15 * time.Minute
			}
			return 90 * time.Second
		},
		Assumptions: []string{
			"rig R4: the candidate transport is a reliable ordered message pipe named 'webtransport' (the name the real code accepts a ready transport for); the real nhooyr WebSocket / QUIC byte transports are not under the scheduler",
			"a loss after the client has sent UPGRADE (it has swapped transports by then) may end the connection; that must be reported by a close, never silent",
			"vsched semantics; virtual time (upgrade timeout 5 s)",
		},
	})
}
