// C07: a transport upgrade loses, duplicates and breaks nothing.
//
// Real eio client and server over the in-process polling link (rig R3); the upgrade candidate is the
// duplex pipe of rig R4 handed to the REAL upgrade state machines (clientSocket.tryUpgradeTo,
// Server.maybeUpgrade, upgradeTo / finishUpgradeTo, polling Discard / NOOP / QueuedPackets re-send).
// Numbered text and binary messages flow both ways while the upgrade happens; every failure step of
// the candidate transport is enumerated.
package main

import (
	"fmt"
	"net/http"
	"net/http/httptest"
	"os"
	"sort"
	"strconv"
	"strings"
	"time"

	sio "github.com/karagenc/socket.io-go"
	eio "github.com/karagenc/socket.io-go/engine.io"
	eioparser "github.com/karagenc/socket.io-go/engine.io/parser"
	"github.com/karagenc/socket.io-go/engine.io/transport"
	vx "github.com/karagenc/socket.io-go/internal/vexplore"
	"github.com/karagenc/socket.io-go/internal/vrig"
	"github.com/karagenc/socket.io-go/internal/vsched"
)

type fault struct {
	name   string
	set    func(d *vrig.Duplex)
	expect string // "upgraded" | "stays-polling" | "may-close"
}

var faults = []fault{
	{"none", func(d *vrig.Duplex) {}, "upgraded"},
	{"handshake-refused", func(d *vrig.Duplex) { d.RefuseHandshake = true }, "stays-polling"},
	{"probe-ping-lost", func(d *vrig.Duplex) { d.DropC2S[0] = true }, "stays-polling"},
	{"probe-pong-lost", func(d *vrig.Duplex) { d.DropS2C[0] = true }, "stays-polling"},
	{"cut-before-probe-ping", func(d *vrig.Duplex) { d.CutBeforeC2S = 0 }, "stays-polling"},
	{"cut-before-probe-pong", func(d *vrig.Duplex) { d.CutBeforeS2C = 0 }, "stays-polling"},
	// the client has swapped transports once it sends UPGRADE: a loss from here on may end the connection
	{"cut-before-UPGRADE-packet", func(d *vrig.Duplex) { d.CutBeforeC2S = 1 }, "may-close"},
	{"UPGRADE-packet-lost", func(d *vrig.Duplex) { d.DropC2S[1] = true }, "may-close"},
}

func msg(s string, binary bool) *eioparser.Packet {
	p, _ := eioparser.NewPacket(eioparser.PacketTypeMessage, binary, []byte(s))
	return p
}

type side struct {
	v      vsched.Var
	got    []string
	close  []string
	errs   []string
	slowOn string // the application handler takes 6 s (virtual) for this message
}

func (s *side) onPacket(ps ...*eioparser.Packet) {
	for _, p := range ps {
		if p.Type == eioparser.PacketTypeMessage {
			d := string(p.Data)
			if s.slowOn != "" && d == s.slowOn {
				vsched.Sleep(6 * time.Second)
			}
			s.v.Do(func() { s.got = append(s.got, d) })
		}
	}
}

// scenario: nmsg messages each way; the senders run concurrently with the upgrade; `late` messages are
// sent after the upgrade attempt is over.
// slowFirstPost: the server's application takes 6 s (longer than the upgrade timeout of 5 s) to handle the
// client's first message, so a polling POST is in flight - and holds the client's transport lock - while the
// probe is answered and the transports are to be swapped.
var slowFirstPost = false

func scenario(f fault, nmsg int, bound int, quietSetup bool) *vx.Scenario {
	slow := slowFirstPost
	nm := fmt.Sprintf("%s/%d+%d-messages", f.name, nmsg, nmsg)
	if slow {
		nm += "/first-POST-takes-6s"
	}
	sc := &vx.Scenario{Name: nm, Bound: bound, Horizon: 2 * time.Minute}
	sc.Body = func(e *vsched.Exec) func() vx.Result {
		vsched.SetExploring(false)
		var srvSide, cliSide side
		if slow {
			srvSide.slowOn = "c0"
		}
		var ssock eio.ServerSocket
		var sv vsched.Var
		srv := eio.NewServer(func(s eio.ServerSocket) *eio.Callbacks {
			sv.Do(func() { ssock = s })
			return &eio.Callbacks{
				OnPacket: srvSide.onPacket,
				OnError:  func(err error) { srvSide.v.Do(func() { srvSide.errs = append(srvSide.errs, err.Error()) }) },
				OnClose: func(r eio.Reason, err error) {
					srvSide.v.Do(func() { srvSide.close = append(srvSide.close, string(r)) })
				},
			}
		}, &eio.ServerConfig{PingInterval: 10 * time.Minute, PingTimeout: 10 * time.Minute, UpgradeTimeout: 5 * time.Second})
		link := &vrig.Inproc{H: srv}
		upgradeDone := 0
		cs, err := eio.Dial("http://inproc/engine.io/", &eio.Callbacks{
			OnPacket: cliSide.onPacket,
			OnError:  func(err error) { cliSide.v.Do(func() { cliSide.errs = append(cliSide.errs, err.Error()) }) },
			OnClose: func(r eio.Reason, err error) {
				cliSide.v.Do(func() { cliSide.close = append(cliSide.close, string(r)) })
			},
		}, &eio.ClientConfig{Transports: []string{"polling"}, HTTPTransport: link, UpgradeTimeout: 5 * time.Second,
			UpgradeDone: func(name string) { cliSide.v.Do(func() { upgradeDone++ }) }})
		if err != nil {
			e.Fail("dial: %v", err)
			return nil
		}
		vsched.Await(func() bool { return ssock != nil })
		vrig.Settle(time.Second)
		if !quietSetup {
			vsched.SetExploring(true)
		}
		ccb, scb := transport.NewCallbacks(), transport.NewCallbacks()
		d := vrig.NewDuplex(ccb, scb)
		f.set(d)
		d.OnClientHandshake = func() {
			// the server accepts the candidate connection: the server half of the upgrade starts
			vsched.GoQuiet("server-maybeUpgrade", func() {
				req, _ := http.NewRequest("GET", "http://inproc/engine.io/?EIO=4&transport=webtransport", nil)
				srv.VerifMaybeUpgrade(httptest.NewRecorder(), req, ssock, d.Server(), scb)
			})
		}
		attemptOver := false
		var tryOK bool
		vsched.SetExploring(true)
		vsched.GoQuiet("client-upgrader", func() {
			ok := eio.VerifTryUpgradeTo(cs, d.C, ccb)
			cliSide.v.Do(func() { tryOK = ok; attemptOver = true })
		})
		var wantSrv, wantCli []string
		for i := 0; i < nmsg; i++ {
			wantSrv = append(wantSrv, fmt.Sprintf("c%d", i))
			wantCli = append(wantCli, fmt.Sprintf("s%d", i))
		}
		vsched.GoQuiet("client-sender", func() {
			for i := 0; i < nmsg; i++ {
				cs.Send(msg(fmt.Sprintf("c%d", i), i%2 == 1))
			}
		})
		vsched.GoQuiet("server-sender", func() {
			for i := 0; i < nmsg; i++ {
				ssock.Send(msg(fmt.Sprintf("s%d", i), i%2 == 1))
			}
		})
		// after the attempt is over (and, for a stalled one, the upgrade timeout has passed): more traffic
		vsched.GoQuiet("late-traffic", func() {
			vsched.Await(func() bool { return attemptOver })
			vsched.Sleep(10 * time.Second)
			cs.Send(msg("c-late", false))
			ssock.Send(msg("s-late", true))
		})
		wantSrv = append(wantSrv, "c-late")
		wantCli = append(wantCli, "s-late")
		return func() vx.Result {
			var r vx.Result
			key := func(w string) string { return fmt.Sprintf("upgrade (%s): %s", f.name, w) }
			closed := len(srvSide.close) > 0 || len(cliSide.close) > 0
			cmp := func(who string, got, want []string) {
				g := append([]string{}, got...)
				w := append([]string{}, want...)
				sort.Strings(g)
				sort.Strings(w)
				if fmt.Sprint(g) == fmt.Sprint(w) {
					return
				}
				cnt := map[string]int{}
				for _, x := range g {
					cnt[x]++
				}
				kind := "message lost"
				for _, n := range cnt {
					if n > 1 {
						kind = "message duplicated"
					}
				}
				if closed && f.expect == "may-close" && kind == "message lost" {
					return // the connection ended after the client had swapped: reported, not silent (C06's subject)
				}
				r.Violate(key(kind+" on its way to the "+who), "%s received %v, sent %v; closes: server %v client %v; errors: server %v client %v", who, g, w, srvSide.close, cliSide.close, srvSide.errs, cliSide.errs)
			}
			sname := eio.VerifServerTransportName(ssock)
			cname := cs.TransportName()
			if slow && f.expect == "upgraded" && tryOKButServerGaveUp(tryOK, sname, cname, srvSide.errs) {
				// one precisely delimited failure pattern with its own key (a known finding, see DESIGN.md 4.2)
				r.Violate("upgrade with a POST in flight for longer than the upgrade timeout: the server gives up, the client swaps to the abandoned transport afterwards and the connection is lost",
					"server transport %s, client transport %s; closes: server %v client %v; errors: server %v client %v; server received %v, client received %v", sname, cname, srvSide.close, cliSide.close, srvSide.errs, cliSide.errs, srvSide.got, cliSide.got)
				r.Outcome = "known pattern: server gave up, client swapped"
				return r
			}
			cmp("server", srvSide.got, wantSrv)
			cmp("client", cliSide.got, wantCli)
			expect := f.expect
			if slow && expect == "upgraded" && !tryOKButServerGaveUp(tryOK, sname, cname, srvSide.errs) {
				// the POST in flight delays the client's UPGRADE packet beyond the server's upgrade timeout:
				// the attempt may legitimately time out; then the connection stays on polling
				if tryOK && upgradeDone == 1 && sname == "webtransport" && cname == "webtransport" {
					expect = "upgraded"
				} else {
					expect = "stays-polling-after-timeout"
				}
			}
			switch expect {
			case "stays-polling-after-timeout":
				if closed {
					r.Violate(key("upgrade attempt that timed out closed the connection"), "server %v client %v; errors: server %v client %v", srvSide.close, cliSide.close, srvSide.errs, cliSide.errs)
				}
				if upgradeDone != 0 || sname != "polling" || cname != "polling" {
					r.Violate(key("the two sides disagree about the transport after an upgrade attempt that timed out"), "UpgradeDone=%d server transport %s client transport %s; errors: server %v client %v", upgradeDone, sname, cname, srvSide.errs, cliSide.errs)
				}
			case "upgraded":
				if closed {
					r.Violate(key("connection closed by a fault-free upgrade"), "server %v client %v", srvSide.close, cliSide.close)
				}
				if !tryOK || upgradeDone != 1 || sname != "webtransport" || cname != "webtransport" {
					r.Violate(key("fault-free upgrade did not complete on both sides"), "tryUpgradeTo=%v UpgradeDone=%d server transport %s client transport %s; errors: server %v client %v", tryOK, upgradeDone, sname, cname, srvSide.errs, cliSide.errs)
				}
			case "stays-polling":
				if closed {
					r.Violate(key("failed upgrade attempt closed the connection"), "server %v client %v; errors: server %v client %v", srvSide.close, cliSide.close, srvSide.errs, cliSide.errs)
				}
				if tryOK || upgradeDone != 0 || sname != "polling" || cname != "polling" {
					r.Violate(key("connection not on its original transport after a failed attempt"), "tryUpgradeTo=%v UpgradeDone=%d server transport %s client transport %s", tryOK, upgradeDone, sname, cname)
				}
			case "may-close":
				if !closed && (sname != cname) {
					r.Violate(key("the two sides disagree about the transport and nobody noticed"), "server transport %s client transport %s, no close reported; server got %v client got %v", sname, cname, srvSide.got, cliSide.got)
				}
			}
			r.Outcome = fmt.Sprintf("srv=%v cli=%v close=%v/%v t=%s/%s", len(srvSide.got), len(cliSide.got), srvSide.close, cliSide.close, sname, cname)
			if strings.Contains(r.Outcome, "panic") {
				r.Violate(key("panic"), "%s", r.Outcome)
			}
			return r
		}
	}
	return sc
}

// sioScenario: the same upgrade, but under a real Socket.IO server and a real Socket.IO client (Manager).
// Numbered events with 0..2 binary attachments flow both ways while the transports are swapped; the
// application on each side must see every event exactly once, with its own attachments. (At the
// Engine.IO level every frame may well arrive exactly once and the application still be hurt: the frames
// of a binary event must reach the Socket.IO parser as one run.)
// timing of one sioScenario: all zero = everything happens at one virtual instant (pure schedule exploration).
type sioTiming struct {
	PollRespLat time.Duration // the answer to a long poll reaches the client this much after the server wrote it
	PipeLat     time.Duration // latency of the new transport, per frame
	EmitAt      time.Duration // the emitters start this long after the upgrade began
	Gap         time.Duration // pause between two events of one emitter
	// Fault: index into faults (0 = none): the upgrade attempt fails or stalls on the candidate transport; under
	// Socket.IO the connection keeps working on polling all the same (only "stays-polling" faults are used here)
	Fault int
}

// slowResponses delays the answers to GET requests (the in-flight poll of the mechanism list).
type slowResponses struct {
	in  http.RoundTripper
	lat *time.Duration
}

func (l slowResponses) RoundTrip(r *http.Request) (*http.Response, error) {
	res, err := l.in.RoundTrip(r)
	if r.Method == "GET" && *l.lat > 0 {
		vsched.Sleep(*l.lat)
	}
	return res, err
}

func sioScenario(name string, natt []int, tm sioTiming, bound int) *vx.Scenario {
	sc := &vx.Scenario{Name: name, Bound: bound, Horizon: 2 * time.Minute}
	sc.Body = func(e *vsched.Exec) func() vx.Result {
		vsched.SetExploring(false)
		scfg := &sio.ServerConfig{}
		scfg.EIO.PingInterval = 10 * time.Minute
		scfg.EIO.PingTimeout = 10 * time.Minute
		scfg.EIO.UpgradeTimeout = 5 * time.Second
		var respLat time.Duration
		srv := sio.NewServer(scfg)
		mcfg := &sio.ManagerConfig{NoReconnection: true}
		mcfg.EIO.Transports = []string{"polling"}
		mcfg.EIO.HTTPTransport = slowResponses{&vrig.Inproc{H: srv}, &respLat}
		mgr := sio.NewManager("http://inproc/socket.io/", mcfg)
		var v vsched.Var
		var ssock sio.ServerSocket
		var srvGot, cliGot, cliErrs []string
		var discS, discC []string
		rec := func(dst *[]string, tag string, bins ...sio.Binary) {
			s := tag
			for _, b := range bins {
				s += fmt.Sprintf("+%s", string(b))
			}
			v.Do(func() { *dst = append(*dst, s) })
		}
		srv.Use(func(s sio.ServerSocket, h *sio.Handshake) any {
			s.OnEvent("e0", func(tag string) { rec(&srvGot, tag) })
			s.OnEvent("e1", func(tag string, a sio.Binary) { rec(&srvGot, tag, a) })
			s.OnEvent("e2", func(tag string, a, b sio.Binary) { rec(&srvGot, tag, a, b) })
			s.OnDisconnect(func(r sio.Reason) { v.Do(func() { discS = append(discS, string(r)) }) })
			v.Do(func() { ssock = s })
			return nil
		})
		srv.OnConnection(func(s sio.ServerSocket) {})
		sock := mgr.Socket("/", nil)
		connected := false
		sock.OnConnect(func() { v.Do(func() { connected = true }) })
		sock.OnDisconnect(func(r sio.Reason) { v.Do(func() { discC = append(discC, string(r)) }) })
		mgr.OnError(func(err error) { v.Do(func() { cliErrs = append(cliErrs, err.Error()) }) })
		sock.OnEvent("e0", func(tag string) { rec(&cliGot, tag) })
		sock.OnEvent("e1", func(tag string, a sio.Binary) { rec(&cliGot, tag, a) })
		sock.OnEvent("e2", func(tag string, a, b sio.Binary) { rec(&cliGot, tag, a, b) })
		sock.Connect()
		vsched.Await(func() bool { return connected && ssock != nil })
		vrig.Settle(time.Second)
		cs := mgr.VerifEIO()
		es := sio.VerifEIOSocketOf(ssock)
		eioSrv := srv.VerifEIOServer()
		ccb, scb := transport.NewCallbacks(), transport.NewCallbacks()
		d := vrig.NewDuplex(ccb, scb)
		faults[tm.Fault].set(d)
		d.Latency = tm.PipeLat
		respLat = tm.PollRespLat
		d.OnClientHandshake = func() {
			vsched.GoQuiet("server-maybeUpgrade", func() {
				req, _ := http.NewRequest("GET", "http://inproc/socket.io/?EIO=4&transport=webtransport", nil)
				eioSrv.VerifMaybeUpgrade(httptest.NewRecorder(), req, es, d.Server(), scb)
			})
		}
		tryOK := false
		vsched.SetExploring(true)
		vsched.GoQuiet("client-upgrader", func() {
			ok := eio.VerifTryUpgradeTo(cs, d.C, ccb)
			v.Do(func() { tryOK = ok })
		})
		emit := func(em func(string, ...any), tag string, n int) {
			args := []any{tag}
			for a := 0; a < n; a++ {
				args = append(args, sio.Binary(fmt.Sprintf("%s.att%d", tag, a)))
			}
			em(fmt.Sprintf("e%d", n), args...)
		}
		var wantSrv, wantCli []string
		expect := func(tag string, n int) string {
			s := tag
			for a := 0; a < n; a++ {
				s += fmt.Sprintf("+%s.att%d", tag, a)
			}
			return s
		}
		for i, n := range natt {
			wantSrv = append(wantSrv, expect(fmt.Sprintf("c%d", i), n))
			wantCli = append(wantCli, expect(fmt.Sprintf("s%d", i), n))
		}
		vsched.GoQuiet("client-emitter", func() {
			vsched.Sleep(tm.EmitAt)
			for i, n := range natt {
				if i > 0 {
					vsched.Sleep(tm.Gap)
				}
				emit(sock.Emit, fmt.Sprintf("c%d", i), n)
			}
		})
		vsched.GoQuiet("server-emitter", func() {
			vsched.Sleep(tm.EmitAt)
			for i, n := range natt {
				if i > 0 {
					vsched.Sleep(tm.Gap)
				}
				emit(ssock.Emit, fmt.Sprintf("s%d", i), n)
			}
		})
		return func() vx.Result {
			var r vx.Result
			cmp := func(who string, got, want []string) {
				g, w := append([]string{}, got...), append([]string{}, want...)
				sort.Strings(g)
				sort.Strings(w)
				if fmt.Sprint(g) != fmt.Sprint(w) {
					r.Violate("upgrade under Socket.IO: event lost, duplicated or delivered with foreign attachments on its way to the "+who,
						"%s handlers saw %v, emitted %v; disconnects: server %v client %v; client errors %v; upgrade ok=%v, transports %s/%s", who, got, want, discS, discC, cliErrs, tryOK, eio.VerifServerTransportName(es), cs.TransportName())
				}
			}
			cmp("server", srvGot, wantSrv)
			cmp("client", cliGot, wantCli)
			if tm.Fault != 0 {
				if len(discS)+len(discC) > 0 {
					r.Violate("upgrade under Socket.IO: an upgrade attempt that failed ("+faults[tm.Fault].name+") closed the connection", "disconnects: server %v client %v; client errors %v; server handlers saw %v, client handlers saw %v", discS, discC, cliErrs, srvGot, cliGot)
				}
				r.Outcome = fmt.Sprintf("srv=%v cli=%v disc=%v/%v", srvGot, cliGot, discS, discC)
				return r
			}
			if len(discS)+len(discC) > 0 {
				r.Violate("upgrade under Socket.IO: connection closed by a fault-free upgrade", "disconnects: server %v client %v; client errors %v", discS, discC, cliErrs)
			}
			if !tryOK {
				r.Violate("upgrade under Socket.IO: fault-free upgrade did not complete", "client errors %v", cliErrs)
			}
			r.Outcome = fmt.Sprintf("srv=%v cli=%v disc=%v/%v", srvGot, cliGot, discS, discC)
			return r
		}
	}
	return sc
}

// tryOKButServerGaveUp: the client got its probe answered (tryUpgradeTo succeeded) and swapped, but the
// server's upgrade timeout expired before the client's UPGRADE packet could leave (the client's transport
// lock was held by a POST in flight): the server stayed on polling and closed the candidate.
func tryOKButServerGaveUp(tryOK bool, sname, cname string, srvErrs []string) bool {
	gaveUp := false
	for _, e := range srvErrs {
		if strings.Contains(e, "upgradeTimeout exceeded") {
			gaveUp = true
		}
	}
	return tryOK && gaveUp && sname == "polling" && cname == "webtransport"
}

func scenarios(tier string) []*vx.Scenario {
	thoroughTier = tier == "thorough"
	b, n := 2, 2
	if tier == "thorough" {
		b, n = 3, 3
	}
	var s []*vx.Scenario
	for _, f := range faults {
		bb := b
		if f.name != "none" {
			bb = b - 1
		}
		sc := scenario(f, n, bb, true)
		sc.Shards = 6
		s = append(s, sc)
	}
	// a burst far larger than any batch size an implementation might pick (80 messages each way), queued on the old
	// transport when the transports are swapped: all of it is carried over (fault-free upgrade and the stall that
	// ends in the upgrade timeout)
	for _, fi := range []int{0, 2} {
		sc := scenario(faults[fi], 80, 1, true)
		sc.Shards = 4
		s = append(s, sc)
	}
	// a slow POST in flight across the swap (fault-free upgrade and the two stalls that end in the upgrade timeout)
	slowFirstPost = true
	for _, fi := range []int{0, 2, 3} {
		sc := scenario(faults[fi], n, b-1, true)
		sc.Shards = 4
		s = append(s, sc)
	}
	slowFirstPost = false
	for _, x := range []struct {
		name string
		natt []int
	}{{"1-1", []int{1, 1}}, {"2-0-1", []int{2, 0, 1}}} {
		sc := sioScenario("socket.io/attachments-"+x.name, x.natt, sioTiming{}, b)
		sc.Shards = 8
		s = append(s, sc)
	}
	// the same with real time in it: the new transport has latency L per frame, the answer to the
	// in-flight poll takes 0..4.5 L, and the emitters start at every half L of the upgrade
	L := 100 * time.Millisecond
	// (the last two: an answer that crawls through a slow or buffering HTTP path for longer than any
	// plausible grace period, but well within the poll / ping timeouts)
	for _, pl := range []time.Duration{0, L / 2, 3 * L / 2, 5 * L / 2, 7 * L / 2, 9 * L / 2, 1500 * time.Millisecond, 30 * time.Second} {
		for k := 0; k <= 8; k++ {
			for _, gap := range []time.Duration{0, L} {
				tm := sioTiming{PollRespLat: pl, PipeLat: L, EmitAt: time.Duration(k) * L / 2, Gap: gap}
				tb := timedBound()
				if pl == 0 && gap == 0 {
					tb++ // everything at one instant: the schedule decides, one more deviation
				}
				sc := sioScenario(fmt.Sprintf("socket.io/timed/poll-answer-latency=%v,emit-at=%v,gap=%v", pl, tm.EmitAt, gap), []int{1, 1}, tm, tb)
				if tb > 1 {
					sc.Shards = 4
				}
				s = append(s, sc)
			}
		}
	}
	// upgrade attempts that fail or stall, under Socket.IO: events before and long after the attempt (10 s: the
	// upgrade timeout of 5 s has passed) are delivered and nobody is disconnected
	for fi := 1; fi <= 5 && fi < len(faults); fi++ {
		if faults[fi].expect != "stays-polling" {
			continue
		}
		for _, at := range []time.Duration{0, 10 * time.Second} {
			tm := sioTiming{PipeLat: L, EmitAt: at, Fault: fi}
			s = append(s, sioScenario(fmt.Sprintf("socket.io/failed-upgrade/%s/emit-at=%v", faults[fi].name, at), []int{1, 0}, tm, 0))
		}
	}
	// bursts of 70 events each way at every half L of the upgrade (more than any batch size an implementation might
	// pick for a poll answer): whatever is queued on the polling transport at the swap is carried over, all of it
	for _, pl := range []time.Duration{0, 3 * L / 2} {
		for k := 0; k <= 8; k++ {
			tm := sioTiming{PollRespLat: pl, PipeLat: L, EmitAt: time.Duration(k) * L / 2, Gap: 0}
			s = append(s, sioScenario(fmt.Sprintf("socket.io/timed-burst-of-70/poll-answer-latency=%v,emit-at=%v", pl, tm.EmitAt), make([]int, 70), tm, 0))
		}
	}
	if tier == "thorough" {
		// the fault-free upgrade with one message each way exactly around the swap, one level deeper
		deep := scenario(faults[0], 1, b+1, true)
		deep.Name = "none/1+1-messages-deeper"
		deep.Shards = 12
		s = append(s, deep)
	}
	return s
}

func main() {
	vx.Main(vx.Config{
		Property:  "C07",
		Level:     "model_checking",
		Rule:      "real Engine.IO client and server over the in-process polling link; a client sender and a server sender (numbered text/binary messages) run concurrently with the real upgrade state machines driven over a reliable duplex pipe as candidate transport; all schedules to the deviation bound (thread choices and select choices), for the fault-free upgrade and for every failure step of the candidate (handshake refused, probe ping/pong lost = stall until the upgrade timeout, cut before ping / pong / UPGRADE, UPGRADE lost), also with the server application taking 6 s (longer than the upgrade timeout) to handle the client's first message, i.e. with a polling POST in flight across the swap; the same upgrade under a real Socket.IO server and Manager exchanging events with 0-2 binary attachments: pure schedule exploration and a timed grid (answer to the in-flight poll delayed by 0..4.5 L, 1.5 s, 30 s x emitters starting at k*L/2, k=0..8 x gap 0/L; pipe latency L=100 ms). distinct_nontrivial = deviating schedules",
		Scenarios: scenarios,
		Budget: func(tier string) time.Duration {
			if tier == "thorough" {
				return 15 * time.Minute
			}
			return 90 * time.Second
		},
		Assumptions: []string{
			"rig R4: the candidate transport is a reliable ordered message pipe named 'webtransport' (the name the real code accepts a ready transport for); the real nhooyr WebSocket / QUIC byte transports are not under the scheduler",
			"a loss after the client has sent UPGRADE (it has swapped transports by then) may end the connection; that must be reported by a close, never silent",
			"vsched semantics; virtual time (upgrade timeout 5 s)",
		},
	})
}

func timedBound() int {
	if b := os.Getenv("C07_TB"); b != "" {
		n, _ := strconv.Atoi(b)
		return n
	}
	if thoroughTier {
		return 2
	}
	return 1
}

var thoroughTier bool
