// C08: state recovery replays exactly the missed packets, or falls back cleanly.
//
// Part A (adapter level, the core): every history of <= 3 (quick) / <= 4 (+ text-only 5, thorough)
// broadcasts over 10 emit kinds x {text, binary}, every disconnect point k, every reconnection time in
// {1, 59, 61, 119, 121, 181} s, packets 10 s or 35 s apart, each executed on the real session-aware
// adapter (production window handling and 60 s cleaner) in virtual time and judged against a reference
// model with a three-valued expectation (must / may / must-not recover). Two sessions recover from the
// same log. One vsched.Run per case; cases are sharded over worker processes.
// Part B (server level, rig R1): the same model driven through sio.Server; the harness is the
// protocol-level client and decodes the replayed frames itself.
// Part C (Go client, rig R3): sio.Manager tracking its own offset across a link cut.
package main

import (
	"bufio"
	"encoding/json"
	"flag"
	"fmt"
	"os"
	"os/exec"
	"runtime"
	"runtime/debug"
	"sort"
	"strings"
	"sync"
	"time"

	vx "github.com/karagenc/socket.io-go/internal/vexplore"
)

// ---------------------------------------------------------------- aggregation

type keyAgg struct {
	Count   int
	H       []int
	K       int
	SpaceMs int64
	DeltaMs int64
	Rev     bool
	Msg     string
	Replay  map[string]any
}

func (k *keyAgg) caseID() caseID {
	h := make(history, len(k.H))
	for i, x := range k.H {
		h[i] = sym(x)
	}
	return caseID{H: h, K: k.K, Delta: time.Duration(k.DeltaMs) * time.Millisecond, Spacing: time.Duration(k.SpaceMs) * time.Millisecond, Rev: k.Rev}
}

type workerOut struct {
	Part        string
	Cases       int // distinct (history, k, delta) cases
	Execs       int // executions on the real objects
	Steps       int
	Nontrivial  int
	Replayed    int
	ByClass     map[string]int
	ByLen       map[string]int
	Found       map[string]*keyAgg
	HarnessErrs []string
	Cap         string
	Samples     []any
	Extra       map[string]any
}

func newOut(part string) *workerOut {
	return &workerOut{Part: part, ByClass: map[string]int{}, ByLen: map[string]int{}, Found: map[string]*keyAgg{}, Extra: map[string]any{}}
}

func (o *workerOut) found(part string, c caseID, f finding) {
	a := o.Found[f.Key]
	if a == nil {
		a = &keyAgg{}
		o.Found[f.Key] = a
	}
	a.Count++
	if a.Count == 1 || c.less(a.caseID()) {
		a.H, a.K, a.DeltaMs, a.SpaceMs, a.Rev, a.Msg, a.Replay = c.H.ints(), c.K, c.Delta.Milliseconds(), c.Spacing.Milliseconds(), c.Rev, f.Msg, c.replay(part)
	}
}

func (o *workerOut) harnessErr(s string) {
	if len(o.HarnessErrs) < 5 {
		o.HarnessErrs = append(o.HarnessErrs, s)
	}
}

func (o *workerOut) merge(w *workerOut) {
	o.Cases += w.Cases
	o.Execs += w.Execs
	o.Steps += w.Steps
	o.Nontrivial += w.Nontrivial
	o.Replayed += w.Replayed
	for k, v := range w.ByClass {
		o.ByClass[k] += v
	}
	for k, v := range w.ByLen {
		o.ByLen[k] += v
	}
	for k, v := range w.Found {
		a := o.Found[k]
		if a == nil {
			o.Found[k] = v
			continue
		}
		n := a.Count + v.Count
		if v.caseID().less(a.caseID()) {
			*a = *v
		}
		a.Count = n
	}
	o.HarnessErrs = append(o.HarnessErrs, w.HarnessErrs...)
	if w.Cap != "" && o.Cap == "" {
		o.Cap = w.Cap
	}
	for _, s := range w.Samples {
		if len(o.Samples) < 3 {
			o.Samples = append(o.Samples, s)
		}
	}
	for k, v := range w.Extra {
		o.Extra[k] = v
	}
}

// ---------------------------------------------------------------- part A enumeration

type lenSpec struct {
	L        int
	alphabet []sym
}

func alphabet(textOnly bool) []sym {
	var a []sym
	for s := sym(0); s < nKinds*2; s++ {
		if textOnly && s.bin() {
			continue
		}
		a = append(a, s)
	}
	return a
}

func adapterSpecs(tier string) []lenSpec {
	full, text := alphabet(false), alphabet(true)
	specs := []lenSpec{{0, full}, {1, full}, {2, full}, {3, full}}
	if tier == "thorough" {
		specs = append(specs, lenSpec{4, full}, lenSpec{5, text})
	}
	return specs
}

// revs: the orders in which the persisted sessions list their rooms (the server builds that slice from a
// set, so the order is arbitrary; a filter that walks the session's rooms once can depend on it).
func revs(h history) []bool { return []bool{false, true} }

func pow(a, b int) int {
	r := 1
	for i := 0; i < b; i++ {
		r *= a
	}
	return r
}

func adapterWorker(tier string, shard, nshards int, deadline time.Time) *workerOut {
	o := newOut("adapter")
	seq := 0
	for _, sp := range adapterSpecs(tier) {
		total := pow(len(sp.alphabet), sp.L)
		for idx := 0; idx < total; idx++ {
			seq++
			if seq%nshards != shard {
				continue
			}
			if time.Now().After(deadline) {
				o.Cap = fmt.Sprintf("adapter level: wall-clock budget reached inside length %d (history %d of %d of this shard's stride)", sp.L, idx, total)
				return o
			}
			h := make(history, sp.L)
			x := idx
			for i := sp.L - 1; i >= 0; i-- {
				h[i] = sp.alphabet[x%len(sp.alphabet)]
				x /= len(sp.alphabet)
			}
			for k := 0; k <= sp.L; k++ {
				for _, d := range allDeltas {
					for _, spc := range allSpacings {
						if k == 0 && spc != allSpacings[0] {
							continue // no packet before the disconnect: the spacing changes nothing
						}
						for _, rev := range revs(h) {
							c := caseID{H: h, K: k, Delta: d, Spacing: spc, Rev: rev}
							r := runAdapterCase(c)
							o.Cases++
							o.Execs++
							o.Steps += r.Steps
							o.Replayed += r.Replayed
							o.ByLen[fmt.Sprint(sp.L)]++
							if r.HarnessErr != "" {
								o.harnessErr(r.HarnessErr)
								continue
							}
							if r.Nontrivial {
								o.Nontrivial++
							}
							for s := 0; s < 2; s++ {
								res := "refused"
								if r.OK[s] {
									res = "recovered"
								}
								o.ByClass[r.Class[s].String()+"/"+res]++
							}
							for _, f := range r.Findings {
								o.found("adapter", c, f)
							}
							if len(o.Samples) < 2 && sp.L == 3 && k == 1 && r.Nontrivial && shard == 0 {
								o.Samples = append(o.Samples, map[string]any{"part": "adapter", "case": c.String(), "session_S": r.Class[0].String(), "recovered_S": r.OK[0], "session_T": r.Class[1].String(), "recovered_T": r.OK[1]})
							}
						}
					}
				}
			}
		}
	}
	return o
}

// ---------------------------------------------------------------- main

func emitResult(o *workerOut) {
	b, _ := json.Marshal(o)
	w := bufio.NewWriter(os.Stdout)
	w.WriteString("RESULT " + string(b) + "\n")
	w.Flush()
}

func spawn(args []string, timeout time.Duration) (*workerOut, string) {
	self, _ := os.Executable()
	cmd := exec.Command(self, args...)
	cmd.Env = append(os.Environ(), "GOMAXPROCS=2")
	var stderr strings.Builder
	cmd.Stderr = &stderr
	stdout, _ := cmd.StdoutPipe()
	if err := cmd.Start(); err != nil {
		return nil, "cannot start worker: " + err.Error()
	}
	timer := time.AfterFunc(timeout, func() { cmd.Process.Kill() })
	defer timer.Stop()
	var out *workerOut
	rd := bufio.NewReaderSize(stdout, 1<<20)
	for {
		line, err := rd.ReadString('\n')
		if strings.HasPrefix(line, "RESULT ") {
			out = &workerOut{}
			if e := json.Unmarshal([]byte(line[7:]), out); e != nil {
				out = nil
			}
		}
		if err != nil {
			break
		}
	}
	err := cmd.Wait()
	if out == nil {
		tail := stderr.String()
		if len(tail) > 3000 {
			tail = tail[:1500] + "\n...\n" + tail[len(tail)-1500:]
		}
		return nil, fmt.Sprintf("worker %v died (%v): %s", args, err, tail)
	}
	return out, ""
}

func main() {
	tier := flag.String("tier", envOr("VERIF_TIER", "quick"), "quick|thorough")
	worker := flag.String("worker", "", "internal: adapter | server | client")
	shard := flag.Int("shard", 0, "internal: shard index")
	nshards := flag.Int("nshards", 1, "internal: number of shards")
	deadlineMs := flag.Int64("deadline", 0, "internal: wall-clock deadline (unix ms)")
	procs := flag.Int("procs", 0, "adapter-level worker processes (default min(8, cores))")
	replay := flag.String("replay", "", "replay file")
	only := flag.String("only", "", "run only the parts whose name contains this (adapter, server, client, race)")
	flag.Parse()

	if *replay != "" {
		doReplay(*replay)
		return
	}
	if *worker != "" {
		debug.SetGCPercent(400)
		dl := time.UnixMilli(*deadlineMs)
		switch *worker {
		case "adapter":
			emitResult(adapterWorker(*tier, *shard, *nshards, dl))
		case "server":
			emitResult(serverWorker(*tier, *shard, *nshards, dl))
		case "client":
			emitResult(clientWorker(*tier, dl))
		default:
			fmt.Fprintln(os.Stderr, "unknown worker", *worker)
			os.Exit(2)
		}
		return
	}

	budget := 70 * time.Second
	if *tier == "thorough" {
		budget = 13 * time.Minute
	}
	deadline := time.Now().Add(budget)
	r := vx.NewReport("C08", *tier, "model_checking")
	r.Rule = "adapter level: every history of <= 3 (quick) / <= 4 plus text-only 5 (thorough) packets over 10 emit kinds {all, r1, r2, r1 except r2, all except S, direct to S, direct to T, direct to S with ack id, r1 except S (S's own To(r1)), r1+r2 except T} x both orders of the persisted session's room list x {text, binary}, x every disconnect point k in 0..len, x reconnection 1/59/61/119/121/181 s after the disconnect (window 120 s, production cleaner every 60 s), x packets 10 s or 35 s apart before the disconnect (the slow profile puts clean-up passes inside the live phase and makes offsets much older than the disconnect); each (history, k, delta, spacing) is executed once on the real session-aware adapter in virtual time; two sessions (S in {S,r1}, T in {T,r2}) recover from the same log; judged against a reference model with a three-valued expectation (must / may / must-not recover). " +
		"server level: the same model through a recovery-enabled sio.Server and a protocol-level client that decodes the frames itself (rig R1): histories of <= 2 (quick; deltas 1/61/121 s) / <= 3 (thorough; all deltas, both spacings), plus scripted scenarios (10-packet mixed history, unknown pid, never-logged offset, DISCONNECT instead of a cut, recovery twice in a row, two sessions recovering the same binary packets, live events after every reconnection). " +
		"Go client: sio.Manager over the in-process polling link (rig R3), one scenario per handler signature (2 live events, link down until both sides noticed, 2 events while away, link up, 1 more event). " +
		"cleaner race: at the instant of a clean-up pass that trims the log another goroutine broadcasts / restores a session; all interleavings to the deviation bound; the session recovers exactly the packets after its offset. " +
		"distinct_nontrivial = cases in which session S has an offset and the model replays at least one packet (adapter + server level) + client scenarios"
	r.Assumptions = []string{
		"vsched semantics and virtual time: time.Now/Sleep inside the repository are the scheduler's clock, so the 60 s cleaner and the 120 s window run for real; every case runs at the default schedule (the adapter calls of one case are sequential)",
		"event times are chosen off the cleaner's 60 s grid, so no case depends on the order of a clean-up pass and an adapter call at the same instant",
		"reference model: packets with an ack id are neither logged nor replayed (as in the JS reference); a client without an offset, an unknown pid, a never-logged offset and a session older than the window must not recover; offset packet older than the window: either outcome is accepted, a granted recovery must still be complete",
		"rig R1: the harness implements eio.ServerSocket and decodes Socket.IO frames itself; rig R3: in-process polling link",
	}
	np := *procs
	if np <= 0 {
		np = runtime.NumCPU()
		if np > 8 {
			np = 8
		}
	}
	type job struct {
		args []string
	}
	var jobs []job
	want := func(p string) bool { return *only == "" || strings.Contains(p, *only) }
	common := []string{"-tier", *tier, "-deadline", fmt.Sprint(deadline.UnixMilli())}
	if want("adapter") {
		for s := 0; s < np; s++ {
			jobs = append(jobs, job{append([]string{"-worker", "adapter", "-shard", fmt.Sprint(s), "-nshards", fmt.Sprint(np)}, common...)})
		}
	}
	if want("server") {
		ns := 1
		if *tier == "thorough" {
			ns = np
		}
		for s := 0; s < ns; s++ {
			jobs = append(jobs, job{append([]string{"-worker", "server", "-shard", fmt.Sprint(s), "-nshards", fmt.Sprint(ns)}, common...)})
		}
	}
	if want("client") {
		jobs = append(jobs, job{append([]string{"-worker", "client"}, common...)})
	}
	parts := map[string]*workerOut{}
	var mu sync.Mutex
	var wg sync.WaitGroup
	sem := make(chan struct{}, np+1)
	for _, j := range jobs {
		j := j
		wg.Add(1)
		go func() {
			defer wg.Done()
			sem <- struct{}{}
			defer func() { <-sem }()
			out, errs := spawn(j.args, time.Until(deadline)+3*time.Minute)
			mu.Lock()
			defer mu.Unlock()
			if errs != "" {
				r.HarnessErrs = append(r.HarnessErrs, errs)
				return
			}
			if parts[out.Part] == nil {
				parts[out.Part] = newOut(out.Part)
			}
			parts[out.Part].merge(out)
		}()
	}
	wg.Wait()
	if want("race") {
		runRaces(*tier, deadline.Add(time.Minute), r)
	}
	var names []string
	for p := range parts {
		names = append(names, p)
	}
	sort.Strings(names)
	for _, p := range names {
		o := parts[p]
		r.Evaluations += o.Execs
		r.TracesValidated += o.Execs
		r.States += o.Cases
		r.Transitions += o.Steps
		r.DistinctNontriv += o.Nontrivial
		if o.Cap != "" {
			r.CapsHit = append(r.CapsHit, o.Cap)
		}
		for _, h := range o.HarnessErrs {
			r.HarnessErrs = append(r.HarnessErrs, p+": "+h)
		}
		for _, s := range o.Samples {
			r.Sample(s)
		}
		ex := map[string]any{"cases": o.Cases, "executions": o.Execs, "scheduling_steps": o.Steps, "nontrivial": o.Nontrivial, "packets_replayed": o.Replayed, "expectation_x_outcome": o.ByClass}
		if len(o.ByLen) > 0 {
			ex["cases_by_history_length"] = o.ByLen
		}
		for k, v := range o.Extra {
			ex[k] = v
		}
		r.Extra[p+"_level"] = ex
		var keys []string
		for k := range o.Found {
			keys = append(keys, k)
		}
		sort.Strings(keys)
		for _, k := range keys {
			a := o.Found[k]
			msg := fmt.Sprintf("smallest failing case: %s (%d failing cases in this run)", a.Msg, a.Count)
			a.Replay["tier"] = *tier
			r.Violate(k, msg, a.Replay)
		}
	}
	outcomes := 0
	for _, o := range parts {
		outcomes += len(o.ByClass)
	}
	r.DistinctOutcomes = outcomes
	r.BoundCompleted = "default schedule per case (sequential cases; the enumeration is over histories, disconnect points and reconnection times)"
	r.Finish()
}

func envOr(k, d string) string {
	if v := os.Getenv(k); v != "" {
		return v
	}
	return d
}

// ---------------------------------------------------------------- replay

func doReplay(path string) {
	b, err := os.ReadFile(path)
	if err != nil {
		fmt.Fprintln(os.Stderr, err)
		os.Exit(2)
	}
	var f struct {
		Key    string `json:"key"`
		Replay struct {
			Part     string `json:"part"`
			History  []int  `json:"history"`
			K        int    `json:"k"`
			DeltaMs  int64  `json:"delta_ms"`
			SpaceMs  int64  `json:"spacing_ms"`
			Rev      bool   `json:"rev"`
			Scenario string `json:"scenario"`
			Tier     string `json:"tier"`
		} `json:"replay"`
	}
	if err := json.Unmarshal(b, &f); err != nil {
		fmt.Fprintln(os.Stderr, err)
		os.Exit(2)
	}
	h := make(history, len(f.Replay.History))
	for i, x := range f.Replay.History {
		h[i] = sym(x)
	}
	c := caseID{H: h, K: f.Replay.K, Delta: time.Duration(f.Replay.DeltaMs) * time.Millisecond, Spacing: time.Duration(f.Replay.SpaceMs) * time.Millisecond, Rev: f.Replay.Rev}
	var fs []finding
	herr := ""
	switch f.Replay.Part {
	case "adapter":
		fmt.Println("replaying at adapter level:", c)
		r := runAdapterCase(c)
		fs, herr = r.Findings, r.HarnessErr
		fmt.Printf("session S: expectation %v, recovered %v; session T: expectation %v, recovered %v\n", r.Class[0], r.OK[0], r.Class[1], r.OK[1])
	case "server":
		if f.Replay.Scenario != "" {
			fmt.Println("replaying server scenario:", f.Replay.Scenario)
			fs, herr = runServerScenario(f.Replay.Scenario)
		} else {
			fmt.Println("replaying at server level:", c)
			r := runServerCase(c)
			fs, herr = r.Findings, r.HarnessErr
			fmt.Printf("session S: expectation %v, recovered %v\n", r.Class[0], r.OK[0])
		}
	case "client":
		fmt.Println("replaying client scenario:", f.Replay.Scenario)
		fs, herr = runClientScenario(f.Replay.Scenario)
	case "race":
		fmt.Println("re-exploring the cleaner race:", f.Replay.Scenario)
		fs, herr = replayRace(f.Replay.Scenario, f.Replay.Tier)
	default:
		fmt.Fprintln(os.Stderr, "unknown part", f.Replay.Part)
		os.Exit(2)
	}
	if herr != "" {
		fmt.Println("HARNESS-ERROR", herr)
		os.Exit(2)
	}
	hit := false
	for _, x := range fs {
		fmt.Printf("violation key=%q: %s\n", x.Key, x.Msg)
		if x.Key == f.Key {
			hit = true
		}
	}
	if hit {
		fmt.Printf("VIOLATION property=C08 replay=%s\n", path)
		os.Exit(1)
	}
	fmt.Println("the recorded violation does not occur on this tree")
	os.Exit(0)
}
