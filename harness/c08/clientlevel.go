package main

import (
	"fmt"
	"sort"
	"strings"
	"time"

	sio "github.com/karagenc/socket.io-go"
	"github.com/karagenc/socket.io-go/adapter"
	"github.com/karagenc/socket.io-go/internal/vrig"
	"github.com/karagenc/socket.io-go/internal/vsched"
)

// Part C: the Go client tracking its own offset (rig R3: real sio.Manager <-> real sio.Server over the
// in-process polling link). One handler signature per scenario; the server emits five events with
// that signature: two live, two while the link is down, one after the reconnection.

type sigKind struct {
	name       string
	lastString bool // the user's last argument is a string
	args       func(i int) []any
	handler    func(rec func(string)) any
	show       func(i int) string // what the handler must record for event i
}

func sigKinds() []sigKind {
	tag := func(i int) string { return fmt.Sprintf("tag%d", i) }
	return []sigKind{
		{"func(int)", false, func(i int) []any { return []any{i} },
			func(rec func(string)) any { return func(a int) { rec(fmt.Sprint(a)) } },
			func(i int) string { return fmt.Sprint(i) }},
		{"func(string)", true, func(i int) []any { return []any{tag(i)} },
			func(rec func(string)) any { return func(a string) { rec(a) } },
			func(i int) string { return tag(i) }},
		{"func(int,string)", true, func(i int) []any { return []any{i, tag(i)} },
			func(rec func(string)) any { return func(a int, b string) { rec(fmt.Sprint(a, ",", b)) } },
			func(i int) string { return fmt.Sprint(i, ",", tag(i)) }},
		{"func(string,int)", false, func(i int) []any { return []any{tag(i), i} },
			func(rec func(string)) any { return func(a string, b int) { rec(fmt.Sprint(a, ",", b)) } },
			func(i int) string { return fmt.Sprint(tag(i), ",", i) }},
		{"func(sio.Binary)", false, func(i int) []any { return []any{sio.Binary(binArg(i))} },
			func(rec func(string)) any { return func(b sio.Binary) { rec(fmt.Sprintf("%x", []byte(b))) } },
			func(i int) string { return fmt.Sprintf("%x", binArg(i)) }},
		{"func()", false, func(i int) []any { return nil },
			func(rec func(string)) any { return func() { rec("called") } },
			func(i int) string { return "called" }},
	}
}

// busyLive: the number of live events of the busy-second scenario - all emitted within one (virtual) second, so
// that the offsets (yeast ids: a second and a counter within it, in an alphabet that is NOT in lexicographic
// order: ...y z - _ 10 11...) run past the 64th id of their second
const busyLive = 70

func runClientScenario(name string) ([]finding, string) {
	if name == "busy-second" {
		fs, herr, _ := runClientCaseN(sigKinds()[0], busyLive)
		return fs, herr
	}
	for _, k := range sigKinds() {
		if k.name == name {
			fs, herr, _ := runClientCase(k)
			return fs, herr
		}
	}
	return nil, "no such client scenario: " + name
}

func runClientCase(k sigKind) (fs []finding, herr string, steps int) { return runClientCaseN(k, 2) }

// runClientCaseN: nLive events while connected (2: half a second apart; more: all at one instant), 2 while the link
// is down, 1 after the recovery.
func runClientCaseN(k sigKind, nLive int) (fs []finding, herr string, steps int) {
	add := func(key, format string, a ...any) {
		pre := "handler " + k.name
		if nLive != 2 {
			pre += fmt.Sprintf(", %d live events within one second", nLive)
		}
		fs = append(fs, finding{key, pre + ": " + fmt.Sprintf(format, a...)})
	}
	same := func(got []string, want string) bool {
		if nLive == 2 {
			return strings.Join(got, " | ") == want
		}
		// (per-packet dispatch goroutines: the order at handler entry is C02's known finding) exactly once each
		g := append([]string{}, got...)
		w := strings.Split(want, " | ")
		sort.Strings(g)
		sort.Strings(w)
		return strings.Join(g, " | ") == strings.Join(w, " | ")
	}
	e := vsched.Run(vsched.Options{Horizon: 3 * time.Minute}, func(e *vsched.Exec) {
		scfg := &sio.ServerConfig{ServerConnectionStateRecovery: sio.ServerConnectionStateRecovery{Enabled: true, MaxDisconnectionDuration: window}}
		scfg.EIO.PingInterval = 2 * time.Second
		scfg.EIO.PingTimeout = 3 * time.Second
		delay := time.Second
		jit := float32(0)
		mcfg := &sio.ManagerConfig{ReconnectionDelay: &delay, ReconnectionDelayMax: &delay, RandomizationFactor: &jit}
		srv, mgr, link := vrig.NewSioPair(scfg, mcfg)
		var v vsched.Var
		var ssocks []sio.ServerSocket
		var srecovered []bool
		srvDisc := 0
		srv.OnConnection(func(s sio.ServerSocket) {
			s.OnDisconnect(func(sio.Reason) { v.Do(func() { srvDisc++ }) })
			rec := s.Recovered()
			v.Do(func() { ssocks = append(ssocks, s); srecovered = append(srecovered, rec) })
		})
		nsp := srv.Of("/")
		sock := mgr.Socket("/", nil)
		var got, errs []string
		connects, discs := 0, 0
		var ids []string
		var recoveredAt []bool
		sock.OnConnect(func() {
			id, rec := string(sock.ID()), sock.Recovered()
			v.Do(func() { connects++; ids = append(ids, id); recoveredAt = append(recoveredAt, rec) })
		})
		sock.OnDisconnect(func(sio.Reason) { v.Do(func() { discs++ }) })
		mgr.OnError(func(err error) { v.Do(func() { errs = append(errs, err.Error()) }) })
		sock.OnEvent("ev", k.handler(func(s string) { v.Do(func() { got = append(got, s) }) }))
		sock.Connect()
		waitFor := func(d time.Duration, cond func() bool) bool {
			for t := time.Duration(0); t < d; t += 100 * time.Millisecond {
				ok := false
				v.Do(func() { ok = cond() })
				if ok {
					return true
				}
				vsched.Sleep(100 * time.Millisecond)
			}
			return false
		}
		if !waitFor(10*time.Second, func() bool { return connects == 1 && len(ssocks) == 1 }) {
			herr = "client never connected"
			return
		}
		want := func(n int) string {
			var w []string
			for i := 1; i <= n; i++ {
				w = append(w, k.show(i))
			}
			return strings.Join(w, " | ")
		}
		vsched.Sleep(time.Second)
		if nLive == 2 {
			ssocks[0].Emit("ev", k.args(1)...)
			vsched.Sleep(500 * time.Millisecond)
			nsp.Emit("ev", k.args(2)...)
		} else {
			for i := 1; i <= nLive; i++ {
				nsp.Emit("ev", k.args(i)...)
			}
		}
		vsched.Sleep(500 * time.Millisecond)
		liveOK := same(got, want(nLive))
		if !liveOK {
			key := "client: event not delivered intact on a recovery-enabled connection"
			if k.lastString {
				key = "client: last string argument eaten as offset"
			}
			add(key, "the server emitted %d events with arguments %v, %v ... (+ the offset it appends); the handler recorded [%s], expected [%s]; manager errors %v", nLive, k.args(1), k.args(2), strings.Join(got, " | "), want(nLive), errs)
		}
		// the link goes down; both sides notice (heartbeat)
		tDown := e.Clock()
		link.V.Do(func() { link.Down = true })
		if !waitFor(30*time.Second, func() bool { return discs >= 1 && srvDisc >= 1 }) {
			herr = fmt.Sprintf("link down: client disconnects %d, server disconnects %d after 30 s", discs, srvDisc)
			return
		}
		_, pids, _ := adapter.VerifSessionLog(nsp.Adapter())
		if len(pids) != 1 {
			herr = fmt.Sprintf("the server persisted %d sessions after the cut", len(pids))
			return
		}
		nsp.To(sio.Room(ids[0])).Emit("ev", k.args(nLive+1)...)
		vsched.Sleep(500 * time.Millisecond)
		nsp.Emit("ev", k.args(nLive+2)...)
		vsched.Sleep(500 * time.Millisecond)
		postsBefore := 0
		link.V.Do(func() { link.Down = false; postsBefore = len(link.Posts) })
		tUp := e.Clock()
		if !waitFor(30*time.Second, func() bool { return connects == 2 && len(ssocks) == 2 }) {
			sentConnect, handshakes := 0, 0
			link.V.Do(func() {
				for _, p := range link.Posts[postsBefore:] {
					if strings.HasPrefix(p, "40") {
						sentConnect++
					}
				}
				for _, l := range link.Log {
					if strings.HasPrefix(l, "GET") && !strings.Contains(l, "sid=") {
						handshakes++
					}
				}
			})
			key := "client: no reconnection after the link came back"
			if sentConnect == 0 {
				key = "client: socket never comes back after a reconnection (no CONNECT packet sent once it knows a pid)"
			}
			add(key, "30 s after the link is up again: OnConnect ran %d time(s), server sockets %d, Engine.IO handshakes attempted %d, CONNECT packets posted since the link is up %d, manager errors %v", connects, len(ssocks), handshakes, sentConnect, errs)
			return
		}
		vsched.Sleep(time.Second)
		var presented []string
		link.V.Do(func() {
			for _, p := range link.Posts[postsBefore:] {
				if strings.HasPrefix(p, "40") {
					presented = append(presented, p)
				}
			}
		})
		recovered := recoveredAt[1] && ids[1] == ids[0] && srecovered[1]
		if !recovered {
			add("client: reconnection within the window is not recovered",
				"link down for %v (window %v); after the reconnection ClientSocket.Recovered()=%v, sid %s -> %s, ServerSocket.Recovered()=%v; the client's CONNECT packet was %v; handler calls so far [%s]; manager errors %v",
				tUp-tDown, window, recoveredAt[1], ids[0], ids[1], srecovered[1], presented, strings.Join(got, " | "), errs)
			return
		}
		ssocks[1].Emit("ev", k.args(nLive+3)...)
		vsched.Sleep(time.Second)
		if !same(got, want(nLive+3)) && liveOK {
			key := "client: recovered, but the events were not delivered exactly once, in order and intact"
			if strings.Contains(k.name, "Binary") {
				key = "client: recovered, but binary events were not delivered exactly once, in order and intact"
			}
			add(key, "the handler recorded [%s], expected [%s] (events %d and %d were emitted while the link was down); manager errors %v", strings.Join(got, " | "), want(nLive+3), nLive+1, nLive+2, errs)
		}
	})
	steps = e.Steps
	if len(e.Panics) > 0 {
		add("client: panic", "%v", e.Panics)
	}
	if e.Deadlock != "" {
		add("client: deadlock", "%s", e.Deadlock)
	}
	if e.HarnessErr != "" && herr == "" {
		herr = e.HarnessErr
	}
	return
}

func clientWorker(tier string, deadline time.Time) *workerOut {
	o := newOut("client")
	for _, k := range sigKinds() {
		fs, herr, steps := runClientCase(k)
		o.Cases++
		o.Execs++
		o.Steps += steps
		o.Nontrivial++
		if herr != "" {
			o.harnessErr("handler " + k.name + ": " + herr)
			continue
		}
		out := "ok"
		if len(fs) > 0 {
			out = "violation"
		}
		o.ByClass["must/"+out]++
		for _, f := range fs {
			a := o.Found[f.Key]
			if a == nil {
				a = &keyAgg{Msg: f.Msg, Replay: map[string]any{"part": "client", "scenario": k.name}}
				o.Found[f.Key] = a
			}
			a.Count++
		}
	}
	{
		fs, herr, steps := runClientCaseN(sigKinds()[0], busyLive)
		o.Cases++
		o.Execs++
		o.Steps += steps
		o.Nontrivial++
		if herr != "" {
			o.harnessErr("busy second: " + herr)
		} else {
			out := "ok"
			if len(fs) > 0 {
				out = "violation"
			}
			o.ByClass["must/"+out]++
			for _, f := range fs {
				a := o.Found[f.Key]
				if a == nil {
					a = &keyAgg{Msg: f.Msg, Replay: map[string]any{"part": "client", "scenario": "busy-second"}}
					o.Found[f.Key] = a
				}
				a.Count++
			}
		}
	}
	o.Samples = append(o.Samples, map[string]any{"part": "client", "scenario": "handler func(int): 2 live events, link down until both sides noticed, 2 events while away, link up, reconnection, 1 more event"})
	return o
}
