package main

import "time"

func clientWorker(tier string, deadline time.Time) *workerOut { return newOut("client") }
func runClientScenario(name string) ([]finding, string)        { return nil, "" }
