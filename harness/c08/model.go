package main

import (
	"fmt"
	"sort"
	"strings"
	"time"
)

// ---------------------------------------------------------------- alphabet

const (
	window        = 120 * time.Second // W: ServerConnectionStateRecovery.MaxDisconnectionDuration used everywhere
	cleanerPeriod = 60 * time.Second  // hard-coded in adapter.NewSessionAwareAdapterCreator (checked through the shim)
)

var allDeltas = []time.Duration{1 * time.Second, 59 * time.Second, 61 * time.Second, 119 * time.Second, 121 * time.Second, 181 * time.Second}

// emit kinds. The session under study is S with rooms {S, r1}; the second session is T with rooms {T, r2}.
const (
	kAll   = iota // to everyone
	kR1           // to room r1
	kR2           // to room r2
	kR1xR2        // to r1 except r2
	kAllxS        // to everyone except S (another socket's Broadcast())
	kS            // direct to S (rooms = {S})
	kT            // direct to T (rooms = {T})
	kAck          // direct to S with an ack id in the header (never logged, never replayed)
	kR1xS         // to r1 except S: what S's own socket.To("r1").Emit addresses (S is in the target room AND excluded)
	kR12xT        // to r1 and r2 except T (T is in a target room and excluded; S gets it)
	nKinds
)

var kindNames = [nKinds]string{"all", "r1", "r2", "r1-except-r2", "all-except-S", "to-S", "to-T", "to-S+ackid", "r1-except-S", "r1+r2-except-T"}

// sym = kind*2 + (1 if binary)
type sym uint8

func (s sym) kind() int { return int(s >> 1) }
func (s sym) bin() bool { return s&1 == 1 }
func (s sym) String() string {
	if s.bin() {
		return kindNames[s.kind()] + "/bin"
	}
	return kindNames[s.kind()] + "/text"
}

type history []sym

func (h history) String() string {
	p := make([]string, len(h))
	for i, s := range h {
		p[i] = s.String()
	}
	return "[" + strings.Join(p, ", ") + "]"
}

func (h history) ints() []int {
	out := make([]int, len(h))
	for i, s := range h {
		out[i] = int(s)
	}
	return out
}

// ---------------------------------------------------------------- addressing (broadcast semantics)

// target is what an emit names: the packet goes to the sockets that are in one of rooms (all sockets
// if rooms is empty) and in none of except.
type target struct{ rooms, except []string }

func kindTarget(kind int, sidS, sidT string) target {
	switch kind {
	case kAll:
		return target{}
	case kR1:
		return target{rooms: []string{"r1"}}
	case kR2:
		return target{rooms: []string{"r2"}}
	case kR1xR2:
		return target{rooms: []string{"r1"}, except: []string{"r2"}}
	case kAllxS:
		return target{except: []string{sidS}}
	case kS, kAck:
		return target{rooms: []string{sidS}}
	case kT:
		return target{rooms: []string{sidT}}
	case kR1xS:
		return target{rooms: []string{"r1"}, except: []string{sidS}}
	case kR12xT:
		return target{rooms: []string{"r1", "r2"}, except: []string{sidT}}
	}
	panic("kind")
}

func has(l []string, x string) bool {
	for _, y := range l {
		if y == x {
			return true
		}
	}
	return false
}

// addressed: does a packet with this target go to a socket that is a member of these rooms?
func addressed(member []string, t target) bool {
	in := len(t.rooms) == 0
	for _, r := range t.rooms {
		if has(member, r) {
			in = true
		}
	}
	for _, r := range t.except {
		if has(member, r) {
			return false
		}
	}
	return in
}

// ---------------------------------------------------------------- reference model of one case

// mpkt is one emitted packet in the reference model.
type mpkt struct {
	idx    int // position in the history
	s      sym
	at     time.Duration // emission time (virtual)
	logged bool          // the adapter must log it (EVENT without ack id)
	to     [2]bool       // addressed to session 0 (S) / 1 (T)
	id     string        // offset id, read from the real log when the packet is emitted
}

func evName(i int) string  { return fmt.Sprintf("e%d", i) }
func textArg(i int) string { return fmt.Sprintf("p%d", i) }
func binArg(i int) []byte  { return []byte{0xB0 + byte(i), 0x00, 0xFF, '"', byte(i)} }

// timing of one case: packets 1..k are emitted `spacing` apart (10 s; the slow profile uses 35 s, so
// that clean-up passes fall inside the live phase and an offset can be much older than the
// disconnect), the sessions disconnect 100 ms after packet k, the other packets follow (10 s apart if
// they fit before the reconnection, else evenly spread), the sessions reconnect delta after the disconnect.
type timing struct {
	emitAt     []time.Duration
	tDisc, tRe time.Duration
}

var allSpacings = []time.Duration{10 * time.Second, 35 * time.Second}

func schedule(n, k int, delta, spacing, lag time.Duration) timing {
	t := timing{emitAt: make([]time.Duration, n)}
	for i := 0; i < k; i++ {
		t.emitAt[i] = time.Duration(i+1) * spacing
	}
	t.tDisc = time.Duration(k)*spacing + lag
	m := n - k
	sp := 10 * time.Second
	if time.Duration(m)*sp+time.Second > delta {
		sp = delta / time.Duration(m+1)
	}
	for j := 1; j <= m; j++ {
		t.emitAt[k+j-1] = t.tDisc + time.Duration(j)*sp
	}
	t.tRe = t.tDisc + delta
	return t
}

// onCleanerGrid: event times must never coincide with a clean-up pass (multiples of the period,
// counted from the creation of the adapter at t=0), otherwise the order of the two is a scheduling choice.
func (t timing) onCleanerGrid() bool {
	all := append([]time.Duration{t.tDisc, t.tRe}, t.emitAt...)
	for _, x := range all {
		if x%cleanerPeriod == 0 {
			return true
		}
	}
	return false
}

// passesBetween counts clean-up passes in (a, b].
func passesBetween(a, b time.Duration) int {
	return int(b/cleanerPeriod) - int(a/cleanerPeriod)
}

type expectation int

const (
	mustNot expectation = iota
	mayEither
	must
)

func (e expectation) String() string { return [...]string{"must-not", "may-either", "must"}[e] }

// expect is the three-valued expectation for one session. offsetIdx is the index in the model of the
// last logged packet the session received before it disconnected (-1: none, the client has no offset).
func expect(model []mpkt, offsetIdx int, tm timing) (expectation, string) {
	if tm.tRe-tm.tDisc > window {
		return mustNot, "the session is older than the window"
	}
	if offsetIdx < 0 {
		return mustNot, "the client has no offset (it never received a logged packet)"
	}
	age := tm.tRe - model[offsetIdx].at
	if age > window+cleanerPeriod {
		return mustNot, "the offset packet expired more than a full clean-up period ago (a pass after its expiry has certainly run)"
	}
	if age > window {
		return mayEither, "the offset packet is older than the window (still logged or not depending on the clean-up phase)"
	}
	return must, "session and offset packet are younger than the window"
}

// ---------------------------------------------------------------- judging a replay list

type finding struct {
	Key string
	Msg string
}

// judgeMissed compares the ids a recovery replayed with the model: every logged packet after the
// offset that is addressed to the session, in emission order, once.
func judgeMissed(level string, got []string, model []mpkt, offsetIdx, sess int, tm timing) (fs []finding) {
	var want []string
	for _, p := range model[offsetIdx+1:] {
		if p.logged && p.to[sess] {
			want = append(want, p.id)
		}
	}
	if strings.Join(got, " ") == strings.Join(want, " ") {
		return nil
	}
	byID := map[string]*mpkt{}
	for i := range model {
		if model[i].logged {
			byID[model[i].id] = &model[i]
		}
	}
	render := func(ids []string) string {
		var out []string
		for _, id := range ids {
			if p := byID[id]; p != nil {
				out = append(out, fmt.Sprintf("#%d", p.idx+1))
			} else {
				out = append(out, "?")
			}
		}
		return "[" + strings.Join(out, " ") + "]"
	}
	detail := fmt.Sprintf("replayed packets %s, the model says %s (packet numbers in the history; offset = #%d)", render(got), render(want), offsetIdx+1)
	after := " (no clean-up pass since the offset packet was emitted)"
	if passesBetween(model[offsetIdx].at, tm.tRe) > 0 {
		after = " after a clean-up pass of the packet log"
	}
	seen := map[string]int{}
	extra := false
	for _, id := range got {
		seen[id]++
		p := byID[id]
		switch {
		case p == nil:
			fs = append(fs, finding{level + ": replayed packet has an id that was never logged", detail})
			extra = true
		case p.idx <= offsetIdx:
			fs = append(fs, finding{level + ": session recovered with a packet it already had (at or before its offset)", detail})
			extra = true
		case !p.to[sess]:
			fs = append(fs, finding{level + ": session recovered with a packet that was not addressed to it", detail})
			extra = true
		case seen[id] > 1:
			fs = append(fs, finding{level + ": session recovered with the same packet twice", detail})
			extra = true
		}
	}
	missing := false
	for _, id := range want {
		if seen[id] == 0 {
			missing = true
		}
	}
	if missing {
		fs = append(fs, finding{level + ": session recovered with a gap" + after, detail})
	}
	if !missing && !extra {
		fs = append(fs, finding{level + ": missed packets replayed out of emission order", detail})
	}
	return fs
}

func sortedCopy(l []string) []string {
	c := append([]string{}, l...)
	sort.Strings(c)
	return c
}
