package main

import (
	"fmt"
	"strings"
	"time"

	sio "github.com/karagenc/socket.io-go"
	"github.com/karagenc/socket.io-go/adapter"
	vx "github.com/karagenc/socket.io-go/internal/vexplore"
	"github.com/karagenc/socket.io-go/internal/vsched"
	"github.com/karagenc/socket.io-go/parser"
	jsonparser "github.com/karagenc/socket.io-go/parser/json"
	"github.com/karagenc/socket.io-go/parser/json/serializer/stdjson"
)

// ---------------------------------------------------------------- a clean-up pass racing the adapter's callers
//
// Everywhere else in this check event times stay off the cleaner's 60 s grid, so that no case depends on the
// order of a pass and a call at the same instant. Here they meet on purpose: at the instant of a pass that has
// something to trim (an expired packet at the head of the log), another goroutine broadcasts, or persists a
// session, or restores one. All interleavings of the pass with that call are explored (deviation bound); a
// session whose offset packet is still within the window must then recover exactly the packets sent after it.

func raceScenario(what string, bound int) *vx.Scenario {
	sc := &vx.Scenario{Name: "cleaner-race/" + what, Bound: bound, Horizon: 200 * time.Second}
	sc.Body = func(e *vsched.Exec) func() vx.Result {
		vsched.SetExploring(false)
		store := newRecStore()
		a := adapter.NewSessionAwareAdapterCreator(window)(store, jsonparser.NewCreator(0, stdjson.New()))
		sid := adapter.SocketID(sidS)
		store.socks[sid] = adapter.NewTestSocket(sid)
		a.AddAll(sid, []adapter.Room{adapter.Room(sidS), "r1"})
		var ids []string
		emit := func(tag string) {
			h := &parser.PacketHeader{Type: parser.PacketTypeEvent, Namespace: "/"}
			v := make([]any, 0, 4)
			v = append(v, "ev", tag)
			opts := adapter.NewBroadcastOptions()
			opts.Rooms.Add("r1")
			a.Broadcast(h, v, opts)
		}
		logIDs := func() []string {
			l, _, _ := adapter.VerifSessionLog(a)
			var out []string
			for _, p := range l {
				out = append(out, p.ID)
			}
			return out
		}
		// p0 at 1 s: expired (older than 120 s) at the pass of 180 s, so that pass trims; p1 at 100 s: the offset
		vsched.Sleep(time.Second)
		emit("p0")
		vsched.Sleep(99 * time.Second)
		emit("p1")
		ids = logIDs()
		if len(ids) != 2 {
			e.HarnessErr = fmt.Sprintf("set-up: the log holds %v after two broadcasts", ids)
			return nil
		}
		offset := ids[1]
		persist := func() {
			a.PersistSession(&adapter.SessionToPersist{SID: sid, PID: adapter.PrivateSessionID(pidS), Rooms: []adapter.Room{adapter.Room(sidS), "r1"}})
		}
		if what != "broadcast" {
			// the session ends before the pass, a packet is missed meanwhile
			vsched.Sleep(50 * time.Second) // 150 s
			persist()
			a.DeleteAll(sid)
			emit("p2")
		}
		vsched.Sleep(180*time.Second - e.Clock() - time.Millisecond)
		vsched.SetExploring(true)
		var restored *adapter.SessionToPersist
		_ = restored
		var got []string
		recovered, done := false, false
		var v vsched.Var
		restore := func() {
			sess, ok := a.RestoreSession(adapter.PrivateSessionID(pidS), offset)
			var g []string
			if ok && sess != nil {
				for _, mp := range sess.MissedPackets {
					if len(mp.Data) > 1 {
						g = append(g, fmt.Sprint(mp.Data[1]))
					}
				}
			}
			v.Do(func() { recovered, got, done = ok, g, true })
		}
		vsched.GoQuiet("caller", func() {
			vsched.Sleep(time.Millisecond) // exactly the instant of the pass (180 s)
			switch what {
			case "broadcast":
				emit("p2") // live, the socket is still there
			case "restore":
				restore()
			case "second-broadcast":
				emit("p3")
			}
		})
		vsched.Sleep(2 * time.Second) // 182 s: the pass and the call are over
		vsched.SetExploring(false)
		want := []string{"p2"}
		switch what {
		case "broadcast":
			persist()
			a.DeleteAll(sid)
			restore()
		case "second-broadcast":
			want = []string{"p2", "p3"}
			restore()
		}
		return func() vx.Result {
			var r vx.Result
			r.Outcome = fmt.Sprintf("recovered=%v got=%v log=%d", recovered, got, len(logIDs()))
			ctx := fmt.Sprintf("a %s at the instant of the clean-up pass of 180 s (which trims the expired head of the log); the session's offset packet was emitted at 100 s (window %v): recovered=%v, replayed %v, expected %v", what, window, recovered, got, want)
			if !done {
				r.Violate("cleaner race: RestoreSession did not return", "%s", ctx)
				return r
			}
			if !recovered {
				r.Violate("cleaner race: recovery refused although session and offset are within the window", "%s", ctx)
				return r
			}
			if strings.Join(got, " ") != strings.Join(want, " ") {
				r.Violate("cleaner race: session recovered with a gap (a packet broadcast while the pass ran is missing from the log)", "%s", ctx)
			}
			return r
		}
	}
	return sc
}

var _ = sio.Binary{}

// runRaces explores the race scenarios in this process and files what they find.
func runRaces(tier string, deadline time.Time, r *vx.Report) {
	b := 2
	if tier == "thorough" {
		b = 3
	}
	execs := 0
	scs := []*vx.Scenario{raceScenario("broadcast", b), raceScenario("restore", b), raceScenario("second-broadcast", b),
		restoreRaceScenario(1, b), restoreRaceScenario(2, b)}
	for _, sc := range scs {
		st := vx.Explore(sc, 0, deadline)
		execs += st.Execs
		r.Evaluations += st.Execs
		r.DistinctNontriv += st.DeviatedExecs
		r.Transitions += st.Steps
		if st.HarnessErr != "" {
			r.HarnessErrs = append(r.HarnessErrs, st.Scenario+": "+st.HarnessErr)
		}
		if st.CapHit != "" {
			r.CapsHit = append(r.CapsHit, st.Scenario+": "+st.CapHit)
		}
		for _, f := range st.Found {
			msg := fmt.Sprintf("[%s] %s (in %d executions; first with %d deviations; replayed identically: %v)", f.Scenario, f.Msg, f.Count, f.Devs, f.Replayed)
			if !f.Replayed {
				r.HarnessErrs = append(r.HarnessErrs, "violation did not replay identically (machinery bug, not a verdict): "+msg)
				continue
			}
			r.Violate(f.Key, msg, map[string]any{"part": "race", "scenario": strings.TrimPrefix(f.Scenario, "cleaner-race/"), "tier": tier})
		}
	}
	r.Extra["cleaner_race"] = map[string]any{"scenarios": len(scs), "deviation_bound": b, "executions": execs}
}

// replayRace re-explores one race scenario (the schedule space is small) and reports its findings.
func replayRace(what, tier string) ([]finding, string) {
	b := 2
	if tier == "thorough" {
		b = 3
	}
	sc := raceScenario(what, b)
	if strings.HasPrefix(what, "restore-race/") {
		live := 1
		fmt.Sscanf(what, "restore-race/%d-", &live)
		sc = restoreRaceScenario(live, b)
	}
	st := vx.Explore(sc, 0, time.Now().Add(5*time.Minute))
	var fs []finding
	for _, f := range st.Found {
		fs = append(fs, finding{f.Key, f.Msg})
	}
	return fs, st.HarnessErr
}
