package main

import (
	"bytes"
	"encoding/json"
	"fmt"
	"os"
	"strconv"
	"strings"
	"time"

	sio "github.com/karagenc/socket.io-go"
	"github.com/karagenc/socket.io-go/adapter"
	eio "github.com/karagenc/socket.io-go/engine.io"
	"github.com/karagenc/socket.io-go/internal/vrig"
	"github.com/karagenc/socket.io-go/internal/vsched"
)

// ---------------------------------------------------------------- the harness's own frame decoder

// rxEvent is one EVENT / BINARY_EVENT as the protocol-level client decodes it.
type rxEvent struct {
	name   string
	args   []json.RawMessage // arguments after the event name, placeholders still in place
	bins   [][]byte          // attachments
	ackID  string
	offset string // trailing argument if it is a JSON string
	broken string // why the frames do not form a packet ("" = fine)
	raw    string
}

type rxStream struct {
	events   []rxEvent
	connects []string // bodies of CONNECT replies
	errors   []string // CONNECT_ERROR bodies
	other    []string
}

// decodeFrames parses the frames the server handed to one connection (namespace "/" only).
func decodeFrames(frames []vrig.Frame) (s rxStream) {
	for i := 0; i < len(frames); i++ {
		f := frames[i]
		if f.Binary {
			s.events = append(s.events, rxEvent{broken: "binary frame that no header announced", raw: fmt.Sprintf("<bin %x>", f.Data)})
			continue
		}
		d := f.Data
		if d == "" {
			s.other = append(s.other, d)
			continue
		}
		switch d[0] {
		case '0':
			s.connects = append(s.connects, d[1:])
		case '4':
			s.errors = append(s.errors, d[1:])
		case '2', '5':
			ev := rxEvent{raw: d}
			rest := d[1:]
			natt := 0
			if d[0] == '5' {
				dash := strings.IndexByte(rest, '-')
				if dash < 0 {
					ev.broken = "binary event header without attachment count"
					s.events = append(s.events, ev)
					continue
				}
				natt, _ = strconv.Atoi(rest[:dash])
				rest = rest[dash+1:]
			}
			j := 0
			for j < len(rest) && rest[j] >= '0' && rest[j] <= '9' {
				j++
			}
			ev.ackID, rest = rest[:j], rest[j:]
			var arr []json.RawMessage
			if err := json.Unmarshal([]byte(rest), &arr); err != nil || len(arr) == 0 {
				ev.broken = "payload is not a JSON array with an event name"
				s.events = append(s.events, ev)
				continue
			}
			json.Unmarshal(arr[0], &ev.name)
			ev.args = arr[1:]
			if len(ev.args) > 0 {
				var off string
				if json.Unmarshal(ev.args[len(ev.args)-1], &off) == nil {
					ev.offset = off
				}
			}
			for a := 0; a < natt; a++ {
				if i+1 < len(frames) && frames[i+1].Binary {
					i++
					ev.bins = append(ev.bins, []byte(frames[i].Data))
					ev.raw += fmt.Sprintf(" + <bin %x>", frames[i].Data)
				} else {
					ev.broken = fmt.Sprintf("header announces %d attachment(s), %d binary frame(s) follow", natt, len(ev.bins))
					break
				}
			}
			s.events = append(s.events, ev)
		default:
			s.other = append(s.other, d)
		}
	}
	return
}

// matches: is ev the packet p of the model (event name, argument, attachment, trailing offset)?
func (ev *rxEvent) matches(p *mpkt) string {
	if ev.broken != "" {
		return ev.broken
	}
	if ev.name != evName(p.idx) {
		return fmt.Sprintf("event name %q, emitted %q", ev.name, evName(p.idx))
	}
	nargs := 2
	if !p.logged {
		nargs = 1
	}
	if len(ev.args) != nargs {
		return fmt.Sprintf("%d arguments after the event name, expected %d (payload%s)", len(ev.args), nargs, map[bool]string{true: " + offset", false: ""}[p.logged])
	}
	if p.s.bin() {
		var ph struct {
			P   bool `json:"_placeholder"`
			Num *int `json:"num"`
		}
		if json.Unmarshal(ev.args[0], &ph) != nil || !ph.P || ph.Num == nil || *ph.Num != 0 {
			return "binary argument is not placeholder 0: " + string(ev.args[0])
		}
		if len(ev.bins) != 1 || !bytes.Equal(ev.bins[0], binArg(p.idx)) {
			return fmt.Sprintf("attachments %x, emitted %x", ev.bins, binArg(p.idx))
		}
	} else {
		if string(ev.args[0]) != strconv.Quote(textArg(p.idx)) || len(ev.bins) != 0 {
			return fmt.Sprintf("argument %s with %d attachments, emitted %q", ev.args[0], len(ev.bins), textArg(p.idx))
		}
	}
	if p.logged && ev.offset != p.id {
		return fmt.Sprintf("trailing offset %q is not the id the packet was logged with", ev.offset)
	}
	return ""
}

// ---------------------------------------------------------------- one case through sio.Server

type srvConn struct {
	sock      sio.ServerSocket
	id        string
	recovered bool
	rooms     []string
	ready     bool
}

type sidPid struct {
	SID string `json:"sid"`
	PID string `json:"pid"`
}

// variants of a server-level case
const (
	vNormal           = ""
	vUnknownPID       = "unknown-pid"
	vUnknownOffset    = "unknown-offset"
	vClientDisconnect = "client-namespace-disconnect" // not a recoverable reason: nothing is persisted
	vTwice            = "recover-twice"
	vBoth             = "two-sessions" // T is cut as well and recovers from the same log after S
)

func runServerCase(c caseID) caseResult { return runServerCaseV(c, vNormal) }

func runServerCaseV(c caseID, variant string) (res caseResult) {
	n := len(c.H)
	tm := schedule(n, c.K, c.Delta, c.spacing(), c.lag())
	if tm.onCleanerGrid() {
		res.HarnessErr = fmt.Sprintf("%v: an event falls on a clean-up pass", c)
		return
	}
	what := c.String()
	if variant != "" {
		what += " [" + variant + "]"
	}
	add := func(key, format string, a ...any) {
		res.Findings = append(res.Findings, finding{key, what + ": " + fmt.Sprintf(format, a...)})
	}
	horizon := tm.tRe + 30*time.Second
	if i := strings.IndexByte(variant, '+'); i >= 0 {
		if d, err := time.ParseDuration(variant[i+1:]); err == nil {
			horizon += d // the second outage of the recover-twice variants
		}
	}
	e := vsched.Run(vsched.Options{Horizon: horizon}, func(e *vsched.Exec) {
		scfg := &sio.ServerConfig{ServerConnectionStateRecovery: sio.ServerConnectionStateRecovery{Enabled: true, MaxDisconnectionDuration: window}}
		srv := sio.NewServer(scfg)
		nsp := srv.Of("/")
		a := nsp.Adapter()
		if w, p, ok := adapter.VerifSessionWindow(a); !ok || w != window || p != cleanerPeriod {
			res.HarnessErr = fmt.Sprintf("server adapter window/period are %v/%v (session-aware: %v), the harness assumes %v/%v", w, p, ok, window, cleanerPeriod)
			return
		}
		var v vsched.Var
		var conns []*srvConn
		nsp.OnConnection(func(s sio.ServerSocket) {
			rec := &srvConn{sock: s, id: string(s.ID()), recovered: s.Recovered()}
			idx := 0
			v.Do(func() { idx = len(conns); conns = append(conns, rec) })
			if !s.Recovered() {
				switch idx {
				case 0:
					s.Join("r1")
				case 1:
					s.Join("r2")
				}
			}
			var rooms []string
			for _, r := range s.Rooms().ToSlice() {
				rooms = append(rooms, string(r))
			}
			v.Do(func() { rec.rooms = sortedCopy(rooms); rec.ready = true })
		})
		connect := func(name, first string) (*vrig.FakeEIO, *srvConn, sidPid, bool) {
			f := vrig.NewFakeEIO(srv, name)
			nBefore := 0
			v.Do(func() { nBefore = len(conns) })
			f.In(first)
			vsched.Sleep(10 * time.Millisecond)
			st := decodeFrames(f.Frames)
			var sp sidPid
			if len(st.connects) != 1 || json.Unmarshal([]byte(st.connects[0]), &sp) != nil || sp.SID == "" {
				add("server: CONNECT not answered with exactly one CONNECT reply carrying a sid", "connection %s sent %s, frames: %s", name, first, f)
				return f, nil, sp, false
			}
			var rec *srvConn
			v.Do(func() {
				if len(conns) == nBefore+1 && conns[nBefore].ready {
					rec = conns[nBefore]
				}
			})
			if rec == nil {
				add("server: connection handler did not run for an admitted socket", "connection %s", name)
				return f, nil, sp, false
			}
			return f, rec, sp, true
		}
		fS, cS, spS, ok := connect("S1", "0")
		if !ok {
			return
		}
		fT, cT, spT, ok := connect("T1", "0")
		if !ok {
			return
		}
		if spS.PID == "" || spT.PID == "" || spS.PID == spT.PID || spS.SID == spT.SID {
			add("server: recovery-enabled server does not hand out distinct sid/pid pairs", "S %+v T %+v", spS, spT)
			return
		}
		rooms := [2][]string{{spS.SID, "r1"}, {spT.SID, "r2"}}
		sps := [2]sidPid{spS, spT}
		model := make([]mpkt, 0, n+4)
		sConnected := true
		emitKind := func(s sym, at time.Duration) *mpkt {
			i := len(model)
			model = append(model, mpkt{idx: i, s: s, at: at})
			p := &model[i]
			tg := kindTarget(s.kind(), spS.SID, spT.SID)
			p.logged = s.kind() != kAck
			p.to = [2]bool{addressed(rooms[0], tg), addressed(rooms[1], tg)}
			var arg any = textArg(i)
			if s.bin() {
				arg = sio.Binary(binArg(i))
			}
			before, _, _ := adapter.VerifSessionLog(a)
			switch s.kind() {
			case kAll:
				nsp.Emit(evName(i), arg)
			case kR1:
				nsp.To("r1").Emit(evName(i), arg)
			case kR2:
				nsp.To("r2").Emit(evName(i), arg)
			case kR1xR2:
				nsp.To("r1").Except("r2").Emit(evName(i), arg)
			case kAllxS:
				if sConnected {
					cS.sock.Broadcast().Emit(evName(i), arg)
				} else {
					nsp.Except(sio.Room(spS.SID)).Emit(evName(i), arg)
				}
			case kS:
				if sConnected {
					cS.sock.Emit(evName(i), arg)
				} else {
					nsp.To(sio.Room(spS.SID)).Emit(evName(i), arg)
				}
			case kT:
				cT.sock.Emit(evName(i), arg)
			case kR1xS:
				if sConnected {
					cS.sock.To("r1").Emit(evName(i), arg)
				} else {
					nsp.To("r1").Except(sio.Room(spS.SID)).Emit(evName(i), arg)
				}
			case kR12xT:
				cT.sock.To("r1", "r2").Emit(evName(i), arg)
			case kAck:
				if sConnected {
					cS.sock.Emit(evName(i), arg, func() {})
				} else {
					// the socket is gone: an emit with ack to the other client (never logged, not for S)
					cT.sock.Emit(evName(i), arg, func() {})
					p.to = [2]bool{false, true}
				}
			}
			after, _, _ := adapter.VerifSessionLog(a)
			grew := len(after) == len(before)+1
			if grew {
				p.id = after[len(after)-1].ID
			}
			if grew != p.logged {
				add("server: packet log does not hold exactly the events without ack id", "packet %d (%v): logged=%v, the model says %v", i+1, s, grew, p.logged)
			}
			return p
		}
		// liveCheck compares the events a connection received with the model packets [from, to) addressed to sess.
		liveCheck := func(f *vrig.FakeEIO, skipEvents int, from, to, sess int, who string) (lastOffset string, ok bool) {
			st := decodeFrames(f.Frames)
			evs := st.events
			if skipEvents <= len(evs) {
				evs = evs[skipEvents:]
			}
			var want []*mpkt
			for i := from; i < to; i++ {
				if model[i].to[sess] {
					want = append(want, &model[i])
				}
			}
			ok = len(evs) == len(want)
			why := ""
			for j := 0; ok && j < len(want); j++ {
				if why = evs[j].matches(want[j]); why != "" {
					ok = false
				}
			}
			if !ok {
				var wl []int
				for _, p := range want {
					wl = append(wl, p.idx+1)
				}
				add("server: live delivery differs from the reference model (C02/C04 territory; the C08 model is not applicable)", "%s received %s; the model expects packets %v (%s)", who, f, wl, why)
			}
			for _, ev := range evs {
				if ev.ackID == "" && ev.offset != "" {
					lastOffset = ev.offset
				}
			}
			return
		}

		for i := 0; i < c.K; i++ {
			sleepUntil(e, tm.emitAt[i])
			emitKind(c.H[i], e.Clock())
		}
		sleepUntil(e, tm.tDisc)
		clientOffset, okLive := liveCheck(fS, 0, 0, c.K, 0, "client S")
		if !okLive {
			return
		}
		offsetIdx := -1
		for i := 0; i < c.K; i++ {
			if model[i].logged && model[i].to[0] {
				offsetIdx = i
			}
		}
		if wantOff := func() string {
			if offsetIdx >= 0 {
				return model[offsetIdx].id
			}
			return ""
		}(); wantOff != clientOffset {
			res.HarnessErr = fmt.Sprintf("%s: client offset %q, model offset %q", what, clientOffset, wantOff)
			return
		}
		// the client is behind: it presents the offset of an earlier logged packet it was sent
		for b := 0; b < c.Behind && offsetIdx >= 0; b++ {
			prev := -1
			for i := 0; i < offsetIdx; i++ {
				if model[i].logged && model[i].to[0] {
					prev = i
				}
			}
			if prev < 0 {
				res.HarnessErr = fmt.Sprintf("%s: the client cannot be %d packets behind", what, c.Behind)
				return
			}
			offsetIdx = prev
			clientOffset = model[prev].id
		}
		eventsSeenT := 0
		offsetT, offsetIdxT := "", -1
		if variant == vBoth {
			var okT bool
			if offsetT, okT = liveCheck(fT, 0, 0, c.K, 1, "client T"); !okT {
				return
			}
			for i := 0; i < c.K; i++ {
				if model[i].logged && model[i].to[1] {
					offsetIdxT = i
				}
			}
			fT.TransportClose(eio.ReasonTransportClose)
		}
		// the cut
		if variant == vClientDisconnect {
			fS.In("1")
		} else {
			fS.TransportClose(eio.ReasonTransportClose)
		}
		sConnected = false
		for i := c.K; i < n; i++ {
			sleepUntil(e, tm.emitAt[i])
			emitKind(c.H[i], e.Clock())
		}
		sleepUntil(e, tm.tRe)
		if e.Clock() != tm.tRe {
			res.HarnessErr = fmt.Sprintf("%s: clock is %v at the reconnection, planned %v", what, e.Clock(), tm.tRe)
			return
		}
		if variant != vBoth {
			if _, ok := liveCheck(fT, eventsSeenT, 0, n, 1, "client T (stays connected)"); !ok {
				return
			}
		}
		eventsSeenT = len(decodeFrames(fT.Frames).events)
		framesOld := len(fS.Frames)

		// the reconnection
		exp, why := expect(model, offsetIdx, tm)
		pid, off := spS.PID, clientOffset
		switch variant {
		case vUnknownPID:
			pid, exp, why = "no-such-pid", mustNot, "the pid is unknown"
		case vUnknownOffset:
			off, exp, why = "never-logged-offset", mustNot, "the offset was never logged"
		case vClientDisconnect:
			exp, why = mustNot, "the client left with a DISCONNECT packet (not a recoverable reason), nothing was persisted"
		}
		res.Class[0] = exp
		auth := map[string]string{"pid": pid}
		if off != "" {
			auth["offset"] = off
		}
		ab, _ := json.Marshal(auth)
		reconnect := func(name string, ab []byte, sess, offsetIdx int, exp expectation, why string, tm timing) (f2 *vrig.FakeEIO, c2 *srvConn, recovered bool, ok bool) {
			f2, c2, sp2, ok := connect(name, "0"+string(ab))
			if !ok {
				st := decodeFrames(f2.Frames)
				if len(st.errors) > 0 && exp != mustNot {
					// a CONNECT_ERROR instead of a session: the replay could not be produced
					add("server: reconnection within the window answered with CONNECT_ERROR", "frames: %s", f2)
				}
				return f2, nil, false, false
			}
			recovered = sp2.SID == sps[sess].SID
			if sess == 0 {
				res.OK[0] = recovered
			}
			st := decodeFrames(f2.Frames)
			switch {
			case exp == must && !recovered:
				after := " (no clean-up pass since the offset packet was emitted)"
				if passesBetween(model[offsetIdx].at, tm.tRe) > 0 {
					after = " after a clean-up pass of the packet log"
				}
				add("server: recovery refused although session and offset are within the window"+after,
					"connection "+name+": client reconnects %v after the cut with pid and the offset of packet %d (emitted %v before; window %v; %d clean-up passes since): fresh sid", tm.tRe-tm.tDisc, offsetIdx+1, tm.tRe-model[offsetIdx].at, window, passesBetween(model[offsetIdx].at, tm.tRe))
			case exp == mustNot && recovered:
				add("server: session recovered although it must not be ("+mustNotClass(why)+")", "%s: %s, yet the CONNECT reply carries the old sid", name, why)
			}
			if !recovered {
				if sp2.PID == sps[sess].PID || sp2.PID == "" {
					add("server: fresh session carries the old pid or none", "reply %+v, old %+v", sp2, sps[sess])
				}
				if c2.recovered {
					add("server: fresh session is marked recovered", "ServerSocket.Recovered() is true for sid %s", sp2.SID)
				}
				if len(st.events) != 0 {
					add("server: fresh session received replayed packets", "frames: %s", f2)
				}
				return f2, c2, false, true
			}
			if sp2.PID != sps[sess].PID {
				add("server: recovered session got another pid", "reply %+v, old %+v", sp2, sps[sess])
			}
			if !c2.recovered || c2.id != sps[sess].SID {
				add("server: recovered socket is not marked recovered or has another id", "Recovered()=%v ID()=%s", c2.recovered, c2.id)
			}
			if strings.Join(c2.rooms, ",") != strings.Join(sortedCopy(rooms[sess]), ",") {
				add("server: recovered socket is not in the rooms it had", "rooms %v, before the cut %v", c2.rooms, sortedCopy(rooms[sess]))
			}
			if offsetIdx < 0 {
				return f2, c2, true, true
			}
			// the replay: decoded by the harness, compared with the model
			byID := map[string]*mpkt{}
			for i := range model {
				if model[i].logged {
					byID[model[i].id] = &model[i]
				}
			}
			var ids []string
			broken := false
			for i := range st.events {
				ev := &st.events[i]
				p := byID[ev.offset]
				kind := "text"
				if ev.raw != "" && ev.raw[0] == '5' || (p != nil && p.s.bin()) {
					kind = "binary"
				}
				if ev.broken != "" {
					add("server: replayed "+kind+" event does not re-encode", "%s: %s; all frames: %s", ev.raw, ev.broken, f2)
					broken = true
					continue
				}
				ids = append(ids, ev.offset)
				if p != nil {
					if why := ev.matches(p); why != "" {
						add("server: replayed "+kind+" event differs from the one that was emitted", "packet %d replayed as %s: %s", p.idx+1, ev.raw, why)
					}
				}
			}
			res.Replayed += len(ids)
			if !broken {
				for _, fd := range judgeMissed("server", ids, model, offsetIdx, sess, tm) {
					add(fd.Key, "%s", fd.Msg)
				}
			}
			return f2, c2, true, !broken
		}
		f2, c2, recovered, ok := reconnect("S2", ab, 0, offsetIdx, exp, why, tm)
		if os.Getenv("VERIF_C08_DEBUG") != "" {
			fmt.Fprintf(os.Stderr, "first round: variant=%s recovered=%v ok=%v exp=%v why=%s\n", variant, recovered, ok, exp, why)
		}
		if variant == vBoth {
			abT, _ := json.Marshal(map[string]string{"pid": spT.PID, "offset": offsetT})
			expT, whyT := expect(model, offsetIdxT, tm)
			if offsetIdxT < 0 {
				abT, _ = json.Marshal(map[string]string{"pid": spT.PID})
			}
			reconnect("T2", abT, 1, offsetIdxT, expT, whyT, tm)
			return
		}
		for _, p := range model[minInt(offsetIdx+1, len(model)):] {
			if offsetIdx >= 0 && p.logged && p.to[0] {
				res.Nontrivial = true
			}
		}
		if len(fS.Frames) != framesOld {
			add("server: the cut connection received frames after the cut", "%s", fS)
		}
		if !ok || c2 == nil {
			return
		}
		// live events continue on the new connection
		seen := len(decodeFrames(f2.Frames).events)
		if recovered {
			cS.sock = c2.sock
			sConnected = true
		} else {
			rooms[0] = []string{c2.id} // a fresh socket: only its own room
		}
		from := len(model)
		vsched.Sleep(time.Second)
		emitKind(sym(kAll*2), e.Clock())
		emitKind(sym(kR1*2+1), e.Clock())
		if recovered {
			emitKind(sym(kS*2+1), e.Clock())
		}
		vsched.Sleep(100 * time.Millisecond)
		st := decodeFrames(f2.Frames)
		var wantLive []*mpkt
		for i := from; i < len(model); i++ {
			if model[i].to[0] {
				wantLive = append(wantLive, &model[i])
			}
		}
		gotLive := st.events
		if seen <= len(gotLive) {
			gotLive = gotLive[seen:]
		}
		okLive = len(gotLive) == len(wantLive)
		for j := 0; okLive && j < len(wantLive); j++ {
			if gotLive[j].matches(wantLive[j]) != "" {
				okLive = false
			}
		}
		if !okLive {
			add("server: live events after the reconnection are not delivered as emitted", "recovered=%v; new connection received %s; expected %d live events after %d replayed", recovered, f2, len(wantLive), seen)
			return
		}
		if !strings.HasPrefix(variant, vTwice) || !recovered {
			return
		}
		// how long the second outage lasts (variant "recover-twice+<duration>"; default 2 s): the window
		// of a session that was recovered once is counted from its LATEST disconnection
		gap2 := 2 * time.Second
		if i := strings.IndexByte(variant, '+'); i >= 0 {
			if d, err := time.ParseDuration(variant[i+1:]); err == nil {
				gap2 = d
			}
		}
		// second round: cut again right away, two more packets, reconnect with the newest offset
		lastOff := ""
		for _, ev := range st.events {
			if ev.offset != "" && ev.ackID == "" {
				lastOff = ev.offset
			}
		}
		off2 := -1
		for i := range model {
			if model[i].logged && model[i].id == lastOff {
				off2 = i
			}
		}
		if os.Getenv("VERIF_C08_DEBUG") != "" {
			fmt.Fprintf(os.Stderr, "second round starts: lastOff=%q off2=%d gap2=%v\n", lastOff, off2, gap2)
		}
		if off2 < 0 {
			res.HarnessErr = what + ": second round: last offset not in the model"
			return
		}
		f2.TransportClose(eio.ReasonTransportClose)
		sConnected = false
		tm2 := timing{tDisc: e.Clock()}
		vsched.Sleep(time.Second)
		emitKind(sym(kS*2), e.Clock())
		emitKind(sym(kR2*2), e.Clock())
		emitKind(sym(kR1*2+1), e.Clock())
		vsched.Sleep(gap2 - time.Second)
		tm2.tRe = e.Clock()
		exp2, why2 := expect(model, off2, tm2)
		if os.Getenv("VERIF_C08_DEBUG") != "" {
			fmt.Fprintf(os.Stderr, "second round: tDisc=%v tRe=%v off2=%d at=%v exp=%v why=%s\n", tm2.tDisc, tm2.tRe, off2, model[off2].at, exp2, why2)
		}
		ab2, _ := json.Marshal(map[string]string{"pid": spS.PID, "offset": lastOff})
		reconnect("S3", ab2, 0, off2, exp2, why2+" (second recovery of the same session)", tm2)
	})
	res.Steps = e.Steps
	if len(e.Panics) > 0 {
		add("server: panic", "%v", e.Panics)
	}
	if e.Deadlock != "" {
		add("server: deadlock", "%s", e.Deadlock)
	}
	if e.HarnessErr != "" && res.HarnessErr == "" {
		res.HarnessErr = e.HarnessErr
	}
	if e.Failure != "" && res.HarnessErr == "" {
		res.HarnessErr = e.Failure
	}
	return
}

// ---------------------------------------------------------------- enumeration at server level

type srvScenario struct {
	name    string
	c       caseID
	variant string
}

func serverScenarios() []srvScenario {
	h := func(s ...sym) history { return history(s) }
	t, b := func(k int) sym { return sym(k * 2) }, func(k int) sym { return sym(k*2 + 1) }
	mixed := h(t(kAll), b(kR1), t(kR2), b(kS), t(kAllxS), b(kAll), t(kT), t(kAck), b(kR1xR2), t(kS))
	var out []srvScenario
	for _, k := range []int{1, 2, 4} {
		for _, d := range []time.Duration{time.Second, 61 * time.Second, 119 * time.Second, 121 * time.Second} {
			out = append(out, srvScenario{fmt.Sprintf("mixed-10/k=%d/%v", k, d), caseID{H: mixed, K: k, Delta: d}, vNormal})
		}
	}
	short := h(t(kAll), b(kS), t(kR1))
	for _, v := range []string{vUnknownPID, vUnknownOffset, vClientDisconnect, vTwice} {
		for _, d := range []time.Duration{time.Second, 61 * time.Second} {
			out = append(out, srvScenario{fmt.Sprintf("%s/%v", v, d), caseID{H: short, K: 1, Delta: d}, v})
		}
	}
	out = append(out, srvScenario{"recover-twice/mixed", caseID{H: mixed, K: 4, Delta: time.Second}, vTwice})
	// two outages in a row whose lengths add up to more than the window (120 s) while each stays inside it
	for _, d1 := range []time.Duration{time.Second, 61 * time.Second, 119 * time.Second} {
		for _, d2 := range []string{"59s", "61s", "119s"} {
			out = append(out, srvScenario{fmt.Sprintf("recover-twice/first-outage=%v/second-outage=%s", d1, d2), caseID{H: short, K: 1, Delta: d1}, vTwice + "+" + d2})
		}
	}
	// a dead peer noticed late and a client that is behind: packets sent before the connection ended are missed
	// packets too, and they are OLDER than the session. Reconnections late in the window find them expired but
	// still logged (no clean-up pass in between): a recovered session must get them all the same.
	lateH := h(t(kAll), b(kR1), t(kS), t(kAll), b(kAll))
	for _, lag := range []time.Duration{time.Second, 5 * time.Second, 25 * time.Second} {
		for _, behind := range []int{1, 2} {
			for _, d := range []time.Duration{time.Second, 61 * time.Second, 115 * time.Second, 119 * time.Second} {
				out = append(out, srvScenario{fmt.Sprintf("client-behind/%d-packets/connection-ends-%v-late/%v", behind, lag, d), caseID{H: lateH, K: 3, Delta: d, Lag: lag, Behind: behind}, vNormal})
			}
		}
	}
	bins := h(t(kAll), b(kAll), b(kR1), b(kR2), b(kAll), b(kT), b(kS))
	for _, d := range []time.Duration{time.Second, 61 * time.Second, 119 * time.Second} {
		out = append(out, srvScenario{fmt.Sprintf("two-sessions/binary/%v", d), caseID{H: bins, K: 1, Delta: d}, vBoth})
		out = append(out, srvScenario{fmt.Sprintf("two-sessions/mixed-10/%v", d), caseID{H: mixed, K: 3, Delta: d}, vBoth})
	}
	return out
}

func runServerScenario(name string) ([]finding, string) {
	for _, s := range serverScenarios() {
		if s.name == name {
			r := runServerCaseV(s.c, s.variant)
			return r.Findings, r.HarnessErr
		}
	}
	return nil, "no such server scenario: " + name
}

func serverWorker(tier string, shard, nshards int, deadline time.Time) *workerOut {
	o := newOut("server")
	if nshards < 1 {
		nshards = 1
	}
	account := func(c caseID, r caseResult, replay map[string]any) {
		o.Cases++
		o.Execs++
		o.Steps += r.Steps
		o.Replayed += r.Replayed
		if r.HarnessErr != "" {
			o.harnessErr(r.HarnessErr)
			return
		}
		if r.Nontrivial {
			o.Nontrivial++
		}
		res := "refused"
		if r.OK[0] {
			res = "recovered"
		}
		o.ByClass[r.Class[0].String()+"/"+res]++
		for _, f := range r.Findings {
			o.found("server", c, f)
			if a := o.Found[f.Key]; a.Msg == f.Msg && replay != nil {
				a.Replay = replay
			}
		}
	}
	if shard == 0 {
		nsc := 0
		for _, s := range serverScenarios() {
			r := runServerCaseV(s.c, s.variant)
			account(s.c, r, map[string]any{"part": "server", "scenario": s.name})
			o.ByLen["scripted"]++
			nsc++
		}
		o.Extra["scripted_scenarios"] = nsc
		o.Samples = append(o.Samples, map[string]any{"part": "server", "scenario": "mixed-10/k=2/1s", "history": serverScenarios()[3].c.H.String()})
	}
	// the model through the server: all histories of length <= maxL over the 16 symbols
	maxL := 2
	deltas := []time.Duration{time.Second, 61 * time.Second, 121 * time.Second}
	spacings := allSpacings[:1]
	if tier == "thorough" {
		maxL = 3
		deltas = allDeltas
		spacings = allSpacings
	}
	full := alphabet(false)
	seq := 0
	for L := 0; L <= maxL; L++ {
		total := pow(len(full), L)
		for idx := 0; idx < total; idx++ {
			seq++
			if seq%nshards != shard {
				continue
			}
			if time.Now().After(deadline) {
				o.Cap = fmt.Sprintf("server level: wall-clock budget reached inside length %d (history %d of %d)", L, idx, total)
				return o
			}
			h := make(history, L)
			x := idx
			for i := L - 1; i >= 0; i-- {
				h[i] = full[x%len(full)]
				x /= len(full)
			}
			for k := 0; k <= L; k++ {
				for _, d := range deltas {
					for _, spc := range spacings {
						if k == 0 && spc != spacings[0] {
							continue
						}
						c := caseID{H: h, K: k, Delta: d, Spacing: spc}
						account(c, runServerCase(c), nil)
						o.ByLen[fmt.Sprint(L)]++
					}
				}
			}
		}
	}
	return o
}

// mustNotClass names the reason of a must-not expectation in a key (stable, one per class).
func mustNotClass(why string) string {
	switch {
	case strings.Contains(why, "session is older"):
		return "session older than the window"
	case strings.Contains(why, "no offset"):
		return "client without an offset"
	case strings.Contains(why, "expired more than"):
		return "offset expired more than a clean-up period ago"
	case strings.Contains(why, "pid is unknown"):
		return "unknown pid"
	case strings.Contains(why, "never logged"):
		return "never-logged offset"
	case strings.Contains(why, "DISCONNECT packet"):
		return "session left with a DISCONNECT packet"
	}
	return "other"
}
