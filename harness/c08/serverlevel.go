package main

import "time"

func serverWorker(tier string, deadline time.Time) *workerOut { return newOut("server") }
func runServerScenario(name string) ([]finding, string)        { return nil, "" }
func runServerCase(c caseID) caseResult                         { return caseResult{} }
