package main

import (
	"encoding/json"
	"fmt"
	"strings"
	"time"

	sio "github.com/karagenc/socket.io-go"
	vx "github.com/karagenc/socket.io-go/internal/vexplore"
	"github.com/karagenc/socket.io-go/internal/vrig"
	"github.com/karagenc/socket.io-go/internal/vsched"
)

// ---------------------------------------------------------------- a broadcast racing the restoration of a session
//
// Everywhere else in this check the server is quiet while a client comes back. Here it is not: one goroutine keeps
// broadcasting to a room of the session while the returning peer's CONNECT (pid + offset) is being handled. The
// restoration is several steps (Namespace.add: RestoreSession takes the missed packets out of the log; newServerSocket
// joins the session's rooms again and replays; doConnect registers the socket with the namespace), and a broadcast is
// two (the packet goes into the log, then to the sockets the rooms select). All interleavings to the deviation bound:
// a session that the server reports recovered (same pid in the CONNECT reply) must get every event that was emitted to
// its room after its offset exactly once - replayed or live, the statement does not care which.

func restoreRaceScenario(live int, bound int) *vx.Scenario {
	sc := &vx.Scenario{Name: fmt.Sprintf("restore-race/%d-broadcasts-while-the-session-is-restored", live), Bound: bound, Horizon: 20 * time.Second}
	sc.Body = func(e *vsched.Exec) func() vx.Result {
		vsched.SetExploring(false)
		scfg := &sio.ServerConfig{}
		scfg.ServerConnectionStateRecovery.Enabled = true
		srv := sio.NewServer(scfg)
		var v vsched.Var
		joined := 0
		srv.OnConnection(func(s sio.ServerSocket) {
			if !s.Recovered() {
				s.Join("r1")
			}
			v.Do(func() { joined++ })
		})
		nsp := srv.Of("/")
		f1 := vrig.NewFakeEIO(srv, "c08-first")
		f1.ConnectNS("/")
		vsched.Await(func() bool { return joined >= 1 })
		vrig.Settle(time.Second)
		nsp.To("r1").Emit("e", 0) // delivered: its offset is what the client comes back with
		vrig.Settle(time.Second)
		pid, offset := "", ""
		for _, t := range f1.Texts() {
			switch {
			case strings.HasPrefix(t, "0{"):
				var info struct {
					PID string `json:"pid"`
				}
				if json.Unmarshal([]byte(t[1:]), &info) == nil {
					pid = info.PID
				}
			case strings.HasPrefix(t, `2["e",0,"`):
				offset = strings.TrimSuffix(strings.TrimPrefix(t, `2["e",0,"`), `"]`)
			}
		}
		if pid == "" || offset == "" {
			e.HarnessErr = fmt.Sprintf("set-up: no pid / offset on the wire of the first connection: %v", f1.Texts())
			return nil
		}
		f1.TransportClose("transport close")
		vrig.Settle(time.Second)
		nsp.To("r1").Emit("e", 1) // missed while the client is away
		vrig.Settle(time.Second)
		f2 := vrig.NewFakeEIO(srv, "c08-second")
		auth, _ := json.Marshal(map[string]string{"pid": pid, "offset": offset})
		// the returning peer first (thread creation order is the default order): by default the session is restored, then
		// the broadcasts follow; every step of the restoration is one preemption away from the broadcaster
		vsched.SetExploring(true)
		vsched.GoQuiet("returning-peer", func() { f2.In("0" + string(auth)) })
		vsched.GoQuiet("broadcaster", func() {
			for k := 0; k < live; k++ {
				nsp.To("r1").Emit("e", 2+k)
			}
		})
		return func() vx.Result {
			var r vx.Result
			recovered := false
			count := map[int]int{}
			var seen []int
			for _, t := range f2.Texts() {
				if strings.HasPrefix(t, "0{") && strings.Contains(t, `"pid":"`+pid+`"`) {
					recovered = true
				}
				if strings.HasPrefix(t, `2["e",`) {
					var n int
					if _, err := fmt.Sscanf(t, `2["e",%d,`, &n); err == nil {
						count[n]++
						seen = append(seen, n)
					}
				}
			}
			r.Outcome = fmt.Sprintf("recovered=%v seen=%v", recovered, seen)
			if !recovered {
				return r // a fresh session: nothing is owed (the adapter and server parts judge when that is legitimate)
			}
			ctx := fmt.Sprintf("event 0 was delivered (the client's offset), event 1 emitted while the client was away, events 2..%d while its CONNECT with pid and offset was being handled; the session was reported recovered and its connection received %v", 1+live, seen)
			for n := 1; n < 2+live; n++ {
				switch {
				case count[n] == 0:
					r.Violate("restore race: session reported recovered with a gap (an event broadcast to its room while the session was being restored is neither replayed nor delivered)", "event %d missing; %s", n, ctx)
				case count[n] > 1:
					r.Violate("restore race: an event broadcast while the session was being restored reaches the recovered session twice (replayed and delivered live)", "event %d seen %d times; %s", n, count[n], ctx)
				}
			}
			return r
		}
	}
	return sc
}
