package main

import (
	"bytes"
	"fmt"
	"sort"
	"strings"
	"time"

	sio "github.com/karagenc/socket.io-go"
	"github.com/karagenc/socket.io-go/adapter"
	"github.com/karagenc/socket.io-go/internal/vsched"
	"github.com/karagenc/socket.io-go/parser"
	jsonparser "github.com/karagenc/socket.io-go/parser/json"
	"github.com/karagenc/socket.io-go/parser/json/serializer/stdjson"
)

// ---------------------------------------------------------------- recording socket store

type recStore struct {
	socks map[adapter.SocketID]adapter.Socket
	sent  map[adapter.SocketID][][][]byte // per socket: one entry per SendBuffers call
}

func newRecStore() *recStore {
	return &recStore{socks: map[adapter.SocketID]adapter.Socket{}, sent: map[adapter.SocketID][][][]byte{}}
}

func (s *recStore) SendBuffers(sid adapter.SocketID, buffers [][]byte) bool {
	cp := make([][]byte, len(buffers))
	for i, b := range buffers {
		cp[i] = append([]byte{}, b...)
	}
	s.sent[sid] = append(s.sent[sid], cp)
	return true
}
func (s *recStore) Get(sid adapter.SocketID) (adapter.Socket, bool) {
	so, ok := s.socks[sid]
	return so, ok
}
func (s *recStore) GetAll() []adapter.Socket {
	var out []adapter.Socket
	for _, k := range vsched.SortedKeys(s.socks) {
		out = append(out, s.socks[k])
	}
	return out
}
func (s *recStore) Remove(sid adapter.SocketID) { delete(s.socks, sid) }

// ---------------------------------------------------------------- one case on the real adapter

const (
	sidS = "S-sid"
	sidT = "T-sid"
	pidS = "S-pid"
	pidT = "T-pid"
)

var sessRooms = [2][]string{{sidS, "r1"}, {sidT, "r2"}}
var sessSID = [2]string{sidS, sidT}
var sessPID = [2]string{pidS, pidT}

type caseID struct {
	H       history
	K       int
	Delta   time.Duration
	Spacing time.Duration // between the packets before the disconnect (0 = 10 s)
	// Rev: the rooms of a persisted session are handed to PersistSession in descending instead of ascending
	// order (the server builds that slice from a set: the order is arbitrary)
	Rev bool
	// Lag: the connection ends this long after the last packet before the cut (0 = 100 ms): a dead peer is
	// noticed late (ping timeout). Behind: the client had not processed the last Behind logged packets that were
	// sent to it when the connection ended (stalled poll, loss in flight): it presents an earlier offset, and
	// those packets are missed packets like the ones emitted during the outage. (Scripted server scenarios only.)
	Lag    time.Duration
	Behind int
}

func (c caseID) spacing() time.Duration {
	if c.Spacing == 0 {
		return 10 * time.Second
	}
	return c.Spacing
}

func (c caseID) lag() time.Duration {
	if c.Lag == 0 {
		return 100 * time.Millisecond
	}
	return c.Lag
}

func (c caseID) String() string {
	o := ""
	if c.Rev {
		o = ", session rooms persisted in descending order"
	}
	if c.Lag != 0 || c.Behind != 0 {
		o += fmt.Sprintf(", connection ends %v after the last packet, client presents the offset of %d logged packets earlier", c.lag(), c.Behind)
	}
	return fmt.Sprintf("history %s (packets %v apart), disconnect after packet %d, reconnect %v later%s", c.H, c.spacing(), c.K, c.Delta, o)
}

func (c caseID) replay(part string) map[string]any {
	return map[string]any{"part": part, "history": c.H.ints(), "history_text": c.H.String(), "k": c.K, "delta_ms": c.Delta.Milliseconds(), "spacing_ms": c.spacing().Milliseconds(), "rev": c.Rev}
}

// less orders cases by size: shorter history, earlier disconnect, earlier reconnection, then lexicographic.
func (c caseID) less(d caseID) bool {
	if len(c.H) != len(d.H) {
		return len(c.H) < len(d.H)
	}
	if c.K != d.K {
		return c.K < d.K
	}
	if c.spacing() != d.spacing() {
		return c.spacing() < d.spacing()
	}
	if c.Delta != d.Delta {
		return c.Delta < d.Delta
	}
	for i := range c.H {
		if c.H[i] != d.H[i] {
			return c.H[i] < d.H[i]
		}
	}
	return false
}

type caseResult struct {
	Steps      int
	Class      [2]expectation
	OK         [2]bool
	Findings   []finding
	HarnessErr string
	Nontrivial bool // session S has an offset and the model replays >= 1 packet
	Replayed   int  // packets in the replay lists of recovered sessions
}

// wantFrames is what the parser must produce for packet p: written from the protocol, not from the code.
func wantFrames(p *mpkt) [][]byte {
	if p.s.bin() {
		return [][]byte{
			[]byte(fmt.Sprintf(`51-["%s",{"_placeholder":true,"num":0},"%s"]`, evName(p.idx), p.id)),
			binArg(p.idx),
		}
	}
	return [][]byte{[]byte(fmt.Sprintf(`2["%s","%s","%s"]`, evName(p.idx), textArg(p.idx), p.id))}
}

func sameFrames(a, b [][]byte) bool {
	if len(a) != len(b) {
		return false
	}
	for i := range a {
		if !bytes.Equal(a[i], b[i]) {
			return false
		}
	}
	return true
}

func showFrames(f [][]byte) string {
	var out []string
	for i, b := range f {
		if i == 0 {
			out = append(out, string(b))
		} else {
			out = append(out, fmt.Sprintf("<bin %x>", b))
		}
	}
	return strings.Join(out, " + ")
}

func sleepUntil(e *vsched.Exec, t time.Duration) {
	if d := t - e.Clock(); d > 0 {
		vsched.Sleep(d)
	}
}

func runAdapterCase(c caseID) (res caseResult) {
	n := len(c.H)
	tm := schedule(n, c.K, c.Delta, c.spacing(), c.lag())
	if tm.onCleanerGrid() {
		res.HarnessErr = fmt.Sprintf("%v: an event falls on a clean-up pass", c)
		return
	}
	add := func(key, format string, a ...any) {
		res.Findings = append(res.Findings, finding{key, fmt.Sprintf(format, a...)})
	}
	e := vsched.Run(vsched.Options{Horizon: tm.tRe + time.Second}, func(e *vsched.Exec) {
		store := newRecStore()
		a := adapter.NewSessionAwareAdapterCreator(window)(store, jsonparser.NewCreator(0, stdjson.New()))
		if w, p, ok := adapter.VerifSessionWindow(a); !ok || w != window || p != cleanerPeriod {
			res.HarnessErr = fmt.Sprintf("adapter window/period are %v/%v, the harness assumes %v/%v", w, p, window, cleanerPeriod)
			return
		}
		for s := 0; s < 2; s++ {
			store.socks[adapter.SocketID(sessSID[s])] = adapter.NewTestSocket(adapter.SocketID(sessSID[s]))
			var rooms []adapter.Room
			for _, r := range sessRooms[s] {
				rooms = append(rooms, adapter.Room(r))
			}
			a.AddAll(adapter.SocketID(sessSID[s]), rooms)
		}
		model := make([]mpkt, n)
		emit := func(i int) {
			p := &model[i]
			p.idx, p.s, p.at = i, c.H[i], e.Clock()
			tg := kindTarget(p.s.kind(), sidS, sidT)
			p.logged = p.s.kind() != kAck
			p.to = [2]bool{addressed(sessRooms[0], tg), addressed(sessRooms[1], tg)}
			h := &parser.PacketHeader{Type: parser.PacketTypeEvent, Namespace: "/"}
			if p.s.kind() == kAck {
				id := uint64(7)
				h.ID = &id
			}
			// like BroadcastOperator.Emit / serverSocket.emit: room for the offset id
			v := make([]any, 0, 4)
			v = append(v, evName(i))
			if p.s.bin() {
				v = append(v, sio.Binary(binArg(i)))
			} else {
				v = append(v, textArg(i))
			}
			opts := adapter.NewBroadcastOptions()
			for _, r := range tg.rooms {
				opts.Rooms.Add(adapter.Room(r))
			}
			for _, r := range tg.except {
				opts.Except.Add(adapter.Room(r))
			}
			before, _, _ := adapter.VerifSessionLog(a)
			a.Broadcast(h, v, opts)
			after, _, _ := adapter.VerifSessionLog(a)
			grew := len(after) == len(before)+1
			if grew {
				p.id = after[len(after)-1].ID
				if !after[len(after)-1].EmittedAt.Equal(vsched.Now()) {
					add("adapter: logged packet carries a wrong emission time", "%v: packet %d logged with %v at %v", c, i+1, after[len(after)-1].EmittedAt, vsched.Now())
				}
			}
			if grew != p.logged {
				add("adapter: packet log does not hold exactly the events without ack id", "%v: packet %d (%v): logged=%v, the model says %v", c, i+1, p.s, grew, p.logged)
			}
			if grew {
				for j := 0; j < i; j++ {
					if model[j].logged && model[j].id == p.id {
						add("adapter: two logged packets share one offset id", "%v: packets %d and %d both have id %q", c, j+1, i+1, p.id)
					}
				}
			}
		}
		for i := 0; i < c.K; i++ {
			sleepUntil(e, tm.emitAt[i])
			emit(i)
		}
		sleepUntil(e, tm.tDisc)
		// live phase against the model (keeps the model honest; the delivery rules themselves are C04's)
		var offsetIdx [2]int
		for s := 0; s < 2; s++ {
			offsetIdx[s] = -1
			var wantLive []int
			for i := 0; i < c.K; i++ {
				if model[i].to[s] {
					wantLive = append(wantLive, i)
					if model[i].logged {
						offsetIdx[s] = i
					}
				}
			}
			got := store.sent[adapter.SocketID(sessSID[s])]
			okLive := len(got) == len(wantLive)
			for j := 0; okLive && j < len(got); j++ {
				p := &model[wantLive[j]]
				if p.logged && !sameFrames(got[j], wantFrames(p)) {
					okLive = false
				}
			}
			if !okLive {
				var g []string
				for _, f := range got {
					g = append(g, showFrames(f))
				}
				add("adapter: live delivery differs from the reference model (C04 territory; the C08 model is not applicable)", "%v: session %s received %v, the model expects packets %v", c, sessSID[s], g, wantLive)
			}
		}
		// disconnect with a recoverable reason, as serverSocket.onClose does
		for s := 0; s < 2; s++ {
			sid := adapter.SocketID(sessSID[s])
			rooms, ok := a.SocketRooms(sid)
			if !ok {
				res.HarnessErr = "SocketRooms: unknown socket"
				return
			}
			rs := rooms.ToSlice()
			sort.Slice(rs, func(i, j int) bool { return (rs[i] < rs[j]) != c.Rev })
			a.PersistSession(&adapter.SessionToPersist{SID: sid, PID: adapter.PrivateSessionID(sessPID[s]), Rooms: rs})
			a.DeleteAll(sid)
			store.Remove(sid)
		}
		for i := c.K; i < n; i++ {
			sleepUntil(e, tm.emitAt[i])
			emit(i)
		}
		sleepUntil(e, tm.tRe)
		if e.Clock() != tm.tRe {
			res.HarnessErr = fmt.Sprintf("%v: clock is %v at the reconnection, planned %v", c, e.Clock(), tm.tRe)
			return
		}
		// reconnect
		for s := 0; s < 2; s++ {
			who := fmt.Sprintf("session %s (rooms %v)", sessSID[s], sessRooms[s])
			offset := ""
			if offsetIdx[s] >= 0 {
				offset = model[offsetIdx[s]].id
			}
			exp, why := expect(model, offsetIdx[s], tm)
			res.Class[s] = exp
			sess, ok := a.RestoreSession(adapter.PrivateSessionID(sessPID[s]), offset)
			res.OK[s] = ok
			if ok != (sess != nil) {
				add("adapter: RestoreSession result and ok flag disagree", "%v: %s: ok=%v session=%v", c, who, ok, sess)
				continue
			}
			switch {
			case exp == must && !ok:
				after := " (no clean-up pass since the offset packet was emitted)"
				if passesBetween(model[offsetIdx[s]].at, tm.tRe) > 0 {
					after = " after a clean-up pass of the packet log"
				}
				add("adapter: recovery refused although session and offset are within the window"+after,
					"%v: %s reconnects %v after its disconnect with the offset of packet %d (emitted %v before the reconnection; window %v; %d clean-up passes since): not recovered",
					c, who, c.Delta, offsetIdx[s]+1, tm.tRe-model[offsetIdx[s]].at, window, passesBetween(model[offsetIdx[s]].at, tm.tRe))
			case exp == mustNot && ok && c.Delta > window:
				add("adapter: session older than the window was recovered", "%v: %s recovered %v after its disconnect (window %v)", c, who, c.Delta, window)
			case exp == mustNot && ok && offsetIdx[s] >= 0:
				add("adapter: session recovered with an offset that expired more than a clean-up period ago", "%v: %s recovered although %s (packet %d, emitted %v before the reconnection; window %v, clean-up every %v)", c, who, why, offsetIdx[s]+1, tm.tRe-model[offsetIdx[s]].at, window, cleanerPeriod)
			case exp == mustNot && ok:
				add("adapter: session recovered without a known offset", "%v: %s recovered although %s", c, who, why)
			}
			if !ok {
				continue
			}
			if string(sess.SID) != sessSID[s] || string(sess.PID) != sessPID[s] {
				add("adapter: recovered session has another sid or pid", "%v: %s got sid %q pid %q", c, who, sess.SID, sess.PID)
			}
			var rooms []string
			for _, r := range sess.Rooms {
				rooms = append(rooms, string(r))
			}
			if strings.Join(sortedCopy(rooms), ",") != strings.Join(sortedCopy(sessRooms[s]), ",") {
				add("adapter: recovered session does not have the persisted rooms", "%v: %s got rooms %v", c, who, rooms)
			}
			if offsetIdx[s] < 0 {
				continue // recovered without an offset: already reported, nothing to compare the replay with
			}
			var ids []string
			for _, p := range sess.MissedPackets {
				ids = append(ids, p.ID)
				if len(p.Data) == 0 || p.Data[len(p.Data)-1] != any(p.ID) {
					add("adapter: replayed packet does not carry its own id as trailing offset argument", "%v: %s: packet id %q data %v", c, who, p.ID, p.Data)
				}
			}
			res.Replayed += len(ids)
			for _, f := range judgeMissed("adapter", ids, model, offsetIdx[s], s, tm) {
				add(f.Key, "%v: %s: %s", c, who, f.Msg)
			}
		}
		for _, p := range model[minInt(offsetIdx[0]+1, n):] {
			if offsetIdx[0] >= 0 && p.logged && p.to[0] {
				res.Nontrivial = true
			}
		}
		// probes that must never recover
		if _, ok := a.RestoreSession("no-such-pid", func() string {
			if offsetIdx[0] >= 0 {
				return model[offsetIdx[0]].id
			}
			return ""
		}()); ok {
			add("adapter: unknown pid recovered", "%v", c)
		}
		if _, ok := a.RestoreSession(pidS, "never-logged-offset"); ok {
			add("adapter: session recovered with an offset that was never logged", "%v", c)
		}
	})
	res.Steps = e.Steps
	if len(e.Panics) > 0 {
		add("adapter: panic", "%v: %v", c, e.Panics)
	}
	if e.Deadlock != "" {
		add("adapter: deadlock", "%v: %s", c, e.Deadlock)
	}
	if e.HarnessErr != "" && res.HarnessErr == "" {
		res.HarnessErr = e.HarnessErr
	}
	if e.Failure != "" && res.HarnessErr == "" {
		res.HarnessErr = e.Failure
	}
	return
}

func minInt(a, b int) int {
	if a < b {
		return a
	}
	return b
}
